#!/usr/bin/env python3
"""Run every behaviour-preserving refactoring of selftest/neutral.json against ALL properties' rules at once
(vcheck -prop all through the overlay): a refactoring written for one property may touch code another property's
rules look at. Prints every alarm / undecided; exit 0 always (development aid, not a registered check)."""
import concurrent.futures, json, os, re, subprocess, sys, tempfile, shutil
sys.path.insert(0, os.path.dirname(os.path.abspath(__file__)))
import selftest as st

def run(m, scratch):
    ov, s = st.overlay_for(m, scratch)
    if s:
        return m["id"], s, []
    ovf = os.path.join(scratch, m["id"] + ".overlay.json")
    json.dump(ov, open(ovf, "w"))
    evd = os.path.join(scratch, "ev_" + m["id"]); os.makedirs(evd, exist_ok=True)
    env = dict(os.environ, GOFLAGS="-mod=mod", GOPROXY="off", GOSUMDB="off", GOTOOLCHAIN="local", GOWORK="off")
    r = subprocess.run([st.VCHECK, "-repo", st.REPO, "-verif", st.VERIF, "-prop", "all", "-tier", "quick", "-overlay", ovf, "-evidence-dir", evd],
                       stdout=subprocess.PIPE, stderr=subprocess.STDOUT, env=env, text=True, errors="replace")
    keys = re.findall(r"key=(\S.*)$", r.stdout, re.M)
    und = [l for l in r.stdout.splitlines() if l.startswith(("UNDECIDED", "ERROR"))]
    status = {0: "silent", 1: "alarm"}.get(r.returncode, "undecided")
    if "type errors" in r.stdout:
        status = "invalid"
    return m["id"], status, keys[:5] + und[:3]

def main():
    N = json.load(open(os.path.join(st.VERIF, "selftest", "neutral.json")))
    if len(sys.argv) > 1:
        N = [m for m in N if m["id"] in sys.argv[1:] or m["prop"] in sys.argv[1:]]
    scratch = tempfile.mkdtemp(prefix="vneutral_")
    try:
        with concurrent.futures.ThreadPoolExecutor(max_workers=int(os.environ.get("VERIF_JOBS", "6"))) as ex:
            res = list(ex.map(lambda m: run(m, scratch), N))
    finally:
        shutil.rmtree(scratch, ignore_errors=True)
    c = {}
    for i, s, k in res:
        c[s] = c.get(s, 0) + 1
        if s != "silent":
            print(i, s, k)
    print("NEUTRAL-ALL", c)

main()
