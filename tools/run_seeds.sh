#!/bin/bash
# usage: tools/run_seeds.sh [seed-id ...]   (default: all under /verif/seeded)
# Applies each kept seeded change to /repo, runs the quick check of the property it breaks (evidence goes to a
# scratch dir), records which obligations fire in seeded/<id>/detect.json, and undoes the change straight away.
set -u
cd "$(dirname "$0")/.."
export GOFLAGS=-mod=mod GOPROXY=off GOSUMDB=off GOTOOLCHAIN=local GOWORK=off
[ -n "$(git -C /repo status --porcelain)" ] && { echo "/repo is dirty; refusing"; exit 2; }
./run.sh C08 quick >/dev/null 2>&1 # make sure the binary is built
ids=("$@"); [ ${#ids[@]} -eq 0 ] && ids=($(ls seeded))
SCR=$(mktemp -d /tmp/seedrun.XXXXXX); trap 'rm -rf $SCR; git -C /repo checkout -- . 2>/dev/null' EXIT
for id in "${ids[@]}"; do
  d=seeded/$id
  prop=$(python3 -c "import json;print(json.load(open('$d/meta.json'))['property'])")
  extra=$(python3 -c "import json;print(','.join(json.load(open('$d/meta.json')).get('also_check',[])))")
  props=$prop; [ -n "$extra" ] && props="$prop,$extra"
  git -C /repo apply "$PWD/$d/patch.diff" || { echo "$id: patch does not apply"; continue; }
  ${VCHECK_BIN:-bin/vcheck} -repo /repo -verif /verif -evidence-dir "$SCR" -prop "$props" > "$SCR/out.txt" 2>&1; rc=$?
  git -C /repo checkout -- .
  python3 - "$d" "$SCR/out.txt" "$rc" "$props" <<'PY'
import json,sys,re
d,out,rc,props=sys.argv[1],sys.argv[2],int(sys.argv[3]),sys.argv[4]
txt=open(out).read()
keys=re.findall(r'key=(\S+)',txt)
und=re.findall(r'^(?:UNDECIDED|ERROR) .*$',txt,re.M)
res={'checked':props.split(','),'exit':rc,'detected':rc==1 and len(keys)>0,'violated_keys':keys,'undecided_or_error':und[:5]}
json.dump(res,open(d+'/detect.json','w'),indent=1)
print('%-8s exit=%d detected=%s %s'%(d.split('/')[-1],rc,res['detected'],' '.join(keys[:3])))
PY
done
