#!/usr/bin/env python3
"""usage: tools/seed_table.py <first-measurement.txt> <letter> [<letter> ...]
Prints the DESIGN §5B table rows for the seeds with those letters: what each changes (meta.json summary), whether the
binary built before the seeds were looked at reported it (first measurement), and the obligations that report it now
(seeded/<id>/detect.json, written by tools/run_seeds.sh)."""
import json, os, sys
V = os.path.dirname(os.path.dirname(os.path.abspath(__file__)))
first = {}
for l in open(sys.argv[1]):
    p = l.split()
    if len(p) >= 3:
        first[p[0]] = (p[1], p[2], p[3:])
print("| seed | what it changes | first measurement | now reported by |")
print("|------|-----------------|-------------------|-----------------|")
for d in sorted(os.listdir(os.path.join(V, "seeded"))):
    if d[-1] not in sys.argv[2:]:
        continue
    m = json.load(open(os.path.join(V, "seeded", d, "meta.json")))
    det = json.load(open(os.path.join(V, "seeded", d, "detect.json")))
    s = m.get("summary", "").replace("|", "\\|").replace("\n", " ")
    if len(s) > 150:
        s = s[:150] + "…"
    f = first.get(d)
    prop = m["property"]
    if f is None:
        fm = "n/a"
    elif f[1] == "detected=True":
        own = [k for k in f[2] if k.startswith(prop + "/")]
        fm = "reported" if own else "only under another property"
    elif f[0] == "exit=2":
        fm = "**checker error** (instance count)"
    else:
        fm = "**missed**"
    keys = [k[len(prop) + 1:] for k in det["violated_keys"] if k.startswith(prop + "/")][:2]
    now = ", ".join("`%s`" % k for k in keys) if det["detected"] else "**not reported** (see text)"
    print("| %s | %s | %s | %s |" % (d, s, fm, now))
