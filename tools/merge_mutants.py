#!/usr/bin/env python3
"""merge a sub-agent's mutant list into selftest/mutants.json (ids must be new); expect = '/<tag>/' when a tag is given"""
import json, sys
dst = '/verif/selftest/mutants.json'
M = json.load(open(dst))
have = {m['id'] for m in M}
for f in sys.argv[1:]:
    for m in json.load(open(f)):
        if m['id'] in have:
            continue
        tag = (m.get('tag') or '').strip('[]')
        m['expect'] = ('/' + tag.split(',')[0].split('/')[0] + '/') if tag else ''
        M.append(m)
        have.add(m['id'])
json.dump(M, open(dst, 'w'), indent=1)
print(len(M), 'mutants')
