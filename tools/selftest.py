#!/usr/bin/env python3
"""Checker self-test: run the rules of one property against small source mutants of /repo.

Each mutant in selftest/mutants.json (and each kept seed in seeded/<id>/patch.diff) is applied to a copy of the
affected files IN MEMORY and handed to vcheck through the go/packages overlay (-overlay); /repo is never written.
A mutant is `detected` when vcheck exits 1 and (if the mutant names one) a violated obligation key contains the
expected fragment. Entries of selftest/neutral.json are behaviour-preserving refactorings: on those the check must stay SILENT (exit 0);
an alarm there is a false alarm of the checker. A mutant whose `find` text no longer occurs exactly once in /repo's current file is `stale`,
one that no longer type-checks is `invalid`; neither says anything about the checker and both are only reported.

The result is merged into evidence/<prop>.json under coverage.selftest. The exit code is always 0: a self-test
miss is a statement about the checker's teeth on today's tree, not a violation of the property; it is printed as
a SELFTEST-MISS line and recorded.
"""
import concurrent.futures
import json
import os
import re
import shutil
import subprocess
import sys
import tempfile
import time

VERIF = os.path.dirname(os.path.dirname(os.path.abspath(__file__)))
REPO = os.environ.get("VERIF_REPO", "/repo")
VCHECK = os.environ.get("VCHECK_BIN") or os.path.join(VERIF, "bin", "vcheck")


def load_neutral(prop):
    path = os.path.join(VERIF, "selftest", "neutral.json")
    if not os.path.exists(path):
        return []
    return [dict(m, neutral=True) for m in json.load(open(path)) if m["prop"] == prop]


def load_mutants(prop):
    out = []
    path = os.path.join(VERIF, "selftest", "mutants.json")
    if os.path.exists(path):
        for m in json.load(open(path)):
            if m["prop"] == prop:
                out.append(m)
    # kept seeds as overlay mutants (the patch is applied to a scratch copy of the touched files only)
    sdir = os.path.join(VERIF, "seeded")
    if os.path.isdir(sdir):
        for d in sorted(os.listdir(sdir)):
            if d.split("-")[0] != prop:
                continue
            pf = os.path.join(sdir, d, "patch.diff")
            if os.path.exists(pf):
                out.append({"id": "seed-" + d, "prop": prop, "patch": pf})
    return out


def overlay_for(m, scratch):
    """returns (overlay dict, status) — status '' when applicable"""
    if "patch" in m:
        files = re.findall(r"^\+\+\+ b/(.+)$", open(m["patch"]).read(), re.M)
        work = os.path.join(scratch, "w_" + m["id"])
        for f in files:
            src = os.path.join(REPO, f)
            dst = os.path.join(work, f)
            os.makedirs(os.path.dirname(dst), exist_ok=True)
            if os.path.exists(src):
                shutil.copy(src, dst)
        r = subprocess.run(["patch", "-p1", "-s", "--no-backup-if-mismatch", "-i", m["patch"]], cwd=work,
                           stdout=subprocess.PIPE, stderr=subprocess.STDOUT)
        if r.returncode != 0:
            return None, "stale"
        ov = {}
        for f in files:
            p = os.path.join(work, f)
            if os.path.exists(p):
                ov[f] = open(p).read()
        return ov, ""
    ov = {}
    edits = m.get("edits") or [{"file": m["file"], "find": m["find"], "replace": m["replace"]}]
    for e in edits:
        if e.get("new_file"):
            ov[e["file"]] = e["replace"]
            continue
        text = ov.get(e["file"])
        if text is None:
            try:
                text = open(os.path.join(REPO, e["file"])).read()
            except OSError:
                return None, "stale"
        if text.count(e["find"]) != 1:
            return None, "stale"
        ov[e["file"]] = text.replace(e["find"], e["replace"])
    return ov, ""


def run_one(m, scratch):
    t0 = time.time()
    ov, st = overlay_for(m, scratch)
    res = {"id": m["id"], "note": m.get("note", ""), "expect": m.get("expect", "")}
    if st:
        res["status"] = st
        return res
    ovf = os.path.join(scratch, m["id"] + ".overlay.json")
    json.dump(ov, open(ovf, "w"))
    evd = os.path.join(scratch, "ev_" + m["id"])
    os.makedirs(evd, exist_ok=True)
    env = dict(os.environ, GOFLAGS="-mod=mod", GOPROXY="off", GOSUMDB="off", GOTOOLCHAIN="local", GOWORK="off")
    r = subprocess.run([VCHECK, "-repo", REPO, "-verif", VERIF, "-prop", m["prop"], "-tier", "quick", "-overlay", ovf,
                        "-evidence-dir", evd], stdout=subprocess.PIPE, stderr=subprocess.STDOUT, env=env, text=True, errors="replace")
    keys = re.findall(r"key=(\S.*)$", r.stdout, re.M)
    res["exit"] = r.returncode
    res["violated"] = keys[:6]
    res["wall_s"] = round(time.time() - t0, 1)
    if r.returncode == 2 and ("type errors" in r.stdout or "load:" in r.stdout):
        res["status"] = "invalid"
    elif m.get("neutral"):
        # a behaviour-preserving refactoring: the check must stay silent
        res["status"] = {0: "silent", 1: "alarm"}.get(r.returncode, "undecided")
        if r.returncode == 2:
            res["why"] = [l for l in r.stdout.splitlines() if l.startswith(("UNDECIDED", "ERROR"))][:3]
    elif r.returncode == 1 and (not m.get("expect") or any(m["expect"] in k for k in keys)):
        res["status"] = "detected"
    elif r.returncode == 1:
        res["status"] = "detected-elsewhere"
    elif r.returncode == 2:
        res["status"] = "undecided"  # the checker refused to decide (anchor lost, count below minimum): not silent
    else:
        res["status"] = "missed"
    return res


def main():
    prop = sys.argv[1]
    jobs = int(os.environ.get("VERIF_JOBS", "8"))
    mutants = load_mutants(prop)
    neutral = load_neutral(prop)
    scratch = tempfile.mkdtemp(prefix="vselftest_")
    t0 = time.time()
    try:
        with concurrent.futures.ThreadPoolExecutor(max_workers=jobs) as ex:
            results = list(ex.map(lambda m: run_one(m, scratch), mutants))
            nresults = list(ex.map(lambda m: run_one(m, scratch), neutral))
    finally:
        shutil.rmtree(scratch, ignore_errors=True)
    counts = {}
    for x in results:
        counts[x["status"]] = counts.get(x["status"], 0) + 1
        if x["status"] == "missed":
            print("SELFTEST-MISS property=%s mutant=%s expect=%s (%s)" % (prop, x["id"], x["expect"], x["note"]))
    caught = counts.get("detected", 0) + counts.get("detected-elsewhere", 0) + counts.get("undecided", 0)
    print("SELFTEST property=%s mutants=%d reported=%d missed=%d stale=%d invalid=%d wall=%.0fs" % (
        prop, len(results), caught, counts.get("missed", 0), counts.get("stale", 0), counts.get("invalid", 0), time.time() - t0))
    ncounts = {}
    for x in nresults:
        ncounts[x["status"]] = ncounts.get(x["status"], 0) + 1
        if x["status"] == "alarm":
            print("SELFTEST-ALARM property=%s refactoring=%s keys=%s (%s)" % (prop, x["id"], x.get("violated"), x["note"]))
        if x["status"] == "undecided":
            print("SELFTEST-UNDECIDED property=%s refactoring=%s %s (%s)" % (prop, x["id"], x.get("why"), x["note"]))
    if nresults:
        print("SELFTEST-NEUTRAL property=%s refactorings=%d silent=%d alarm=%d undecided=%d stale=%d invalid=%d" % (
            prop, len(nresults), ncounts.get("silent", 0), ncounts.get("alarm", 0), ncounts.get("undecided", 0), ncounts.get("stale", 0), ncounts.get("invalid", 0)))
    evf = os.path.join(os.environ.get("VERIF_EVIDENCE_DIR", os.path.join(VERIF, "evidence")), prop + ".json")
    try:
        ev = json.load(open(evf))
        ev["coverage"]["selftest"] = {
            "rule": "each mutant is one small source edit that breaks the property (or a clause the rules decide) and still type-checks; it is analysed through the go/packages overlay and must be reported",
            "mutants": len(results), "reported": caught, "counts": counts, "results": results,
            "neutral_rule": "each neutral entry is a behaviour-preserving refactoring of the anchored code (rename, extract/inline, if<->switch, loop form, statement order) that compiles and passes its package's tests; the check must stay silent on it",
            "neutral": len(nresults), "neutral_counts": ncounts, "neutral_results": nresults,
        }
        ev["wall_s"] = round(ev.get("wall_s", 0) + time.time() - t0, 2)
        json.dump(ev, open(evf, "w"), indent=1)
    except (OSError, ValueError, KeyError) as e:
        print("SELFTEST: could not merge into %s: %s" % (evf, e))
    return 0


if __name__ == "__main__":
    sys.exit(main())
