#!/bin/bash
# usage: tools/stage_seed.sh <out-dir> <letter> <target-id>
# Copies a sub-agent's change into seeded/<target-id>/ as UNCONFIRMED (meta.confirmed = null) so that the first
# measurement can be taken with a checker binary built before the change was looked at.
set -eu
OUT="$1"; L="$2"; ID="$3"; D=/verif/seeded/$ID
mkdir -p "$D"
cp "$OUT/$L.patch.diff" "$D/patch.diff"
python3 - "$OUT/$L.meta.json" "$D/meta.json" "$ID" <<'PY'
import json,sys
m=json.load(open(sys.argv[1])); m['id']=sys.argv[3]; m['confirmed']=None
json.dump(m,open(sys.argv[2],'w'),indent=1)
PY
echo "staged $ID"
