#!/bin/bash
# usage: confirm_seed.sh <out-dir> <letter> <target-id>
# Confirms a seeded change in a fresh scratch worktree: build ok, suite ok (except TestGenerateDocs), demo passes
# without the patch and fails with it. On success stores it as /verif/seeded/<target-id>/.
set -u
export GOFLAGS=-mod=mod GOPROXY=off GOSUMDB=off GOTOOLCHAIN=local GOWORK=off PATH=$PATH:/root/miniconda/bin  # msgmerge (utils/po TestLibrary) lives there
OUT="$1"; L="$2"; ID="$3"
WT=$(mktemp -d /tmp/confirm.XXXXXX)
git -C /repo worktree add -q --detach "$WT/wt" HEAD || exit 2
cleanup() { git -C /repo worktree remove --force "$WT/wt" 2>/dev/null; rm -rf "$WT"; }
trap cleanup EXIT
cd "$WT/wt"
meta="$OUT/$L.meta.json"
demo_rel=$(python3 -c "import json;print(json.load(open('$meta'))['demo_path_in_repo'])")
demo_cmd=$(python3 -c "import json;print(json.load(open('$meta'))['demo_cmd'])")
demo_src=$(ls "$OUT"/$L.demo* | head -1)
mkdir -p "$(dirname "$demo_rel")"
cp "$demo_src" "$demo_rel"
echo "== demo without patch: $demo_cmd"
( eval "$demo_cmd" ) > "$WT/demo_clean.log" 2>&1; rc_clean=$?
echo "rc=$rc_clean"
git apply "$OUT/$L.patch.diff" || { echo "PATCH DOES NOT APPLY"; exit 1; }
echo "== build"
go build ./... || { echo "BUILD FAILS"; exit 1; }
echo "== demo with patch"
( eval "$demo_cmd" ) > "$WT/demo_patched.log" 2>&1; rc_patched=$?
echo "rc=$rc_patched"; tail -5 "$WT/demo_patched.log"
rm -f "$demo_rel"
echo "== suite with patch"
go test -vet=off -count=1 ./... 2>&1 | grep -v "^ok\|no test files" | grep "^--- FAIL\|^FAIL	\|^panic" | grep -v "TestGenerateDocs\|cmd/docgen/docs" > "$WT/suite.log"
cat "$WT/suite.log"
if [ $rc_clean -eq 0 ] && [ $rc_patched -ne 0 ] && [ ! -s "$WT/suite.log" ]; then
  D=/verif/seeded/$ID
  mkdir -p "$D"
  cp "$OUT/$L.patch.diff" "$D/patch.diff"
  cp "$demo_src" "$D/$(basename "$demo_rel")"
  python3 - "$meta" "$D/meta.json" "$ID" <<'PY'
import json,sys
m=json.load(open(sys.argv[1]))
m['id']=sys.argv[3]
m['confirmed']={'ran':'tools/confirm_seed.sh in a scratch worktree: demo passes on the clean tree, fails with the patch; go build ./... ok; go test -vet=off -count=1 ./... shows no failure other than cmd/docgen/docs TestGenerateDocs (always fails offline)'}
json.dump(m,open(sys.argv[2],'w'),indent=1)
PY
  echo "CONFIRMED -> $D"
else
  echo "NOT CONFIRMED (clean=$rc_clean patched=$rc_patched suite=$(wc -l < "$WT/suite.log"))"
  exit 1
fi
