#!/usr/bin/env python3
"""Generates /verif/MANIFEST.json from the per-property table below (kept next to the rules it describes)."""
import json, os, subprocess

HERE = os.path.dirname(os.path.abspath(__file__))

NOTE = ("Trusted base: go/types + go/ssa (x/tools v0.29.0) model the source faithfully; interface dispatch is "
        "over-approximated (CHA-style receiver resolution / VTA call graph); the frozen tables in "
        "/verif/checker/rules/*.go (one line of reason per entry). Decides structural necessary conditions only, "
        "not the behavioural statement as a whole.")

# id -> (text, technique, design_ref)
CLAIMED = {
    "C08": ("Structural necessary conditions of determinism, decided exhaustively over the source: no library function "
            "calls a nondeterminism source directly; every range over a map (and every use of a slice that carries a "
            "map's keys in map order) in engine/inspection/migration code is order-insensitive by construction or "
            "listed with a confirmed reason; the named sorted renderers sort what they collect. Round 3: a listed comparator compares each listed field between the two elements. "
            "Round 4: Clone does not write into the mapping it is handed (aliases, closure cells and callees followed). "
            "Round 5: the shared-write audit of C09 R1 is imported (output must not depend on what other sessions wrote). "
            "Does not decide "
            "byte-identical output as an observed fact nor determinism of dependencies.",
            "custom AST+types map-iteration order classifier, who-may-call over SSA call sites",
            "DESIGN.md §4 C08"),
    "C03": ("Structural necessary conditions of 'every contact change is announced', decided on the SSA form: who may call "
            "the contact's mutators (only modifiers, the owning types, session.SetInput); per Modifier.Apply a path-sensitive "
            "typestate analysis (mutator results forked true/false, loops unrolled) proving mutated <=> returns true, "
            "mutated => paired change event, no event without mutation; guard/store/event value agreement; the group "
            "re-evaluation and contact-refresh pairs in the engine. Also: an Apply that empties a list and rebuilds it confirms every change report by a before/after comparison (reset-and-rebuild); the Contact methods that take a URN compare by Identity() on both sides everywhere and ContactURN.Equal compares the complete raw URN. "
            "Round 3: the contact_refreshed guard compares with the current contact of the session being updated; pointer-equality helpers used as Apply guards answer true for (nil, nil). "
            "Round 6: inside a list type of package flows elements are identified by UUID everywhere, never by pointer (sibling agreement). "
            "Round 7: a Set… method of Contact that reports nothing stores its argument on every path. Does not decide that replaying events reproduces "
            "the contact value, nor value-level idempotence beyond the reset-and-rebuild shape.",
            "who-may-call + path-sensitive typestate dataflow over go/ssa (ESP-style), value-provenance comparison",
            "DESIGN.md §4 C03"),
    "C20": ("Structural necessary conditions of 'inspection over-approximates execution': Run.SaveResult has exactly two callers "
            "(the action and router choke points); every action type whose methods reach a save implements ResultContainer, "
            "declares the same name field and every constant category that can reach the save (through forwarding wrappers "
            "and constant maps); routers declare resultName with all category names; every asset-reference field of an action "
            "struct is visible to the reflection walker; waiting exits are collected in a real loop over every exit of every waiting "
            "node without filter or early exit; node enumerators are unfiltered; every action field that reaches "
            "Run.EvaluateTemplate* is tagged engine:evaluated; NewResultSpecs merges every category; every router field that is "
            "evaluated or can hold dependencies is passed on by its enumerators. Also: the extraction chain from tagged fields to recorded references hands over under loop bounds, type arms, nil tests, EngineField flags and Reference.Variable() only, without leaving a loop early. "
            "Round 3: a category's exit is validated against the node's exits (imported from C01 R10); SwitchRouter.Validate does not accept a laxer spelling of Case.Type than its consumers compare. "
            "Round 4: a session is only resumed at a node that waits (imported from C10 R3). "
            "Round 5: every path through the run context that ends at the contact's fields, computed from the Context map literals, is a row of inspect.fieldRefPaths (found and fixed F31). "
            "Round 6: the extraction-chain rule also covers the asset-reference walk (dependencies, walk, extractAssetReferences). "
            "Round 7: a by-name asset lookup in the actions takes a constant or an evaluated name, never the saved name of a reference. Does not relate inspection to actual executions.",
            "table agreement between sibling implementations (saves vs declares) via SSA provenance, struct-tag audit, control-dependence check",
            "DESIGN.md §4 C20"),
    "C04": ("Structural necessary conditions of totality of expression evaluation, decided over the SSA form of the six evaluation "
            "packages: every explicit panic is listed as unreachable with its guard (or has no caller); every call of a partial "
            "library function (decimal Div/Mod/QuoRem, Pow/Round/Shift/StringFixed/New with computed exponents, Must*/Require*, "
            "strings.Repeat) has a constant-derived or guarded operand; the arity wrappers enforce len(args) >= min on every "
            "path before calling the wrapped function and every constant index/slice of args in the 120 registered functions "
            "and tests is below the registered minimum or guarded; unchecked type assertions are guarded by a type test, IsXError, "
            "or same-type call sites; constant-offset string slicing and constant slice indexes are within a length established on "
            "every path; each of the 112 computed indexes and slice bounds is shown non-negative and within the length of the value "
            "it indexes on every path (comparison with len of the same or a provably as-long value, range index, length getters, "
            "len-k, min, negative-index normalisation, sort's contract, index parameters forwarded to their call sites) or is one of "
            "15 listed sites with its reason. Also: every method invoked on an interface value of type XValue (null is a nil XValue) is on a value produced non-nil or under a nil/IsNil guard (also through parameters of unexported helpers). "
            "Round 3: every XObject.Default() call is under hasDefault() of the same object (the object is its own no-default sentinel). "
            "Round 4: no pointer that may be nil is converted to an interface (module-wide, reflection-tested consumers excepted). "
            "Round 5: the two scanner functions that decide what follows an @ use the same tests (no hand-back loop). "
            "Does not decide termination inside libraries for guarded operands, numeric results, "
            "or the listed sites beyond the stated argument.",
            "guard-dominance (control-dependence) check on partial-call operands, arity-table vs index agreement, path typestate on the arity wrapper",
            "DESIGN.md §4 C04"),
    "C16": ("Structural necessary conditions of safe, stable definition migration: the version registry (distinct versions, "
            "function named for its version, highest == CurrentSpecVersion) and the shape of migrate() (applies exactly (from,to], "
            "ascending, the function registered for the stamped version, stamps the applied version, returns its input untouched "
            "when nothing applies); hostile-JSON panic freedom clauses over migrations/legacy/definition/jsonpath: unchecked type "
            "assertions, dereferences of optional JSON pointers, constant-offset string slicing, writes into possibly-nil JSON maps, "
            "explicit panics, constant and computed indexes (139 sites) - each guarded on every path or listed with its reason; the UUID "
            "of every migrated legacy node and exit is a field of the legacy definition; every legacy action constructor writes a "
            "registered action type, only keys that are json fields of that action's struct and every field it requires; template-path "
            "wildcards agree between producer and consumer. Also: a required action field with an enumerating validator is written as a constant or defaulted to one on the empty edge at every call site; a truncation guard measures the value it cuts with a bound not above the limit; every slice/map-of-struct-pointers member of a definition struct carries dive,required (null elements are rejected at load). "
            "Round 3: urnscheme is treated as an enumerating validator (constant, or under urns.IsValidScheme of the same value). "
            "Round 4: C11 R4 imported (every template rewritten, result kept); digit range tests start at '0' (lint). "
            "Round 6: where the legacy migration de-duplicates by a text-keyed map the key looked up, inserted and given to the created object is one value. "
            "Round 7: comparison functions handed to sort.Slice/SliceStable in the definition packages read both elements alike. Does not decide that migrated definitions load (whether a required text value without an enumerating validator can be empty is not decided), graph preservation, idempotence as a value-level fact, or equivalence of rewritten templates.",
            "registry/table agreement (AST constants), SSA shape check of migrate(), guard-dominance (control dependence) for nil/length/type tests, interprocedural nullable-map analysis",
            "DESIGN.md §4 C16"),
    "C01": ("Local steps of the session state-machine invariant, decided on the SSA/AST form of the engine: status alphabet and "
            "ownership (who may write run.status/exitedOn/session.status and with which constants); a forward must-dataflow proving "
            "every nil-error return of the loop/resume/start functions has stored waiting/completed/failed; the waiting pairing "
            "(single site, same block as Run.SetStatus(waiting) on the run owning the new step, under wait!=nil and Begin()); "
            "flow-sensitive (run,step) pairing for every LogEvent/failRun site; event double-entry; path/exit ownership and exit "
            "provenance; terminal push, failure bubbling and failed-action-stops-node. Also: the terminal session status is stored only with no active parent left or after all runs were exited; the owners of session.status include unexported helpers only they call. "
            "Round 3: Session.PushFlow is the point of no return (no Run.Exit reachable after it in its two callers); baseRouter.validate compares a category's exit with the node's exits and, evaluated for a set exit that is not among them, returns an error. "
            "Round 5: after failRun(r) the main loop goes on from r on every path back to its header (failure bubbles from the run that was failed). "
            "Round 6: every run created with a parent in the main loop is preceded by the exclusion of a failed parent (a failed run gets no child; found and fixed F33). "
            "Does not perform the induction over "
            "histories (waiting <=> exactly one waiting run, ancestors active, path is a walk for every graph).",
            "who-may-write + forward must-dataflow over go/ssa, variable-pair typestate over go/cfg, path-sensitive typestate",
            "DESIGN.md §4 C01"),
    "C05": ("Structural necessary conditions of bounded sprints: the step budget (CreateStep only via visitNode only via the loop; "
            "the visit is dominated by counter+1 > Options().MaxStepsPerSprint on the within-limit edge; the counter is 0 on entry and "
            "only incremented; exceeding fails the run, no Go error); every path around the engine loop (all 100 enumerated, with "
            "equality facts) spends a step or switches to the parent run; the resume budget test dominates Apply and the loop, and "
            "countWaits' predicate accepts every wait event type; the size choke points (results, names, fields, template text on "
            "every returning path, quick replies, attachments). Also: the truncation of a field value's text depends only on the value being non-nil; constant and computed indexes in flows/engine and flows/runs are within range on every path (45 sites, 1 listed with a companion obligation on who writes run.path). "
            "Round 4: wherever message content is put together, what is appended to MsgContent.QuickReplies is truncated to MaxQuickReplyLength. "
            "Round 5: the index analysis covers everything an engine call executes (flows, actions, routers, modifiers, inputs, triggers, resumes, events), with length facts through interface methods and function-literal call sites. "
            "Does not decide termination inside actions' services or the "
            "library truncation functions.",
            "dominance/guard checks and counter-monotonicity on go/ssa, exhaustive path enumeration of one loop iteration, predicate-vs-table agreement, value provenance to truncation calls",
            "DESIGN.md §4 C05"),
    "C10": ("Structural necessary conditions of 'a rejected resume leaves the session untouched': every path of Resume/tryToResume "
            "(all enumerated) that ends in an engine-error rejection executes no instruction or callee that writes a persisted "
            "session/run/step/contact/sprint field through a non-fresh object (root-sensitive interprocedural write summaries; only "
            "the transient session.parentRun is allowed); Accepts(resume) dominates every state change; every other exit of "
            "tryToResume fails the session with a nil Go error, and its only rejection sits on the Accepts-false edge; Router()/Wait() "
            "receivers are nil-tested; the Accepts decision "
            "table is evaluated exhaustively over resume type x timeout (total, every type accepted somewhere, no timeout resume "
            "without a timeout). Also: the resume limit fails the session (imported from C05 R3); every method invoked on a run's Flow() in engine and runs is under a nil test of the same expression or listed as execution-only. "
            "Round 3: the node PathLocation returns is dereferenced, directly or by a callee, only under a test of the accompanying error or of the node. "
            "Round 4: the nil outcome of every Router()/Wait() test in tryToResume fails the session on every path; a tolerated error is not merged into a later returning error test. "
            "Round 7: no function of flows/definition returns a flow together with a possibly non-nil error (tryToResume tells an unloadable flow by Flow() == nil). Does not compare session JSON before/after as an observed fact nor cover faults inside ReadSession.",
            "path enumeration with interprocedural root-sensitive write-effect summaries (go/ssa + CHA), guard dominance, finite-domain abstract interpretation of Accepts",
            "DESIGN.md §4 C10"),
    "C06": ("Structural necessary conditions of 'query-based group membership matches the contact': an interprocedural, "
            "root-sensitive dirty/clean may-dataflow over ~4600 function summaries proving that session start, resume and "
            "modifiers.Apply never return successfully with a queryable contact property changed after the last "
            "Contact.ReevaluateQueryBasedGroups (the starting contact's stored membership is not trusted, so a new session must "
            "re-evaluate on every path; Modifier.Apply is dirty exactly when it returns true, which is itself an obligation per "
            "implementation; nil-ness of the trigger parameter is propagated; writes to freshly read contacts are ignored); the "
            "non-active-contact clauses of ReevaluateGroups/CheckQueryBasedMembership; every query group is re-checked, a matching "
            "group is added and a non-matching one removed; both call sites report changes and skip the event only when both lists "
            "are empty. Also: the evaluator's tables the group queries run through are obligations here too (imported from C15 R1 R2). "
            "Round 4: the values of the contact handed to the evaluator (C15 R3: presence guards, fields only for field properties) are imported too. "
            "Round 5: both operands of a text comparison are normalised by the same calls (imported with C15 R1). "
            "Round 7: the nodes of a parsed query are written only where they are allocated (the parsed query of a group is the same for every session and environment). Does not decide that the evaluator's answer is right (C15) nor asset loading.",
            "interprocedural dirty/clean dataflow over go/ssa with CHA dispatch and object-root sensitivity, guard dominance",
            "DESIGN.md §4 C06"),
    "C07": ("Structural necessary conditions of 'routers take the exit their definition prescribes', decided by value provenance on "
            "the SSA form: in routeToCategory one category value feeds the exit, the saved name and the localization key and is "
            "selected by UUID equality; argument roles (match->value, operand->input, resultName->name, step node); in "
            "SwitchRouter.Route matchCase's three results feed category/match/extra, the default branch is guarded exactly by "
            "(no case matched && default set) and re-derives the match from the operand text; RouteTimeout uses the timeout "
            "category; matchCase walks cases forward, returns only on this case's truthy result with this case's category and "
            "continues after an erroring test; an empty exit fails the run; the random index derives only from the draw and "
            "len(categories); Results.Save always stores. Also: the engine's choice of RouteTimeout traces through parameters and every call site only to a type test of the resume parameter or the constant false, never to session state; case arguments and category names use the documented language fallback (imported from C18 R1 R2). "
            "Round 3: the two calendar days a date test compares are taken in the same timezone; translated case arguments are used only when they are as many as the base arguments. "
            "Round 4: a candidate that fails the comparison does not end the search loop; a parentless location lookup is decided by the emptiness of the text naming the level above. "
            "Round 5: no slice or map is built and never read in the router packages (lint). "
            "Round 6: in SwitchRouter.Route the call of matchCase dominates the category decision (no operand skips the cases). "
            "Round 7: whether matchCase tests a case does not depend on the case's category or the router's default. Does not decide what each test function matches.",
            "SSA value-provenance and guard-dominance checks on the router functions",
            "DESIGN.md §4 C07"),
    "C09": ("Structural necessary conditions of race-free concurrent sessions over shared assets: the set of shared struct types "
            "is computed (90 types reachable from the SessionAssets/FlowAssets implementations, session-owned types proven outside "
            "it); 58 session-phase entry points (engine calls, inspection, evaluation, modifiers.Apply, every asset getter) have an "
            "empty interprocedural write summary for those types through non-fresh objects, including appends into re-slices of "
            "shared slices and deletes; package-level variables are written only from init chains; every flow-cache access is "
            "under the mutex with no reachable explicit unlock; package-level XObject/XArray values are constructed eagerly; "
            "localizable-text writers run only on a copy(). Also: an append to an uncopied slice of a shared object counts as a shared write; no pointer member of a JSON decode target aliases a package-level variable. "
            "Round 3: members of shared objects that can hold X values are assigned eagerly built values only; SetDeprecated is never applied to a value that may be a package-level variable (followed through callee returns). "
            "Round 4: no package-level variable has a library type documented as unsafe for concurrent use. "
            "Round 5: methods of the lazily initialised X types write only the known lazy fields of their receiver. "
            "Round 6: no append writes into a re-slice of a slice read from a field, a map element or the uncopied result of a module function. "
            "Does not observe races, and does not cover third-party packages or "
            "the host's asset source.",
            "type-closure of shared state + interprocedural root-sensitive write-effect summaries (go/ssa + CHA), lock-region dominance",
            "DESIGN.md §4 C09"),
    "C02": ("Structural necessary conditions of transparent persistence: for the 17 structs of the persisted session (session, run, "
            "step, contact, ticket, call, triggers, inputs, run summary) every field is written by the marshal side and restored "
            "by the read side (through helpers), re-derived on read, or listed transient with its reason; every member of the 77 "
            "envelope fields is both written and read; the transient parent run is re-derived (prepareForSprint dominates the flow "
            "call in start and Resume, and parentRun has no other accessor); in the 7 type registries (triggers, resumes, inputs, "
            "events, modifiers, waits, hints; 69 struct types) the name a struct is registered under for reading is the type-name "
            "constant its constructors write. Also: event fields the reader requires get a guarded non-empty value; environments (envs) are covered like the other persisted types. "
            "Round 3: a pointer field the read side restores only under a presence test is dereferenced by the marshal side only under a nil test. "
            "Round 4: the validate tag on an asset reference's UUID accepts whatever the asset's own definition accepts for that UUID type; the index obligations over the reader packages are imported from C05 R7. "
            "Round 6: a text field of persisted run state that the reader constrains (validate tag beyond required) is not fed run-time text, except behind a constant regexp whose language lies inside the constraint's (found and fixed F32). "
            "Round 7: the MarshalJSON methods of the persisted types write whole lists (no re-slice of a receiver's list). Does not decide that a restored session behaves "
            "identically (value-level), nor that re-derived values equal the live ones.",
            "marshal/read field-coverage and envelope symmetry (sibling-table agreement over go/ssa field accesses), dominance",
            "DESIGN.md §4 C02"),
    "C19": ("Structural necessary conditions of URN redaction: a taint analysis (sources: urns.URN values and every result of the "
            "urns API other than the scheme, ContactURN.URN()/String(); sinks: all 150 XText constructor sites of the library) "
            "proving that URN-derived text becomes an expression value only inside ContactURN.ToXValue via withoutQuery(policy==urns); "
            "withoutQuery and Contact.Format (and any environment-aware string formatter of the flows packages) return URN-derived "
            "text only on the edge dominated by the non-redacting policy test; every construction of a URN-typed query condition, the "
            "urn attribute and the bare-number tel rewrite are guarded by a policy test; the positive direction keeps scheme, path and "
            "display. Also: session.MergedEnvironment builds its wrapper on every call (or every writer of session.env resets the cache), so the policy in force is the session's current one. "
            "Round 3: environment.Equal is sensitive to the redaction policy. "
            "Round 4: every nameless return of Contact.Format is decided by the policy test and the redacting edge shows the id; no URN-tainted branch condition in anything the context methods of Contact/URNList/ContactURN reach (implicit flows). "
            "Round 7: an environment rebuilt from another one copies its redaction policy. Does not decide non-interference for values that enter the context as plain data.",
            "intraprocedural API-aware taint analysis over go/ssa, guard (edge-dominance) checks",
            "DESIGN.md §4 C19"),
    "C18": ("Structural necessary conditions of the documented language fallback: getLanguages appends contact-allowed language, "
            "environment default (set and different) and flow language in that order with the right guards; "
            "sessionEnvironment.DefaultLanguage honours contact presence, language set and allowed list; getText walks forward, stops "
            "at the flow language, returns only non-empty translations with their own language, item and key, falls back to native; "
            "the lookup treats a translation consisting of one empty string as missing; "
            "localization keys agree both ways between engine:localized tags (16 fields) and the 12 runtime lookups; evaluateMessage "
            "uses three independent lookups and the text -> attachments -> quick replies language choice; send_msg locales derive "
            "from the language actually used. Also: an IVR message's locale is the language of the very lookup whose text is the message content. "
            "Round 3: a saved result always replaces the stored one (imported from C07 R5) and the merged environment is not a stale cache (imported from C19 R4). "
            "Round 4: translated case arguments compared by count with the base arguments (imported from C07 R9); a translation lookup never depends on a test of its own base value. "
            "Round 6: no language test decides whether a translation is looked up (the choice of language is getText's alone). Does not enumerate the outcomes of all configurations.",
            "SSA shape/provenance checks of the fallback functions, struct-tag vs call-site table agreement",
            "DESIGN.md §4 C18"),
    "C15": ("Finite-domain abstract interpretation of the contact-query evaluator (exhaustive over the abstract domains): "
            "numberComparison over 6 operators x 3 orderings and dateComparison over 6 operators x 5 positions relative to "
            "[dayStart, dayEnd) satisfy trichotomy, <= = (< or =), >= = (> or =), != = not =, with = exactly the calendar day of the "
            "query value in its own timezone; evaluateBoolCombination over all 2-child vectors is AND/OR; evaluateCondition over all "
            "value vectors of length 0..2 is any()/all(), != is the negation of =, empty values test absence/presence; the Go types "
            "the evaluator asserts agree with the static types Contact.QueryProperty/FieldValue.QueryValue produce for all 12 "
            "attributes, URNs and 6 field types; over 63 (value type, property class, operator) cells the validator admits only what "
            "the dispatched comparison function handles without panicking; node switches are exhaustive; Simplify compares operators. "
            "Round 3: the Go types QueryValue can return are collected per field type by path enumeration (fall-through returns included); presence guards in QueryProperty test the field the value comes from. "
            "Round 4: presence guards also in FieldValue.QueryValue; the contact's fields are consulted only for properties that are neither attributes nor URN schemes. "
            "Round 5: both operands of textComparison pass the same normalising calls. "
            "Round 6: the node whose children Simplify splices into the parent is the node whose operator it compared. "
            "Round 7: the attribute type table is consulted only on the edge where the property type equals the attribute constant. Does not decide date parsing of query values, tokenisation, or the comparison primitives themselves.",
            "finite-domain abstract interpretation (path typestate engine with abstract transfer tables), sibling-table agreement",
            "DESIGN.md §4 C15"),
    "C14": ("Structural necessary conditions of contact-query round-tripping and injection freedom: every evaluation of a "
            "contact_query template passes flows.ContactQueryEscaping; the writers (ContactQueryEscaping, Condition.String) derive "
            "from strconv.Quote and the reader from strconv.Unquote; the regexp that licenses unquoted output is anchored and admits "
            "only characters of the TEXT token (regexp/syntax walk of the constant pattern); the STRING lexer rule, read from the "
            "grammar and determinised over {quote, backslash, other}, is checked for termination ambiguity and for accepting every "
            "strconv.Quote image; operator constants are COMPARATOR literals; the printer uses the node's own operator, always "
            "parenthesises combinations; writer prefixes pair with reader arms; every type switch over QueryNode covers both node "
            "types and Simplify keeps every child, flattening only same-operator children. Also: the text ParseQuery hands to the lexer derives from its parameter through listed calls only (TrimSpace, the whole-text phone number rewrite). "
            "Round 3: every return of ContactQueryEscaping is strconv.Quote of its argument, and inside Evaluator.Template the escaping call depends only on escaping != nil, the token type and the error test. "
            "Round 4: the string evaluator under R3 was made sound for unknown strings and joins of mixed element forms. "
            "Round 5: the arms that reject URN conditions under redaction exempt the same conditions (sibling agreement). "
            "Round 6: the node whose children Simplify splices into the parent is the node whose operator it compared (shared with C15 R5). "
            "Round 7: the value of an explicit condition is what visiting the literal returned, with no call in between. Does not decide structural identity of re-parsed "
            "queries for all inputs.",
            "value provenance over go/ssa, regular-language (NFA->DFA) reasoning on the grammar's lexer rule, constant-pattern analysis, table agreement",
            "DESIGN.md §4 C14"),
    "C12": ("Structural necessary conditions of faithful literal text: the hand-written scanner's string-literal reader is run "
            "abstractly (finite-domain interpretation of its SSA) on the strconv.Quote image of all 121 abstract strings over "
            "{quote, backslash, other} up to length 4 followed by more input and must stop exactly at the closing quote; the "
            "lexer's TEXT rule, read from the grammar and determinised over the same alphabet, is checked for termination "
            "ambiguity and acceptance of every image; scanExpression, with its nested literal reader and its parenthesis counter "
            "tracked along the path, is run on 389 abstract expression bodies over {quote, backslash, other, '(', ')'} and must end "
            "where a reference reading of the grammar ends; scanBody's reaction to '@' + {'(', '@', name, end, other} x unescape is "
            "evaluated per case against the documented behaviour; scanIdentifier returns the scanned text unmodified and IDENTIFIER "
            "only behind the lower-cased allowed-top-level test, and gives a disallowed name back with its '@'; TextLiteral.String is strconv.Quote of the full native value and "
            "the reader strconv.Unquote. Also: raw template parameters (those that reach NewXScanner) are otherwise only trimmed, measured, compared or passed on, so literal text reaches a result only as the scanner's BODY token. "
            "Round 3: the input reader hands on every rune it reads; where a trimmed copy of a raw template is compared, that same copy is what is scanned. "
            "Round 7: what VisitTextLiteral unquotes is the token's text as written (no call between GetText and strconv.Unquote). Does not decide the whole-string round trip for all UTF-8.",
            "finite-domain abstract interpretation of the scanner (path typestate engine over go/ssa), NFA->DFA reasoning on the grammar rule, provenance",
            "DESIGN.md §4 C12"),
    "C11": ("Structural necessary conditions of meaning-preserving print/re-parse: a four-way agreement table for the 13 operators "
            "(grammar token literal from Excellent3.g4, operator text of the node's String() format, documented symbol of the "
            "operators function its Evaluate calls, token accessor under which the visitor builds the node, including default arms); "
            "every node's String() prints all its Expression fields once in declaration order and Visit covers them; parentheses are "
            "explicit nodes printed with both brackets; text literals are strconv.Quote of the full value / strconv.Unquote, numbers "
            "print the decimal's String; refactor.Template copies body text, scans without unescaping, re-wraps inversely to the "
            "scanner, keeps the original unless the transformer reports a change; ContextRefRename's changed flag is monotone and "
            "the rename guarded. Also: identifier text (Name, Lookup, Args) reaches the printed string only through formatting calls, the one listed normalisation (lower-casing a context reference) being backed by a who-may-write rule on Scope.get (XObject.Get and functions.Lookup, both shown to compare lower-cased names). "
            "Round 3: in the migrations refactor.Template is called unconditionally (no textual pre-filter before a case-insensitive rewrite). "
            "Round 4: Visit descends into a field only by invoking Visit on it; the caller of refactor.Template returns the rewritten text on every path; no multi-character cutset in the rewriting packages (lint). "
            "Round 7: what VisitTextLiteral unquotes is the token's text as written (no call between GetText and strconv.Unquote). Does not decide equality of evaluation results.",
            "sibling-table agreement across grammar text, AST doc tags and go/ssa provenance; shape checks of printers and refactor plumbing",
            "DESIGN.md §4 C11"),
    "C17": ("Structural necessary conditions of meaning-preserving migration, decided on symbolic string templates computed from go/ssa: "
            "every text the migration can emit (63 callMigrators entries through their constructor closures, parameter migrators, the "
            "legacy visitor's formats, 48 context-reference replacements, wrapRawExpression) is tokenised as Excellent3; an operand "
            "substituted next to an operator must be an atom, pass a verified conditional parenthesizer, or be the legacy operand of the "
            "method's own operator; a legacy call migrated to an operator expression is returned bare only to bracketing parents; the "
            "operator alternatives of Excellent1.g4 and Excellent3.g4 have the same precedence order and each visitor method emits the "
            "Excellent3 literal of the token it tested; no (value, error) call has its error discarded unless the callee never fails; "
            "hand-built text literals escape quote and backslash; body text is copied. Also: a migrated child expression is substituted whole, never sliced or textually edited. "
            "Round 3: outside init no function of the expressions package writes a package-level variable (stores, map updates, mutating sync methods). "
            "Round 4: every functionReturnTypes entry agrees with the X type its excellent function returns (or names no function, or is listed). "
            "Round 5: Sprintf of a non-constant template with the call's parameters is reached only when len(params) equals the count taken from the template (found and fixed F30). "
            "Does not decide that renamed functions compute "
            "the same values, nor argument order inside explicit-index templates.",
            "abstract interpretation of string-building code (templates with holes and path guards) + grammar/table agreement + guard evidence on dominating branches",
            "DESIGN.md §4 C17"),
    "C13": ("Structural necessary conditions of the text/JSON round trips: the formatter's and the parser's tables agree — each DateFormat "
            "and TimeFormat constant (and the ISO layouts Render uses), rendered for Go's reference instant through gocommon's layout table, "
            "is matched by the pattern of its parser arm with year/month/day and hour/minute/second/fraction/marker in the capture groups "
            "the parser reads them from; parseDate has an arm per constant; the 12-hour conversion is evaluated over hour 0..24 x marker; "
            "fraction digits reach the nanoseconds through integers only; ISO layouts are tried first; Sprintf-then-time.Parse component "
            "widths agree; decimalRegexp accepts every decimal.String rendering (automata inclusion); the JSON type switch covers the six "
            "value types with the matching X types and no gate narrower than the JSON number grammar; decimals marshal unquoted; every "
            "XValue has MarshalJSON; = and != are ToXText + string (in)equality. Also: any arithmetic on a parsed year is controlled by the length of the year text (true for 2 characters, false for 4). "
            "Round 3: an XDateTime method that converts its receiver with In() prints no component of the unconverted receiver; XText marshals through the JSON encoder. "
            "Round 4: the day/month/year validity check in envs uses the year the date is built from. "
            "Round 5: the upper-bound tests in front of NewTimeOfDay let 59 through for minutes and seconds. "
            "Round 6: no number takes a detour through float64 in the value packages; a century is added to a parsed year only under a test of the matched text's length. "
            "Round 7: where envs uses the value of one of its (found, value) parsers it uses the found flag too. Does not decide the library arithmetic, DST folds, "
            "second-granular UTC offsets or non-am/pm locales.",
            "writer/reader table agreement by constant evaluation of the source's own patterns and layouts; regular-language inclusion; finite-domain evaluation of an SSA fragment; go/ssa provenance",
            "DESIGN.md §4 C13"),
}

NOT_APPLICABLE = {}

def main():
    props = [json.loads(l) for l in open(os.path.join(HERE, "properties.jsonl"))]
    checks = []
    na = []
    for p in props:
        pid = p["id"]
        if pid in CLAIMED:
            text, tech, ref = CLAIMED[pid]
            checks.append({
                "property_id": pid,
                "quick_cmd": "./run.sh %s quick" % pid,
                "thorough_cmd": "./run.sh %s thorough" % pid,
                "evidence_file": "/verif/evidence/%s.json" % pid,
                "replay_cmd_template": "./run.sh replay {path}",
                "engine": "vcheck",
                "level_claimed": {"category": "other", "text": text, "design_ref": ref},
                "level_note": NOTE,
                "technique": "static analysis: " + tech,
            })
        else:
            na.append({"property_id": pid, "reason": NOT_APPLICABLE.get(pid, "no static rule registered yet for this property in this commit (work in progress; see DESIGN.md §4 for the planned structural clauses)")})
    hooks_commits = []
    m = {
        "version": 1,
        "setup_cmd": "cd /verif/checker && GOFLAGS=-mod=mod GOPROXY=off GOSUMDB=off GOTOOLCHAIN=local GOWORK=off go build -o /verif/bin/vcheck ./cmd/vcheck",
        "hooks": {
            "guard": "verif",
            "enable": "none needed: the checks analyse the production build's source (go/packages on /repo, no build tags); no hook commits exist",
            "baseline_off_cmd": "cd /repo && go test -vet=off -count=1 ./...",
            "source_commits": hooks_commits,
            "add_only": True,
        },
        "engines": [
            {"name": "vcheck", "path": "/verif/checker", "serves_properties": sorted(CLAIMED.keys()),
             "kind_free_text": "repository-specific static analyser (go/packages, go/types, go/ssa, call graph, AST table extraction); one rule file per property"},
        ],
        "checks": checks,
        "not_applicable": na,
        "notes": "All claims are level 'other': structural necessary conditions decided by static analysis of /repo's current source. Exit 0 = all obligations discharged (or listed known findings); exit 1 + VIOLATION line = a violated obligation; exit 2 = the tree could not be decided (load/type errors, unresolved anchors, unsupported shapes) and is never reported as a violation. Genuine defects found by the rules were repaired by 'fix:' commits in /repo and are recorded in known_findings.json.",
    }
    json.dump(m, open(os.path.join(HERE, "MANIFEST.json"), "w"), indent=1)
    print("wrote MANIFEST.json: %d checks, %d not_applicable" % (len(checks), len(na)))

if __name__ == "__main__":
    main()
