#!/bin/bash
# usage: ./run.sh <Cnn|all> <quick|thorough>   |   ./run.sh replay <file>
# Rebuilds nothing from /repo ahead of time: vcheck type-checks /repo's current working tree on every call.
set -u
cd "$(dirname "$0")"
export GOFLAGS=-mod=mod GOPROXY=off GOSUMDB=off GOTOOLCHAIN=local GOWORK=off
unset GOWORK 2>/dev/null || true
VERIF="$(pwd)"
REPO="${VERIF_REPO:-/repo}"
build() {
  if [ ! -x "$VERIF/bin/vcheck" ] || [ -n "$(find "$VERIF/checker" -name '*.go' -newer "$VERIF/bin/vcheck" 2>/dev/null | head -1)" ]; then
    mkdir -p "$VERIF/bin"
    (cd "$VERIF/checker" && go build -o "$VERIF/bin/vcheck" ./cmd/vcheck) || { echo "ERROR build of vcheck failed"; exit 2; }
  fi
}
build
if [ "${1:-}" = "replay" ]; then
  prop=$(python3 -c "import json,sys; print(json.load(open(sys.argv[1]))['key'].split('/')[0])" "$2") || exit 2
  exec "$VERIF/bin/vcheck" -repo "$REPO" -verif "$VERIF" -prop "$prop" -tier quick -list
fi
prop="${1:?property}"
tier="${2:-${VERIF_TIER:-quick}}"
if [ "$tier" = "thorough" ]; then
  exec "$VERIF/thorough.sh" "$prop"
fi
exec timeout 900 "$VERIF/bin/vcheck" -repo "$REPO" -verif "$VERIF" -prop "$prop" -tier "$tier"
