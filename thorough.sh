#!/bin/bash
# thorough tier: the quick rules, then the checker's self-test for this property (seeded mutants through the
# go/packages overlay: every mutant must be reported, the unmodified tree must be silent).
set -u
cd "$(dirname "$0")"
export GOFLAGS=-mod=mod GOPROXY=off GOSUMDB=off GOTOOLCHAIN=local GOWORK=off
VERIF="$(pwd)"
REPO="${VERIF_REPO:-/repo}"
prop="$1"
"$VERIF/bin/vcheck" -repo "$REPO" -verif "$VERIF" -prop "$prop" -tier thorough
rc=$?
if [ -x "$VERIF/selftest.sh" ]; then
  "$VERIF/selftest.sh" "$prop" || { echo "ERROR property=$prop checker self-test failed"; [ $rc -eq 0 ] && rc=2; }
fi
exit $rc
