#!/bin/bash
# thorough tier: the rules at tier "thorough", then the checker's self-test for this property: every mutant of
# selftest/mutants.json and every kept seed of seeded/ is analysed through the go/packages overlay (never written
# to /repo) and must be reported. The self-test result is merged into the evidence; it does not change the exit
# code, which is the rules' verdict on /repo's current tree.
set -u
cd "$(dirname "$0")"
export GOFLAGS=-mod=mod GOPROXY=off GOSUMDB=off GOTOOLCHAIN=local GOWORK=off
VERIF="$(pwd)"
REPO="${VERIF_REPO:-/repo}"
prop="$1"
timeout 900 "$VERIF/bin/vcheck" -repo "$REPO" -verif "$VERIF" -prop "$prop" -tier thorough
rc=$?
if [ "$prop" != "all" ]; then
  python3 "$VERIF/tools/selftest.py" "$prop" || true
fi
exit $rc
