package rules

import (
	"fmt"
	"go/ast"
	"go/token"
	"go/types"
	"sort"
	"strings"

	"golang.org/x/tools/go/ssa"

	"verif/checker/core"
)

func init() { register("C04", checkC04) }

// packages that make up expression evaluation (entry points and everything they own)
var c04EvalPkgs = []string{"excellent", "excellent/functions", "excellent/operators", "excellent/types", "excellent/tools", "flows/routers/cases"}

// partial library callees: ObjName -> (operand index in Common().Args incl. receiver, kind)
type partialSpec struct {
	arg  int
	kind string // divisor | exponent
	why  string
}

var c04Partial = map[string]partialSpec{
	"github.com/shopspring/decimal.Decimal.Div":         {1, "divisor", "panics on a zero divisor"},
	"github.com/shopspring/decimal.Decimal.DivRound":    {1, "divisor", "panics on a zero divisor"},
	"github.com/shopspring/decimal.Decimal.QuoRem":      {1, "divisor", "panics on a zero divisor"},
	"github.com/shopspring/decimal.Decimal.Mod":         {1, "divisor", "panics on a zero divisor"},
	"github.com/shopspring/decimal.Decimal.Pow":         {1, "exponent", "time and memory grow with the exponent's magnitude (10^1e9 does not return)"},
	"github.com/shopspring/decimal.Decimal.Round":       {1, "exponent", "rescales by 10^places: an attacker-sized precision does not return"},
	"github.com/shopspring/decimal.Decimal.RoundBank":   {1, "exponent", "rescales by 10^places"},
	"github.com/shopspring/decimal.Decimal.RoundCeil":   {1, "exponent", "rescales by 10^places"},
	"github.com/shopspring/decimal.Decimal.RoundFloor":  {1, "exponent", "rescales by 10^places"},
	"github.com/shopspring/decimal.Decimal.RoundUp":     {1, "exponent", "rescales by 10^places"},
	"github.com/shopspring/decimal.Decimal.RoundDown":   {1, "exponent", "rescales by 10^places"},
	"github.com/shopspring/decimal.Decimal.Truncate":    {1, "exponent", "rescales by 10^places"},
	"github.com/shopspring/decimal.Decimal.Shift":       {1, "exponent", "exponent shift"},
	"github.com/shopspring/decimal.Decimal.StringFixed": {1, "exponent", "rescales by 10^places"},
	"github.com/shopspring/decimal.New":                 {1, "exponent", "an attacker-sized exponent makes later arithmetic rescale by 10^exp"},
	"strings.Repeat":                                    {1, "exponent", "panics on a negative count, allocates count*len bytes"},
	"regexp.MustCompile":                                {0, "pattern", "panics on an invalid pattern"},
	"github.com/shopspring/decimal.RequireFromString":   {0, "pattern", "panics on an invalid number"},
}

// frozen exceptions for R2: key = function|callee, value = reason (confirmed by reading)
var c04PartialAllowed = map[string]string{
	"excellent/functions.Mean|github.com/shopspring/decimal.Decimal.Div":                   "divisor is len(args); Mean is registered with MinArgsCheck(1, Mean) so len(args) >= 1 (rule R3 checks the registration)",
	"excellent/types.newXNumberFromString|github.com/shopspring/decimal.RequireFromString": "argument matched decimalRegexp on the line above (dominating MatchString guard), which admits only digits with an optional sign and point",
	"flows/routers/cases.testNumber|regexp.MustCompile":                                    "pattern is built from the environment's NumberFormat symbols (host configuration, outside C04's quantifier over templates, contexts and arguments), each escaped with a backslash",
}

// frozen table for R1: explicit panics reachable from evaluation, with the guard that makes them unreachable
var c04PanicAllowed = map[string]string{
	"excellent/types.JSONToXValue":             "dominated by the json.Valid(data) guard: jsonparser.Get only fails on invalid documents",
	"excellent/types.RequireXNumberFromString": "only called from VisitNumberLiteral with the text of an INTEGER/DECIMAL token ([0-9]+ ('.' [0-9]+)?), which decimalRegexp accepts",
	"excellent/types.Compare":                  "NOCALLERS: exported helper without a caller outside tests",
	"excellent/types.Compare#2":                "NOCALLERS: exported helper without a caller outside tests",
	"excellent.toExpression":                   "every visitor method that feeds it returns an Expression node (or nil); the default arm documents that",
}

// c04NilAllowed: invokes on an XValue the generic argument does not prove non-nil, each confirmed by reading.
var c04NilAllowed = map[string]string{}

func checkC04(p *core.Program, r *core.Report) {
	r.Rule("R1", "every explicit panic in the expression-evaluation packages is listed as unreachable-by-construction with its guard, or is a violation")
	r.Rule("R2", "every call of a partial library function (decimal Div/Mod/QuoRem, Pow/Round/Shift/StringFixed with a computed exponent, Must*/Require* with a computed argument, strings.Repeat) has its dangerous operand constant-derived or guarded by a dominating comparison on the same source value")
	r.Rule("R3", "arity wrappers and index use agree: the checking closure calls the wrapped function only when len(args) >= min; every constant index / slice of the args slice in a registered function is below the registered minimum or guarded by a len(args) comparison")
	r.Rule("R4", "type assertions without comma-ok on interface values in the evaluation packages are guarded by a dominating type test or listed")
	r.Assumption("third-party code (decimal, regexp, antlr runtime) terminates and does not panic for guarded operands")

	evalPkg := map[string]bool{}
	for _, e := range c04EvalPkgs {
		evalPkg[e] = true
	}
	var fns []*ssa.Function
	for _, fn := range p.ModuleFunctions() {
		if evalPkg[core.RelPkg(core.FuncPkgPath(fn))] && !p.IsTestFile(fn.Pos()) {
			fns = append(fns, fn)
		}
	}
	if !r.Require("evaluation_functions", len(fns), 400) {
		return
	}

	// ---------- R1 explicit panics
	nPanics := 0
	for _, fn := range fns {
		core.EachInstr(fn, false, func(f *ssa.Function, in ssa.Instruction) {
			pn, ok := in.(*ssa.Panic)
			if !ok {
				return
			}
			nPanics++
			key := core.FuncName(rootFn(f))
			if n := countPanicsBefore(f, pn); n > 0 {
				key = fmt.Sprintf("%s#%d", key, n+1)
			}
			if reason, ok := c04PanicAllowed[key]; ok {
				if strings.HasPrefix(reason, "NOCALLERS") {
					nc := 0
					for _, cs := range p.CallsTo(rootFn(f)) {
						if !p.IsTestFile(cs.Pos()) {
							nc++
						}
					}
					r.Check(nc == 0, "R1", key, p.Pos(pn.Pos()), "listed: "+reason, fmt.Sprintf("panicking helper now has %d callers outside tests", nc))
					return
				}
				r.OK("R1", key, p.Pos(pn.Pos()), "listed: "+reason)
			} else {
				r.Bad("R1", key, p.Pos(pn.Pos()), "explicit panic reachable from expression evaluation and not listed as unreachable-by-construction")
			}
		})
	}
	r.Count("explicit_panics", nPanics)

	// ---------- R2 partial library calls
	nPartial := 0
	for _, fn := range fns {
		for _, cs := range core.Calls(fn, false) {
			o := core.CalleeObj(cs.Common())
			if o == nil {
				continue
			}
			name := core.ObjName(o)
			spec, ok := c04Partial[name]
			if !ok {
				continue
			}
			args := cs.Common().Args
			if spec.arg >= len(args) {
				continue
			}
			nPartial++
			key := core.FuncName(rootFn(fn)) + "|" + name
			operand := args[spec.arg]
			if constDerived(operand) {
				r.OK("R2", key, p.Pos(cs.Pos()), "operand is derived from constants only")
				continue
			}
			if g := guardOn(cs, operand, spec.kind); g != "" {
				r.OK("R2", key, p.Pos(cs.Pos()), "guarded: "+g)
				continue
			}
			if reason, ok := c04PartialAllowed[key]; ok {
				r.OK("R2", key, p.Pos(cs.Pos()), "listed: "+reason)
				continue
			}
			r.Bad("R2", key, p.Pos(cs.Pos()), fmt.Sprintf("%s: %s; operand %s is neither constant nor guarded by a comparison on its source", name, spec.why, canon(operand)))
		}
	}
	r.Require("partial_call_sites", nPartial, 5)

	// ---------- R3
	c04R3(p, r)

	// ---------- R4 unchecked type assertions
	c04R4(p, r, fns)

	// ---------- R8 nullable X values
	r.Rule("R8", "null is a nil XValue: every method invoked on a value of interface type types.XValue in the evaluation packages is on a value shown non-nil (false edge of IsNil / == nil, or produced non-nil by construction) or listed")
	r.Require("xvalue_method_invokes", xNilRule(p, r, fns, "R8", c04NilAllowed), 2)

	// ---------- R9 the object is its own "no default" sentinel
	r.Rule("R9", "an XObject without a default returns itself from Default(): every call of XObject.Default() (outside hasDefault) is controlled by the true edge of hasDefault() on the same object, or listed — an unguarded conversion `ToX(env, obj.Default())` recurses on the same object until the stack overflows")
	c04R9(p, r)

	// ---------- R11 the template scanner cannot stall
	r.Rule("R11", "the scanner's two readers of `@x` agree: the tests of the character after an `@` under which scanBody stops in front of that `@` (pushes it back and ends the body token) are exactly the tests under which Scan, finding that `@`, hands over to a reader other than scanBody — if scanBody stops for a character Scan does not dispatch on, Scan hands the same input back to scanBody, which returns an empty body without consuming anything, for ever (a hang, not an error value)")
	c04R11(p, r)

	// ---------- R10 a nil pointer inside an interface is not a nil interface
	r.Rule("R10", "no nil pointer is stored in an interface: a pointer that is nil on some path (a `var p *T` filled in on one branch only) is not converted to an interface value — the interface then compares unequal to nil, the `x == nil` guard at its consumers passes, and the method call on it dereferences nil (a panic, not an error value)")
	c04R10(p, r)

	// ---------- R5 constant-offset string slicing
	r.Rule("R5", "every s[k:], s[:k], s[k] with a constant offset on a string/[]byte in the evaluation packages is guarded by a length / non-empty / prefix test on the same value or listed")
	r.Count("const_offset_string_sites", c04R5(p, r, fns, "R5", c04SliceAllowed))

	// ---------- R6 constant index / slice bound on general slices
	r.Rule("R7", "every computed index or slice bound x[i], s[i], x[lo:hi] in the evaluation packages is shown, on every path, non-negative and below (bounds: at most) the length of the very value it indexes — by a dominating comparison with len() of that value, a range-loop index over it, len-k / min(len, …) arithmetic — or is listed with the reason")
	r.Rule("R6", "every constant index or slice bound on a slice in the evaluation packages is within a length established on every path (range analysis over len() comparisons, producers with a known minimum length) or listed")
	r.Count("const_index_sites", constIndexRule(p, r, fns, "R6", c04IndexAllowed, true))
	r.Count("variable_index_sites", varIndexRule(p, r, fns, "R7", c04VarIndexAllowed))
}

func rootFn(f *ssa.Function) *ssa.Function {
	for f.Parent() != nil {
		f = f.Parent()
	}
	return f
}

func countPanicsBefore(f *ssa.Function, pn *ssa.Panic) int {
	n := 0
	done := false
	core.EachInstr(rootFn(f), true, func(_ *ssa.Function, in ssa.Instruction) {
		if in == ssa.Instruction(pn) {
			done = true
		}
		if _, ok := in.(*ssa.Panic); ok && !done {
			n++
		}
	})
	return n
}

// constDerived: the value depends on constants, package-level variables and pure calls on those only.
func constDerived(v ssa.Value) bool {
	ok := true
	for x := range core.BackSlice(v, func(*ssa.Call) bool { return true }) {
		switch y := x.(type) {
		case *ssa.Parameter, *ssa.FreeVar:
			ok = false
		case *ssa.Call:
			// calls are followed into their arguments; builtin len of a parameter shows up as Parameter
			_ = y
		case *ssa.Lookup, *ssa.TypeAssert, *ssa.Next, *ssa.Range:
			ok = false
		case *ssa.UnOp:
			if y.Op == token.ARROW {
				ok = false
			}
		}
	}
	return ok
}

// roots of a value: parameters, free variables, calls with no arguments (sources of unknown data)
func valueRoots(v ssa.Value) map[ssa.Value]bool {
	out := map[ssa.Value]bool{}
	for x := range core.BackSlice(v, func(*ssa.Call) bool { return true }) {
		switch x.(type) {
		case *ssa.Parameter, *ssa.FreeVar, *ssa.Lookup, *ssa.TypeAssert, *ssa.Extract:
			out[x] = true
		}
	}
	return out
}

// guardOn: a (transitively) controlling condition of the call mentions a root of the operand and is of the right
// kind: a zero test for divisors, an ordering/equality comparison for exponents, a match test for patterns.
func guardOn(cs core.CallSite, operand ssa.Value, kind string) string {
	roots := valueRoots(operand)
	if len(roots) == 0 {
		return ""
	}
	for _, ce := range core.ControllingConds(cs.Instr.Block()) {
		sl := core.BackSlice(ce.Cond, func(*ssa.Call) bool { return true })
		shares := false
		for rt := range roots {
			if sl[rt] {
				shares = true
			}
		}
		if !shares {
			continue
		}
		switch kind {
		case "divisor":
			for x := range sl {
				if c, ok := x.(*ssa.Call); ok {
					if o := core.CalleeObj(&c.Call); o != nil {
						switch o.Name() {
						case "Equals", "Equal", "IsZero", "Cmp", "Sign", "IsPositive", "IsNegative", "GreaterThan", "LessThan":
							return "zero test via " + core.ObjName(o)
						}
					}
				}
				if b, ok := x.(*ssa.BinOp); ok && (b.Op == token.EQL || b.Op == token.NEQ || b.Op == token.GTR || b.Op == token.LSS) {
					if n, isC := core.ConstInt(b.Y); isC && n == 0 {
						return "comparison with 0"
					}
				}
			}
		case "exponent":
			if b, ok := ce.Cond.(*ssa.BinOp); ok {
				switch b.Op {
				case token.LSS, token.GTR, token.LEQ, token.GEQ, token.EQL, token.NEQ:
					return "range comparison " + b.Op.String()
				}
			}
			// a || b range checks compile to a chain of conditions; any comparison in the slice counts
			for x := range sl {
				if b, ok := x.(*ssa.BinOp); ok && (b.Op == token.LSS || b.Op == token.GTR || b.Op == token.LEQ || b.Op == token.GEQ) {
					return "range comparison " + b.Op.String()
				}
			}
		case "pattern":
			for x := range sl {
				if c, ok := x.(*ssa.Call); ok {
					if o := core.CalleeObj(&c.Call); o != nil && strings.HasPrefix(o.Name(), "Match") {
						return "match test via " + core.ObjName(o)
					}
				}
			}
		}
	}
	return ""
}

// ------------------------------------------------------------------------------------------------------ R3

// frozen exceptions for R3
var c04ArityAllowed = map[string]string{
	"(*excellent.AnonFunction).Evaluate/checker-min": "the minimum is len(x.Args) and the wrapped closure indexes args only with the range index over the same x.Args",
	"excellent/functions.Object[min=0]/args[i]":      "pairs[i+1] inside `for i := 0; i < len(pairs); i += 2` after the dominating `len(pairs)%2 != 0` rejection: i+1 < len(pairs)",
}

// lenLowerBound: the lower bound on len(slice) that holds on every path reaching block b (a forward range analysis
// over the branch edges; it handles disjunctive guards such as `if len(args) != 1 && len(args) != 3 { return }`).
var lenLBCache = map[[2]any]map[*ssa.BasicBlock]int64{}

func lenLowerBound(b *ssa.BasicBlock, slice ssa.Value) int64 {
	fn := b.Parent()
	key := [2]any{fn, slice}
	m, ok := lenLBCache[key]
	if !ok {
		isLen := func(v ssa.Value) bool {
			c, ok := v.(*ssa.Call)
			if !ok {
				return false
			}
			bi, ok := c.Call.Value.(*ssa.Builtin)
			return ok && bi.Name() == "len" && c.Call.Args[0] == slice
		}
		m = core.ForwardLowerBound(fn, 0, func(cond ssa.Value, taken bool) (int64, bool) {
			bo, ok := cond.(*ssa.BinOp)
			if !ok {
				return 0, false
			}
			op := bo.Op
			var c int64
			if isLen(bo.X) {
				n, isC := core.ConstInt(bo.Y)
				if !isC {
					return 0, false
				}
				c = n
			} else if isLen(bo.Y) {
				n, isC := core.ConstInt(bo.X)
				if !isC {
					return 0, false
				}
				c = n
				switch op {
				case token.LSS:
					op = token.GTR
				case token.GTR:
					op = token.LSS
				case token.LEQ:
					op = token.GEQ
				case token.GEQ:
					op = token.LEQ
				}
			} else {
				return 0, false
			}
			switch {
			case op == token.EQL && taken, op == token.NEQ && !taken:
				return c, true
			case op == token.GTR && taken, op == token.LEQ && !taken:
				return c + 1, true
			case op == token.GEQ && taken, op == token.LSS && !taken:
				return c, true
			case op == token.NEQ && taken && c == 0, op == token.EQL && !taken && c == 0:
				return 1, true
			}
			return 0, false
		})
		lenLBCache[key] = m
	}
	return m[b]
}

// checkArgsIndexing verifies every constant index / slice expression on the slice parameter `args` of fn given
// that len(args) >= entryLB on entry.
func checkArgsIndexing(p *core.Program, r *core.Report, fn *ssa.Function, args *ssa.Parameter, entryLB int64, label string) {
	n := 0
	core.EachInstr(fn, false, func(f *ssa.Function, in ssa.Instruction) {
		switch x := in.(type) {
		case *ssa.IndexAddr:
			if x.X != ssa.Value(args) {
				return
			}
			n++
			key := fmt.Sprintf("%s/args[%s]", label, indexStr(x.Index))
			k, isC := core.ConstInt(x.Index)
			if !isC {
				// accepted when a controlling condition compares this very index with len(args)
				if rangeGuarded(x.Block(), x.Index, args) {
					r.OK("R3", key, p.Pos(x.Pos()), "loop index bounded by len(args)")
				} else if reason, ok := c04ArityAllowed[key]; ok {
					r.OK("R3", key, p.Pos(x.Pos()), "listed: "+reason)
				} else {
					r.Bad("R3", key, p.Pos(x.Pos()), "computed index into args without a len(args) bound")
				}
				return
			}
			lb := entryLB
			if l2 := lenLowerBound(x.Block(), args); l2 > lb {
				lb = l2
			}
			r.Check(k < lb, "R3", key, p.Pos(x.Pos()), fmt.Sprintf("len(args) >= %d here", lb),
				fmt.Sprintf("args[%d] is read where only len(args) >= %d is guaranteed (registered minimum %d): index out of range panic for short argument lists", k, lb, entryLB))
		case *ssa.Slice:
			if x.X != ssa.Value(args) || x.Low == nil {
				return
			}
			n++
			k, isC := core.ConstInt(x.Low)
			key := fmt.Sprintf("%s/args[%s:]", label, indexStr(x.Low))
			if !isC {
				r.Bad("R3", key, p.Pos(x.Pos()), "computed slice bound on args")
				return
			}
			lb := entryLB
			if l2 := lenLowerBound(x.Block(), args); l2 > lb {
				lb = l2
			}
			r.Check(k <= lb, "R3", key, p.Pos(x.Pos()), fmt.Sprintf("len(args) >= %d here", lb),
				fmt.Sprintf("args[%d:] is taken where only len(args) >= %d is guaranteed", k, lb))
		}
	})
	r.Count("args_index_sites", n)
}

func indexStr(v ssa.Value) string {
	if k, ok := core.ConstInt(v); ok {
		return fmt.Sprint(k)
	}
	return "i"
}

func rangeGuarded(b *ssa.BasicBlock, idx ssa.Value, args ssa.Value) bool {
	for _, ce := range core.ControllingConds(b) {
		bo, ok := ce.Cond.(*ssa.BinOp)
		if !ok || !ce.Taken || bo.Op != token.LSS || bo.X != idx {
			continue
		}
		if c, ok := bo.Y.(*ssa.Call); ok {
			if bi, ok := c.Call.Value.(*ssa.Builtin); ok && bi.Name() == "len" && c.Call.Args[0] == args {
				return true
			}
		}
	}
	return false
}

// sliceParam: the []XValue parameter named args (variadic) of fn, or nil.
func sliceParam(fn *ssa.Function) *ssa.Parameter {
	for _, prm := range fn.Params {
		if sl, ok := prm.Type().(*types.Slice); ok {
			if n, ok := sl.Elem().(*types.Named); ok && n.Obj().Name() == "XValue" {
				return prm
			}
		}
	}
	return nil
}

func c04R3(p *core.Program, r *core.Report) {
	mm := p.Func("excellent/functions", "MinAndMaxArgsCheck")
	numC := p.Func("excellent/functions", "NumArgsCheck")
	minC := p.Func("excellent/functions", "MinArgsCheck")
	if mm == nil || numC == nil || minC == nil {
		r.Errorf("arity wrappers not found")
		return
	}
	// (i) the checking closure: on every path to the call of the wrapped function, len(args) >= min was established
	if len(mm.AnonFuncs) != 1 {
		r.Errorf("MinAndMaxArgsCheck: expected one closure, got %d", len(mm.AnonFuncs))
		return
	}
	cl := mm.AnonFuncs[0]
	{
		args := sliceParam(cl)
		bad := ""
		calls := 0
		res := core.ExplorePaths(cl, core.PathRules{
			OnEdge: func(s *core.PathState, cond ssa.Value, taken bool) {
				bo, ok := cond.(*ssa.BinOp)
				if !ok {
					return
				}
				lenX := false
				if c, ok := bo.X.(*ssa.Call); ok {
					if bi, ok := c.Call.Value.(*ssa.Builtin); ok && bi.Name() == "len" && args != nil && c.Call.Args[0] == ssa.Value(args) {
						lenX = true
					}
				}
				if !lenX {
					return
				}
				// Y must be the captured `min`
				if freeVarName(bo.Y) != "min" {
					return
				}
				if (bo.Op == token.NEQ && !taken) || (bo.Op == token.LSS && !taken) || (bo.Op == token.GEQ && taken) || (bo.Op == token.EQL && taken) {
					s.Effects = append(s.Effects, core.Effect{Kind: "LB"})
				}
			},
			OnCall: func(s *core.PathState, c ssa.CallInstruction) []core.CallOutcome {
				if freeVarName(c.Common().Value) == "f" {
					calls++
					if !s.Has("LB") {
						bad = fmt.Sprintf("the wrapped function is called on a path that never established len(args) >= min (blocks %v)", s.Blocks)
					}
				}
				return nil
			},
		})
		r.Check(bad == "" && calls > 0 && !res.Truncated, "R3", "excellent/functions.MinAndMaxArgsCheck/enforces-min", p.Pos(cl.Pos()),
			fmt.Sprintf("%d paths, every call of f follows a len(args)>=min edge", res.Paths), bad)
	}
	// (ii) NumArgsCheck and MinArgsCheck forward their first parameter as min and their function as f
	for _, w := range []*ssa.Function{numC, minC} {
		ok := false
		for _, cs := range core.Calls(w, false) {
			if cs.Common().StaticCallee() == mm {
				a := cs.Common().Args
				ok = a[0] == ssa.Value(w.Params[0]) && a[2] == ssa.Value(w.Params[1])
			}
		}
		r.Check(ok, "R3", "excellent/functions."+w.Name()+"/forwards-min", p.Pos(w.Pos()), "min := first parameter, f := second", w.Name()+" does not pass its own count as the minimum to MinAndMaxArgsCheck")
	}
	// (iii) every use of the three checkers with a resolvable function: check the target's indexing
	type target struct {
		fn   *ssa.Function
		min  int64
		from string
	}
	var targets []target
	checkers := map[*ssa.Function]int{mm: 2, numC: 1, minC: 1} // index of f argument
	for _, cs := range p.AllCalls() {
		callee := cs.Common().StaticCallee()
		fi, ok := checkers[callee]
		if !ok || p.IsTestFile(cs.Pos()) {
			continue
		}
		if cs.Caller == numC || cs.Caller == minC {
			continue // forwarding, handled by (ii)
		}
		a := cs.Common().Args
		var tfn *ssa.Function
		switch f := core.StripConv(a[fi]).(type) {
		case *ssa.Function:
			tfn = f
		case *ssa.MakeClosure:
			tfn = f.Fn.(*ssa.Function)
		}
		min, isC := intLowerBound(p, a[0], 0)
		if tfn == nil {
			r.Bad("R3", core.FuncName(cs.Caller)+"/checker-target", p.Pos(cs.Pos()), "arity checker applied to a function value that cannot be resolved statically")
			continue
		}
		if !isC {
			if reason, ok := c04ArityAllowed[core.FuncName(cs.Caller)+"/checker-min"]; ok {
				r.OK("R3", core.FuncName(cs.Caller)+"/checker-min", p.Pos(cs.Pos()), "listed: "+reason)
				continue
			}
			r.Bad("R3", core.FuncName(cs.Caller)+"/checker-min", p.Pos(cs.Pos()), "arity minimum is not a compile-time lower bound")
			continue
		}
		targets = append(targets, target{tfn, min, core.FuncName(cs.Caller)})
	}
	// (iv) InitialTextFunction(minOther, maxOther, f): f's variadic gets args[1:], i.e. at least minOther values
	if itf := p.Func("excellent/functions", "InitialTextFunction"); itf != nil {
		for _, cs := range p.CallsTo(itf) {
			if p.IsTestFile(cs.Pos()) {
				continue
			}
			a := cs.Common().Args
			if f, ok := core.StripConv(a[2]).(*ssa.Function); ok {
				if min, isC := core.ConstInt(a[0]); isC {
					targets = append(targets, target{f, min, "InitialTextFunction"})
					continue
				}
			}
			r.Bad("R3", core.FuncName(cs.Caller)+"/InitialTextFunction-target", p.Pos(cs.Pos()), "InitialTextFunction applied with a non-constant minimum or unresolvable function")
		}
		// and its closure passes args[1:] on
		okPass := false
		for _, an := range itf.AnonFuncs {
			for _, cs := range core.Calls(an, false) {
				if freeVarName(cs.Common().Value) == "f" {
					last := cs.Common().Args[len(cs.Common().Args)-1]
					if sl, ok := last.(*ssa.Slice); ok {
						if k, isC := core.ConstInt(sl.Low); isC && k == 1 && sl.X == ssa.Value(sliceParam(an)) {
							okPass = true
						}
					}
				}
			}
		}
		r.Check(okPass, "R3", "excellent/functions.InitialTextFunction/passes-rest", p.Pos(itf.Pos()), "f receives args[1:]", "InitialTextFunction does not pass args[1:] to the wrapped function")
	} else {
		r.Errorf("InitialTextFunction not found")
	}
	// (v) functions registered bare in the XFUNCTIONS / XTESTS tables get no guarantee
	bare := c04BareRegistrations(p, r)
	for _, f := range bare {
		targets = append(targets, target{f, 0, "registered without an arity wrapper"})
	}
	sort.Slice(targets, func(i, j int) bool { return targets[i].fn.Pos() < targets[j].fn.Pos() })
	seen := map[*ssa.Function]int64{}
	for _, t := range targets {
		if old, ok := seen[t.fn]; ok && old <= t.min {
			continue
		}
		seen[t.fn] = t.min
	}
	nT := 0
	for _, t := range targets {
		if seen[t.fn] != t.min {
			continue
		}
		if _, done := seen[t.fn]; !done {
			continue
		}
		delete(seen, t.fn)
		args := sliceParam(t.fn)
		if args == nil {
			continue
		}
		nT++
		checkArgsIndexing(p, r, t.fn, args, t.min, core.FuncName(rootFn(t.fn))+fmt.Sprintf("[min=%d]", t.min))
		if t.fn.Parent() != nil {
			// closures are keyed by their enclosing wrapper
		}
	}
	r.Require("arity_checked_functions", nT, 25)
}

// freeVarName: the name of the free variable v is, or is loaded from.
func freeVarName(v ssa.Value) string {
	if u, ok := v.(*ssa.UnOp); ok && u.Op == token.MUL {
		v = u.X
	}
	if fv, ok := v.(*ssa.FreeVar); ok {
		return fv.Name()
	}
	return ""
}

// intLowerBound evaluates an int expression to a compile-time lower bound: constants, +, and parameters (minimum over
// all static call sites of the enclosing function).
func intLowerBound(p *core.Program, v ssa.Value, depth int) (int64, bool) {
	if depth > 3 {
		return 0, false
	}
	if k, ok := core.ConstInt(v); ok {
		return k, true
	}
	switch x := v.(type) {
	case *ssa.BinOp:
		if x.Op == token.ADD {
			a, ok1 := intLowerBound(p, x.X, depth+1)
			b, ok2 := intLowerBound(p, x.Y, depth+1)
			return a + b, ok1 && ok2
		}
	case *ssa.Parameter:
		fn := x.Parent()
		idx := paramIndex(fn, x.Name())
		var min int64
		found := false
		for _, cs := range p.CallsTo(fn) {
			if p.IsTestFile(cs.Pos()) {
				continue
			}
			k, ok := intLowerBound(p, cs.Common().Args[idx], depth+1)
			if !ok {
				return 0, false
			}
			if !found || k < min {
				min = k
			}
			found = true
		}
		return min, found
	case *ssa.UnOp:
		if x.Op == token.MUL {
			return intLowerBound(p, x.X, depth)
		}
	case *ssa.Alloc:
		// spilled (captured) parameter: the value stored into it
		for _, ref := range *x.Referrers() {
			if st, ok := ref.(*ssa.Store); ok && st.Addr == ssa.Value(x) {
				return intLowerBound(p, st.Val, depth+1)
			}
		}
	case *ssa.FreeVar:
		// captured parameter of the enclosing function
		fn := x.Parent()
		if fn.Parent() != nil {
			for i, fv := range fn.FreeVars {
				if fv == x {
					// find the MakeClosure binding in the parent
					for _, cs := range fn.Parent().Blocks {
						for _, in := range cs.Instrs {
							if mc, ok := in.(*ssa.MakeClosure); ok && mc.Fn == ssa.Value(fn) {
								return intLowerBound(p, mc.Bindings[i], depth+1)
							}
						}
					}
				}
			}
		}
	}
	return 0, false
}

// c04BareRegistrations: entries of the two builtin tables whose value is a plain function identifier.
func c04BareRegistrations(p *core.Program, r *core.Report) []*ssa.Function {
	var out []*ssa.Function
	nEntries := 0
	for _, rel := range []string{"excellent/functions", "flows/routers/cases"} {
		pk := p.Pkg(rel)
		if pk == nil {
			continue
		}
		for _, file := range pk.Syntax {
			ast.Inspect(file, func(n ast.Node) bool {
				cl, ok := n.(*ast.CompositeLit)
				if !ok {
					return true
				}
				mt, ok := pk.TypesInfo.TypeOf(cl).Underlying().(*types.Map)
				if !ok {
					return true
				}
				if nn, ok := mt.Elem().(*types.Named); !ok || nn.Obj().Name() != "XFunc" {
					return true
				}
				for _, e := range cl.Elts {
					kv := e.(*ast.KeyValueExpr)
					nEntries++
					var id *ast.Ident
					switch v := kv.Value.(type) {
					case *ast.Ident:
						id = v
					case *ast.SelectorExpr:
						id = v.Sel
					}
					if id == nil {
						continue
					}
					if fo, ok := pk.TypesInfo.Uses[id].(*types.Func); ok {
						if sf := p.SSA.FuncValue(fo); sf != nil {
							out = append(out, sf)
						}
					}
				}
				return true
			})
		}
	}
	r.Require("registered_xfuncs", nEntries, 115)
	return out
}

// ------------------------------------------------------------------------------------------------------ R4

// frozen table: unchecked assertions that are guarded by an invariant the rule cannot see locally
var c04AssertAllowed = map[string]string{
	"excellent/functions.Sort/(excellent/types.XComparable)#1": "the loop above returns an error value unless every element asserts to XComparable and is SameType as the first element",
	"(*excellent.visitor).VisitAnonFunction/([]string)#1":      "ctx.NameList() is visited by VisitNameList, which returns []string on every path",
	"excellent/functions.Sort->Compare":                        "Sort's comparator runs only after the loop above established XComparable and SameType for every element",
}

func c04R4(p *core.Program, r *core.Report, fns []*ssa.Function) {
	uncheckedAsserts(p, r, fns, "R4", c04AssertAllowed, "evaluation code")
}

// uncheckedAsserts enumerates x.(T) without comma-ok in fns and discharges each by a guard idiom or the table.
// fieldAllowed (optional): invariants that belong to a struct field rather than to the function that reads it, keyed
// "<owner type>.<field>/(<asserted type>)" — an assertion on a value loaded from that field (or an element of it) is
// covered wherever it is written, so moving the statement into another function does not lose the listing.
func uncheckedAsserts(p *core.Program, r *core.Report, fns []*ssa.Function, rule string, allowed map[string]string, what string, fieldAllowed ...map[string]string) {
	n := 0
	perFn := map[string]int{}
	for _, fn := range fns {
		if strings.HasPrefix(core.RelPkg(core.FuncPkgPath(fn)), "excellent/gen") {
			continue
		}
		core.EachInstr(fn, false, func(f *ssa.Function, in ssa.Instruction) {
			ta, ok := in.(*ssa.TypeAssert)
			if !ok || ta.CommaOk {
				return
			}
			// type switches lower to comma-ok asserts; only x.(T) forms remain here
			if _, isIface := ta.AssertedType.Underlying().(*types.Interface); isIface {
				// interface-to-interface conversion can also panic
			}
			n++
			base := core.FuncName(rootFn(f))
			perFn[base]++
			key := fmt.Sprintf("%s/(%s)#%d", base, core.ShortType(ta.AssertedType), perFn[base])
			if g := typeGuard(ta); g != "" {
				r.OK(rule, key, p.Pos(ta.Pos()), "guarded: "+g)
				return
			}
			if is, bad := sameTypeMethodAssert(p, ta); is {
				r.Check(bad == "", rule, key, p.Pos(ta.Pos()), "every call site passes the receiver's own type or is guarded by a dynamic type-equality test", bad)
				return
			}
			if reason, ok := allowed[key]; ok {
				r.OK(rule, key, p.Pos(ta.Pos()), "listed: "+reason)
				return
			}
			// generalised: an invariant listed for the field the asserted value is read from
			if owner, fld := assertedFieldOrigin(ta.X); fld != "" {
				fk := fmt.Sprintf("%s.%s/(%s)", owner, fld, core.ShortType(ta.AssertedType))
				for _, fa := range fieldAllowed {
					if reason, ok := fa[fk]; ok {
						r.OK(rule, key, p.Pos(ta.Pos()), "listed by field "+fk+": "+reason)
						return
					}
				}
			}
			r.Bad(rule, key, p.Pos(ta.Pos()), "unchecked type assertion on "+core.ShortType(ta.X.Type())+" in "+what+": a value of another dynamic type panics")
		})
	}
	r.Count("unchecked_type_assertions_"+rule, n)
}

// assertedFieldOrigin: v is the value loaded from a struct field, or an element of a slice/array loaded from one
// (f.fld, f.fld[i], the element variable of `range f.fld`): the owner type and field name, else "", "".
func assertedFieldOrigin(v ssa.Value) (string, string) {
	ld, ok := v.(*ssa.UnOp)
	if !ok || ld.Op != token.MUL {
		return "", ""
	}
	addr := ld.X
	if ia, ok := addr.(*ssa.IndexAddr); ok {
		l2, ok := ia.X.(*ssa.UnOp)
		if !ok || l2.Op != token.MUL {
			return "", ""
		}
		addr = l2.X
	}
	return ownerOfFieldAddr(addr)
}

// typeGuard: the asserted value was tested by a dominating comma-ok assertion / type switch arm to the same type.
func typeGuard(ta *ssa.TypeAssert) string {
	for _, ce := range core.ControllingConds(ta.Block()) {
		if !ce.Taken {
			continue
		}
		ex, ok := ce.Cond.(*ssa.Extract)
		if !ok || ex.Index != 1 {
			continue
		}
		t2, ok := ex.Tuple.(*ssa.TypeAssert)
		if !ok {
			continue
		}
		if t2.X == ta.X && types.Identical(t2.AssertedType, ta.AssertedType) {
			return "comma-ok test on the same value"
		}
	}
	// if IsXError(x) { x.(*XError) } / x.(error)
	for _, ce := range core.ControllingConds(ta.Block()) {
		if !ce.Taken {
			continue
		}
		if c, ok := ce.Cond.(*ssa.Call); ok {
			if o := core.CalleeObj(&c.Call); o != nil && core.ObjName(o) == "excellent/types.IsXError" && len(c.Call.Args) == 1 && c.Call.Args[0] == ta.X {
				at := core.ShortType(ta.AssertedType)
				if at == "*excellent/types.XError" || at == "error" {
					return "types.IsXError on the same value"
				}
			}
		}
	}
	return ""
}

// sameTypeMethodAssert: `o.(*T)` on the parameter of (T).Equals / (T).Compare. The obligation moves to the call
// sites of the method: the argument is statically a *T, or the call is guarded by a dynamic type-equality test.
func sameTypeMethodAssert(p *core.Program, ta *ssa.TypeAssert) (bool, string) {
	fn := ta.Parent()
	if fn.Signature.Recv() == nil || (fn.Name() != "Equals" && fn.Name() != "Compare") || len(fn.Params) != 2 {
		return false, ""
	}
	if ta.X != ssa.Value(fn.Params[1]) || !types.Identical(ta.AssertedType, fn.Signature.Recv().Type()) {
		return false, ""
	}
	n := 0
	for _, cs := range p.CallsTo(fn) {
		if p.IsTestFile(cs.Pos()) {
			continue
		}
		n++
		cc := cs.Common()
		arg := cc.Args[len(cc.Args)-1]
		if mi, ok := arg.(*ssa.MakeInterface); ok && types.Identical(mi.X.Type(), fn.Signature.Recv().Type()) {
			continue
		}
		if types.Identical(arg.Type(), fn.Signature.Recv().Type()) {
			continue
		}
		// dynamic dispatch: require a SameType / reflect.TypeOf guard in the caller
		guarded := false
		for _, ce := range core.ControllingConds(cs.Instr.Block()) {
			for x := range core.BackSlice(ce.Cond, func(*ssa.Call) bool { return true }) {
				if c, ok := x.(*ssa.Call); ok {
					if o := core.CalleeObj(&c.Call); o != nil && (core.ObjName(o) == "reflect.TypeOf" || core.ObjName(o) == "excellent/types.SameType") {
						guarded = true
					}
				}
			}
		}
		if guarded {
			continue
		}
		if reason, ok := c04AssertAllowed[core.FuncName(rootFn(cs.Caller))+"->"+fn.Name()]; ok {
			_ = reason
			continue
		}
		return true, fmt.Sprintf("call at %s passes a value whose dynamic type is not known to be %s and has no SameType guard", p.Pos(cs.Pos()), core.ShortType(fn.Signature.Recv().Type()))
	}
	return true, ""
}

// ------------------------------------------------------------------------------------------------------ R5

// frozen table: constant-offset string slicing sites that are safe for a reason the guard matcher cannot see
var c04SliceAllowed = map[string]string{}

func c04R5(p *core.Program, r *core.Report, fns []*ssa.Function, rule string, allowed map[string]string) int {
	n := 0
	per := map[string]int{}
	for _, fn := range fns {
		for _, site := range constOffsetSites(fn) {
			n++
			base := core.FuncName(rootFn(fn))
			k := base + "/" + site.expr
			per[k]++
			key := k
			if per[k] > 1 {
				key = fmt.Sprintf("%s#%d", k, per[k])
			}
			if g := lengthGuard(site); g != "" {
				r.OK(rule, key, p.Pos(site.instr.Pos()), "guarded: "+g)
				continue
			}
			if lb, why := tokenTextFor(p).lowerBound(site.base, 0); lb >= site.need {
				r.OK(rule, key, p.Pos(site.instr.Pos()), fmt.Sprintf("len >= %d: %s", lb, why))
				continue
			}
			installRegexpResolver(p)
			if lb, why := sliceLenLB(site.instr.Block(), site.base); lb >= site.need {
				r.OK(rule, key, p.Pos(site.instr.Pos()), fmt.Sprintf("len >= %d: %s", lb, why))
				continue
			}
			if reason, ok := allowed[key]; ok {
				r.OK(rule, key, p.Pos(site.instr.Pos()), "listed: "+reason)
				continue
			}
			r.Bad(rule, key, p.Pos(site.instr.Pos()), fmt.Sprintf("%s%s needs len >= %d but no controlling condition establishes it: slice bounds out of range panic on a shorter value", canon(site.base), site.expr, site.need))
		}
	}
	return n
}

// frozen table for R6
var c04IndexAllowed = map[string]string{
	"excellent/tools.FindContextRefsInTemplate/p[0]": "the callback is only invoked by ContextReference/DotLookup visiting in excellent.Parse with the path of a context reference, which starts with the top-level name (never empty)",
}

func constIndexRule(p *core.Program, r *core.Report, fns []*ssa.Function, rule string, allowed map[string]string, skipArgs bool) int {
	installRegexpResolver(p)
	tokenTextFor(p)
	n := 0
	per := map[string]int{}
	for _, fn := range fns {
		args := sliceParam(fn)
		for _, site := range constIndexSites(fn) {
			if skipArgs && args != nil && site.base == ssa.Value(args) {
				continue
			}
			n++
			k := core.FuncName(rootFn(fn)) + "/" + canonShort(site.base) + site.expr
			per[k]++
			key := k
			if per[k] > 1 {
				key = fmt.Sprintf("%s#%d", k, per[k])
			}
			lb, why := sliceLenLB(site.instr.Block(), site.base)
			if lb >= site.need {
				r.OK(rule, key, p.Pos(site.instr.Pos()), fmt.Sprintf("len >= %d (%s)", lb, why))
				continue
			}
			if reason, ok := allowed[key]; ok {
				r.OK(rule, key, p.Pos(site.instr.Pos()), "listed: "+reason)
				continue
			}
			r.Bad(rule, key, p.Pos(site.instr.Pos()), fmt.Sprintf("%s%s needs len >= %d but only len >= %d is established on every path: index out of range panic", canonShort(site.base), site.expr, site.need, lb))
		}
	}
	return n
}

func canonShort(v ssa.Value) string {
	s := canon(v)
	if rs := []rune(s); len(rs) > 60 {
		s = string(rs[:60]) + "…"
	}
	return s
}

// c04VarIndexAllowed: computed indexes the generic idioms do not prove, each confirmed by reading. key as reported.
var c04VarIndexAllowed = map[string]string{
	"excellent/functions.Object/index#3":             "pairs[i+1] in a loop `for i := 0; i < len(pairs); i += 2` entered only when len(pairs)%2 == 0 (the odd case returns an error just above): i is even and below an even length, so i+1 is below it too",
	"excellent/functions.RemoveFirstWord/low#1":      "s[w1Start+len(words[0]):] where words = extractWords(s): every word is a substring of s, so strings.Index finds it (>= 0) and the end of the match is at most len(s); len(words) >= 2 is tested above",
	"excellent/functions.RemoveFirstWord/low#2":      "s[w2Start:] where w2Start = strings.Index(rest, words[1]) and words[1] follows words[0] in s: found, so 0 <= w2Start <= len(rest)",
	"excellent/functions.ReadChars/low#1":            "val.Native()[i:i+3] with i a multiple of 3 below length, length%3 == 0 and length = the number of runes, which never exceeds the number of bytes: 0 <= i < i+3 <= length <= len(bytes)",
	"excellent/functions.ReadChars/high#1":           "same slice as low#1: i+3 <= length (runes) <= len (bytes)",
	"excellent/functions.ReadChars/low#2":            "val.Native()[i:i+4] in the length%4 == 0 loop: as low#1 with 4",
	"excellent/functions.ReadChars/high#2":           "same slice as low#2",
	"(*excellent.xinput).read/index#1":               "unreadRunes[unreadCount-1] under unreadCount > 0; unreadCount never exceeds the 4 slots (see unread)",
	"(*excellent.xinput).unread/index#1":             "unreadRunes has 4 slots and the scanner pushes back at most two runes between reads (scanBody: the character after '@' and the '@'; C12/R2 evaluates every such case): 0 <= unreadCount <= 2 < 4",
	"(*excellent.ErrorListener).SyntaxError/index#1": "lines[line-1]: ANTLR reports the 1-based line of a token of the very text it was given, and counts lines by the same '\\n' the text is split on",
	"(*excellent.ErrorListener).SyntaxError/low#1":   "lineOfError[column:…]: ANTLR's column is a 0-based offset inside that line (at most its length, at end of input)",
	"(*excellent.ErrorListener).SyntaxError/high#1":  "min(column+10, len(lineOfError)) with column >= 0 from ANTLR: between column and the length",
	"flows/routers/cases.hasPhraseTest/index#2":      "pins[pinIdx]: pinIdx starts at 0 with len(pins) > 0 (tested first), is reset to 0 or incremented, and the loop breaks as soon as it reaches len(pins)",
	"flows/routers/cases.hasPhraseTest/index#3":      "matches[pinIdx] with matches = make(len(pins)) and the same pinIdx < len(pins) invariant as index#1",
}

func varIndexRule(p *core.Program, r *core.Report, fns []*ssa.Function, rule string, allowed map[string]string) int {
	tokenTextFor(p)
	n := 0
	per := map[string]int{}
	fwd := forwardedIndexParams(fns)
	report := func(fn *ssa.Function, site varIdxSite, label string) {
		n++
		// keyed by function, kind of use and ordinal in source order: stable under renamings and SSA renumbering
		what := site.kind
		if site.measured != "" {
			what = "forwarded-" + site.kind
		}
		k := core.FuncName(rootFn(fn)) + "/" + what
		per[k]++
		key := fmt.Sprintf("%s#%d", k, per[k])
		miss, why := decideVarIdx(site)
		if miss == "" {
			r.OK(rule, key, p.Pos(site.instr.Pos()), label+" in range: "+why)
			return
		}
		if reason, ok := allowed[key]; ok {
			r.OK(rule, key, p.Pos(site.instr.Pos()), "listed: "+reason)
			return
		}
		r.Bad(rule, key, p.Pos(site.instr.Pos()), label+": the computed "+site.kind+" is "+miss+" on every path: an out-of-range value panics the evaluation")
	}
	for _, fn := range fns {
		sites := varIndexSites(fn)
		sort.SliceStable(sites, func(i, j int) bool { return sites[i].instr.Pos() < sites[j].instr.Pos() })
		for _, site := range sites {
			if f, ok := fwd[fn]; ok && (site.idx == ssa.Value(fn.Params[f.param]) || forwardedParam(site) == fn.Params[f.param]) {
				r.OK(rule, core.FuncName(fn)+"/forwards-index", p.Pos(site.instr.Pos()), "indexes "+f.measured+" with its parameter unchecked: decided at each call site")
				continue
			}
			report(fn, site, canonShort(site.base)+"["+site.kind+" "+canonShort(site.idx)+"]")
		}
		// calls of index-forwarding functions are index sites of the caller
		for _, cs := range core.Calls(fn, false) {
			callee := cs.Common().StaticCallee()
			f, ok := fwd[callee]
			if !ok || f.param >= len(cs.Common().Args) {
				continue
			}
			idx := cs.Common().Args[f.param]
			measured := strings.ReplaceAll(f.measured, "recv", canon(cs.Common().Args[0]))
			if k, isC := core.ConstInt(idx); isC {
				// a constant index: the dominating conditions must give the length a lower bound above it
				var lb int64
				for _, ce := range core.ControllingConds(cs.Instr.Block()) {
					bo, ok := ce.Cond.(*ssa.BinOp)
					if !ok {
						continue
					}
					c, isConst := core.ConstInt(bo.Y)
					if !isConst || lenExpr(bo.X) != measured {
						continue
					}
					switch {
					case (bo.Op == token.LSS && !ce.Taken) || (bo.Op == token.GEQ && ce.Taken) || (bo.Op == token.EQL && ce.Taken):
						lb = max(lb, c)
					case (bo.Op == token.LEQ && !ce.Taken) || (bo.Op == token.GTR && ce.Taken):
						lb = max(lb, c+1)
					case (bo.Op == token.EQL && !ce.Taken && c == 0) || (bo.Op == token.NEQ && ce.Taken && c == 0):
						lb = max(lb, 1)
					}
				}
				n++
				key := core.FuncName(rootFn(fn)) + "/" + callee.Name() + "(" + canonShort(cs.Common().Args[0]) + ", " + fmt.Sprint(k) + ")"
				if reason, ok := allowed[key]; ok {
					r.OK(rule, key, p.Pos(cs.Pos()), "listed: "+reason)
				} else {
					r.Check(k >= 0 && lb >= k+1, rule, key, p.Pos(cs.Pos()), fmt.Sprintf("length >= %d on every path", lb),
						fmt.Sprintf("element %d is read although only length >= %d is established on every path: an out-of-range value panics the evaluation", k, lb))
				}
				continue
			}
			site := varIdxSite{fn: fn, instr: cs.Instr, base: cs.Common().Args[0], idx: idx, kind: "index", measured: measured}
			report(fn, site, callee.Name()+"("+canonShort(cs.Common().Args[0])+", "+canonShort(idx)+")")
		}
	}
	return n
}

// ---------------------------------------------------------------------------------------------- R9

var c04DefaultAllowed = map[string]string{
	"(*excellent/types.XObject).Equals/Default":   "under hasDefault() of either object; Equals is only used by tests, and the recursion descends into x's default (a different object) or compares two different types",
	"(*excellent/types.XObject).Equals/Default#2": "see the first: other.Default() is compared, not converted",
}

func c04R9(p *core.Program, r *core.Report) {
	def := p.Method("excellent/types", "XObject", "Default")
	has := p.Method("excellent/types", "XObject", "hasDefault")
	if def == nil || has == nil {
		r.Errorf("XObject.Default / hasDefault not found")
		return
	}
	n := 0
	per := map[string]int{}
	for _, cs := range p.CallsTo(def) {
		if p.IsTestFile(cs.Pos()) || cs.Caller == has || cs.Common().IsInvoke() {
			continue
		}
		n++
		k := core.FuncName(rootFn(cs.Caller)) + "/Default"
		per[k]++
		key := k
		if per[k] > 1 {
			key = fmt.Sprintf("%s#%d", k, per[k])
		}
		recv := cs.Common().Args[0]
		guarded := false
		for _, ce := range core.ControllingConds(cs.Instr.Block()) {
			c, ok := ce.Cond.(*ssa.Call)
			if ok && ce.Taken && c.Call.StaticCallee() == has && (c.Call.Args[0] == recv || canon(c.Call.Args[0]) == canon(recv)) {
				guarded = true
			}
		}
		if guarded {
			r.OK("R9", key, p.Pos(cs.Pos()), "under hasDefault() of the same object")
			continue
		}
		// hasDefault() written out: the result is compared with the object itself and used only where they differ
		if call, ok := cs.Instr.(*ssa.Call); ok && call.Referrers() != nil {
			isSelf := func(v ssa.Value) bool {
				v = core.StripConv(v)
				if mi, ok := v.(*ssa.MakeInterface); ok {
					v = mi.X
				}
				return v == recv || canon(v) == canon(recv)
			}
			differs := func(b *ssa.BasicBlock) bool {
				for _, ce := range core.ControllingConds(b) {
					bo, ok := ce.Cond.(*ssa.BinOp)
					if !ok || (bo.Op != token.NEQ && bo.Op != token.EQL) {
						continue
					}
					if (bo.X == ssa.Value(call) && isSelf(bo.Y)) || (bo.Y == ssa.Value(call) && isSelf(bo.X)) {
						if (bo.Op == token.NEQ) == ce.Taken {
							return true
						}
					}
				}
				return false
			}
			allOK, nUse := true, 0
			for _, ref := range *call.Referrers() {
				if bo, ok := ref.(*ssa.BinOp); ok && (bo.Op == token.NEQ || bo.Op == token.EQL) {
					continue
				}
				if _, ok := ref.(*ssa.DebugRef); ok {
					continue
				}
				nUse++
				if !differs(ref.Block()) {
					allOK = false
				}
			}
			if allOK && nUse > 0 {
				r.OK("R9", key, p.Pos(cs.Pos()), "the result is used only where it differs from the object itself (hasDefault written out)")
				continue
			}
		}
		if reason, ok := c04DefaultAllowed[key]; ok {
			r.OK("R9", key, p.Pos(cs.Pos()), "listed: "+reason)
			continue
		}
		r.Bad("R9", key, p.Pos(cs.Pos()), "Default() of "+canonShort(recv)+" is used without a hasDefault() test on it: for an object without a default this is the object itself, and converting or rendering it again recurses without end (fatal stack overflow, not an error value)")
	}
	r.Require("xobject_default_calls", n, 4)
}

// ---------------------------------------------------------------------------------------------- R10

// c04R10: module-wide. A MakeInterface whose operand is a pointer that is the nil constant on some incoming edge of
// a phi (transitively) — unless that MakeInterface is itself controlled by a non-nil test of the pointer.
func c04R10(p *core.Program, r *core.Report) {
	n := 0
	for _, fn := range p.ModuleFunctions() {
		if fn.Synthetic != "" || strings.HasPrefix(core.RelPkg(core.FuncPkgPath(fn)), "antlr/gen") {
			continue // generated parsers hand a nil context to predicates that type-assert it, never nil-test it
		}
		for _, b := range fn.Blocks {
			for _, ins := range b.Instrs {
				mi, ok := ins.(*ssa.MakeInterface)
				if !ok {
					continue
				}
				if _, isPtr := mi.X.Type().Underlying().(*types.Pointer); !isPtr {
					continue
				}
				n++
				mayNil := false
				seen := map[ssa.Value]bool{}
				var walk func(v ssa.Value)
				walk = func(v ssa.Value) {
					if seen[v] {
						return
					}
					seen[v] = true
					switch x := v.(type) {
					case *ssa.Phi:
						for _, e := range x.Edges {
							walk(e)
						}
					case *ssa.Const:
						if x.IsNil() {
							mayNil = true
						}
					}
				}
				if _, isPhi := mi.X.(*ssa.Phi); !isPhi {
					continue
				}
				walk(mi.X)
				if !mayNil {
					continue
				}
				guarded := xNilGuard(mi.Block(), mi.X) != ""
				if !guarded && c04ConsumersReflectNil(mi) {
					guarded = true
				}
				key := core.FuncName(fn) + "/" + strings.TrimPrefix(mi.X.Type().String(), "*github.com/nyaruka/goflow/") + "->" + types.TypeString(mi.Type(), func(*types.Package) string { return "" })
				pos := mi.Pos()
				if !pos.IsValid() {
					pos = fn.Pos()
				}
				r.Check(guarded, "R10", key, p.Pos(pos), "the pointer is tested non-nil before it is converted", "a pointer that is nil on some path is converted to interface "+mi.Type().String()+": the interface is then not nil, nil guards on it pass and a method call on it dereferences nil")
			}
		}
	}
	r.Count("pointer_to_interface_conversions", n)
	r.Require("pointer_to_interface_conversions", n, 100)
}

// c04ConsumersReflectNil: the interface value is only handed to functions that test that parameter with the
// reflection-based utils.IsNil (which sees a nil pointer inside an interface) before using it.
func c04ConsumersReflectNil(mi *ssa.MakeInterface) bool {
	refs := mi.Referrers()
	if refs == nil || len(*refs) == 0 {
		return false
	}
	for _, ref := range *refs {
		if _, isDbg := ref.(*ssa.DebugRef); isDbg {
			continue
		}
		call, ok := ref.(ssa.CallInstruction)
		if !ok {
			return false
		}
		callee := call.Common().StaticCallee()
		if callee == nil || len(callee.Blocks) == 0 {
			return false
		}
		for i, a := range call.Common().Args {
			if a != ssa.Value(mi) {
				continue
			}
			if i >= len(callee.Params) {
				return false
			}
			par := callee.Params[i]
			tested := false
			for _, cs := range core.Calls(callee, false) {
				if o := core.CalleeObj(cs.Common()); o != nil && (strings.HasSuffix(core.ObjName(o), "utils.IsNil") || core.ObjName(o) == "reflect.ValueOf") && len(cs.Common().Args) == 1 {
					a0 := cs.Common().Args[0]
					if ci, ok := a0.(*ssa.ChangeInterface); ok {
						a0 = ci.X
					}
					if ld, ok := a0.(*ssa.UnOp); ok && ld.Op == token.MUL {
						if al, ok := ld.X.(*ssa.Alloc); ok { // a parameter a closure captures is spilled to a cell
							for _, r2 := range *al.Referrers() {
								if st, ok := r2.(*ssa.Store); ok && st.Addr == ssa.Value(al) && st.Val == ssa.Value(par) {
									a0 = par
								}
							}
						}
					}
					if a0 == ssa.Value(par) {
						tested = true
					}
				}
			}
			if !tested {
				return false
			}
		}
	}
	return true
}

// ---------------------------------------------------------------------------------------------- R11

func c04R11(p *core.Program, r *core.Report) {
	scan := p.Method("excellent", "xscanner", "Scan")
	body := p.Method("excellent", "xscanner", "scanBody")
	if scan == nil || body == nil {
		r.Errorf("xscanner.Scan / scanBody not found")
		return
	}
	// a test of one rune: `x == 'c'` or pred(x) with pred a func(rune) bool of the package
	testOf := func(cond ssa.Value) string {
		switch c := cond.(type) {
		case *ssa.BinOp:
			if c.Op == token.EQL {
				if k, ok := core.ConstInt(c.Y); ok {
					return fmt.Sprintf("== %q", rune(k))
				}
				if k, ok := core.ConstInt(c.X); ok {
					return fmt.Sprintf("== %q", rune(k))
				}
			}
		case *ssa.Call:
			if g := c.Call.StaticCallee(); g != nil && len(c.Call.Args) == 1 && core.FuncPkgPath(g) == core.FuncPkgPath(scan) {
				if bt, ok := c.Call.Args[0].Type().Underlying().(*types.Basic); ok && bt.Kind() == types.Int32 {
					return g.Name() + "(…)"
				}
			}
		}
		return ""
	}
	callsIn := func(b *ssa.BasicBlock, pred func(c *ssa.CallCommon) bool) bool {
		for _, in := range b.Instrs {
			if ci, ok := in.(ssa.CallInstruction); ok && pred(ci.Common()) {
				return true
			}
		}
		return false
	}
	var unreadsAt func(c *ssa.CallCommon) bool
	unreadsAtDepth := 0
	unreadsAt = func(c *ssa.CallCommon) bool {
		g := c.StaticCallee()
		if g == nil {
			return false
		}
		if g.Name() == "unread" && len(c.Args) > 0 {
			k, ok := core.ConstInt(c.Args[len(c.Args)-1])
			return ok && k == '@'
		}
		// a helper of the scanner that pushes the `@` back
		if unreadsAtDepth < 2 && len(g.Blocks) > 0 && core.FuncPkgPath(g) == core.FuncPkgPath(scan) && g != body && g != scan {
			unreadsAtDepth++
			defer func() { unreadsAtDepth-- }()
			for _, cs := range core.Calls(g, false) {
				if unreadsAt(cs.Common()) {
					return true
				}
			}
		}
		return false
	}
	stops, dispatches := map[string]bool{}, map[string]bool{}
	for _, fn := range []*ssa.Function{body, scan} {
		core.EachInstr(fn, false, func(_ *ssa.Function, in ssa.Instruction) {
			iff, ok := in.(*ssa.If)
			if !ok {
				return
			}
			t := testOf(iff.Cond)
			if t == "" {
				return
			}
			target := iff.Block().Succs[0]
			if fn == body {
				if callsIn(target, unreadsAt) {
					stops[t] = true
				}
				return
			}
			// in Scan: the arm hands over to another reader of the scanner (and not back to scanBody)
			other := callsIn(target, func(c *ssa.CallCommon) bool {
				g := c.StaticCallee()
				return g != nil && g != body && g != scan && recvNamed(g) != nil && recvNamed(g) == recvNamed(scan) && strings.HasPrefix(g.Name(), "scan")
			})
			if other && !callsIn(target, func(c *ssa.CallCommon) bool { return c.StaticCallee() == body }) {
				dispatches[t] = true
			}
		})
	}
	r.Count("scanner_stop_tests", len(stops))
	r.Count("scanner_dispatch_tests", len(dispatches))
	if len(stops) == 0 || len(dispatches) == 0 {
		r.Unknown("R11", "xscanner/stop-and-dispatch-tests", p.Pos(scan.Pos()), fmt.Sprintf("the tests were not recognised (scanBody stops on %d, Scan dispatches on %d): written in a form this rule does not read", len(stops), len(dispatches)))
		return
	}
	a, b := strings.Join(core.SortedKeys(stops), ", "), strings.Join(core.SortedKeys(dispatches), ", ")
	r.Check(a == b, "R11", "xscanner/scanBody-stops-where-Scan-dispatches", p.Pos(scan.Pos()), "both on: "+a, "scanBody ends the body in front of an `@` followed by a character with ["+a+"] but Scan hands over to another reader only for ["+b+"]: for a character in the difference Scan and scanBody pass the same input back and forth without consuming it — template evaluation does not return")
}
