package rules

import "go/constant"

func constInt64(v constant.Value) (int64, bool) {
	if v == nil {
		return 0, false
	}
	if v.Kind() != constant.Int {
		v = constant.ToInt(v)
		if v.Kind() != constant.Int {
			return 0, false
		}
	}
	return constant.Int64Val(v)
}
