package rules

import (
	"fmt"
	"go/token"
	"go/types"
	"sort"
	"strings"

	"golang.org/x/tools/go/ssa"

	"verif/checker/core"
)

func init() { register("C06", checkC06) }

// Interprocedural dirty/clean analysis.
//   dirty  = a queryable contact property may have changed since the last re-evaluation of query-based groups
//   clean  = Contact.ReevaluateQueryBasedGroups has run since
// A function is "dirty at exit" (for a given set of parameters known to be nil) when some feasible path from its entry
// to a return leaves the state dirty. Calls of Modifier.Apply are conditionally dirty: dirty exactly when their boolean
// result is true (C03/R2 decides that the flag is truthful), so the `if modified { ReevaluateGroups }` idiom balances.

var c06DirtyCallees = map[string]bool{
	"flows.Contact.SetName": true, "flows.Contact.SetLanguage": true, "flows.Contact.SetStatus": true, "flows.Contact.SetTimezone": true,
	"flows.Contact.SetTicket": true, "flows.Contact.ClearURNs": true, "flows.Contact.AddURN": true, "flows.Contact.RemoveURN": true,
	"flows.Contact.UpdatePreferredChannel": true, "flows.ContactURN.SetChannel": true, "flows.FieldValues.Set": true,
	"flows.Contact.SetLastSeenOn": true,
}

type dcState struct {
	reach   bool
	dirty   bool
	pending ssa.Value // result of a conditional-dirty call not yet branched on
	pre     bool      // dirtiness before that call
	why     string
	roots   string // sorted, comma-separated roots (param:i / free / global) of the objects dirtied so far
}

func addRoots(cur string, more map[string]bool) string {
	set := map[string]bool{}
	for _, x := range strings.Split(cur, ",") {
		if x != "" {
			set[x] = true
		}
	}
	for k := range more {
		set[k] = true
	}
	return strings.Join(core.SortedKeys(set), ",")
}

func rootSet(cur string) map[string]bool {
	set := map[string]bool{}
	for _, x := range strings.Split(cur, ",") {
		if x != "" {
			set[x] = true
		}
	}
	return set
}

func (a dcState) join(b dcState) dcState {
	if !a.reach {
		return b
	}
	if !b.reach {
		return a
	}
	out := dcState{reach: true}
	ad, bd := a.dirty || a.pending != nil, b.dirty || b.pending != nil
	out.dirty = ad || bd
	out.roots = addRoots(a.roots, rootSet(b.roots))
	if ad {
		out.why = a.why
	} else {
		out.why = b.why
	}
	if a.pending != nil && a.pending == b.pending && a.pre == b.pre && a.dirty == b.dirty {
		out.pending, out.pre, out.dirty = a.pending, a.pre, a.dirty
	}
	return out
}

func (a dcState) eq(b dcState) bool {
	return a.reach == b.reach && a.dirty == b.dirty && a.pending == b.pending && a.pre == b.pre && a.roots == b.roots
}

type dcCtx struct {
	p     *core.Program
	memo  map[string]*dcSummary
	busy  map[string]bool
	clean *ssa.Function
	// entry points analysed with the contact assumed out of date on entry (value = why)
	initialDirty map[*ssa.Function]string
}

type dcSummary struct {
	dirtyAtExit bool   // on some path to a return with a nil (or no) error result
	why         string // example
	roots       string // through which of its parameters / captured variables / globals the dirtied contact is reached
	mustClean   bool   // every path to a return performs a re-evaluation (or has no contact) and ends clean
}

func nilMaskKey(fn *ssa.Function, nilParams map[int]bool) string {
	var ks []int
	for k := range nilParams {
		ks = append(ks, k)
	}
	sort.Ints(ks)
	return fmt.Sprintf("%p%v", fn, ks)
}

// knownNil: v is nil given the parameters known to be nil.
func knownNil(v ssa.Value, fn *ssa.Function, nilParams map[int]bool, seen map[ssa.Value]bool) bool {
	if seen[v] {
		return true // a cycle of phis that only ever carries nil
	}
	seen[v] = true
	switch x := v.(type) {
	case *ssa.Const:
		return x.Value == nil && pointerish(x.Type())
	case *ssa.Parameter:
		for i, prm := range fn.Params {
			if prm == x {
				return nilParams[i]
			}
		}
	case *ssa.Phi:
		for _, e := range x.Edges {
			if !knownNil(e, fn, nilParams, seen) {
				return false
			}
		}
		return true
	case *ssa.MakeInterface, *ssa.ChangeInterface:
		return false
	}
	return false
}

func (c *dcCtx) analyse(fn *ssa.Function, nilParams map[int]bool, depth int) *dcSummary {
	if fn == nil || fn.Blocks == nil {
		return &dcSummary{}
	}
	key := nilMaskKey(fn, nilParams)
	if s, ok := c.memo[key]; ok {
		return s
	}
	if c.busy[key] || depth > 25 {
		return &dcSummary{}
	}
	c.busy[key] = true
	defer delete(c.busy, key)

	in := map[*ssa.BasicBlock]dcState{}
	out := map[*ssa.BasicBlock]dcState{}
	in[fn.Blocks[0]] = dcState{reach: true}
	if why, ok := c.initialDirty[fn]; ok && depth == 0 {
		in[fn.Blocks[0]] = dcState{reach: true, dirty: true, why: why, roots: addRoots("", map[string]bool{"param:0": true})}
	}

	transfer := func(st dcState, instr ssa.Instruction) dcState {
		ci, ok := instr.(ssa.CallInstruction)
		if !ok || !st.reach {
			return st
		}
		cc := ci.Common()
		// resolve callees
		var callees []*ssa.Function
		condDirty := false
		if f := cc.StaticCallee(); f != nil {
			callees = append(callees, f)
		} else if mc, ok := cc.Value.(*ssa.MakeClosure); ok {
			callees = append(callees, mc.Fn.(*ssa.Function))
		} else if cc.IsInvoke() {
			if cc.Method.Name() == "Apply" && strings.HasSuffix(core.ShortType(cc.Value.Type()), "flows.Modifier") {
				condDirty = true
			}
			if n := c.p.CHA().Nodes[fn]; n != nil {
				for _, e := range n.Out {
					if e.Site == ci && core.InModule(core.FuncPkgPath(e.Callee.Func)) {
						callees = append(callees, e.Callee.Func)
					}
				}
			}
		}
		// direct events
		if o := core.CalleeObj(cc); o != nil {
			name := core.ObjName(o)
			if c06DirtyCallees[name] {
				var recv ssa.Value
				if cc.IsInvoke() {
					recv = cc.Value
				} else if len(cc.Args) > 0 {
					recv = cc.Args[0]
				}
				rts := rootsOf(recv, fn)
				if len(rts) == 0 {
					return st // the mutated contact was created here (reader/constructor): not the session's
				}
				st.pending = nil
				st.dirty = true
				st.roots = addRoots(st.roots, rts)
				st.why = name + " at " + c.p.Pos(instr.Pos())
				return st
			}
		}
		for _, f := range callees {
			if f == c.clean {
				return dcState{reach: true}
			}
		}
		if condDirty {
			if v, ok := instr.(ssa.Value); ok {
				pre := st.dirty || st.pending != nil
				// the contact argument of Modifier.Apply(eng, env, sa, contact, log)
				rts := map[string]bool{}
				if len(cc.Args) >= 4 {
					rts = rootsOf(cc.Args[3], fn)
				}
				if len(rts) == 0 && !pre {
					return st
				}
				return dcState{reach: true, dirty: pre, pending: v, pre: pre, why: "Modifier.Apply at " + c.p.Pos(instr.Pos()), roots: addRoots(st.roots, rts)}
			}
		}
		anyDirty, allClean := false, len(callees) > 0
		why := ""
		for _, f := range callees {
			// nil-ness of interface/pointer arguments is passed on
			np := map[int]bool{}
			args := cc.Args
			off := 0
			if cc.IsInvoke() {
				off = 1 // receiver is parameter 0 of the callee
			}
			for i, a := range args {
				if knownNil(a, fn, nilParams, map[ssa.Value]bool{}) {
					np[i+off] = true
				}
			}
			sm := c.analyse(f, np, depth+1)
			if sm.dirtyAtExit {
				// translate the callee's roots into the caller's
				mapped := map[string]bool{}
				full := args
				if cc.IsInvoke() {
					full = append([]ssa.Value{cc.Value}, args...)
				}
				for rt := range rootSet(sm.roots) {
					switch {
					case strings.HasPrefix(rt, "param:"):
						var i int
						fmt.Sscanf(rt, "param:%d", &i)
						if i < len(full) {
							for r2 := range rootsOf(full[i], fn) {
								mapped[r2] = true
							}
						}
					case rt == "free":
						if mc, ok := cc.Value.(*ssa.MakeClosure); ok {
							for _, bnd := range mc.Bindings {
								for r2 := range rootsOf(bnd, fn) {
									mapped[r2] = true
								}
							}
						} else {
							mapped["free"] = true
						}
					default:
						mapped[rt] = true
					}
				}
				if len(mapped) > 0 {
					anyDirty = true
					why = sm.why
					st.roots = addRoots(st.roots, mapped)
				}
			}
			if !sm.mustClean {
				allClean = false
			}
		}
		if anyDirty {
			st.pending = nil
			st.dirty = true
			st.why = why
			return st
		}
		if allClean {
			return dcState{reach: true}
		}
		return st
	}
	_ = rootSet
	edge := func(from *ssa.BasicBlock, k int, st dcState) dcState {
		if !st.reach || len(from.Instrs) == 0 {
			return st
		}
		iff, ok := from.Instrs[len(from.Instrs)-1].(*ssa.If)
		if !ok {
			return st
		}
		taken := k == 0
		// feasibility under nil knowledge
		if bo, ok := iff.Cond.(*ssa.BinOp); ok && (bo.Op == token.EQL || bo.Op == token.NEQ) {
			var other ssa.Value
			if core.IsNilConst(bo.Y) {
				other = bo.X
			} else if core.IsNilConst(bo.X) {
				other = bo.Y
			}
			if other != nil && knownNil(other, fn, nilParams, map[ssa.Value]bool{}) {
				isNilEdge := (bo.Op == token.EQL) == taken
				if !isNilEdge {
					return dcState{} // infeasible
				}
			}
		}
		// changed-flag idiom
		if st.pending != nil {
			cond := iff.Cond
			neg := false
			for {
				u, ok := cond.(*ssa.UnOp)
				if !ok || u.Op != token.NOT {
					break
				}
				neg = !neg
				cond = u.X
			}
			if cond == st.pending {
				flagTrue := taken != neg
				if flagTrue {
					return dcState{reach: true, dirty: true, why: st.why, roots: st.roots}
				}
				return dcState{reach: true, dirty: st.pre, why: st.why, roots: st.roots}
			}
		}
		return st
	}
	for changed, iter := true, 0; changed && iter < 300; iter++ {
		changed = false
		for _, b := range fn.Blocks {
			if b != fn.Blocks[0] {
				acc := dcState{}
				for _, pr := range b.Preds {
					po, ok := out[pr]
					if !ok {
						continue
					}
					for k, s := range pr.Succs {
						if s == b {
							acc = acc.join(edge(pr, k, po))
						}
					}
				}
				if !acc.eq(in[b]) {
					in[b] = acc
					changed = true
				}
			}
			cur := in[b]
			for _, instr := range b.Instrs {
				cur = transfer(cur, instr)
			}
			if old, ok := out[b]; !ok || !old.eq(cur) {
				out[b] = cur
				changed = true
			}
		}
	}
	sm := &dcSummary{mustClean: true}
	nRet := 0
	for _, ret := range core.Returns(fn) {
		st := in[ret.Block()]
		for _, instr := range ret.Block().Instrs {
			st = transfer(st, instr)
		}
		if !st.reach {
			continue
		}
		// returns of a non-nil Go error are not hand-backs
		if ev := errResult(ret); ev != nil && isErrorType(ev.Type()) && !core.IsNilConst(ev) {
			if _, isCall := ev.(*ssa.Call); !isCall {
				if _, isExtract := ev.(*ssa.Extract); !isExtract {
					continue
				}
			}
			// a forwarded callee error: not a hand-back when the return sits on the `err != nil` edge
			nonNil := false
			for _, ce := range core.ControllingConds(ret.Block()) {
				if bo, ok := ce.Cond.(*ssa.BinOp); ok && (bo.Op == token.NEQ || bo.Op == token.EQL) {
					if (bo.X == ev && core.IsNilConst(bo.Y)) || (bo.Y == ev && core.IsNilConst(bo.X)) {
						if (bo.Op == token.NEQ) == ce.Taken {
							nonNil = true
						}
					}
				}
			}
			if nonNil {
				continue
			}
		}
		nRet++
		if st.dirty || st.pending != nil {
			sm.dirtyAtExit = true
			sm.why = st.why
			sm.roots = addRoots(sm.roots, rootSet(st.roots))
			sm.mustClean = false
		}
	}
	// mustClean additionally requires that a re-evaluation happens on every path (or there is no contact)
	if sm.mustClean {
		m := core.ForwardMust(fn, false, func(instr ssa.Instruction, before bool) bool {
			if ci, ok := instr.(ssa.CallInstruction); ok {
				if ci.Common().StaticCallee() == c.clean {
					return true
				}
				if f := ci.Common().StaticCallee(); f != nil && f != fn && core.InModule(core.FuncPkgPath(f)) {
					if s2 := c.memo[nilMaskKey(f, map[int]bool{})]; s2 != nil && s2.mustClean {
						return true
					}
				}
			}
			return before
		}, func(from *ssa.BasicBlock, k int, atEnd bool) bool {
			// `contact == nil` edge: nothing to re-evaluate
			if len(from.Instrs) == 0 {
				return atEnd
			}
			if iff, ok := from.Instrs[len(from.Instrs)-1].(*ssa.If); ok {
				if bo, ok := iff.Cond.(*ssa.BinOp); ok && (core.IsNilConst(bo.X) || core.IsNilConst(bo.Y)) {
					other := bo.X
					if core.IsNilConst(bo.X) {
						other = bo.Y
					}
					if strings.HasSuffix(core.ShortType(other.Type()), "flows.Contact") && ((bo.Op == token.EQL) == (k == 0)) {
						return true
					}
				}
			}
			return atEnd
		})
		for _, ret := range core.Returns(fn) {
			if !m.At(ret) {
				sm.mustClean = false
			}
		}
		if len(core.Returns(fn)) == 0 {
			sm.mustClean = false
		}
	}
	c.memo[key] = sm
	return sm
}

// groupsEventGuard: the contact_groups_changed event built at `event` from the (added, removed) results of `call` may
// be skipped only when BOTH lists are empty: no non-emptiness test of one list may dominate it, and the chain of
// tests leading into it must test both lists (or there is no test at all). Returns "" or what is wrong.
func groupsEventGuard(call *ssa.Call, event ssa.Instruction) string {
	guardBad := ""
	isLenTest := func(cond ssa.Value) (int, bool) {
		bo, ok := cond.(*ssa.BinOp)
		if !ok {
			return 0, false
		}
		for _, side := range []ssa.Value{bo.X, bo.Y} {
			if lc, ok := side.(*ssa.Call); ok {
				if bi, ok := lc.Call.Value.(*ssa.Builtin); ok && bi.Name() == "len" {
					for k := 0; k < 2; k++ {
						if derivesFromExtract(lc.Call.Args[0], call, k) {
							return k, true
						}
					}
				}
			}
		}
		return 0, false
	}
	for _, ce := range core.ControllingConds(event.Block()) {
		if k, ok := isLenTest(ce.Cond); ok {
			guardBad = fmt.Sprintf("the event is built only when %s is non-empty", []string{"added", "removed"}[k])
		}
	}
	tested := map[int]bool{}
	seenB := map[*ssa.BasicBlock]bool{}
	var back func(b *ssa.BasicBlock)
	back = func(b *ssa.BasicBlock) {
		if seenB[b] {
			return
		}
		seenB[b] = true
		for _, pr := range b.Preds {
			iff, ok := pr.Instrs[len(pr.Instrs)-1].(*ssa.If)
			if !ok {
				continue
			}
			if k, ok := isLenTest(iff.Cond); ok {
				tested[k] = true
				back(pr)
			} else if len(tested) == 0 && core.InstrDominates(call, iff) && pr.Succs[0] != pr.Succs[1] {
				guardBad = "the event is also conditional on " + iff.Cond.String()
			}
		}
	}
	back(event.Block())
	if guardBad == "" && len(tested) > 0 && !(tested[0] && tested[1]) {
		guardBad = "only one of the two lists is tested for the event"
	}
	return guardBad
}

func isErrorType(t types.Type) bool {
	n, ok := t.(*types.Named)
	return ok && n.Obj().Name() == "error" && n.Obj().Pkg() == nil
}

// c06R5: query nodes are written only where they are allocated.
func c06R5(p *core.Program, r *core.Report) {
	nStores, bad := 0, map[string]string{}
	for _, fn := range p.ModuleFunctions() {
		if core.RelPkg(core.FuncPkgPath(fn)) != "contactql" || p.IsTestFile(fn.Pos()) || fn.Synthetic != "" {
			continue
		}
		core.EachInstr(fn, false, func(_ *ssa.Function, in ssa.Instruction) {
			st, ok := in.(*ssa.Store)
			if !ok {
				return
			}
			fa, ok := st.Addr.(*ssa.FieldAddr)
			if !ok {
				return
			}
			o, f := ownerOfFieldAddr(fa)
			if o != "contactql.Condition" && o != "contactql.BoolCombination" {
				return
			}
			nStores++
			if _, fresh := fa.X.(*ssa.Alloc); fresh {
				return
			}
			bad[core.FuncName(fn)+"/"+o+"."+f] = p.Pos(st.Pos())
		})
	}
	for _, k := range core.SortedKeys(bad) {
		r.Bad("R5", k+"/query-node-written-after-construction", bad[k], "a field of a shared query node is written outside its construction: what one validation or evaluation stores there (in its own environment) is what every other session reads")
	}
	if len(bad) == 0 {
		r.OK("R5", "query-nodes-written-only-at-construction", "", fmt.Sprintf("%d field stores, all into nodes allocated in the same function", nStores))
	}
	r.Count("query_node_field_stores", nStores)
	r.Require("query_node_field_stores", nStores, 4)
}

func checkC06(p *core.Program, r *core.Report) {
	r.Rule("R1", "dirty/clean balance: the session start, the resume entry and modifiers.Apply never return (without error) on a path where a queryable contact property was changed after the last Contact.ReevaluateQueryBasedGroups (interprocedural may-dataflow; Modifier.Apply is dirty exactly when it returns true; nil-ness of the trigger parameter is propagated)")
	r.Rule("R2", "non-active contacts: ReevaluateGroups collects every non-query group into `removed` before clearing, under status != active; CheckQueryBasedMembership answers false for non-active contacts before evaluating the query")
	r.Rule("R3", "both re-evaluation call sites forward (added, removed) to contact_groups_changed (shared with C03/R5)")
	r.Assumption("the evaluator's answer is the right one (C15); Modifier.Apply's flag is truthful (C03/R2)")

	e := resolveEngine(p, r)
	if e == nil {
		return
	}
	reeval := p.Method("flows", "Contact", "ReevaluateQueryBasedGroups")
	modApply := p.Func("flows/modifiers", "Apply")
	if reeval == nil || modApply == nil {
		r.Errorf("ReevaluateQueryBasedGroups / modifiers.Apply not found")
		return
	}
	ctx := &dcCtx{p: p, memo: map[string]*dcSummary{}, busy: map[string]bool{}, clean: reeval, initialDirty: map[*ssa.Function]string{}}
	// the starting contact's stored membership may already be wrong (the property's quantifier): a new session must
	// re-evaluate on every path to a hand-back even if nothing changes the contact
	ctx.initialDirty[e.start] = "the starting contact's stored membership is not trusted"
	// positive control: the direct mutators are recognised through their call sites
	nDirty := 0
	for _, cs := range p.AllCalls() {
		if o := core.CalleeObj(cs.Common()); o != nil && c06DirtyCallees[core.ObjName(o)] && !p.IsTestFile(cs.Pos()) {
			nDirty++
		}
	}
	r.Require("dirtying_call_sites", nDirty, 6)

	for _, ent := range []struct {
		fn    *ssa.Function
		label string
	}{
		{e.start, "session.start"},
		{e.resume, "session.Resume"},
		{modApply, "modifiers.Apply"},
	} {
		sm := ctx.analyse(ent.fn, map[int]bool{}, 0)
		r.Check(!sm.dirtyAtExit, "R1", ent.label+"/clean-at-hand-back", p.Pos(ent.fn.Pos()), "every non-error return is reached with groups re-evaluated after the last contact change",
			"a path hands the contact back with a queryable property changed after the last group re-evaluation: "+sm.why)
	}
	// R1 treats Modifier.Apply as "changed exactly when it returns true"; that is C03/R2's `mutated=>true`, decided per
	// implementation by the same path engine, and carried over here as an obligation of this property
	sub := core.NewReport("C03", r.Tier)
	checkC03(p, sub)
	nImpl := 0
	for _, ob := range sub.Obs {
		if ob.Rule != "R2" || !strings.HasSuffix(ob.Key, "/mutated=>true") {
			continue
		}
		nImpl++
		construct := strings.TrimSuffix(strings.TrimPrefix(ob.Key, "C03/R2/"), "/mutated=>true") + "/changed-implies-true"
		switch ob.Status {
		case core.Discharged:
			r.OK("R1", construct, ob.Pos, "returns true on every path that changed the contact (so modifiers.Apply re-evaluates)")
		case core.Undecided:
			r.Unknown("R1", construct, ob.Pos, ob.Detail)
		default:
			r.Bad("R1", construct, ob.Pos, "changes the contact on a path that returns false, so modifiers.Apply skips the group re-evaluation: "+ob.Detail)
		}
	}
	r.Require("modifier_apply_impls", nImpl, 9)
	r.Count("functions_summarised", len(ctx.memo))

	// the engine-level cleaner really cleans
	ens := p.Method("flows/engine", "session", "ensureQueryBasedGroups")
	if ens == nil {
		r.Errorf("session.ensureQueryBasedGroups not found")
	} else {
		sm := ctx.analyse(ens, map[int]bool{}, 0)
		r.Check(sm.mustClean, "R1", "session.ensureQueryBasedGroups/re-evaluates", p.Pos(ens.Pos()), "calls ReevaluateQueryBasedGroups on every path with a contact", "ensureQueryBasedGroups does not re-evaluate on every path that has a contact")
	}

	// ------------------------------------------------------------------ R2
	rg := p.Func("flows/modifiers", "ReevaluateGroups")
	if rg == nil {
		r.Errorf("modifiers.ReevaluateGroups not found")
		return
	}
	var clearEC, appendEC *core.EffCall
	for _, ec := range core.EffectiveCalls(rg, 2) {
		ec := ec
		cs := ec.Inner
		if o := core.CalleeObj(cs.Common()); o != nil && core.ObjName(o) == "flows.GroupList.Clear" {
			clearEC = &ec
		}
		if b, ok := cs.Common().Value.(*ssa.Builtin); ok && b.Name() == "append" {
			fromAll := false
			for v := range core.BackSlice(cs.Common().Args[1], nil) {
				if c, ok := v.(*ssa.Call); ok {
					if o := core.CalleeObj(&c.Call); o != nil && core.ObjName(o) == "flows.GroupList.All" {
						fromAll = true
					}
				}
			}
			if fromAll {
				appendEC = &ec
			}
		}
	}
	condsOf := func(ec *core.EffCall) []core.CondEdge {
		out := core.ControllingConds(ec.Outer.Block())
		if len(ec.Chain) > 0 {
			out = append(out, core.ControllingConds(ec.Inner.Instr.Block())...)
		}
		return out
	}
	okClear := false
	if clearEC != nil {
		for _, ce := range condsOf(clearEC) {
			if bo, ok := ce.Cond.(*ssa.BinOp); ok {
				s1, _ := core.ConstString(bo.X)
				s2, _ := core.ConstString(bo.Y)
				if (s1 == "active" || s2 == "active") && ((bo.Op == token.NEQ && ce.Taken) || (bo.Op == token.EQL && !ce.Taken)) {
					okClear = true
				}
			}
		}
	}
	r.Check(okClear, "R2", "modifiers.ReevaluateGroups/clears-when-not-active", p.Pos(rg.Pos()), "Groups().Clear() under status != active", "static groups are not cleared (or are cleared unconditionally) for non-active contacts")
	okCollect := false
	if appendEC != nil && clearEC != nil {
		appendRemoved, _ := appendEC.Inner.Instr.(*ssa.Call)
		notQuery := false
		for _, ce := range condsOf(appendEC) {
			if c, ok := ce.Cond.(*ssa.Call); ok {
				if o := core.CalleeObj(&c.Call); o != nil && o.Name() == "UsesQuery" && !ce.Taken {
					notQuery = true
				}
			}
		}
		// the extended `removed` flows into the event together with the query-group removals: directly, or as the result
		// of the helper that extends it
		toEvent := false
		follow := pkgHelperFollow(core.FuncPkgPath(rg))
		for _, cs := range core.Calls(rg, false) {
			if o := core.CalleeObj(cs.Common()); o != nil && core.ObjName(o) == "flows/events.NewContactGroupsChanged" {
				sl := core.BackSlice(cs.Common().Args[1], follow)
				if appendRemoved != nil && sl[appendRemoved] {
					toEvent = true
				}
				if len(appendEC.Chain) > 0 {
					if ov, ok := appendEC.Outer.(ssa.Value); ok && sl[ov] {
						for _, ret := range core.Returns(appendEC.Chain[len(appendEC.Chain)-1]) {
							for _, rv := range ret.Results {
								if appendRemoved != nil && core.BackSlice(rv, follow)[appendRemoved] {
									toEvent = true
								}
							}
						}
					}
				}
			}
		}
		// collected before the list is cleared (both in the same function, or the collecting helper is called first)
		before := false
		if clearEC.Inner.Instr.Parent() == appendEC.Inner.Instr.Parent() {
			before = !instrReaches(clearEC.Inner.Instr, appendEC.Inner.Instr)
		} else {
			before = !instrReaches(clearEC.Outer, appendEC.Outer)
		}
		okCollect = notQuery && toEvent && before
	}
	r.Check(okCollect, "R2", "modifiers.ReevaluateGroups/reports-static-groups", p.Pos(rg.Pos()), "every non-query group of the contact is appended to `removed` (which reaches the event) before Clear()",
		"static groups a non-active contact leaves are not all reported in contact_groups_changed")
	cq := p.Method("flows", "Group", "CheckQueryBasedMembership")
	if cq == nil {
		r.Errorf("Group.CheckQueryBasedMembership not found")
	} else {
		// the query evaluation call is dominated by the status == active edge
		okStatus := false
		for _, cs := range core.Calls(cq, false) {
			if o := core.CalleeObj(cs.Common()); o != nil && core.ObjName(o) == "contactql.EvaluateQuery" {
				for _, ce := range core.ControllingConds(cs.Instr.Block()) {
					if bo, ok := ce.Cond.(*ssa.BinOp); ok {
						s1, _ := core.ConstString(bo.X)
						s2, _ := core.ConstString(bo.Y)
						if (s1 == "active" || s2 == "active") && ((bo.Op == token.EQL && ce.Taken) || (bo.Op == token.NEQ && !ce.Taken)) {
							okStatus = true
						}
					}
				}
			}
		}
		r.Check(okStatus, "R2", "Group.CheckQueryBasedMembership/non-active-never-qualifies", p.Pos(cq.Pos()), "EvaluateQuery only on the status == active edge", "a non-active contact can qualify for a query-based group")
	}
	// Contact.ReevaluateQueryBasedGroups covers every query group of the assets: loop over Groups().All() with only UsesQuery as filter
	{
		var cqCall ssa.Instruction
		for _, cs := range core.Calls(reeval, false) {
			if o := core.CalleeObj(cs.Common()); o != nil && core.ObjName(o) == "flows.Group.CheckQueryBasedMembership" {
				cqCall = cs.Instr
			}
		}
		ok := cqCall != nil
		bad := ""
		if ok {
			for _, ce := range core.MayConds(cqCall.Block()) {
				switch c := ce.Cond.(type) {
				case *ssa.BinOp:
					if c.Op == token.LSS {
						continue
					}
					bad = c.String()
				case *ssa.Call:
					if o := core.CalleeObj(&c.Call); o != nil && o.Name() == "UsesQuery" {
						continue
					}
					bad = c.String()
				default:
					bad = ce.Cond.String()
				}
			}
		}
		r.Check(ok && bad == "", "R2", "Contact.ReevaluateQueryBasedGroups/every-query-group", p.Pos(reeval.Pos()), "membership is checked for every group with UsesQuery() (no other filter)", "some query-based groups are skipped when re-evaluating: "+bad)
	}

	// both directions: qualifying -> Add, not qualifying -> Remove, on the group that was checked
	{
		var q *ssa.Call
		for _, cs := range core.Calls(reeval, false) {
			if o := core.CalleeObj(cs.Common()); o != nil && core.ObjName(o) == "flows.Group.CheckQueryBasedMembership" {
				q, _ = cs.Instr.(*ssa.Call)
			}
		}
		dir := map[string]bool{}
		if q != nil {
			// the Add/Remove may sit in a helper of the package that is handed the group and the answer: its parameters
			// are resolved to what ReevaluateQueryBasedGroups passes (c03BoundCalls)
			for _, bc := range c03BoundCalls(reeval, 2) {
				cs := bc.Site
				o := core.CalleeObj(cs.Common())
				if o == nil {
					continue
				}
				nm := core.ObjName(o)
				if nm != "flows.GroupList.Add" && nm != "flows.GroupList.Remove" {
					continue
				}
				args := cs.Common().Args
				if len(args) < 2 || bc.Actual(args[len(args)-1]) != q.Call.Args[0] {
					continue
				}
				for _, ce := range bc.Conds {
					cond, taken := ce.Cond, ce.Taken
					if cond == ssa.Value(q) {
						if nm == "flows.GroupList.Add" && taken {
							dir["add"] = true
						}
						if nm == "flows.GroupList.Remove" && !taken {
							dir["remove"] = true
						}
					}
				}
			}
		}
		r.Check(q != nil && dir["add"], "R2", "Contact.ReevaluateQueryBasedGroups/qualifying-added", p.Pos(reeval.Pos()), "a group whose query matches is added (on the true edge of CheckQueryBasedMembership, same group)", "a query-based group whose query matches the contact is not added to its groups")
		r.Check(q != nil && dir["remove"], "R2", "Contact.ReevaluateQueryBasedGroups/non-qualifying-removed", p.Pos(reeval.Pos()), "a group whose query does not match is removed (on the false edge, same group)", "a query-based group whose query no longer matches the contact is not removed from its groups")
	}

	// ------------------------------------------------------------------ R3 (shared shape with C03/R5)
	n := 0
	for _, cs := range p.CallsTo(reeval) {
		if p.IsTestFile(cs.Pos()) {
			continue
		}
		n++
		call, _ := cs.Instr.(*ssa.Call)
		okFwd := false
		if call != nil {
			for _, c2 := range core.Calls(cs.Caller, false) {
				o := core.CalleeObj(c2.Common())
				if o == nil || core.ObjName(o) != "flows/events.NewContactGroupsChanged" {
					continue
				}
				a := c2.Common().Args
				if derivesFromExtract(a[0], call, 0) && derivesFromExtract(a[1], call, 1) && valueReachesCallback(c2.Instr.(ssa.Value), cs.Caller) {
					okFwd = true
				}
				guardBad := groupsEventGuard(call, c2.Instr)
				r.Check(guardBad == "", "R3", core.FuncName(cs.Caller)+"/event-whenever-membership-changed", p.Pos(c2.Pos()), "skipped only when both lists are empty", guardBad+": a membership change of the other kind happens silently")
			}
		}
		r.Check(okFwd, "R3", core.FuncName(cs.Caller)+"/forwards-group-changes", p.Pos(cs.Pos()), "added->arg0, removed->arg1, logged", "membership changes are not reported in a contact_groups_changed event")
	}
	r.Require("reevaluate_call_sites", n, 2)

	// ------------------------------------------------------------------ R4 the membership predicate
	r.Rule("R4", "membership is decided by the contact-query evaluator, so its comparison tables and its any/all reduction over multi-valued properties (URNs) are obligations here too and the values of the contact it is handed, are obligations here too (imported from C15/R1 R2 R3)")
	importObligations(p, r, "C15", map[string]bool{"R1": true, "R2": true, "R3": true}, "R4", "the query evaluator that decides group membership is wrong here, so a contact is kept in (or out of) a group its attributes do not match")
	r.Rule("R5", "a parsed query is the same for every session and environment: in contactql no function stores into a field of a *Condition or *BoolCombination that it did not allocate itself (the nodes of a group's parsed query are shared by all sessions over the assets and evaluated in each session's own environment; a value cached in the node at validation time — the query's date parsed in the timezone the assets were loaded with — decides membership for sessions in another timezone)")
	c06R5(p, r)
}
