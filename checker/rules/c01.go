package rules

import (
	"fmt"
	"go/token"
	"go/types"
	"strings"

	"golang.org/x/tools/go/ssa"

	"verif/checker/core"
)

func init() { register("C01", checkC01) }

// engineFns resolves the engine's session functions by role name; a missing anchor is an ERROR (exit 2), never a violation.
type engineFns struct {
	loop, visit, pick, tryResume, resume, start, findExit, failRun *ssa.Function
	statusField                                                    *types.Var
}

func resolveEngine(p *core.Program, r *core.Report) *engineFns {
	e := &engineFns{
		loop:      p.Method("flows/engine", "session", "continueUntilWait"),
		visit:     p.Method("flows/engine", "session", "visitNode"),
		pick:      p.Method("flows/engine", "session", "pickNodeExit"),
		tryResume: p.Method("flows/engine", "session", "tryToResume"),
		resume:    p.Method("flows/engine", "session", "Resume"),
		start:     p.Method("flows/engine", "session", "start"),
		findExit:  p.Method("flows/engine", "session", "findResumeExit"),
		failRun:   p.Func("flows/engine", "failRun"),
	}
	e.statusField = p.FieldOf("flows/engine", "session", "status")
	for n, f := range map[string]*ssa.Function{"continueUntilWait": e.loop, "visitNode": e.visit, "pickNodeExit": e.pick, "tryToResume": e.tryResume,
		"Resume": e.resume, "start": e.start, "findResumeExit": e.findExit, "failRun": e.failRun} {
		if f == nil || f.Blocks == nil {
			r.Errorf("engine anchor %s not found (renamed?): the rules of this property cannot be evaluated", n)
			return nil
		}
	}
	if e.statusField == nil {
		r.Errorf("engine anchor session.status not found")
		return nil
	}
	return e
}

// storesStatus: instruction stores constant c into session.status.
func storesStatus(in ssa.Instruction, field *types.Var) (string, bool) {
	st, ok := in.(*ssa.Store)
	if !ok || core.FieldAddrVar(st.Addr) != field {
		return "", false
	}
	if s, ok := core.ConstString(st.Val); ok {
		return s, true
	}
	return "?", true
}

// loadsStatus: v is a load of session.status.
func loadsStatus(v ssa.Value, field *types.Var) bool {
	u, ok := v.(*ssa.UnOp)
	return ok && u.Op == token.MUL && core.FieldAddrVar(u.X) == field
}

// settles computes, for fn, whether the fact "session.status is waiting, completed or failed" holds before each
// return; settlesOnNil are callees known to return a nil error only with the fact established; alwaysSettle are
// callees (closures) that establish it on every path.
var settlesMemo = map[*ssa.Function]int{} // 0 unknown, 1 computing, 2 yes, 3 no

// settlesAlways: every return of f is reached with the status stored as waiting/completed/failed.
func settlesAlways(f *ssa.Function, field *types.Var, settlesOnNil map[*ssa.Function]bool, alwaysSettle map[*ssa.Function]bool) bool {
	switch settlesMemo[f] {
	case 1, 3:
		return false
	case 2:
		return true
	}
	settlesMemo[f] = 1
	ok := len(f.Blocks) > 0 && len(core.Returns(f)) > 0
	if ok {
		m := settledAnalysis(f, field, settlesOnNil, alwaysSettle)
		for _, ret := range core.Returns(f) {
			if !m.At(ret) {
				ok = false
			}
		}
	}
	if ok {
		settlesMemo[f] = 2
	} else {
		settlesMemo[f] = 3
	}
	return ok
}

func settledAnalysis(fn *ssa.Function, field *types.Var, settlesOnNil map[*ssa.Function]bool, alwaysSettle map[*ssa.Function]bool) *core.MustResult {
	calleeOf := func(c *ssa.CallCommon) *ssa.Function {
		if f := c.StaticCallee(); f != nil {
			return f
		}
		// call of a local closure value
		if mc, ok := c.Value.(*ssa.MakeClosure); ok {
			return mc.Fn.(*ssa.Function)
		}
		return nil
	}
	transfer := func(in ssa.Instruction, before bool) bool {
		if s, ok := storesStatus(in, field); ok {
			return s == "waiting" || s == "completed" || s == "failed"
		}
		if ci, ok := in.(ssa.CallInstruction); ok {
			f := calleeOf(ci.Common())
			if f != nil && alwaysSettle[f] {
				return true
			}
			if f != nil && core.RelPkg(core.FuncPkgPath(f)) == "flows/engine" && f.Signature.Recv() != nil {
				// another session method may change the status (visitNode sets waiting): unknown afterwards
				if recvNamed(f) != nil && recvNamed(f).Obj().Name() == "session" && writesField(f, field) {
					// a helper that itself leaves the status settled on every path (e.g. the body of the fail-session
					// closure moved into a method) settles it for the caller too
					return settlesAlways(f, field, settlesOnNil, alwaysSettle)
				}
			}
		}
		return before
	}
	edge := func(from *ssa.BasicBlock, k int, atEnd bool) bool {
		if len(from.Instrs) == 0 {
			return atEnd
		}
		iff, ok := from.Instrs[len(from.Instrs)-1].(*ssa.If)
		if !ok {
			return atEnd
		}
		taken := k == 0
		bo, ok := iff.Cond.(*ssa.BinOp)
		if !ok {
			return atEnd
		}
		// s.status == "waiting" (true edge) / != (false edge)
		if loadsStatus(bo.X, field) || loadsStatus(bo.Y, field) {
			other := bo.Y
			if loadsStatus(bo.Y, field) {
				other = bo.X
			}
			if s, ok := core.ConstString(other); ok && (s == "waiting" || s == "completed" || s == "failed") {
				if (bo.Op == token.EQL && taken) || (bo.Op == token.NEQ && !taken) {
					return true
				}
			}
		}
		// err := callee(...); err != nil (false edge) / err == nil (true edge) where callee settles on nil
		if core.IsNilConst(bo.X) || core.IsNilConst(bo.Y) {
			other := bo.X
			if core.IsNilConst(bo.X) {
				other = bo.Y
			}
			if (bo.Op == token.NEQ && !taken) || (bo.Op == token.EQL && taken) {
				for v := range core.BackSlice(other, nil) {
					if c, ok := v.(*ssa.Call); ok {
						if f := calleeOf(&c.Call); f != nil && settlesOnNil[f] {
							return true
						}
					}
				}
			}
		}
		return atEnd
	}
	return core.ForwardMust(fn, false, transfer, edge)
}

func writesField(fn *ssa.Function, field *types.Var) bool {
	w := false
	core.EachInstr(fn, true, func(_ *ssa.Function, in ssa.Instruction) {
		if st, ok := in.(*ssa.Store); ok && core.FieldAddrVar(st.Addr) == field {
			w = true
		}
	})
	return w
}

// nilErrorReturns lists the returns of fn whose last result (error) is the nil constant or derives from a call to a
// settlesOnNil callee (then "nil" is conditional on the callee).
func errResult(ret *ssa.Return) ssa.Value {
	if len(ret.Results) == 0 {
		return nil
	}
	return ret.Results[len(ret.Results)-1]
}

func checkC01(p *core.Program, r *core.Report) {
	r.Rule("R1", "status alphabet and ownership: Run.Exit only with completed/failed/expired, Run.SetStatus only with active/waiting (constants); run.status/exitedOn are stored only by Exit, SetStatus, the constructor and the reader; session.status only by the engine's session functions and only with constants")
	r.Rule("R2", "never active on return: in the engine loop, the resume and the start functions every return of a nil error is preceded on all paths by a store of waiting/completed/failed to session.status (or is the edge where status==waiting, or forwards a callee that guarantees it)")
	r.Rule("R3", "waiting pairing: session.status=waiting is stored in exactly one place, in the same block as Run.SetStatus(waiting) on the run whose step was just created, under wait != nil and Wait.Begin()==true")
	r.Rule("R4", "step/run provenance: every (run, step) pair passed to Run.LogEvent or failRun has step == nil, step created by CreateStep on that run, or step taken from PathLocation of that run (followed through parameters and closures to all call sites)")
	r.Rule("R5", "event double entry: every Run.LogEvent in the engine is followed in the same block by the sprint's logEvent with the same event; Run.LogEvent has no caller outside the engine package")
	r.Rule("R6", "path discipline: run.path is appended only by CreateStep, step.exitUUID written only by Leave (and the reader), Leave called only from the exit-picking function with the exit chosen for that node")
	r.Rule("R8", "a session is declared completed or failed only where no run can still be active or waiting: under a nil test of the parent run, or after a loop that exits every non-exited run of the session")
	r.Rule("R7", "terminal push exits every run; failure of a child reaches failRun(parent); an action that failed the run stops the node before any wait/route")
	r.Rule("R10", "a category's exit belongs to its node (load-time half of `a step's exit belongs to the step's node`): baseRouter.validate, itself or through helpers it hands its exits parameter to, compares Category.ExitUUID() with the UUID() of the elements of that exits parameter, and the error return is decided by that comparison")
	r.Rule("R9", "pushing a flow is the point of no return: Session.PushFlow is called only by the enter_flow action and the trigger base, and after the call no path of the caller reaches an exit of the run (Run.Exit, directly or through a helper such as baseAction.fail) — the engine spawns the pushed flow as a child whatever state the parent run was left in")
	r.Assumption("the induction over histories (waiting <=> exactly one waiting run, ancestors active) is not performed; R1-R7 are its local steps")

	e := resolveEngine(p, r)
	if e == nil {
		return
	}

	// ------------------------------------------------------------------ R1
	exitAllowed := map[string]bool{"completed": true, "failed": true, "expired": true}
	setAllowed := map[string]bool{"active": true, "waiting": true}
	nExit, nSet := 0, 0
	for _, cs := range p.CallsToName("flows.Run.Exit", "flows/runs.run.Exit") {
		if p.IsTestFile(cs.Pos()) {
			continue
		}
		nExit++
		a := cs.Common().Args
		s, ok := core.ConstString(a[len(a)-1])
		r.Check(ok && exitAllowed[s], "R1", core.FuncName(cs.Caller)+"/Exit("+s+")", p.Pos(cs.Pos()), "exit status constant",
			"Run.Exit called with a status that is not one of completed/failed/expired (exited_on would be set for a non-exited status)")
	}
	for _, cs := range p.CallsToName("flows.Run.SetStatus", "flows/runs.run.SetStatus") {
		if p.IsTestFile(cs.Pos()) {
			continue
		}
		nSet++
		a := cs.Common().Args
		s, ok := core.ConstString(a[len(a)-1])
		r.Check(ok && setAllowed[s], "R1", core.FuncName(cs.Caller)+"/SetStatus("+s+")", p.Pos(cs.Pos()), "non-exit status constant",
			"Run.SetStatus called with an exit status: the run would be completed/failed/expired without exited_on")
	}
	r.Require("run_exit_sites", nExit, 3)
	r.Require("run_setstatus_sites", nSet, 2)
	for _, fname := range []string{"status", "exitedOn"} {
		fv := p.FieldOf("flows/runs", "run", fname)
		if fv == nil {
			r.Errorf("run.%s not found", fname)
			continue
		}
		for _, w := range p.FieldWrites(fv) {
			n := rootFn(w.Fn).Name()
			ok := n == "Exit" || n == "NewRun" || n == "ReadRun" || (fname == "status" && n == "SetStatus")
			r.Check(ok, "R1", core.FuncName(w.Fn)+"->run."+fname, p.Pos(w.Instr.Pos()), "lifecycle owner", "run."+fname+" written outside Exit/SetStatus/NewRun/ReadRun")
		}
	}
	// the engine's state-machine functions, plus unexported helpers only they call (a helper extracted from an owner
	// acts on its behalf; R2/R8 still see the store through the call)
	smOwners := map[*ssa.Function]bool{}
	for _, n := range []string{"continueUntilWait", "visitNode", "tryToResume"} {
		if f := p.Method("flows/engine", "session", n); f != nil {
			smOwners[f] = true
		}
	}
	smOwners = p.HelperClosure(smOwners)
	for _, w := range p.FieldWrites(e.statusField) {
		n := rootFn(w.Fn).Name()
		s, isC := "", false
		if w.Val != nil {
			s, isC = core.ConstString(w.Val)
		}
		owner := smOwners[rootFn(w.Fn)] || n == "NewSession" || n == "readSession" || n == "newSession"
		if n == "readSession" || n == "NewSession" || n == "newSession" {
			r.Check(owner, "R1", core.FuncName(w.Fn)+"->session.status", p.Pos(w.Instr.Pos()), "constructor/reader", "")
			continue
		}
		r.Check(owner && isC, "R1", core.FuncName(w.Fn)+"->session.status="+s, p.Pos(w.Instr.Pos()), "engine state machine function, constant status",
			"session.status written outside the engine's state-machine functions or with a computed value")
	}

	// ------------------------------------------------------------------ R2
	always := map[*ssa.Function]bool{}
	for _, an := range e.tryResume.AnonFuncs {
		// failSession: stores failed on every path and nothing unsettles afterwards
		m := settledAnalysis(an, e.statusField, nil, nil)
		ok := len(core.Returns(an)) > 0
		for _, ret := range core.Returns(an) {
			if !m.At(ret) {
				ok = false
			}
		}
		if ok {
			always[an] = true
		}
	}
	settles := map[*ssa.Function]bool{}
	checkFn := func(fn *ssa.Function, label string) bool {
		m := settledAnalysis(fn, e.statusField, settles, always)
		all := true
		n := 0
		for _, ret := range core.Returns(fn) {
			ev := errResult(ret)
			if ev == nil {
				continue
			}
			isNil := core.IsNilConst(ev)
			forwards := false
			if !isNil {
				// `return s.continueUntilWait(...)`: nil only if the callee returned nil
				for v := range core.BackSlice(ev, nil) {
					if c, ok := v.(*ssa.Call); ok {
						if f := c.Call.StaticCallee(); f != nil && settles[f] {
							forwards = true
						}
					}
				}
			}
			if !isNil && !forwards {
				continue // a Go error is returned: judged by C10, not here
			}
			n++
			key := fmt.Sprintf("%s/return@%s", label, blockLabel(ret.Block()))
			ok := forwards || m.At(ret)
			if !ok {
				all = false
			}
			r.Check(ok, "R2", key, p.Pos(ret.Pos()), "session.status is waiting/completed/failed on every path to this nil-error return",
				"a path reaches this `return nil` without storing waiting/completed/failed to session.status: the engine call returns successfully with the session still active")
		}
		if n == 0 {
			r.Bad("R2", label+"/has-nil-return", p.Pos(fn.Pos()), "no nil-error return found (the rule matches nothing)")
			return false
		}
		return all
	}
	if checkFn(e.loop, "continueUntilWait") {
		settles[e.loop] = true
	}
	if checkFn(e.tryResume, "tryToResume") {
		settles[e.tryResume] = true
	}
	checkFn(e.resume, "Resume")
	checkFn(e.start, "start")

	// ------------------------------------------------------------------ R3
	var waitingStores []*ssa.Store
	for _, w := range p.FieldWrites(e.statusField) {
		if s, ok := core.ConstString(w.Val); ok && s == "waiting" {
			waitingStores = append(waitingStores, w.Instr.(*ssa.Store))
		}
	}
	if len(waitingStores) != 1 {
		r.Bad("R3", "session.status=waiting/single-site", p.Pos(e.visit.Pos()), fmt.Sprintf("expected exactly one store of waiting to session.status, found %d", len(waitingStores)))
	} else {
		st := waitingStores[0]
		fn := st.Parent()
		r.Check(fn == e.visit, "R3", "session.status=waiting/in-visitNode", p.Pos(st.Pos()), "stored by the node-visit function", "waiting is stored outside the node-visit function")
		// same block: Run.SetStatus(waiting) on the function's run parameter
		var setCall ssa.CallInstruction
		var stepCall *ssa.Call
		for _, in := range st.Block().Instrs {
			if ci, ok := in.(ssa.CallInstruction); ok {
				if o := core.CalleeObj(ci.Common()); o != nil && core.ObjName(o) == "flows.Run.SetStatus" {
					if s, ok := core.ConstString(ci.Common().Args[0]); ok && s == "waiting" {
						setCall = ci
					}
				}
			}
		}
		for _, cs := range core.Calls(fn, false) {
			if o := core.CalleeObj(cs.Common()); o != nil && core.ObjName(o) == "flows.Run.CreateStep" {
				stepCall, _ = cs.Instr.(*ssa.Call)
			}
		}
		okPair := setCall != nil && stepCall != nil && runKey(setCall.Common().Value) == runKey(stepCall.Call.Value)
		r.Check(okPair, "R3", "session.status=waiting/paired-with-run-waiting", p.Pos(st.Pos()), "Run.SetStatus(waiting) in the same block on the run that owns the new step",
			"the session is marked waiting without marking the visited run waiting in the same step (or another run is marked)")
		// controlled by wait != nil and Begin() true
		hasBegin, hasWaitNil := false, false
		for _, ce := range core.ControllingConds(st.Block()) {
			if c, ok := ce.Cond.(*ssa.Call); ok && ce.Taken && c.Call.IsInvoke() && c.Call.Method.Name() == "Begin" {
				hasBegin = true
			}
			if bo, ok := ce.Cond.(*ssa.BinOp); ok && (core.IsNilConst(bo.X) || core.IsNilConst(bo.Y)) {
				other := bo.X
				if core.IsNilConst(bo.X) {
					other = bo.Y
				}
				if strings.HasSuffix(core.ShortType(other.Type()), "flows.Wait") && ((bo.Op == token.NEQ && ce.Taken) || (bo.Op == token.EQL && !ce.Taken)) {
					hasWaitNil = true
				}
			}
		}
		r.Check(hasBegin && hasWaitNil, "R3", "session.status=waiting/under-wait-begin", p.Pos(st.Pos()), "only where the node's router has a wait and Wait.Begin returned true",
			fmt.Sprintf("waiting is not conditional on wait != nil (%v) and Wait.Begin() (%v)", hasWaitNil, hasBegin))
		// all SetStatus(waiting) sites are this one
		for _, cs := range p.CallsToName("flows.Run.SetStatus", "flows/runs.run.SetStatus") {
			if p.IsTestFile(cs.Pos()) {
				continue
			}
			if s, ok := core.ConstString(cs.Common().Args[len(cs.Common().Args)-1]); ok && s == "waiting" {
				r.Check(setCall != nil && cs.Instr == setCall, "R3", core.FuncName(cs.Caller)+"/SetStatus(waiting)-site", p.Pos(cs.Pos()), "the paired site",
					"a run is marked waiting somewhere the session is not marked waiting")
			}
		}
	}

	// ------------------------------------------------------------------ R4
	c01R4(p, r, e)

	// ------------------------------------------------------------------ R5
	nLog := 0
	for _, cs := range p.CallsToName("flows.Run.LogEvent", "flows/runs.run.LogEvent") {
		if p.IsTestFile(cs.Pos()) {
			continue
		}
		nLog++
		key := core.FuncName(cs.Caller) + "/LogEvent"
		pkg := core.RelPkg(core.FuncPkgPath(cs.Caller))
		if pkg != "flows/engine" {
			r.Bad("R5", key, p.Pos(cs.Pos()), "Run.LogEvent called outside the engine package: the event is recorded on the run but not in the sprint")
			continue
		}
		ev := core.StripConv(cs.Common().Args[len(cs.Common().Args)-1])
		paired := false
		seen := false
		for _, in := range cs.Instr.Block().Instrs {
			if in == cs.Instr.(ssa.Instruction) {
				seen = true
				continue
			}
			if !seen {
				continue
			}
			if ci, ok := in.(ssa.CallInstruction); ok {
				if f := ci.Common().StaticCallee(); f != nil && f.Name() == "logEvent" && recvNamed(f) != nil && recvNamed(f).Obj().Name() == "sprint" {
					a := ci.Common().Args
					if core.StripConv(a[len(a)-1]) == ev {
						paired = true
					}
				}
			}
		}
		r.Check(paired, "R5", key, p.Pos(cs.Pos()), "followed by sprint.logEvent(same event) in the same block", "a run event is not appended to the sprint's event list right after being recorded on the run")
	}
	r.Require("run_logevent_sites", nLog, 1) // the rule is universal; closures sharing one logger leave fewer sites

	// ------------------------------------------------------------------ R6
	if pf := p.FieldOf("flows/runs", "run", "path"); pf != nil {
		for _, w := range p.FieldWrites(pf) {
			n := rootFn(w.Fn).Name()
			r.Check(n == "CreateStep" || n == "ReadRun" || n == "NewRun", "R6", core.FuncName(w.Fn)+"->run.path", p.Pos(w.Instr.Pos()), "path owner", "run.path written outside CreateStep/ReadRun")
		}
	} else {
		r.Errorf("run.path not found")
	}
	if xf := p.FieldOf("flows/runs", "step", "exitUUID"); xf != nil {
		for _, w := range p.FieldWrites(xf) {
			n := rootFn(w.Fn).Name()
			r.Check(n == "Leave" || n == "UnmarshalJSON", "R6", core.FuncName(w.Fn)+"->step.exitUUID", p.Pos(w.Instr.Pos()), "step owner", "step.exitUUID written outside Leave/UnmarshalJSON")
		}
	} else {
		r.Errorf("step.exitUUID not found")
	}
	nLeave := 0
	for _, cs := range p.CallsToName("flows.Step.Leave", "flows/runs.step.Leave") {
		if p.IsTestFile(cs.Pos()) {
			continue
		}
		nLeave++
		r.Check(cs.Caller == e.pick, "R6", core.FuncName(cs.Caller)+"/Leave", p.Pos(cs.Pos()), "called by the exit-picking function", "Step.Leave called outside pickNodeExit")
		if cs.Caller != e.pick {
			continue
		}
		// the exit UUID comes from the router's Route/RouteTimeout result or from node.Exits()[0].UUID(), on the node parameter
		arg := cs.Common().Args[len(cs.Common().Args)-1]
		okSrc := true
		nSrc := 0
		for v := range core.BackSlice(arg, nil) {
			c, ok := v.(*ssa.Call)
			if !ok {
				continue
			}
			switch {
			case c.Call.IsInvoke() && (c.Call.Method.Name() == "Route" || c.Call.Method.Name() == "RouteTimeout"):
				nSrc++
			case c.Call.IsInvoke() && c.Call.Method.Name() == "UUID":
				nSrc++
				// receiver is Exits()[0]
				first := false
				for w := range core.BackSlice(c.Call.Value, nil) {
					if ia, ok := w.(*ssa.IndexAddr); ok {
						if k, isC := core.ConstInt(ia.Index); isC && k == 0 {
							first = true
						}
					}
				}
				if !first {
					okSrc = false
				}
			default:
				okSrc = false
			}
		}
		r.Check(okSrc && nSrc == 3, "R6", "pickNodeExit/left-exit-source", p.Pos(cs.Pos()), "exit UUID is Route / RouteTimeout's result or the first exit",
			"the exit a step leaves by does not come from the node's router result or its first exit")
		// the returned exit is the node exit whose UUID equals the one left by
		retOK := false
		matches := func(conds []core.CondEdge, target ssa.Value) bool {
			for _, ce := range conds {
				if bo, ok := ce.Cond.(*ssa.BinOp); ok && bo.Op == token.EQL && ce.Taken {
					if canon(bo.Y) == canon(target) || canon(bo.X) == canon(target) {
						return true
					}
				}
			}
			return false
		}
		// every non-nil exit that can be returned was selected on the edge where its UUID equals the one left by
		// (directly at the return, or as the value a result variable was given before the loop was left); target is the
		// value the UUID is compared with in the function being looked at
		var selected func(v ssa.Value, at *ssa.BasicBlock, depth int, target ssa.Value) (bool, int)
		selected = func(v ssa.Value, at *ssa.BasicBlock, depth int, target ssa.Value) (bool, int) {
			if core.IsNilConst(v) || depth > 4 {
				return true, 0
			}
			if ph, ok := v.(*ssa.Phi); ok {
				all, n := true, 0
				for i, e := range ph.Edges {
					if e == ssa.Value(ph) {
						continue
					}
					pr := ph.Block().Preds[i]
					ok2, k := selected(e, pr, depth+1, target)
					if !ok2 {
						// the edge itself may carry the test
						if iff, isIf := pr.Instrs[len(pr.Instrs)-1].(*ssa.If); isIf && pr.Succs[0] != pr.Succs[1] && !core.IsNilConst(e) {
							if matches([]core.CondEdge{{Cond: iff.Cond, Taken: pr.Succs[0] == ph.Block(), If: iff}}, target) {
								ok2, k = true, 1
							}
						}
					}
					if !ok2 {
						all = false
					}
					n += k
				}
				return all, n
			}
			// the search extracted into a helper of the same package that is handed the UUID left by: every exit the
			// helper can return must have been selected, inside it, on the edge where its UUID equals that parameter
			call, idx := (*ssa.Call)(nil), 0
			switch x := v.(type) {
			case *ssa.Call:
				call = x
			case *ssa.Extract:
				call, _ = x.Tuple.(*ssa.Call)
				idx = x.Index
			}
			if call != nil {
				if g := call.Call.StaticCallee(); g != nil && len(g.Blocks) > 0 && core.FuncPkgPath(g) == core.FuncPkgPath(e.pick) && len(g.Params) == len(call.Call.Args) {
					for k, a := range call.Call.Args {
						if canon(a) != canon(target) {
							continue
						}
						all, n := true, 0
						for _, ret := range core.Returns(g) {
							if idx >= len(ret.Results) {
								all = false
								continue
							}
							ok2, m := selected(ret.Results[idx], ret.Block(), depth+1, g.Params[k])
							if !ok2 {
								all = false
							}
							n += m
						}
						return all && n > 0, n
					}
				}
			}
			return matches(core.ControllingConds(at), target), 1
		}
		nSel := 0
		allSel := true
		for _, ret := range core.Returns(e.pick) {
			if len(ret.Results) == 3 {
				ok2, k := selected(ret.Results[0], ret.Block(), 0, arg)
				if !ok2 {
					allSel = false
				}
				nSel += k
			}
		}
		retOK = allSel && nSel > 0
		r.Check(retOK, "R6", "pickNodeExit/returned-exit-matches", p.Pos(cs.Pos()), "returns the exit whose UUID equals the one recorded on the step",
			"the exit returned to the loop (whose destination is followed) is not the exit recorded on the step")
	}
	r.Require("step_leave_sites", nLeave, 1)
	// the loop follows exit.DestinationUUID() of the exit it was handed
	destOK := false
	for _, cs := range core.Calls(e.loop, false) {
		if cs.Common().IsInvoke() && cs.Common().Method.Name() == "DestinationUUID" {
			destOK = true
		}
	}
	r.Check(destOK, "R6", "continueUntilWait/follows-exit-destination", p.Pos(e.loop.Pos()), "destination := exit.DestinationUUID()", "the loop does not take its destination from the exit")

	// ------------------------------------------------------------------ R7
	c01R7(p, r, e)
	c01R8(p, r, e)
	c01R9(p, r)
	c01R10(p, r)
	r.Rule("R11", "failure bubbles from the run that was failed: in the main loop, after failRun(r) on a path that goes round the loop again, the loop's current run is r — the next iteration finds r exited and failed and goes on to r's parent; if the loop stays on another run (the child whose failure is being passed on), the grandparents are never failed and stay active when the sprint ends")
	c01R11(p, r, e)
	r.Rule("R12", "a run that has failed gets no child: every creation of a run with a parent in the main loop (runs.NewRun, also inside a helper of the loop) either is controlled by a test that the parent's status is not failed, or is preceded on every path — with no node visited in between — by the test `parent.Status() == failed` whose true side clears session.pushedFlow; otherwise a flow pushed by an earlier action of the node in which the run then failed is entered under the failed run, and when that child ends nobody resumes or fails the grandparents: the session is handed back completed with runs still active")
	c01R12(p, r, e)
}

// c01R12: no child for a failed run.
func c01R12(p *core.Program, r *core.Report, e *engineFns) {
	pushed := p.FieldOf("flows/engine", "session", "pushedFlow")
	if pushed == nil {
		r.Errorf("engine anchor session.pushedFlow not found")
		return
	}
	strip := func(v ssa.Value) ssa.Value {
		for {
			switch x := v.(type) {
			case *ssa.ChangeInterface:
				v = x.X
				continue
			case *ssa.MakeInterface:
				v = x.X
				continue
			}
			return core.StripConv(v)
		}
	}
	// the run whose status a condition compares with "failed", and whether the edge means failed
	failedTest := func(ce core.CondEdge) (ssa.Value, bool, bool) {
		bo, ok := ce.Cond.(*ssa.BinOp)
		if !ok || (bo.Op != token.EQL && bo.Op != token.NEQ) {
			return nil, false, false
		}
		for _, pair := range [][2]ssa.Value{{bo.X, bo.Y}, {bo.Y, bo.X}} {
			c, isCall := strip(pair[0]).(*ssa.Call)
			if !isCall || !c.Call.IsInvoke() || c.Call.Method.Name() != "Status" {
				continue
			}
			if sv, isS := core.ConstString(pair[1]); isS && sv == "failed" {
				return strip(c.Call.Value), (bo.Op == token.EQL) == ce.Taken, true
			}
		}
		return nil, false, false
	}
	callsVisit := func(b *ssa.BasicBlock) bool {
		for _, in := range b.Instrs {
			if c, ok := in.(*ssa.Call); ok && c.Call.StaticCallee() == e.visit {
				return true
			}
		}
		return false
	}
	n := 0
	for _, ec := range core.EffectiveCalls(e.loop, 2) {
		g := ec.Inner.Common().StaticCallee()
		if g == nil || g.Name() != "NewRun" || core.RelPkg(core.FuncPkgPath(g)) != "flows/runs" || len(ec.Inner.Common().Args) < 3 {
			continue
		}
		parent := strip(ec.Inner.Common().Args[2])
		outer, isCall := ec.Outer.(*ssa.Call)
		if prm, isP := parent.(*ssa.Parameter); isP && isCall && ec.Outer != ec.Inner.Instr {
			// the run is created in a helper: the parent is what the loop passes
			for k, fp := range prm.Parent().Params {
				if fp == prm && k < len(outer.Call.Args) {
					parent = strip(outer.Call.Args[k])
				}
			}
		}
		n++
		ok, why := false, "no test of the parent's status precedes it"
		// (i) controlled by `status != failed`
		for _, ce := range core.ControllingConds(ec.Outer.Block()) {
			if v, meansFailed, is := failedTest(ce); is && !meansFailed && v == parent {
				ok = true
			}
		}
		// (ii) a conditional clear of the pushed flow that every path to the creation has passed since the last visit
		if !ok {
			core.EachInstr(e.loop, false, func(_ *ssa.Function, in ssa.Instruction) {
				st, isSt := in.(*ssa.Store)
				if !isSt || ok || core.FieldAddrVar(st.Addr) != pushed || !core.IsNilConst(st.Val) {
					return
				}
				conds := core.ControllingConds(st.Block())
				tested := false
				for _, ce := range conds {
					if v, meansFailed, is := failedTest(ce); is && meansFailed && v == parent {
						tested = true
					}
				}
				if !tested || len(conds) == 0 {
					return
				}
				first := conds[len(conds)-1].If.Block() // the outermost condition: where the test starts
				if !first.Dominates(ec.Outer.Block()) {
					why = "the test that clears the pushed flow for a failed run (" + p.Pos(st.Pos()) + ") is not made on every path to the creation"
					return
				}
				// no node is visited between the test and the creation
				stop := map[*ssa.BasicBlock]bool{first: true}
				for b := range core.Reachable(first, stop) {
					if b != first && callsVisit(b) && core.Reachable(b, stop)[ec.Outer.Block()] {
						why = "a node is visited (" + p.Pos(b.Instrs[0].Pos()) + ") between the test of the parent's status and the creation of its child"
						return
					}
				}
				ok = true
			})
		}
		r.Check(ok, "R12", fmt.Sprintf("continueUntilWait/NewRun#%d/parent-not-failed", n), p.Pos(ec.Inner.Pos()), "the parent's failed status is excluded before the child is created",
			"a run is created under a parent that may have failed ("+why+"): [enter_flow C, enter_flow <missing>] in a sub-flow starts C under the failed run, and when C ends the session completes with the grandparent run still active")
	}
	r.Count("child_run_creations_in_loop", n)
	r.Require("child_run_creations_in_loop", n, 1)
}

func blockLabel(b *ssa.BasicBlock) string {
	return fmt.Sprintf("%s#%d", b.Comment, b.Index)
}

// ------------------------------------------------------------------------------------------------ R4

// stepSource classifies where a step value comes from relative to a run value.
// returns: "nil", "create:<runcanon>", "loc:<runcanon>", "param:<idx>", "free:<name>", "other"
func stepSources(v ssa.Value) []string {
	var out []string
	seen := map[ssa.Value]bool{}
	var walk func(v ssa.Value)
	walk = func(v ssa.Value) {
		if seen[v] {
			return
		}
		seen[v] = true
		switch x := v.(type) {
		case *ssa.Const:
			if x.Value == nil {
				out = append(out, "nil")
				return
			}
		case *ssa.Phi:
			for _, e := range x.Edges {
				walk(e)
			}
			return
		case *ssa.Call:
			if o := core.CalleeObj(&x.Call); o != nil && core.ObjName(o) == "flows.Run.CreateStep" {
				out = append(out, "create:"+runKey(x.Call.Value))
				return
			}
			if f := x.Call.StaticCallee(); f != nil && f.Name() == "visitNode" {
				// visitNode returns the step it created on its run argument
				out = append(out, "create:"+runKey(x.Call.Args[2]))
				return
			}
		case *ssa.Extract:
			if c, ok := x.Tuple.(*ssa.Call); ok && x.Index == 0 {
				if o := core.CalleeObj(&c.Call); o != nil && core.ObjName(o) == "flows.Run.PathLocation" {
					out = append(out, "loc:"+runKey(c.Call.Value))
					return
				}
				if f := c.Call.StaticCallee(); f != nil && f.Name() == "visitNode" {
					out = append(out, "create:"+runKey(c.Call.Args[2]))
					return
				}
			}
		case *ssa.Parameter:
			out = append(out, "param:"+x.Name())
			return
		case *ssa.UnOp:
			if x.Op == token.MUL {
				if fv, ok := x.X.(*ssa.FreeVar); ok {
					out = append(out, "free:"+fv.Name())
					return
				}
				if al, ok := x.X.(*ssa.Alloc); ok {
					// local spilled because a closure captures it: all stores
					for _, ref := range *al.Referrers() {
						if st, ok := ref.(*ssa.Store); ok && st.Addr == ssa.Value(al) {
							walk(st.Val)
						}
					}
					return
				}
			}
		case *ssa.FreeVar:
			out = append(out, "free:"+x.Name())
			return
		case *ssa.MakeInterface:
			walk(x.X)
			return
		case *ssa.ChangeInterface:
			walk(x.X)
			return
		}
		out = append(out, "other:"+v.String())
	}
	walk(v)
	return out
}

// runKey identifies a run value: parameters and captured variables by name, loop variables by their phi.
func runKey(v ssa.Value) string {
	switch x := v.(type) {
	case *ssa.Parameter:
		return "var:" + x.Name()
	case *ssa.FreeVar:
		return "var:" + x.Name()
	case *ssa.UnOp:
		if x.Op == token.MUL {
			if fv, ok := x.X.(*ssa.FreeVar); ok {
				return "var:" + fv.Name()
			}
			if al, ok := x.X.(*ssa.Alloc); ok {
				return "var:" + al.Comment
			}
		}
	case *ssa.Phi:
		return "var:" + x.Comment
	}
	return "val:" + v.Name()
}

type pairSite struct {
	fn        *ssa.Function
	pos       token.Pos
	run, step ssa.Value
	what      string
}

func c01R4(p *core.Program, r *core.Report, e *engineFns) {
	// flow-sensitive pairing of (run variable, step variable) for functions that reassign them (the engine loop)
	loopPaired, loopSites := pairedVarAnalysis(p, r, e)
	r.Count("flow_sensitive_pair_sites", loopSites)
	var sites []pairSite
	for _, cs := range p.AllCalls() {
		if p.IsTestFile(cs.Pos()) || core.RelPkg(core.FuncPkgPath(cs.Caller)) != "flows/engine" {
			continue
		}
		cc := cs.Common()
		if o := core.CalleeObj(cc); o != nil && core.ObjName(o) == "flows.Run.LogEvent" {
			sites = append(sites, pairSite{cs.Caller, cs.Pos(), cc.Value, cc.Args[0], "LogEvent"})
		}
		if cc.StaticCallee() == e.failRun {
			sites = append(sites, pairSite{cs.Caller, cs.Pos(), cc.Args[1], cc.Args[2], "failRun"})
		}
		if cc.StaticCallee() == e.pick {
			// pickNodeExit(sprint, run, node, step, ...) forwards the pair to failRun
			sites = append(sites, pairSite{cs.Caller, cs.Pos(), cc.Args[2], cc.Args[4], "pickNodeExit"})
		}
	}
	r.Require("run_step_pair_sites", len(sites), 4)
	per := map[string]int{}
	for _, s := range sites {
		k := core.FuncName(s.fn) + "/" + s.what
		per[k]++
		key := k
		if per[k] > 1 {
			key = fmt.Sprintf("%s#%d", k, per[k])
		}
		rk := runKey(s.run)
		srcs := stepSources(s.step)
		bad := ""
		for _, src := range srcs {
			switch {
			case src == "nil":
			case strings.HasPrefix(src, "create:") || strings.HasPrefix(src, "loc:"):
				if src[strings.Index(src, ":")+1:] != rk {
					bad = fmt.Sprintf("step comes from %s but the run is %s", src, rk)
				}
			case strings.HasPrefix(src, "param:"):
				// both must be parameters of the same function: the obligation is checked at that function's call sites
				if _, isParam := s.run.(*ssa.Parameter); !isParam {
					if !loopPaired[s.pos] {
						bad = fmt.Sprintf("step is parameter %s but the run is %s", src, rk)
					}
				}
			case strings.HasPrefix(src, "free:"):
				// closure: resolve both captured variables in the enclosing function
				if msg := checkCapturedPair(s.fn, s.run, src[5:]); msg != "" {
					bad = msg
				}
			default:
				bad = "step has an unrecognised source " + src
			}
		}
		r.Check(bad == "", "R4", key, p.Pos(s.pos), fmt.Sprintf("step sources %v belong to run %s", srcs, rk),
			"an event/failure is recorded on a run with a step that is not known to belong to that run: "+bad)
	}
}

// checkCapturedPair: inside closure fn, the run is captured variable (or parameter) and the step is captured
// variable stepName; in the enclosing function the step variable must be created on / located from the run variable.
func checkCapturedPair(fn *ssa.Function, run ssa.Value, stepName string) string {
	parent := fn.Parent()
	if parent == nil {
		return "step is captured but the function is not a closure"
	}
	var mc *ssa.MakeClosure
	core.EachInstr(parent, false, func(_ *ssa.Function, in ssa.Instruction) {
		if m, ok := in.(*ssa.MakeClosure); ok && m.Fn == ssa.Value(fn) {
			mc = m
		}
	})
	if mc == nil {
		return "closure binding not found"
	}
	bind := func(name string) ssa.Value {
		for i, fv := range fn.FreeVars {
			if fv.Name() == name {
				return mc.Bindings[i]
			}
		}
		return nil
	}
	stepB := bind(stepName)
	if stepB == nil {
		return "captured step not bound"
	}
	var runOuter ssa.Value
	rk := runKey(run)
	if strings.HasPrefix(rk, "var:") {
		runOuter = bind(rk[4:])
	}
	if runOuter == nil {
		return "run is not a captured variable of the same closure (" + rk + ")"
	}
	// values stored into the captured cells in the parent
	resolve := func(cell ssa.Value) ssa.Value {
		if al, ok := cell.(*ssa.Alloc); ok {
			for _, ref := range *al.Referrers() {
				if st, ok := ref.(*ssa.Store); ok && st.Addr == ssa.Value(al) {
					return st.Val
				}
			}
		}
		return cell
	}
	rv := resolve(runOuter)
	sv := resolve(stepB)
	outerRK := runKey(rv)
	for _, src := range stepSources(sv) {
		switch {
		case src == "nil":
		case strings.HasPrefix(src, "create:") || strings.HasPrefix(src, "loc:"):
			if src[strings.Index(src, ":")+1:] != outerRK {
				return fmt.Sprintf("captured step comes from %s but the captured run is %s", src, outerRK)
			}
		case strings.HasPrefix(src, "param:"):
			if _, isParam := rv.(*ssa.Parameter); !isParam {
				return fmt.Sprintf("captured step is parameter %s but the captured run is %s", src, outerRK)
			}
		default:
			return "captured step has source " + src
		}
	}
	return ""
}

// ------------------------------------------------------------------------------------------------ R7

func c01R7(p *core.Program, r *core.Report, e *engineFns) {
	// (a) terminal push: a Run.Exit(completed) inside a range over s.runs, controlled by pushedFlow.terminal, before runs.NewRun
	// the creation of the new run may sit in the loop or in a helper the push branch was extracted into
	effCalls := core.EffectiveCalls(e.loop, 2)
	var newRuns []core.EffCall
	for _, ec := range effCalls {
		if o := core.CalleeObj(ec.Inner.Common()); o != nil && core.ObjName(o) == "flows/runs.NewRun" {
			newRuns = append(newRuns, ec)
		}
	}
	// comesBefore: a can be followed by b and b does not come first on every path, judged in the function that holds
	// both sites (the loop for sites reached through different statements, the shared helper otherwise)
	comesBefore := func(a, b core.EffCall) bool {
		x, y := a.Outer, b.Outer
		if x == y {
			x, y = a.Inner.Instr, b.Inner.Instr
			if x.Parent() != y.Parent() {
				return false
			}
		}
		return x != y && instrReaches(x, y) && !core.InstrDominates(y, x)
	}
	termOK := false
	for _, ec := range effCalls {
		cs := ec.Inner
		o := core.CalleeObj(cs.Common())
		if o == nil || core.ObjName(o) != "flows.Run.Exit" {
			continue
		}
		if s, _ := core.ConstString(cs.Common().Args[0]); s != "completed" {
			continue
		}
		// receiver is s.runs[i]
		overRuns := false
		for v := range core.BackSlice(cs.Common().Value, nil) {
			if fa, ok := v.(*ssa.FieldAddr); ok && core.FieldAddrVar(fa).Name() == "runs" {
				overRuns = true
			}
		}
		if !overRuns {
			continue
		}
		underTerminal, extra := false, ""
		for _, ce := range append(core.MayConds(ec.Outer.Block()), ec.InnerConds()...) {
			if bo, ok := ce.Cond.(*ssa.BinOp); ok && bo.Op == token.LSS {
				continue
			}
			isTerm := false
			for v := range core.BackSlice(ce.Cond, nil) {
				if fa, ok := v.(*ssa.FieldAddr); ok && core.FieldAddrVar(fa).Name() == "terminal" {
					isTerm = true
				}
				if fa, ok := v.(*ssa.FieldAddr); ok && core.FieldAddrVar(fa).Name() == "pushedFlow" {
					isTerm = isTerm || true
				}
			}
			if isTerm {
				underTerminal = true
				continue
			}
			extra = ce.Cond.String()
		}
		before := len(newRuns) > 0
		for _, nr := range newRuns {
			if !comesBefore(ec, nr) {
				before = false
			}
		}
		if underTerminal && extra == "" && before {
			termOK = true
		}
	}
	r.Check(termOK, "R7", "continueUntilWait/terminal-push-exits-all-runs", p.Pos(e.loop.Pos()), "Exit(completed) over every element of s.runs under pushedFlow.terminal, before the new run is created",
		"a terminal flow push does not complete every existing run (some stay active/waiting without a way to resume)")

	// (b) child failed => failRun(parent)
	bubble := false
	for _, cs := range core.Calls(e.loop, false) {
		if cs.Common().StaticCallee() != e.failRun {
			continue
		}
		for _, ce := range core.ControllingConds(cs.Instr.Block()) {
			bo, ok := ce.Cond.(*ssa.BinOp)
			if !ok {
				continue
			}
			s1, _ := core.ConstString(bo.X)
			s2, _ := core.ConstString(bo.Y)
			if s1 != "failed" && s2 != "failed" {
				continue
			}
			// `childRun.Status() != failed` false edge, or == true edge
			if (bo.Op == token.NEQ && !ce.Taken) || (bo.Op == token.EQL && ce.Taken) {
				// the run failed is the parent (ParentInSession of the run whose status was tested)
				runArg := cs.Common().Args[1]
				for v := range core.BackSlice(runArg, nil) {
					if c, ok := v.(*ssa.Call); ok && c.Call.IsInvoke() && c.Call.Method.Name() == "ParentInSession" {
						bubble = true
					}
				}
			}
		}
	}
	r.Check(bubble, "R7", "continueUntilWait/child-failure-bubbles", p.Pos(e.loop.Pos()), "failRun(parent) on the edge where the finished child's status is failed",
		"a failed child run does not fail its parent: the parent would continue (or stay active) after its sub-flow errored")

	// (c) parent resumption only while the parent is active
	parentActive := false
	for _, cs := range core.Calls(e.loop, false) {
		if cs.Common().StaticCallee() != e.findExit {
			continue
		}
		for _, ce := range core.ControllingConds(cs.Instr.Block()) {
			bo, ok := ce.Cond.(*ssa.BinOp)
			if !ok || !ce.Taken || bo.Op != token.EQL {
				continue
			}
			s1, _ := core.ConstString(bo.X)
			s2, _ := core.ConstString(bo.Y)
			if s1 == "active" || s2 == "active" {
				parentActive = true
			}
		}
	}
	r.Check(parentActive, "R7", "continueUntilWait/resumes-only-active-parent", p.Pos(e.loop.Pos()), "findResumeExit(parent) only where parent.Status()==active",
		"a parent run is resumed although it is not active (completed by a terminal push, expired or failed)")

	// (d) an action that failed the run stops the node: after the true edge of run.Status()==failed in visitNode, no
	// wait is begun, no status is set and no exit is picked
	bad := ""
	edges := 0
	truncated := false
	stops := map[string]bool{"Begin": true, "SetStatus": true, "pickNodeExit": true, "Execute": true, "Route": true, "Leave": true}
	calleeName := func(cc *ssa.CallCommon) string {
		if cc.IsInvoke() {
			return cc.Method.Name()
		} else if f := cc.StaticCallee(); f != nil {
			return f.Name()
		}
		return ""
	}
	// nilness of a non-boolean value on this path, as recorded when the helper call that produced it was summarised
	nilFact := func(s *core.PathState, v ssa.Value) core.AB {
		for i := len(s.Effects) - 1; i >= 0; i-- {
			if ef := s.Effects[i]; ef.Kind == "NIL" && ef.Instr == v.(ssa.Instruction) {
				return ef.Data.(core.AB)
			}
		}
		return core.Unk
	}
	// a helper of the engine package the action loop may have been extracted into is summarised by exploring it with the
	// same rules: one outcome per (did it take the failed-run edge, abstract value of each result: booleans by truth,
	// the others by nilness); the caller then continues per outcome, its tests of the results decided by the summary
	type outcome struct {
		failed  bool
		results []core.AB
	}
	summaries := map[*ssa.Function][]outcome{}
	var rules func(depth int, exits func(s *core.PathState, ret *ssa.Return)) core.PathRules
	summarise := func(g *ssa.Function, depth int) []outcome {
		if outs, ok := summaries[g]; ok {
			return outs
		}
		summaries[g] = nil // recursion: no summary
		var outs []outcome
		seen := map[string]bool{}
		res := core.ExplorePaths(g, rules(depth, func(s *core.PathState, ret *ssa.Return) {
			o := outcome{failed: s.Has("FAILED")}
			for _, v := range ret.Results {
				a := core.Unk
				if b, isB := v.Type().Underlying().(*types.Basic); isB && b.Info()&types.IsBoolean != 0 {
					a = s.Val(v)
				} else if core.IsNilConst(v) {
					a = core.True
				} else if _, isI := v.(ssa.Instruction); isI {
					a = nilFact(s, v)
				}
				o.results = append(o.results, a)
			}
			if k := fmt.Sprint(o); !seen[k] {
				seen[k] = true
				outs = append(outs, o)
			}
		}))
		if res.Truncated {
			truncated = true
		}
		summaries[g] = outs
		return outs
	}
	rules = func(depth int, exits func(s *core.PathState, ret *ssa.Return)) core.PathRules {
		return core.PathRules{
			LoopBound: 2,
			OnEdge: func(s *core.PathState, cond ssa.Value, taken bool) {
				bo, ok := cond.(*ssa.BinOp)
				if !ok {
					return
				}
				s1, _ := core.ConstString(bo.X)
				s2, _ := core.ConstString(bo.Y)
				if (s1 == "failed" || s2 == "failed") && ((bo.Op == token.EQL && taken) || (bo.Op == token.NEQ && !taken)) {
					edges++
					s.Effects = append(s.Effects, core.Effect{Kind: "FAILED"})
				}
			},
			OnCall: func(s *core.PathState, c ssa.CallInstruction) []core.CallOutcome {
				cc := c.Common()
				name := calleeName(cc)
				if s.Has("FAILED") && stops[name] {
					bad = fmt.Sprintf("%s is called after an action failed the run (blocks %v)", name, s.Blocks)
				}
				g := cc.StaticCallee()
				if g == nil || len(g.Blocks) == 0 || c.Value() == nil || stops[name] || depth >= 2 || core.FuncPkgPath(g) != core.FuncPkgPath(e.visit) {
					return nil
				}
				if s.Has("FAILED") {
					// the run has failed already: nothing the helper does on the run's behalf may be one of the calls
					for _, ec := range core.EffectiveCalls(g, 2) {
						if n := calleeName(ec.Inner.Common()); stops[n] {
							bad = fmt.Sprintf("%s is called (in %s) after an action failed the run (blocks %v)", n, g.Name(), s.Blocks)
						}
					}
					return nil
				}
				outs := summarise(g, depth+1)
				anyFailed := false
				for _, o := range outs {
					anyFailed = anyFailed || o.failed
				}
				if !anyFailed {
					return nil
				}
				var cos []core.CallOutcome
				for _, o := range outs {
					co := core.CallOutcome{Effects: []core.Effect{{Kind: "RET", Instr: c, Data: o.results}}}
					if o.failed {
						co.Effects = append(co.Effects, core.Effect{Kind: "FAILED"})
					}
					if len(o.results) == 1 {
						if b, isB := c.Value().Type().Underlying().(*types.Basic); isB && b.Info()&types.IsBoolean != 0 {
							co.Result = o.results[0]
						} else {
							co.Effects = append(co.Effects, core.Effect{Kind: "NIL", Instr: c, Data: o.results[0]})
						}
					}
					cos = append(cos, co)
				}
				return cos
			},
			OnInstr: func(s *core.PathState, in ssa.Instruction) {
				// a component of a summarised helper's result tuple takes the abstract value of this outcome
				ext, ok := in.(*ssa.Extract)
				if !ok {
					return
				}
				for i := len(s.Effects) - 1; i >= 0; i-- {
					ef := s.Effects[i]
					if ef.Kind != "RET" || ssa.Value(ext.Tuple) != ef.Instr.(ssa.Value) {
						continue
					}
					rs := ef.Data.([]core.AB)
					if ext.Index >= len(rs) {
						return
					}
					if b, isB := ext.Type().Underlying().(*types.Basic); isB && b.Info()&types.IsBoolean != 0 {
						if rs[ext.Index] != core.Unk {
							s.Vals[ext] = rs[ext.Index]
						}
					} else {
						s.Effects = append(s.Effects, core.Effect{Kind: "NIL", Instr: ext, Data: rs[ext.Index]})
					}
					return
				}
			},
			OnBranch: func(s *core.PathState, cond ssa.Value) core.AB {
				// `err != nil` on a result whose nilness this outcome of the helper fixes
				bo, ok := cond.(*ssa.BinOp)
				if !ok || (bo.Op != token.EQL && bo.Op != token.NEQ) {
					return core.Unk
				}
				other := bo.X
				if core.IsNilConst(bo.X) {
					other = bo.Y
				} else if !core.IsNilConst(bo.Y) {
					return core.Unk
				}
				if _, isI := other.(ssa.Instruction); !isI {
					return core.Unk
				}
				switch nilFact(s, other) {
				case core.True:
					return boolAB(bo.Op == token.EQL)
				case core.False:
					return boolAB(bo.Op == token.NEQ)
				}
				return core.Unk
			},
			OnExit: func(s *core.PathState, ret *ssa.Return, pan *ssa.Panic) {
				if ret != nil && exits != nil {
					exits(s, ret)
				}
			},
		}
	}
	res := core.ExplorePaths(e.visit, rules(0, nil))
	if truncated {
		res.Truncated = true
	}
	r.Check(bad == "" && edges > 0 && !res.Truncated, "R7", "visitNode/failed-action-stops-node", p.Pos(e.visit.Pos()),
		fmt.Sprintf("%d paths: nothing but a return follows the failed-run edge", res.Paths), "a run failed by one of its actions keeps executing: "+bad)
}

// ------------------------------------------------------------------------------------------------ R8

// c01R8: a session may be declared over (completed / failed) only where no run can still be active or waiting: either
// the current run has no parent in the session (the store is controlled by a nil test of a flows.Run value, on its nil
// edge) — every ancestor has been resumed and finished on the way up — or the same function first exits every
// non-exited run of the session (the fail-session idiom: Run.Exit inside a loop over session.runs dominating the store).
func c01R8(p *core.Program, r *core.Report, e *engineFns) {
	n := 0
	per := map[string]int{}
	for _, fn := range p.ModuleFunctions() {
		if core.RelPkg(core.FuncPkgPath(fn)) != "flows/engine" || p.IsTestFile(fn.Pos()) {
			continue
		}
		for _, b := range fn.Blocks {
			for _, in := range b.Instrs {
				val, ok := storesStatus(in, e.statusField)
				if !ok || (val != "completed" && val != "failed") {
					continue
				}
				n++
				// (a) no parent that could still run: on every way into the store the parent run is nil or not active
				noActiveParent := func(cond ssa.Value, taken bool) bool {
					for {
						if un, ok := cond.(*ssa.UnOp); ok && un.Op == token.NOT {
							cond, taken = un.X, !taken
							continue
						}
						break
					}
					bo, ok := cond.(*ssa.BinOp)
					if !ok || (bo.Op != token.EQL && bo.Op != token.NEQ) {
						return false
					}
					eq := (bo.Op == token.EQL) == taken
					for _, pr := range [][2]ssa.Value{{bo.X, bo.Y}, {bo.Y, bo.X}} {
						x, y := pr[0], pr[1]
						if core.IsNilConst(y) && strings.HasSuffix(core.ShortType(x.Type()), "flows.Run") && eq {
							return true // parent == nil
						}
						if sc, ok := core.ConstString(y); ok && sc == "active" && !eq {
							if c, ok := x.(*ssa.Call); ok && c.Call.IsInvoke() && c.Call.Method.Name() == "Status" && strings.HasSuffix(core.ShortType(c.Call.Value.Type()), "flows.Run") {
								return true // parent.Status() != active
							}
						}
					}
					return false
				}
				var evidence func(b *ssa.BasicBlock, seen map[*ssa.BasicBlock]bool) bool
				evidence = func(b *ssa.BasicBlock, seen map[*ssa.BasicBlock]bool) bool {
					if seen[b] {
						return false
					}
					seen[b] = true
					for _, ce := range core.ControllingConds(b) {
						if noActiveParent(ce.Cond, ce.Taken) {
							return true
						}
					}
					if len(b.Preds) == 0 {
						return false
					}
					for _, pr := range b.Preds {
						okEdge := false
						if iff, isIf := pr.Instrs[len(pr.Instrs)-1].(*ssa.If); isIf && pr.Succs[0] != pr.Succs[1] {
							okEdge = noActiveParent(iff.Cond, pr.Succs[0] == b)
						}
						if !okEdge && !evidence(pr, seen) {
							return false
						}
					}
					return true
				}
				noParent := evidence(b, map[*ssa.BasicBlock]bool{})
				// (b) every non-exited run is exited first, in this function or a helper it calls
				exitsAll := false
				root := fn
				for _, ec := range core.EffectiveCalls(root, 2) {
					o := core.CalleeObj(ec.Inner.Common())
					if o == nil || core.ObjName(o) != "flows.Run.Exit" {
						continue
					}
					overRuns := false
					for v := range core.BackSlice(ec.Inner.Common().Value, nil) {
						if fa, ok := v.(*ssa.FieldAddr); ok && core.FieldAddrVar(fa).Name() == "runs" {
							overRuns = true
						}
					}
					if overRuns && ec.Outer.Parent() == fn {
						// the loop over the runs (its header) comes before the store on every path
						var header *ssa.BasicBlock
						for _, bb := range fn.Blocks {
							for _, sc := range bb.Succs {
								if sc.Dominates(bb) && sc.Dominates(ec.Outer.Block()) && (header == nil || header.Dominates(sc)) {
									header = sc
								}
							}
						}
						if header == nil {
							header = ec.Outer.Block()
						}
						if header.Dominates(in.Block()) && !core.Reachable(in.Block(), nil)[header] {
							exitsAll = true
						}
					}
				}
				key := core.FuncName(fn) + "/status=" + val
				per[key]++
				if per[key] > 1 {
					key = fmt.Sprintf("%s#%d", key, per[key])
				}
				r.Check(noParent || exitsAll, "R8", key, p.Pos(in.Pos()), map[bool]string{true: "stored where the current run's parent is nil or no longer active", false: "stored after every non-exited run of the session has been exited"}[noParent],
					"the session is declared "+val+" on a path where neither the current run is known to have no parent nor every non-exited run has been exited first: ancestors of the current run stay active in a finished session")
			}
		}
	}
	r.Count("terminal_session_status_stores", n)
	r.Require("terminal_session_status_stores", n, 2)
}

// ---------------------------------------------------------------------------------------------- R9

func c01R9(p *core.Program, r *core.Report) {
	n := 0
	for _, cs := range p.CallsToName("flows.Session.PushFlow") {
		if p.IsTestFile(cs.Pos()) {
			continue
		}
		n++
		fn := cs.Caller
		owner := core.FuncName(rootFn(fn))
		okOwner := strings.HasSuffix(owner, "EnterFlowAction).Execute") || strings.Contains(owner, "flows/triggers.")
		r.Check(okOwner, "R9", owner+"->Session.PushFlow", p.Pos(cs.Pos()), "enter_flow action / trigger initialisation", "Session.PushFlow is called from "+owner+": a flow is pushed outside the two places the engine loop expects")
		// after the push: no exit of the run
		after := map[*ssa.BasicBlock]bool{}
		for b := range core.Reachable(cs.Instr.Block(), nil) {
			after[b] = true
		}
		bad := ""
		for _, ec := range core.EffectiveCalls(fn, 2) {
			o := core.CalleeObj(ec.Inner.Common())
			if o == nil || core.ObjName(o) != "flows.Run.Exit" {
				continue
			}
			ob := ec.Outer.Block()
			later := false
			if ob == cs.Instr.Block() {
				for _, in := range ob.Instrs {
					if in == cs.Instr {
						later = true
					} else if in == ec.Outer && later {
						bad = p.Pos(ec.Outer.Pos())
					}
				}
				// a loop back into the same block
				for _, sc := range ob.Succs {
					if core.Reachable(sc, nil)[ob] {
						bad = p.Pos(ec.Outer.Pos())
					}
				}
			} else if after[ob] {
				bad = p.Pos(ec.Outer.Pos())
			}
		}
		r.Check(bad == "", "R9", owner+"/no-exit-after-push", p.Pos(cs.Pos()), "no Run.Exit is reachable after the push", "the run can be exited at "+bad+" after its flow was pushed: the engine still starts the pushed flow as a child of the exited run, and when that child ends the failure never reaches the ancestors (a run stays active in a finished session)")
	}
	r.Require("pushflow_call_sites", n, 2)
}

// ---------------------------------------------------------------------------------------------- R10

func c01R10(p *core.Program, r *core.Report) {
	val := p.Method("flows/routers", "baseRouter", "validate")
	if val == nil {
		r.Errorf("baseRouter.validate not found")
		return
	}
	var exitsP *ssa.Parameter
	for _, prm := range val.Params {
		if core.ShortType(prm.Type()) == "[]flows.Exit" {
			exitsP = prm
		}
	}
	if exitsP == nil {
		r.Errorf("baseRouter.validate has no []flows.Exit parameter")
		return
	}
	// functions that receive the exits: validate itself and callees (same package, incl. function literals) that are
	// passed it as an argument or capture it
	type holder struct {
		fn  *ssa.Function
		val ssa.Value // the exits slice inside fn
	}
	holders := []holder{{val, exitsP}}
	seen := map[*ssa.Function]bool{val: true}
	for i := 0; i < len(holders) && i < 8; i++ {
		h := holders[i]
		core.EachInstr(h.fn, false, func(_ *ssa.Function, in ssa.Instruction) {
			switch x := in.(type) {
			case ssa.CallInstruction:
				g := x.Common().StaticCallee()
				if g == nil || g.Blocks == nil || seen[g] || core.FuncPkgPath(g) != core.FuncPkgPath(val) {
					return
				}
				for k, a := range x.Common().Args {
					if core.StripConv(a) == h.val && k < len(g.Params) {
						seen[g] = true
						holders = append(holders, holder{g, g.Params[k]})
					}
				}
			case *ssa.MakeClosure:
				g := x.Fn.(*ssa.Function)
				for k, b := range x.Bindings {
					if core.StripConv(b) == h.val && k < len(g.FreeVars) && !seen[g] {
						seen[g] = true
						holders = append(holders, holder{g, g.FreeVars[k]})
					}
				}
			}
		})
	}
	compared := false
	where := ""
	for _, h := range holders {
		core.EachInstr(h.fn, true, func(f *ssa.Function, in ssa.Instruction) {
			bo, ok := in.(*ssa.BinOp)
			if !ok || (bo.Op != token.EQL && bo.Op != token.NEQ) {
				return
			}
			for _, side := range []ssa.Value{bo.X, bo.Y} {
				c, ok := core.StripConv(side).(*ssa.Call)
				if !ok || !c.Call.IsInvoke() || c.Call.Method.Name() != "UUID" || core.ShortType(c.Call.Value.Type()) != "flows.Exit" {
					continue
				}
				// the receiver is an element of the exits slice (or the parameter of a function literal handed to a
				// slices helper over it)
				for v := range core.BackSlice(c.Call.Value, nil) {
					if v == h.val {
						compared, where = true, p.Pos(bo.Pos())
					}
				}
				if prm, isP := c.Call.Value.(*ssa.Parameter); isP && prm.Parent() != nil && prm.Parent().Parent() == h.fn {
					compared, where = true, p.Pos(bo.Pos())
				}
			}
		})
	}
	// and the comparison decides: evaluated for a category whose exit is set but is not among the node's exits, validate
	// reaches the helper and returns an error
	{
		helper := map[*ssa.Function]bool{}
		for _, h := range holders[1:] {
			helper[h.fn] = true
		}
		sawInvalid, errAfterInvalid, nilAfterInvalid := false, false, false
		res := core.ExplorePaths(val, core.PathRules{
			LoopBound: 1,
			OnBranch: func(s *core.PathState, cond ssa.Value) core.AB {
				bo, ok := cond.(*ssa.BinOp)
				if !ok || (bo.Op != token.EQL && bo.Op != token.NEQ) {
					return core.Unk
				}
				isExitUUID := func(v ssa.Value) bool {
					c, ok := core.StripConv(v).(*ssa.Call)
					return ok && c.Call.IsInvoke() && c.Call.Method.Name() == "ExitUUID"
				}
				if sc, ok := core.ConstString(bo.Y); ok && sc == "" && isExitUUID(bo.X) {
					return boolAB(bo.Op == token.NEQ)
				}
				if sc, ok := core.ConstString(bo.X); ok && sc == "" && isExitUUID(bo.Y) {
					return boolAB(bo.Op == token.NEQ)
				}
				return core.Unk
			},
			OnCall: func(s *core.PathState, c ssa.CallInstruction) []core.CallOutcome {
				com := c.Common()
				if com.IsInvoke() && com.Method.Name() == "AllowTimeout" {
					return []core.CallOutcome{{Result: core.False}}
				}
				if g := com.StaticCallee(); g != nil {
					if helper[g] {
						return []core.CallOutcome{{Result: core.False, Effects: []core.Effect{{Kind: "INVALID", Instr: c}}}}
					}
					if g.Name() == "AllowTimeout" {
						return []core.CallOutcome{{Result: core.False}}
					}
				}
				return nil
			},
			OnExit: func(s *core.PathState, ret *ssa.Return, pan *ssa.Panic) {
				if ret == nil {
					return
				}
				inv := false
				for _, e := range s.Effects {
					if e.Kind == "INVALID" {
						inv = true
					}
				}
				if !inv {
					return
				}
				sawInvalid = true
				if core.IsNilConst(ret.Results[0]) {
					nilAfterInvalid = true
				} else {
					errAfterInvalid = true
				}
			},
		})
		if res.Truncated {
			r.Unknown("R10", "baseRouter.validate/invalid-exit-is-an-error", p.Pos(val.Pos()), "path budget exceeded")
		} else if len(helper) > 0 {
			r.Check(sawInvalid && errAfterInvalid && !nilAfterInvalid, "R10", "baseRouter.validate/invalid-exit-is-an-error", p.Pos(val.Pos()), "a set exit that is not among the node's exits leads to the error return on every path",
				"for a category whose exit is set but is not one of the node's exits, baseRouter.validate does not return an error (the validity helper is not reached, or its negative answer is ignored): the definition loads, a resumed session leaves the wait by an exit that is not on its node and is not among the inspected waiting exits")
		}
	}
	r.Check(compared, "R10", "baseRouter.validate/category-exit-among-node-exits", p.Pos(val.Pos()), "Exit.UUID() of the node's exits is compared at "+where,
		"baseRouter.validate never compares anything with the UUID() of the exits it is given: a category may point at an exit of another node, the run then leaves by an exit that is not on its node and silently completes (the path is no longer a walk in the flow's graph)")
}

// ---------------------------------------------------------------------------------------------- R11

func c01R11(p *core.Program, r *core.Report, e *engineFns) {
	fn := e.loop
	if fn == nil || e.failRun == nil {
		return
	}
	// the loop's current run: the phi in a loop header that merges the flows.Run parameter
	var cur *ssa.Parameter
	for _, q := range fn.Params {
		if core.ShortType(q.Type()) == "flows.Run" {
			cur = q
		}
	}
	var hdr *ssa.Phi
	if cur != nil {
		core.EachInstr(fn, false, func(_ *ssa.Function, in ssa.Instruction) {
			ph, ok := in.(*ssa.Phi)
			if !ok || hdr != nil || naturalLoopBody(ph.Block()) == nil {
				return
			}
			for _, ed := range ph.Edges {
				if ed == ssa.Value(cur) {
					hdr = ph
				}
			}
		})
	}
	if hdr == nil {
		r.Unknown("R11", "continueUntilWait/current-run-variable", p.Pos(fn.Pos()), "the loop variable that holds the current run was not found (no loop-header phi merges the flows.Run parameter)")
		return
	}
	strip := func(v ssa.Value) ssa.Value {
		for {
			switch x := v.(type) {
			case *ssa.ChangeInterface:
				v = x.X
				continue
			case *ssa.MakeInterface:
				v = x.X
				continue
			}
			return core.StripConv(v)
		}
	}
	n := 0
	for _, cs := range core.Calls(fn, false) {
		if cs.Common().StaticCallee() != e.failRun || len(cs.Common().Args) < 2 {
			continue
		}
		failed := strip(cs.Common().Args[1])
		bad := ""
		nPaths := 0
		var path []*ssa.BasicBlock
		var walk func(b *ssa.BasicBlock)
		walk = func(b *ssa.BasicBlock) {
			if bad != "" || nPaths > 2000 {
				return
			}
			for _, q := range path {
				if q == b {
					return
				}
			}
			path = append(path, b)
			defer func() { path = path[:len(path)-1] }()
			for _, sc := range b.Succs {
				if sc != hdr.Block() {
					walk(sc)
					continue
				}
				// round the loop again: which run does the header see on this path
				nPaths++
				idx := -1
				for i, pr := range sc.Preds {
					if pr == b {
						idx = i
					}
				}
				v := hdr.Edges[idx]
				for {
					ph, ok := v.(*ssa.Phi)
					if !ok {
						break
					}
					k := -1
					for i, q := range path {
						if q == ph.Block() {
							k = i
						}
					}
					if k < 1 {
						break // merged before the failRun call: whatever it is, it was so at the call
					}
					pi := -1
					for i, pr := range ph.Block().Preds {
						if pr == path[k-1] {
							pi = i
						}
					}
					if pi < 0 {
						break
					}
					v = ph.Edges[pi]
				}
				if strip(v) != failed {
					bad = fmt.Sprintf("the loop goes on with %s after failing %s", canonShort(strip(v)), canonShort(failed))
				}
			}
		}
		walk(cs.Instr.Block())
		if nPaths == 0 {
			continue // the call is followed by a return on every path
		}
		n++
		r.Check(bad == "" && nPaths <= 2000, "R11", fmt.Sprintf("continueUntilWait/failRun#%d/loop-continues-from-failed-run", n), p.Pos(cs.Pos()), fmt.Sprintf("%d path(s) back to the loop header carry the failed run", nPaths),
			"after failRun the main loop does not continue from the run it failed ("+bad+"): the failure is not passed on to that run's parent, and an ancestor stays active after the sprint")
	}
	r.Count("failrun_sites_in_loop", n)
	r.Require("failrun_sites_in_loop", n, 1)
}
