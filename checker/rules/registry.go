// Package rules holds the repository-specific rules, one file per property.
package rules

import "verif/checker/core"

// Registry maps property id to its check.
var Registry = map[string]func(p *core.Program, r *core.Report){}

func register(id string, f func(p *core.Program, r *core.Report)) { Registry[id] = f }
