package rules

import (
	"fmt"
	"go/token"
	"go/types"

	"golang.org/x/tools/go/ssa"

	"verif/checker/core"
)

// Constant-offset slicing/indexing of strings and byte slices: s[k:], s[:k], s[k] with a constant k >= 1 (or s[0]) panic
// when the value is shorter. The rule requires a guard on the same value: a controlling len(s) comparison, a
// non-empty test, a HasPrefix/HasSuffix test, or a listed reason.

type strSliceSite struct {
	fn    *ssa.Function
	instr ssa.Instruction
	base  ssa.Value
	need  int64 // minimal length required
	expr  string
}

func isStringOrBytes(t types.Type) bool {
	switch u := t.Underlying().(type) {
	case *types.Basic:
		return u.Info()&types.IsString != 0
	case *types.Slice:
		if b, ok := u.Elem().Underlying().(*types.Basic); ok && b.Kind() == types.Byte {
			return true
		}
	}
	return false
}

func constOffsetSites(fn *ssa.Function) []strSliceSite {
	var out []strSliceSite
	core.EachInstr(fn, false, func(f *ssa.Function, in ssa.Instruction) {
		switch x := in.(type) {
		case *ssa.Slice:
			if !isStringOrBytes(x.X.Type()) {
				return
			}
			var need int64 = -1
			expr := ""
			if x.Low != nil {
				if k, ok := core.ConstInt(x.Low); ok && k >= 1 {
					need = k
					expr = fmt.Sprintf("[%d:]", k)
				}
			}
			if x.High != nil {
				if k, ok := core.ConstInt(x.High); ok && k >= 1 && k > need {
					need = k
					expr = fmt.Sprintf("[:%d]", k)
				}
			}
			if need >= 1 {
				out = append(out, strSliceSite{f, in, x.X, need, expr})
			}
		case *ssa.Lookup:
			if b, ok := x.X.Type().Underlying().(*types.Basic); ok && b.Info()&types.IsString != 0 {
				if k, ok := core.ConstInt(x.Index); ok {
					out = append(out, strSliceSite{f, in, x.X, k + 1, fmt.Sprintf("[%d]", k)})
				}
			}
		case *ssa.IndexAddr:
			if isStringOrBytes(x.X.Type()) {
				if k, ok := core.ConstInt(x.Index); ok {
					out = append(out, strSliceSite{f, in, x.X, k + 1, fmt.Sprintf("[%d]", k)})
				}
			}
		}
	})
	return out
}

// lengthGuard: a controlling condition establishes len(base) >= need (or non-emptiness for need==1).
func lengthGuard(site strSliceSite) string {
	base := site.base
	sameVal := func(v ssa.Value) bool { return v == base || canon(v) == canon(base) }
	isLenOf := func(v ssa.Value) bool {
		c, ok := v.(*ssa.Call)
		if !ok {
			return false
		}
		bi, ok := c.Call.Value.(*ssa.Builtin)
		return ok && bi.Name() == "len" && sameVal(c.Call.Args[0])
	}
	for _, ce := range core.ControllingConds(site.instr.Block()) {
		switch c := ce.Cond.(type) {
		case *ssa.BinOp:
			op := c.Op
			var k int64
			var haveLen bool
			if isLenOf(c.X) {
				if n, ok := core.ConstInt(c.Y); ok {
					k, haveLen = n, true
				}
			} else if isLenOf(c.Y) {
				if n, ok := core.ConstInt(c.X); ok {
					k, haveLen = n, true
					switch op {
					case token.LSS:
						op = token.GTR
					case token.GTR:
						op = token.LSS
					case token.LEQ:
						op = token.GEQ
					case token.GEQ:
						op = token.LEQ
					}
				}
			}
			if haveLen {
				var implied int64 = -1
				switch {
				case op == token.EQL && ce.Taken, op == token.NEQ && !ce.Taken:
					implied = k
				case op == token.GTR && ce.Taken, op == token.LEQ && !ce.Taken:
					implied = k + 1
				case op == token.GEQ && ce.Taken, op == token.LSS && !ce.Taken:
					implied = k
				case op == token.NEQ && ce.Taken && k == 0, op == token.EQL && !ce.Taken && k == 0:
					implied = 1
				}
				if implied >= site.need {
					return fmt.Sprintf("len >= %d on this edge", implied)
				}
				continue
			}
			// s != "" / s == ""
			if (op == token.NEQ && ce.Taken) || (op == token.EQL && !ce.Taken) {
				if s, ok := core.ConstString(c.Y); ok && s == "" && sameVal(c.X) && site.need <= 1 {
					return "non-empty test"
				}
				if s, ok := core.ConstString(c.X); ok && s == "" && sameVal(c.Y) && site.need <= 1 {
					return "non-empty test"
				}
			}
		case *ssa.Call:
			if o := core.CalleeObj(&c.Call); o != nil && ce.Taken {
				n := core.ObjName(o)
				if (n == "strings.HasPrefix" || n == "strings.HasSuffix" || n == "bytes.HasPrefix") && sameVal(c.Call.Args[0]) {
					if pre, ok := core.ConstString(c.Call.Args[1]); ok && int64(len(pre)) >= site.need {
						return n + " with a prefix of sufficient length"
					}
				}
			}
		}
	}
	return ""
}
