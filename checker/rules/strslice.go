package rules

import (
	"fmt"
	"go/ast"
	"go/constant"
	"go/token"
	"go/types"
	"regexp"
	"strings"

	"golang.org/x/tools/go/ssa"

	"verif/checker/core"
)

// Constant-offset slicing/indexing of strings and byte slices: s[k:], s[:k], s[k] with a constant k >= 1 (or s[0]) panic
// when the value is shorter. The rule requires a guard on the same value: a controlling len(s) comparison, a
// non-empty test, a HasPrefix/HasSuffix test, or a listed reason.

type strSliceSite struct {
	fn    *ssa.Function
	instr ssa.Instruction
	base  ssa.Value
	need  int64 // minimal length required
	expr  string
}

func isStringOrBytes(t types.Type) bool {
	switch u := t.Underlying().(type) {
	case *types.Basic:
		return u.Info()&types.IsString != 0
	case *types.Slice:
		if b, ok := u.Elem().Underlying().(*types.Basic); ok && b.Kind() == types.Byte {
			return true
		}
	}
	return false
}

func constOffsetSites(fn *ssa.Function) []strSliceSite {
	var out []strSliceSite
	core.EachInstr(fn, false, func(f *ssa.Function, in ssa.Instruction) {
		switch x := in.(type) {
		case *ssa.Slice:
			if !isStringOrBytes(x.X.Type()) {
				return
			}
			var need int64 = -1
			expr := ""
			if x.Low != nil {
				if k, ok := core.ConstInt(x.Low); ok && k >= 1 {
					need = k
					expr = fmt.Sprintf("[%d:]", k)
				}
			}
			if x.High != nil {
				if k, ok := core.ConstInt(x.High); ok && k >= 1 && k > need {
					need = k
					expr = fmt.Sprintf("[:%d]", k)
				}
			}
			if need >= 1 {
				out = append(out, strSliceSite{f, in, x.X, need, expr})
			}
		case *ssa.Lookup:
			if b, ok := x.X.Type().Underlying().(*types.Basic); ok && b.Info()&types.IsString != 0 {
				if k, ok := core.ConstInt(x.Index); ok {
					out = append(out, strSliceSite{f, in, x.X, k + 1, fmt.Sprintf("[%d]", k)})
				}
			}
		case *ssa.IndexAddr:
			if isStringOrBytes(x.X.Type()) {
				if k, ok := core.ConstInt(x.Index); ok {
					out = append(out, strSliceSite{f, in, x.X, k + 1, fmt.Sprintf("[%d]", k)})
				}
			}
		}
	})
	return out
}

// lengthGuard: a controlling condition establishes len(base) >= need (or non-emptiness for need==1).
func lengthGuard(site strSliceSite) string {
	base := site.base
	sameVal := func(v ssa.Value) bool { return v == base || canon(v) == canon(base) }
	isLenOf := func(v ssa.Value) bool {
		c, ok := v.(*ssa.Call)
		if !ok {
			return false
		}
		bi, ok := c.Call.Value.(*ssa.Builtin)
		return ok && bi.Name() == "len" && sameVal(c.Call.Args[0])
	}
	for _, ce := range core.ControllingConds(site.instr.Block()) {
		switch c := ce.Cond.(type) {
		case *ssa.BinOp:
			op := c.Op
			var k int64
			var haveLen bool
			if isLenOf(c.X) {
				if n, ok := core.ConstInt(c.Y); ok {
					k, haveLen = n, true
				}
			} else if isLenOf(c.Y) {
				if n, ok := core.ConstInt(c.X); ok {
					k, haveLen = n, true
					switch op {
					case token.LSS:
						op = token.GTR
					case token.GTR:
						op = token.LSS
					case token.LEQ:
						op = token.GEQ
					case token.GEQ:
						op = token.LEQ
					}
				}
			}
			if haveLen {
				var implied int64 = -1
				switch {
				case op == token.EQL && ce.Taken, op == token.NEQ && !ce.Taken:
					implied = k
				case op == token.GTR && ce.Taken, op == token.LEQ && !ce.Taken:
					implied = k + 1
				case op == token.GEQ && ce.Taken, op == token.LSS && !ce.Taken:
					implied = k
				case op == token.NEQ && ce.Taken && k == 0, op == token.EQL && !ce.Taken && k == 0:
					implied = 1
				}
				if implied >= site.need {
					return fmt.Sprintf("len >= %d on this edge", implied)
				}
				continue
			}
			// s != "" / s == ""
			if (op == token.NEQ && ce.Taken) || (op == token.EQL && !ce.Taken) {
				if s, ok := core.ConstString(c.Y); ok && s == "" && sameVal(c.X) && site.need <= 1 {
					return "non-empty test"
				}
				if s, ok := core.ConstString(c.X); ok && s == "" && sameVal(c.Y) && site.need <= 1 {
					return "non-empty test"
				}
			}
		case *ssa.Call:
			if o := core.CalleeObj(&c.Call); o != nil && ce.Taken {
				n := core.ObjName(o)
				if (n == "strings.HasPrefix" || n == "strings.HasSuffix" || n == "bytes.HasPrefix") && sameVal(c.Call.Args[0]) {
					if pre, ok := core.ConstString(c.Call.Args[1]); ok && int64(len(pre)) >= site.need {
						return n + " with a prefix of sufficient length"
					}
				}
			}
		}
	}
	return ""
}

// GlobalRegexpPattern is set by the rule driver: it resolves a package-level *regexp.Regexp variable to the constant
// pattern it is compiled from ("" if unknown).
var GlobalRegexpPattern func(g *ssa.Global) string

// regexpGroupsOf: number of capture groups of the regexp value v when it is a package-level variable initialised with
// regexp.MustCompile(<constant>); -1 if unknown.
func regexpGroupsOf(v ssa.Value) int {
	ld, ok := v.(*ssa.UnOp)
	if !ok || ld.Op != token.MUL {
		return -1
	}
	g, ok := ld.X.(*ssa.Global)
	if !ok || GlobalRegexpPattern == nil {
		return -1
	}
	pat := GlobalRegexpPattern(g)
	if pat == "" {
		return -1
	}
	re, err := regexp.Compile(pat)
	if err != nil {
		return -1
	}
	return re.NumSubexp()
}

// constIndexSites: constant index / slice bound on general slices (not strings, not the variadic args handled by R3).
func constIndexSites(fn *ssa.Function) []strSliceSite {
	var out []strSliceSite
	core.EachInstr(fn, false, func(f *ssa.Function, in ssa.Instruction) {
		switch x := in.(type) {
		case *ssa.IndexAddr:
			if _, ok := x.X.Type().Underlying().(*types.Slice); !ok || isStringOrBytes(x.X.Type()) {
				return
			}
			if k, ok := core.ConstInt(x.Index); ok {
				out = append(out, strSliceSite{f, in, x.X, k + 1, fmt.Sprintf("[%d]", k)})
			}
		case *ssa.Slice:
			if _, ok := x.X.Type().Underlying().(*types.Slice); !ok || isStringOrBytes(x.X.Type()) {
				return
			}
			var need int64 = -1
			expr := ""
			if x.Low != nil {
				if k, ok := core.ConstInt(x.Low); ok && k >= 1 {
					need, expr = k, fmt.Sprintf("[%d:]", k)
				}
			}
			if x.High != nil {
				if k, ok := core.ConstInt(x.High); ok && k >= 1 && k > need {
					need, expr = k, fmt.Sprintf("[:%d]", k)
				}
			}
			if need >= 1 {
				out = append(out, strSliceSite{f, in, x.X, need, expr})
			}
		}
	})
	return out
}

// sliceLenLB: lower bound of len(base) at block b by range analysis over len(base) comparisons (canon-equal operands),
// plus structural knowledge about the producer of base.
// calleeArgEnv: while a callee's returns are being bounded on behalf of a call, the arguments its parameters stand
// for (innermost call last): a parameter the callee passes on to a further callee is still the caller's argument.
type calleeArgBinding struct {
	params []*ssa.Parameter
	args   []ssa.Value
	block  *ssa.BasicBlock
}

var calleeArgEnv []calleeArgBinding

func sliceLenLB(b *ssa.BasicBlock, base ssa.Value) (int64, string) {
	if prm, ok := core.StripConv(base).(*ssa.Parameter); ok && len(calleeArgEnv) > 0 {
		top := calleeArgEnv[len(calleeArgEnv)-1]
		for i, fp := range top.params {
			if fp == prm && i < len(top.args) {
				saved := calleeArgEnv
				calleeArgEnv = calleeArgEnv[:len(calleeArgEnv)-1]
				n, why := sliceLenLB(top.block, top.args[i])
				calleeArgEnv = saved
				if n > 0 {
					return n, why
				}
			}
		}
	}
	// a parameter of a function literal (or of an unexported package-level function): it is only ever called with what its callers hand it — every call
	// site the call graph knows for it (direct calls in the enclosing function, or calls of the function value where
	// it was passed as a callback) must hand over a value with the bound
	if prm, ok := core.StripConv(base).(*ssa.Parameter); ok && (prm.Parent().Parent() != nil || (prm.Parent().Object() != nil && !prm.Parent().Object().Exported() && prm.Parent().Signature.Recv() == nil)) && lenLBProgram != nil && closureLBDepth < 2 {
		pi := -1
		for i, q := range prm.Parent().Params {
			if q == prm {
				pi = i
			}
		}
		if node := lenLBProgram.CG().Nodes[prm.Parent()]; node != nil && pi >= 0 && len(node.In) > 0 {
			closureLBDepth++
			best := int64(-1)
			for _, e := range node.In {
				if e.Site == nil || e.Site.Common().IsInvoke() || pi >= len(e.Site.Common().Args) {
					best = 0
					break
				}
				n, _ := sliceLenLB(e.Site.Block(), e.Site.Common().Args[pi])
				if best < 0 || n < best {
					best = n
				}
			}
			closureLBDepth--
			if best > 0 {
				// what the literal tests itself may prove more
				closureLBDepth += 10
				n, why := sliceLenLB(b, base)
				closureLBDepth -= 10
				if n > best {
					return n, why
				}
				return best, fmt.Sprintf("every call of the function literal hands it at least %d element(s)", best)
			}
		}
	}
	cb := canon(base)
	isLen := func(v ssa.Value) bool {
		c, ok := v.(*ssa.Call)
		if !ok {
			return false
		}
		bi, ok := c.Call.Value.(*ssa.Builtin)
		return ok && bi.Name() == "len" && (c.Call.Args[0] == base || canon(c.Call.Args[0]) == cb)
	}
	m := core.ForwardLowerBound(b.Parent(), 0, func(cond ssa.Value, taken bool) (int64, bool) {
		bo, ok := cond.(*ssa.BinOp)
		if !ok {
			return 0, false
		}
		op := bo.Op
		var c int64
		if isLen(bo.X) {
			n, isC := core.ConstInt(bo.Y)
			if !isC {
				return 0, false
			}
			c = n
		} else if isLen(bo.Y) {
			n, isC := core.ConstInt(bo.X)
			if !isC {
				return 0, false
			}
			c = n
			switch op {
			case token.LSS:
				op = token.GTR
			case token.GTR:
				op = token.LSS
			case token.LEQ:
				op = token.GEQ
			case token.GEQ:
				op = token.LEQ
			}
		} else {
			return 0, false
		}
		switch {
		case op == token.EQL && taken, op == token.NEQ && !taken:
			return c, true
		case op == token.GTR && taken, op == token.LEQ && !taken:
			return c + 1, true
		case op == token.GEQ && taken, op == token.LSS && !taken:
			return c, true
		case op == token.NEQ && taken && c == 0, op == token.EQL && !taken && c == 0:
			return 1, true
		}
		return 0, false
	})
	lb := m[b]
	why := "len comparison"
	// producers with a known minimum length
	switch x := core.StripConv(base).(type) {
	case *ssa.Call:
		if o := core.CalleeObj(&x.Call); o != nil {
			switch core.ObjName(o) {
			case "strings.Split", "strings.SplitN", "strings.SplitAfter", "bytes.Split":
				if lb < 1 {
					lb, why = 1, core.ObjName(o)+" returns at least one element"
				}
			case "regexp.Regexp.FindStringSubmatch", "regexp.Regexp.FindSubmatch", "regexp.Regexp.FindStringSubmatchIndex", "regexp.Regexp.FindStringIndex":
				// a non-nil result holds the whole match and one element per capture group
				if nilGuarded(b, base) {
					n := int64(1)
					if g := regexpGroupsOf(x.Call.Args[0]); g >= 0 && (o.Name() == "FindStringSubmatch" || o.Name() == "FindSubmatch") {
						n = int64(g) + 1
					}
					if n > lb {
						lb, why = n, fmt.Sprintf("non-nil %s result has %d elements", o.Name(), n)
					}
				}
			}
		}
	case *ssa.Slice:
		if al, ok := x.X.(*ssa.Alloc); ok {
			if at, ok := al.Type().Underlying().(*types.Pointer).Elem().Underlying().(*types.Array); ok && x.Low == nil && x.High == nil {
				if at.Len() > lb {
					lb, why = at.Len(), "literal of known length"
				}
			}
		}
	case *ssa.MakeSlice:
		if k, ok := core.ConstInt(x.Len); ok && k > lb {
			lb, why = k, "make with constant length"
		} else if k := intLB(x.Len, map[ssa.Value]bool{}, 0); k > lb && k < 1<<40 {
			lb, why = k, fmt.Sprintf("made with a length of at least %d", k)
		}
	}
	if tokText != nil {
		if n, w := tokText.lowerBound(base, 0); n > lb {
			lb, why = n, w
		}
	}
	if n, w := calleeLenLB(b, base, 0); n > lb {
		lb, why = n, w
	}
	if prm, ok := core.StripConv(base).(*ssa.Parameter); ok && lenLBProgram != nil {
		if pats := regexCallbackPatterns(lenLBProgram, prm); len(pats) > 0 {
			best := int64(-1)
			for _, pat := range pats {
				if n := regexMinMatchLen(pat); best < 0 || n < best {
					best = n
				}
			}
			if best > lb {
				lb, why = best, fmt.Sprintf("a match of %s handed to the ReplaceAllStringFunc callback: at least %d bytes", strings.Join(pats, " / "), best)
			}
		}
	}
	return lb, why
}

// lenLBProgram: the program the length producers may consult (set with the regexp resolver).
var lenLBProgram *core.Program

// installRegexpResolver wires GlobalRegexpPattern to the AST of the loaded program.
func installRegexpResolver(p *core.Program) {
	lenLBProgram = p
	cache := map[*ssa.Global]string{}
	GlobalRegexpPattern = func(g *ssa.Global) string {
		if s, ok := cache[g]; ok {
			return s
		}
		cache[g] = ""
		pk := p.ByPkg[g.Pkg.Pkg.Path()]
		if pk == nil {
			return ""
		}
		for _, f := range pk.Syntax {
			for _, d := range f.Decls {
				gd, ok := d.(*ast.GenDecl)
				if !ok || gd.Tok != token.VAR {
					continue
				}
				for _, sp := range gd.Specs {
					vs := sp.(*ast.ValueSpec)
					for i, nm := range vs.Names {
						if nm.Name != g.Name() || i >= len(vs.Values) {
							continue
						}
						call, ok := vs.Values[i].(*ast.CallExpr)
						if !ok || len(call.Args) != 1 {
							continue
						}
						if sel, ok := call.Fun.(*ast.SelectorExpr); !ok || sel.Sel.Name != "MustCompile" {
							continue
						}
						if tv, ok := pk.TypesInfo.Types[call.Args[0]]; ok && tv.Value != nil && tv.Value.Kind() == constant.String {
							cache[g] = constant.StringVal(tv.Value)
						}
					}
				}
			}
		}
		return cache[g]
	}
}

// calleeLenLB: base is (a component of) the result of a call to a module function with a body: the minimum, over the
// callee's returns, of what is established for the returned value there — a length test on the path to the return,
// a producer of known length, or, when a parameter is returned as is, the bound of the argument at this call.
var calleeLBDepth int
var closureLBDepth int

func calleeLenLB(b *ssa.BasicBlock, base ssa.Value, depth int) (int64, string) {
	if calleeLBDepth >= 2 {
		return 0, ""
	}
	calleeLBDepth++
	defer func() { calleeLBDepth-- }()
	v := core.StripConv(base)
	idx := 0
	if ex, ok := v.(*ssa.Extract); ok {
		idx = ex.Index
		v = ex.Tuple
	}
	call, ok := v.(*ssa.Call)
	if !ok {
		return 0, ""
	}
	var callees []*ssa.Function
	var args [][]ssa.Value
	if call.Call.IsInvoke() {
		// a method of a module interface: every implementation in the module must yield the bound (the receiver is
		// the first parameter of the implementation, the interface value stands for it)
		if lenLBProgram == nil {
			return 0, ""
		}
		iface, _ := call.Call.Value.Type().Underlying().(*types.Interface)
		if iface == nil {
			return 0, ""
		}
		for _, n := range lenLBProgram.Implementers(iface) {
			var m *ssa.Function
			for _, t := range []types.Type{n, types.NewPointer(n)} {
				if sel := lenLBProgram.SSA.MethodSets.MethodSet(t).Lookup(call.Call.Method.Pkg(), call.Call.Method.Name()); sel != nil {
					m = lenLBProgram.SSA.MethodValue(sel)
					break
				}
			}
			if m == nil || m.Blocks == nil {
				return 0, ""
			}
			if lenLBProgram.IsTestFile(m.Pos()) {
				continue
			}
			// promoted through embedding: the wrapper forwards to the declared method
			callees = append(callees, m)
			args = append(args, append([]ssa.Value{call.Call.Value}, call.Call.Args...))
		}
		if len(callees) == 0 {
			return 0, ""
		}
	} else {
		g := call.Call.StaticCallee()
		if g == nil || g.Blocks == nil || !core.InModule(core.FuncPkgPath(g)) {
			return 0, ""
		}
		callees, args = []*ssa.Function{g}, [][]ssa.Value{call.Call.Args}
	}
	best := int64(-1)
	for ci, g := range callees {
		n := calleeReturnsLB(b, g, args[ci], idx, depth)
		if best < 0 || n < best {
			best = n
		}
	}
	if best <= 0 {
		return 0, ""
	}
	return best, fmt.Sprintf("every return of %s yields at least %d element(s)", callees[0].Name(), best)
}

// calleeReturnsLB: the minimum, over the returns of g, of the length bound of result idx, with g's parameters bound to args.
func calleeReturnsLB(b *ssa.BasicBlock, g *ssa.Function, args []ssa.Value, idx int, depth int) int64 {
	best := int64(-1)
	calleeArgEnv = append(calleeArgEnv, calleeArgBinding{g.Params, args, b})
	defer func() { calleeArgEnv = calleeArgEnv[:len(calleeArgEnv)-1] }()
	for _, gb := range g.Blocks {
		ret, ok := gb.Instrs[len(gb.Instrs)-1].(*ssa.Return)
		if !ok {
			continue
		}
		if idx >= len(ret.Results) {
			return 0
		}
		rv := core.StripConv(ret.Results[idx])
		n, _ := sliceLenLBDepth(gb, rv, depth+1) // a returned parameter is resolved through calleeArgEnv
		if best < 0 || n < best {
			best = n
		}
	}
	if best < 0 {
		return 0
	}
	return best
}

func sliceLenLBDepth(b *ssa.BasicBlock, base ssa.Value, depth int) (int64, string) {
	return sliceLenLB(b, base)
}
