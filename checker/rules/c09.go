package rules

import (
	"fmt"
	"go/token"
	"go/types"
	"sort"
	"strings"

	"golang.org/x/tools/go/ssa"

	"verif/checker/core"
)

func init() { register("C09", checkC09) }

// sharedTypes computes the struct types reachable from the concrete SessionAssets / FlowAssets implementations:
// everything a running session can reach that other sessions reach too.
func sharedTypes(p *core.Program) map[string]*types.Named {
	out := map[string]*types.Named{}
	var work []*types.Named
	via := ""
	add := func(n *types.Named) {
		if n == nil || n.Obj().Pkg() == nil || !core.InModule(n.Obj().Pkg().Path()) {
			return
		}
		if _, isSt := n.Underlying().(*types.Struct); !isSt {
			return
		}
		k := core.QualName(n)
		if _, ok := out[k]; ok {
			return
		}
		out[k] = n
		sharedVia[k] = via
		work = append(work, n)
	}
	for _, root := range []struct{ rel, name string }{{"flows/engine", "sessionAssets"}, {"flows/definition", "flowAssets"}} {
		add(p.NamedType(root.rel, root.name))
	}
	var visitType func(t types.Type, depth int)
	visitType = func(t types.Type, depth int) {
		if depth > 6 {
			return
		}
		switch x := t.(type) {
		case *types.Pointer:
			visitType(x.Elem(), depth+1)
		case *types.Slice:
			visitType(x.Elem(), depth+1)
		case *types.Array:
			visitType(x.Elem(), depth+1)
		case *types.Map:
			visitType(x.Key(), depth+1)
			visitType(x.Elem(), depth+1)
		case *types.Named:
			if x.Obj().Pkg() == nil || !core.InModule(x.Obj().Pkg().Path()) {
				return
			}
			switch u := x.Underlying().(type) {
			case *types.Struct:
				add(x)
			case *types.Interface:
				// interface-typed field: the module structs that implement it, restricted to the package that provides
				// the definition-side implementations (structural typing would otherwise pull in every type with a
				// Type() method); interfaces not listed are not expanded and are reported in the evidence
				_ = u
				pkgs, ok := c09InterfaceImpls[core.QualName(x)]
				if !ok {
					c09Unexpanded[core.QualName(x)] = true
					return
				}
				for _, impl := range p.Implementers(x.Underlying().(*types.Interface)) {
					rel := core.RelPkg(impl.Obj().Pkg().Path())
					for _, okPkg := range pkgs {
						if rel == okPkg {
							add(impl)
						}
					}
				}
			default:
				visitType(u, depth+1)
			}
		}
	}
	for len(work) > 0 {
		n := work[0]
		work = work[1:]
		st := n.Underlying().(*types.Struct)
		for i := 0; i < st.NumFields(); i++ {
			via = core.QualName(n) + "." + st.Field(i).Name()
			visitType(st.Field(i).Type(), 0)
		}
	}
	return out
}

// c09InterfaceImpls: interface-typed fields of shared structs and the packages whose structs can sit behind them in a
// loaded definition / asset collection.
var c09InterfaceImpls = map[string][]string{
	"flows.FlowAssets":      {"flows/definition"},
	"flows.Flow":            {"flows/definition"},
	"flows.Node":            {"flows/definition"},
	"flows.Exit":            {"flows/definition"},
	"flows.Localization":    {"flows/definition"},
	"flows.Action":          {"flows/actions"},
	"flows.Router":          {"flows/routers"},
	"flows.Category":        {"flows/routers"},
	"flows.Wait":            {"flows/routers/waits"},
	"flows.Timeout":         {"flows/routers/waits"},
	"flows.Hint":            {"flows/routers/waits/hints"},
	"contactql.QueryNode":   {"contactql"},
	"contactql.Resolver":    {},
	"flows.SessionAssets":   {"flows/engine"},
	"envs.LocationResolver": {"envs"},
}

var c09Unexpanded = map[string]bool{}

// sharedVia records through which field a type entered the closure (diagnostics).
var sharedVia = map[string]string{}

// session-owned types that the closure must never contain (a pointer from shared to session state would make the
// whole analysis meaningless)
var c09SessionOwned = []string{"flows/engine.session", "flows/runs.run", "flows/runs.step", "flows/engine.sprint", "flows.Contact", "flows.ContactURN", "flows.GroupList"}

// fields of shared types whose writes are handled by a dedicated rule
var c09FieldRules = map[string]string{
	"flows/definition.flowAssets.cache": "written under the mutex (R2)",
	"flows/definition.flowAssets.mutex": "the lock itself",
}

// frozen table: writes to shared types that cannot happen in the session phase for a reason the analysis cannot see
var c09WriteAllowed = map[string]string{}

// c09HeldSlice: v is a slice that something else keeps holding: loaded from a struct field, looked up in a map, or
// returned (depth 2) by a module function that returns such a slice. Returns a description, "" when fresh or unknown.
func c09HeldSlice(v ssa.Value, depth int) (string, ssa.Value) {
	switch x := v.(type) {
	case *ssa.UnOp:
		if x.Op == token.MUL {
			if fa, ok := x.X.(*ssa.FieldAddr); ok {
				o, f := ownerOfFieldAddr(fa)
				return "field " + o + "." + f, fa
			}
		}
	case *ssa.Lookup:
		if _, isMap := x.X.Type().Underlying().(*types.Map); isMap {
			return "an element of " + core.ShortType(x.X.Type()), nil
		}
	case *ssa.Extract:
		if lk, ok := x.Tuple.(*ssa.Lookup); ok && x.Index == 0 {
			return "an element of " + core.ShortType(lk.X.Type()), nil
		}
	case *ssa.Call:
		g := x.Call.StaticCallee()
		if g == nil || g.Blocks == nil || depth >= 2 || !strings.HasPrefix(core.FuncPkgPath(g), core.ModPath) {
			return "", nil
		}
		for _, ret := range core.Returns(g) {
			for _, rv := range ret.Results {
				if _, isSl := rv.Type().Underlying().(*types.Slice); !isSl {
					continue
				}
				if d, _ := c09HeldSlice(rv, depth+1); d != "" {
					return d + " (returned uncopied by " + core.FuncName(g) + ")", nil
				}
			}
		}
	}
	return "", nil
}

func c09R8(p *core.Program, r *core.Report) {
	scope := map[string]bool{"envs": true, "assets/static": true, "flows": true, "flows/definition": true, "flows/engine": true, "flows/routers": true, "flows/routers/cases": true, "flows/actions": true, "flows/inspect": true}
	nAppends := 0
	per := map[string]int{}
	for _, fn := range p.ModuleFunctions() {
		if !scope[core.RelPkg(core.FuncPkgPath(fn))] || p.IsTestFile(fn.Pos()) || fn.Synthetic != "" {
			continue
		}
		core.EachInstr(fn, false, func(_ *ssa.Function, in ssa.Instruction) {
			call, ok := in.(*ssa.Call)
			if !ok {
				return
			}
			if b, isB := call.Call.Value.(*ssa.Builtin); !isB || b.Name() != "append" {
				return
			}
			nAppends++
			// the re-slices the first argument derives from
			seen := map[ssa.Value]bool{}
			var held string
			var heldAt ssa.Value
			var walk func(v ssa.Value)
			walk = func(v ssa.Value) {
				if seen[v] || held != "" {
					return
				}
				seen[v] = true
				switch x := v.(type) {
				case *ssa.Phi:
					for _, e := range x.Edges {
						walk(e)
					}
				case *ssa.Call:
					if b, ok := x.Call.Value.(*ssa.Builtin); ok && b.Name() == "append" {
						walk(x.Call.Args[0])
					}
				case *ssa.Slice:
					if _, isSl := x.X.Type().Underlying().(*types.Slice); isSl {
						if d, at := c09HeldSlice(x.X, 0); d != "" {
							held, heldAt = d, at
						}
					}
				}
			}
			walk(call.Call.Args[0])
			if held == "" {
				return
			}
			// stored back into the very field it was read from: the owner edits its own list
			if heldAt != nil {
				for _, ref := range *call.Referrers() {
					if st, ok := ref.(*ssa.Store); ok {
						if fa, ok := st.Addr.(*ssa.FieldAddr); ok {
							if ha := heldAt.(*ssa.FieldAddr); fa.Field == ha.Field && fa.X == ha.X {
								return
							}
						}
					}
				}
			}
			k := core.FuncName(fn)
			per[k]++
			key := k + "/append-into-held-slice"
			if per[k] > 1 {
				key = fmt.Sprintf("%s#%d", key, per[k])
			}
			r.Bad("R8", key, p.Pos(call.Pos()), "the append writes into the backing array of "+held+": whoever else reads that slice — another session over the same assets — sees its elements overwritten")
		})
	}
	if len(per) == 0 {
		r.OK("R8", "no-append-into-held-slice", "", fmt.Sprintf("%d appends scanned; none writes into a re-slice of a field, map element or uncopied result (appends stored back into the owner's own field excepted)", nAppends))
	}
	r.Count("appends_scanned", nAppends)
	r.Require("appends_scanned", nAppends, 40)
}

func checkC09(p *core.Program, r *core.Report) {
	r.Rule("R1", "shared-write audit: the session-phase entry points (NewSession, Resume, ReadSession, MarshalJSON, Inspect/Extract*, ChangeLanguage, evaluation, modifiers.Apply, asset getters) have no interprocedural write summary through a non-fresh object of a type reachable from SessionAssets/FlowAssets (including appends into re-slices of shared slices); package-level variables are not written outside init")
	r.Rule("R2", "lock discipline: every access to flowAssets.cache is preceded by mutex.Lock() in the same function with the Unlock deferred (no explicit Unlock can reach the access)")
	r.Rule("R3", "lazily initialised values are not shared: package-level variables of types with an unsynchronised initialise-on-read method (XObject, XArray) are constructed eagerly")
	r.Rule("R7", "no library object that keeps state between calls is shared: no package-level variable has a type the library documents as not safe for concurrent use (cases.Caser, rand.Rand, bytes.Buffer, strings.Builder, a transform.Transformer, a json or csv codec, a hash) — sessions on different goroutines would run it at once")
	r.Rule("R4", "the writer callbacks handed out by EnumerateLocalizables are invoked only on a flow that is a fresh copy")
	r.Rule("R6", "package-level expression values are never marked: XValue.SetDeprecated (the one mutator of X values) is only called on a value that cannot be a package-level variable — followed backwards through phis, conversions and the returns of the module functions that produced it (a conversion that hands out shared singletons such as XBooleanTrue makes the mark visible to every session)")
	r.Rule("R5", "JSON decode targets do not alias shared data: no pointer field of a struct handed to a JSON decoder can hold a pointer derived from a package-level variable at the call (encoding/json writes through existing pointers), unless the function stores a fresh value into it first")
	r.Rule("R8", "no append into the backing array of a slice that is held elsewhere: in the packages that hold shared assets and definitions (envs, assets/static, flows, flows/definition, flows/engine, flows/routers, flows/routers/cases, flows/actions, flows/inspect) the first argument of an append never derives — through phis and earlier appends — from a re-slice x[lo:hi] of a slice that was read from a struct field, from a map, or returned by a module function that returns such a slice without copying it, unless the result is stored back into the very place the slice was read from (x = append(x[:i], x[i+1:]...) on the owner's own field): `filtered := matches[:0]` over the per-level name lookup of the location hierarchy lets one session overwrite what every other session reads")
	c09R8(p, r)
	r.Assumption("dependencies (validator caches, regexp) are goroutine-safe; the host's asset source is goroutine-safe")

	shared := sharedTypes(p)
	if !r.Require("shared_struct_types", len(shared), 40) {
		return
	}
	for _, so := range c09SessionOwned {
		if _, bad := shared[so]; bad {
			chain := so
			for k, n := so, 0; sharedVia[k] != "" && n < 12; n++ {
				chain += " <- " + sharedVia[k]
				k = sharedVia[k][:strings.LastIndex(sharedVia[k], ".")]
			}
			r.Errorf("session-owned type %s is reachable from the shared asset types (%s): the shared/owned split of the analysis does not hold", so, chain)
			return
		}
	}
	names := core.SortedKeys(shared)
	r.Tables["shared_types"] = names
	r.Tables["interfaces_not_expanded"] = core.SortedKeys(c09Unexpanded)

	owns := func(o, f string) bool {
		if _, ok := shared[o]; !ok {
			return false
		}
		if _, special := c09FieldRules[o+"."+f]; special {
			return false
		}
		return true
	}
	ec := &effectCtx{p: p, memo: map[*ssa.Function]map[string]string{}, busy: map[*ssa.Function]bool{}, owns: owns,
		mapType: func(t string) bool {
			return t == "flows/definition.localization" || t == "flows/definition.languageTranslation" || t == "flows/definition.itemTranslation"
		},
		sliceAlias: true, noCallbacks: true}

	// ------------------------------------------------------------------ R1 entry points
	type entry struct {
		fn    *ssa.Function
		label string
	}
	var entries []entry
	addM := func(rel, typ, m string) {
		if f := p.Method(rel, typ, m); f != nil && f.Blocks != nil {
			entries = append(entries, entry{f, rel + "." + typ + "." + m})
		} else {
			r.Errorf("entry point %s.%s.%s not found", rel, typ, m)
		}
	}
	addM("flows/engine", "engine", "NewSession")
	addM("flows/engine", "engine", "ReadSession")
	addM("flows/engine", "session", "Resume")
	addM("flows/engine", "session", "MarshalJSON")
	addM("flows/engine", "session", "CurrentContext")
	addM("flows/definition", "flow", "Inspect")
	addM("flows/definition", "flow", "ExtractTemplates")
	addM("flows/definition", "flow", "ExtractLocalizables")
	addM("flows/definition", "flow", "ChangeLanguage")
	addM("flows/definition", "flow", "MarshalJSON")
	addM("flows/definition", "flowAssets", "Get")
	addM("flows/definition", "flowAssets", "FindByName")
	addM("excellent", "Evaluator", "Template")
	addM("excellent", "Evaluator", "TemplateValue")
	if f := p.Func("flows/modifiers", "Apply"); f != nil {
		entries = append(entries, entry{f, "flows/modifiers.Apply"})
	}
	// every exported method of the shared asset collection types (getters used by actions)
	for _, k := range names {
		n := shared[k]
		if !strings.HasSuffix(n.Obj().Name(), "Assets") {
			continue
		}
		ms := p.SSA.MethodSets.MethodSet(types.NewPointer(n))
		for i := 0; i < ms.Len(); i++ {
			if !ms.At(i).Obj().Exported() {
				continue
			}
			if f := p.SSA.MethodValue(ms.At(i)); f != nil && f.Blocks != nil && f.Synthetic == "" {
				entries = append(entries, entry{f, k + "." + f.Name()})
			}
		}
	}
	if !r.Require("session_phase_entry_points", len(entries), 25) {
		return
	}
	sort.Slice(entries, func(i, j int) bool { return entries[i].label < entries[j].label })
	for _, en := range entries {
		sm := ec.summary(en.fn, 0)
		key := en.label + "/no-shared-write"
		if len(sm) == 0 {
			r.OK("R1", key, p.Pos(en.fn.Pos()), "no write to a shared type through a non-fresh object")
			continue
		}
		var ds []string
		for _, rt := range core.SortedKeys(sm) {
			ds = append(ds, sm[rt]+" [via "+rt+"]")
		}
		d := strings.Join(ds, "; ")
		if reason, ok := c09WriteAllowed[en.label]; ok {
			r.OK("R1", key, p.Pos(en.fn.Pos()), "listed: "+reason)
			continue
		}
		r.Bad("R1", key, p.Pos(en.fn.Pos()), "a running session can write memory that other sessions read (data race): "+d)
	}
	r.Count("functions_summarised", len(ec.memo))
	// package-level variables written outside init
	nG := 0
	for _, fn := range p.ModuleFunctions() {
		rel := core.RelPkg(core.FuncPkgPath(fn))
		if p.IsTestFile(fn.Pos()) || strings.HasPrefix(rel, "cmd") || strings.HasPrefix(rel, "test") || strings.HasPrefix(rel, "antlr/gen") {
			continue
		}
		root := rootFn(fn)
		if root.Name() == "init" || strings.HasPrefix(root.Name(), "init#") {
			continue
		}
		core.EachInstr(fn, false, func(f *ssa.Function, in ssa.Instruction) {
			var g *ssa.Global
			what := ""
			switch x := in.(type) {
			case *ssa.Store:
				if gg, ok := x.Addr.(*ssa.Global); ok {
					g, what = gg, "store"
				}
			case *ssa.MapUpdate:
				if ld, ok := x.Map.(*ssa.UnOp); ok {
					if gg, ok := ld.X.(*ssa.Global); ok {
						g, what = gg, "map update"
					}
				}
			}
			if g == nil || g.Pkg == nil || !core.InModule(g.Pkg.Pkg.Path()) {
				return
			}
			nG++
			key := core.FuncName(root) + "->" + core.RelPkgAny(g.Pkg.Pkg.Path()) + "." + g.Name()
			// registration helpers called (transitively) only from init functions are construction-phase
			callers := 0
			var onlyInitFn func(f *ssa.Function, depth int) bool
			onlyInitFn = func(f *ssa.Function, depth int) bool {
				if depth > 4 {
					return false
				}
				n := 0
				for _, cs := range p.CallsTo(f) {
					if p.IsTestFile(cs.Pos()) {
						continue
					}
					n++
					cr := rootFn(cs.Caller)
					if cr.Name() == "init" || strings.HasPrefix(cr.Name(), "init#") {
						continue
					}
					if !onlyInitFn(cr, depth+1) {
						return false
					}
				}
				if depth == 0 {
					callers = n
				}
				return n > 0
			}
			onlyInit := onlyInitFn(root, 0)
			if callers > 0 && onlyInit {
				r.OK("R1", key, p.Pos(in.Pos()), what+" in a registration helper called only from init functions")
				return
			}
			if callers == 0 && root.Object() != nil && root.Object().Exported() && (strings.HasPrefix(root.Name(), "Register") || strings.HasPrefix(root.Name(), "Set")) {
				r.OK("R1", key, p.Pos(in.Pos()), what+" in an exported registration/configuration function meant for process start-up (no caller in the module)")
				return
			}
			if reason, ok := c09WriteAllowed[key]; ok {
				r.OK("R1", key, p.Pos(in.Pos()), "listed: "+reason)
				return
			}
			r.Bad("R1", key, p.Pos(in.Pos()), "package-level variable written outside init: every session shares it")
		})
	}
	r.Count("global_write_sites", nG)

	// ------------------------------------------------------------------ R2 lock discipline
	cacheF := p.FieldOf("flows/definition", "flowAssets", "cache")
	if cacheF == nil {
		r.Errorf("flowAssets.cache not found")
		return
	}
	nAcc := 0
	per := map[string]int{}
	for _, fn := range p.ModuleFunctions() {
		if p.IsTestFile(fn.Pos()) {
			continue
		}
		var accesses []ssa.Instruction
		core.EachInstr(fn, false, func(_ *ssa.Function, in ssa.Instruction) {
			if fa, ok := in.(*ssa.FieldAddr); ok && core.FieldAddrVar(fa) == cacheF {
				if _, fresh := fa.X.(*ssa.Alloc); fresh {
					return // constructor
				}
				// the access is wherever the address is used
				for _, ref := range *fa.Referrers() {
					accesses = append(accesses, ref)
					// loads: the loaded map's uses are the real accesses
					if ld, ok := ref.(*ssa.UnOp); ok {
						for _, r2 := range *ld.Referrers() {
							accesses = append(accesses, r2)
						}
					}
				}
			}
		})
		if len(accesses) == 0 {
			continue
		}
		for _, acc := range accesses {
			nAcc++
			k := core.FuncName(fn) + "/cache-access"
			per[k]++
			key := k
			if per[k] > 1 {
				key = fmt.Sprintf("%s#%d", k, per[k])
			}
			detail := c09LockHeld(p, fn, acc, 0)
			r.Check(detail == "", "R2", key, p.Pos(acc.Pos()), "under mutex.Lock() with the lock still held (in this function, or at every call of this unexported helper)", "flow cache accessed outside the critical section: "+detail)
		}
	}
	r.Require("flow_cache_accesses", nAcc, 3)

	// ------------------------------------------------------------------ R3 lazy values in globals
	lazyTypes := map[string]bool{"excellent/types.XObject": true, "excellent/types.XArray": true}
	// confirm the lazy methods exist (store to receiver inside a method reached from read accessors)
	for _, lt := range []struct{ typ, m, field string }{{"XObject", "ensureInitialized", "props"}, {"XArray", "values", "data"}} {
		m := p.Method("excellent/types", lt.typ, lt.m)
		writes := false
		if m != nil {
			core.EachInstr(m, false, func(_ *ssa.Function, in ssa.Instruction) {
				if st, ok := in.(*ssa.Store); ok {
					if _, f := ownerOfFieldAddr(st.Addr); f != "" {
						writes = true
					}
				}
			})
		}
		if !writes {
			r.Errorf("lazy initialiser %s.%s not found or no longer writes its receiver: R3's premise changed", lt.typ, lt.m)
		}
	}
	// ... and those are the only fields a method of these types writes into its receiver: a new memo field (sorted
	// names kept after the first call) is a new write-on-first-read the eager constructors do not fill
	{
		lazyFields := map[string]map[string]string{
			"excellent/types.XObject": {"props": "filled by ensureInitialized; the eager constructors fill it", "def": "set together with props by ensureInitialized; the eager constructors call it", "deprecated": "written by SetDeprecated only (R6)",
				"marshalDefault": "!uncalled", "marshalDeprecated": "!uncalled"},
			"excellent/types.XArray": {"data": "filled by values(); the eager constructors fill it", "deprecated": "written by SetDeprecated only (R6)"},
		}
		nW := 0
		for _, fn := range p.ModuleFunctions() {
			if core.RelPkg(core.FuncPkgPath(fn)) != "excellent/types" || p.IsTestFile(fn.Pos()) || fn.Signature.Recv() == nil || len(fn.Params) == 0 {
				continue
			}
			rn := recvNamed(fn)
			if rn == nil || lazyFields[core.QualName(rn)] == nil {
				continue
			}
			recv := ssa.Value(fn.Params[0])
			core.EachInstr(fn, true, func(in_ *ssa.Function, in ssa.Instruction) {
				st, ok := in.(*ssa.Store)
				if !ok {
					return
				}
				fa, ok := st.Addr.(*ssa.FieldAddr)
				if !ok || (in_ == fn && fa.X != recv) {
					return
				}
				owner, fld := ownerOfFieldAddr(fa)
				if owner != core.QualName(rn) {
					return
				}
				if in_ != fn {
					// inside a function literal of the method: the receiver is captured
					if _, isFV := core.StripConv(fa.X).(*ssa.UnOp); !isFV {
						if _, isFV2 := fa.X.(*ssa.FreeVar); !isFV2 {
							return
						}
					}
				}
				nW++
				reason, known := lazyFields[owner][fld]
				key := fmt.Sprintf("%s.%s<-%s/receiver-write", owner, fld, fn.Name())
				if known && reason == "!uncalled" {
					// an explicit setter: harmless as long as nothing in the library calls it (tests do)
					nc := 0
					for _, cs := range p.CallsTo(fn) {
						if !p.IsTestFile(cs.Pos()) {
							nc++
						}
					}
					r.Check(nc == 0, "R3", key, p.Pos(st.Pos()), "explicit setter "+fn.Name()+" has no caller in the library", fmt.Sprintf("setter %s writes field %s of its receiver and is called from %d place(s) in the library: on a shared value that is a write every session can see", fn.Name(), fld, nc))
					return
				}
				if known {
					r.OK("R3", key, p.Pos(st.Pos()), reason)
					return
				}
				r.Bad("R3", key, p.Pos(st.Pos()), fmt.Sprintf("method %s writes field %s of its receiver: values of %s are also package-level singletons every session shares (XObjectEmpty, the router tests' FalseResult, …), built by constructors that do not fill this field — the first sessions to call %s on one of them write it at the same time (data race)", fn.Name(), fld, owner, fn.Name()))
			})
		}
		r.Count("lazy_type_receiver_writes", nW)
		r.Require("lazy_type_receiver_writes", nW, 2)
	}
	nLazy, nGlobals := 0, 0
	for _, pk := range p.Pkgs {
		rel := core.RelPkg(pk.PkgPath)
		if strings.HasPrefix(rel, "cmd") || strings.HasPrefix(rel, "test") {
			continue
		}
		sp := p.SSA.Package(pk.Types)
		if sp == nil {
			continue
		}
		for _, mem := range sp.Members {
			g, ok := mem.(*ssa.Global)
			if !ok || p.IsTestFile(g.Pos()) {
				continue
			}
			t := g.Type().(*types.Pointer).Elem()
			if pt, ok := t.(*types.Pointer); ok {
				t = pt.Elem()
			}
			n, ok := t.(*types.Named)
			if ok {
				nGlobals++
				if why, stateful := c09StatefulLibraryTypes[core.QualName(n)]; stateful {
					r.Bad("R7", core.RelPkgAny(pk.PkgPath)+"."+g.Name(), p.Pos(g.Pos()), "package-level "+g.Name()+" is a "+core.QualName(n)+", which every session uses at once: "+why)
				}
			}
			if !ok || !lazyTypes[core.QualName(n)] {
				continue
			}
			nLazy++
			key := core.RelPkgAny(pk.PkgPath) + "." + g.Name()
			// how is it constructed in init? eager = built from a map/slice literal (source is a constant function), and
			// forced before publication, or constructed by a constructor that initialises eagerly
			eager, how := globalLazyInit(p, sp, g)
			r.Check(eager, "R3", key, p.Pos(g.Pos()), how, "package-level "+core.QualName(n)+" is initialised lazily on first read without synchronisation and is shared by every session: "+how)
		}
	}
	r.Count("package_level_named_values", nGlobals)
	r.Require("package_level_named_values", nGlobals, 20)
	r.Count("package_level_lazy_values", nLazy)
	// the same for members of shared objects: a field of a type reachable from the session assets that can hold an X
	// value is published to every session, so what is stored in it must be fully built
	{
		canHoldX := func(t types.Type) bool {
			if pt, ok := t.(*types.Pointer); ok {
				t = pt.Elem()
			}
			n, ok := t.(*types.Named)
			if !ok || n.Obj().Pkg() == nil {
				return false
			}
			q := core.QualName(n)
			return lazyTypes[q] || q == "excellent/types.XValue"
		}
		nShared := 0
		st := sharedTypes(p)
		for _, k := range core.SortedKeys(st) {
			stt, ok := st[k].Underlying().(*types.Struct)
			if !ok {
				continue
			}
			for i := 0; i < stt.NumFields(); i++ {
				f := stt.Field(i)
				if !canHoldX(f.Type()) {
					continue
				}
				for _, w := range p.FieldWrites(f) {
					if p.IsTestFile(w.Instr.Pos()) || w.Val == nil {
						continue
					}
					nShared++
					eager, how := false, "constructor not identified"
					for v := range core.BackSlice(w.Val, nil) {
						c, ok := v.(*ssa.Call)
						if !ok || c.Call.StaticCallee() == nil {
							continue
						}
						g := c.Call.StaticCallee()
						if constructsEagerly(g, 0) {
							eager, how = true, "constructed by "+core.FuncName(g)+", which fills the lazily-read fields before returning"
						} else {
							how = "constructed by " + core.FuncName(g) + ", which leaves the properties to be built on first read"
						}
					}
					r.Check(eager, "R3", k+"."+f.Name()+"<-"+core.FuncName(w.Fn), p.Pos(w.Instr.Pos()), how,
						"an expression value is kept in "+k+"."+f.Name()+", a member of an object every session shares, and it is initialised lazily on first read without synchronisation: "+how+" (concurrent sessions race on the first evaluation)")
				}
			}
		}
		r.Count("shared_object_x_value_stores", nShared)
	}

	// ------------------------------------------------------------------ R4 writer callbacks
	c09R4(p, r)
	// ------------------------------------------------------------------ R5 decode targets
	c09R5(p, r)
	c09R6(p, r)
}

// globalLazyInit: decides whether the XObject/XArray stored in global g is fully initialised before it is published.
func globalLazyInit(p *core.Program, sp *ssa.Package, g *ssa.Global) (bool, string) {
	init := sp.Func("init")
	if init == nil {
		return false, "no init function"
	}
	var stored ssa.Value
	core.EachInstr(init, false, func(_ *ssa.Function, in ssa.Instruction) {
		if st, ok := in.(*ssa.Store); ok && st.Addr == ssa.Value(g) {
			stored = st.Val
		}
	})
	if stored == nil {
		return false, "never assigned in init"
	}
	// the constructor call
	for v := range core.BackSlice(stored, nil) {
		c, ok := v.(*ssa.Call)
		if !ok {
			continue
		}
		f := c.Call.StaticCallee()
		if f == nil {
			continue
		}
		// a constructor is eager when the object it returns has its lazily-built field stored before returning
		if constructsEagerly(f, 0) {
			return true, "constructed by " + core.FuncName(f) + ", which fills the lazily-read fields before returning"
		}
		return false, "constructed by " + core.FuncName(f) + ", which leaves the properties to be built on first read"
	}
	return false, "constructor not identified"
}

// constructsEagerly: f returns a fresh XObject/XArray whose props/data field is stored, or calls the lazy
// initialiser on it, before returning.
func constructsEagerly(f *ssa.Function, depth int) bool {
	if f == nil || f.Blocks == nil || depth > 3 {
		return false
	}
	eager := false
	core.EachInstr(f, false, func(_ *ssa.Function, in ssa.Instruction) {
		switch x := in.(type) {
		case *ssa.Store:
			if _, fld := ownerOfFieldAddr(x.Addr); fld == "props" || fld == "data" {
				if !core.IsNilConst(x.Val) {
					eager = true
				}
			}
		case *ssa.Call:
			if g := x.Call.StaticCallee(); g != nil {
				if g.Name() == "ensureInitialized" || g.Name() == "values" || g.Name() == "properties" {
					eager = true
				} else if g != f && core.RelPkg(core.FuncPkgPath(g)) == "excellent/types" && strings.HasPrefix(g.Name(), "New") {
					if constructsEagerly(g, depth+1) {
						eager = true
					}
				}
			}
		}
	})
	return eager
}

func c09R4(p *core.Program, r *core.Report) {
	// calls of a func([]string) value that was received as the 4th argument of an EnumerateLocalizables include callback
	n := 0
	for _, fn := range p.ModuleFunctions() {
		if p.IsTestFile(fn.Pos()) {
			continue
		}
		for _, cs := range core.Calls(fn, false) {
			cc := cs.Common()
			if cc.IsInvoke() || cc.StaticCallee() != nil {
				continue
			}
			sig, ok := cc.Value.Type().Underlying().(*types.Signature)
			if !ok || sig.Params().Len() != 1 || sig.Results().Len() != 0 {
				continue
			}
			if core.ShortType(sig.Params().At(0).Type()) != "[]string" {
				continue
			}
			prm, isParam := cc.Value.(*ssa.Parameter)
			if !isParam {
				continue
			}
			n++
			// the enclosing closure is passed to EnumerateLocalizables of a flow value; that flow must be a fresh copy.
			// A named unexported helper that receives the writer as a parameter stands for its callers.
			roots := map[*ssa.Function]bool{}
			var up func(f *ssa.Function, w *ssa.Parameter, depth int) bool
			up = func(f *ssa.Function, w *ssa.Parameter, depth int) bool {
				if f.Parent() != nil {
					roots[rootFn(f)] = true
					return true
				}
				idx := -1
				for i, fp := range f.Params {
					if fp == w {
						idx = i
					}
				}
				sites := p.CallsTo(f)
				if depth > 3 || idx < 0 || len(sites) == 0 || f.Object() == nil || f.Object().Exported() {
					roots[f] = true
					return true
				}
				for _, site := range sites {
					if p.IsTestFile(site.Pos()) {
						continue
					}
					a, ok := site.Common().Args[idx].(*ssa.Parameter)
					if !ok {
						roots[f] = true
						return true
					}
					up(site.Caller, a, depth+1)
				}
				return true
			}
			up(fn, prm, 0)
			key := core.FuncName(rootFn(fn)) + "/localizable-writer " + prm.Name()
			fresh := len(roots) > 0
			for root := range roots {
				if !c09EnumeratesOnCopy(p, root) {
					fresh = false
				}
			}
			r.Check(fresh, "R4", key, p.Pos(cs.Pos()), "the flow whose localizable text is rewritten is a copy()", "a localizable-text writer is invoked on a flow that is not a fresh copy: the shared definition is edited in place")
		}
	}
	r.Require("localizable_writer_calls", n, 1)
	_ = token.ADD
}

// c09EnumeratesOnCopy: every EnumerateLocalizables call in root (and its closures) is on a value derived from copy()/clone().
func c09EnumeratesOnCopy(p *core.Program, root *ssa.Function) bool {
	return c09EnumeratesOnCopyAt(p, root, 0)
}

// c09DerivesFromCopy: v is derived from the result of a copy()/clone() call in its own function.
func c09DerivesFromCopy(v ssa.Value) bool {
	for x := range core.BackSlice(v, nil) {
		if cc2, ok := x.(*ssa.Call); ok {
			if f := cc2.Call.StaticCallee(); f != nil && (f.Name() == "copy" || f.Name() == "clone" || f.Name() == "Clone") {
				return true
			}
		}
	}
	return false
}

func c09EnumeratesOnCopyAt(p *core.Program, root *ssa.Function, depth int) bool {
	fresh, any := true, false
	core.EachInstr(root, false, func(_ *ssa.Function, in ssa.Instruction) {
		c, ok := in.(*ssa.Call)
		if !ok {
			return
		}
		name := ""
		if c.Call.IsInvoke() {
			name = c.Call.Method.Name()
		} else if f := c.Call.StaticCallee(); f != nil {
			name = f.Name()
		}
		if name != "EnumerateLocalizables" {
			return
		}
		var recv ssa.Value
		if c.Call.IsInvoke() {
			recv = c.Call.Value
		} else {
			recv = c.Call.Args[0]
		}
		any = true
		onCopy := c09DerivesFromCopy(recv)
		if !onCopy {
			// generalised: the in-place work was moved into an unexported function that gets the flow as a parameter
			// (or receiver) — the flow is a copy when every caller passes a value derived from copy()/clone() there
			onCopy = c09ParamIsCopyAtEveryCall(p, root, recv, depth)
		}
		if !onCopy {
			fresh = false
		}
	})
	return fresh && any
}

// c09ParamIsCopyAtEveryCall: v derives from parameters of the unexported, never-escaping function fn only (no other
// origin), fn has callers outside tests, and at every one of them the argument for each such parameter derives from
// copy()/clone() (or, one more level up, from a parameter of an unexported function for which the same holds).
func c09ParamIsCopyAtEveryCall(p *core.Program, fn *ssa.Function, v ssa.Value, depth int) bool {
	if depth > 2 || fn.Parent() != nil || fn.Object() == nil || fn.Object().Exported() || c09FuncUsedAsValue(p, fn) {
		return false
	}
	var idxs []int
	for x := range core.BackSlice(v, nil) {
		switch y := x.(type) {
		case *ssa.Parameter:
			for i, fp := range fn.Params {
				if fp == y {
					idxs = append(idxs, i)
				}
			}
		case *ssa.Global, *ssa.FreeVar:
			return false
		}
	}
	if len(idxs) == 0 {
		return false
	}
	n := 0
	for _, site := range p.CallsTo(fn) {
		if p.IsTestFile(site.Pos()) {
			continue
		}
		cc := site.Common()
		if cc.StaticCallee() != fn {
			return false // not a direct call: the argument positions are not known
		}
		n++
		for _, i := range idxs {
			if i >= len(cc.Args) {
				return false
			}
			a := cc.Args[i]
			if c09DerivesFromCopy(a) {
				continue
			}
			if site.Caller == fn || !c09ParamIsCopyAtEveryCall(p, rootFn(site.Caller), a, depth+1) || site.Caller.Parent() != nil {
				return false
			}
		}
	}
	return n > 0
}

// c09FuncUsedAsValue: fn is referenced other than as the callee of a direct call (method value, stored in a table):
// its callers cannot be enumerated.
func c09FuncUsedAsValue(p *core.Program, fn *ssa.Function) bool {
	used := false
	for _, g := range p.ModuleFunctions() {
		if used {
			break
		}
		core.EachInstr(g, false, func(_ *ssa.Function, in ssa.Instruction) {
			for _, op := range in.Operands(nil) {
				g, isFn := (*op).(*ssa.Function)
				if !isFn || !(g == fn || (g.Synthetic != "" && g.Object() != nil && g.Object() == fn.Object())) {
					continue // neither fn nor a bound-method closure / thunk of it
				}
				if ci, ok := in.(ssa.CallInstruction); ok && ci.Common().Value == ssa.Value(g) {
					// the callee position of a direct call
					isArg := false
					for _, a := range ci.Common().Args {
						if a == ssa.Value(g) {
							isArg = true
						}
					}
					if !isArg {
						continue
					}
				}
				used = true
			}
		})
	}
	return used
}

// c09LockHeld returns "" when a mutex is held at `at` in fn: a Lock() dominates it and no explicit Unlock can reach it
// (the release is deferred or comes later) — or fn is an unexported helper and the lock is held at every one of its
// call sites. Otherwise what is wrong.
func c09LockHeld(p *core.Program, fn *ssa.Function, at ssa.Instruction, depth int) string {
	var locks, unlocks []ssa.Instruction
	deferred := false
	for _, cs := range core.Calls(fn, false) {
		o := core.CalleeObj(cs.Common())
		if o == nil {
			continue
		}
		switch core.ObjName(o) {
		case "sync.Mutex.Lock", "sync.RWMutex.Lock":
			locks = append(locks, cs.Instr)
		case "sync.Mutex.Unlock", "sync.RWMutex.Unlock":
			if _, isDefer := cs.Instr.(*ssa.Defer); isDefer {
				deferred = true
			} else {
				unlocks = append(unlocks, cs.Instr)
			}
		}
	}
	held := false
	for _, l := range locks {
		if core.InstrDominates(l, at) {
			held = true
		}
	}
	released := ""
	for _, u := range unlocks {
		if instrReaches(u, at) {
			released = p.Pos(u.Pos())
		}
	}
	switch {
	case held && released == "" && (deferred || len(unlocks) > 0):
		return ""
	case held && released != "":
		return "the mutex is released at " + released + " on a path that reaches this access"
	case held:
		return "the mutex is never released"
	}
	// an unexported helper: the lock must be held at every call site
	root := fn
	for root.Parent() != nil {
		root = root.Parent()
	}
	if depth < 2 && root.Object() != nil && !root.Object().Exported() {
		n := 0
		for _, cs := range p.CallsTo(root) {
			if p.IsTestFile(cs.Pos()) {
				continue
			}
			n++
			if d := c09LockHeld(p, cs.Caller, cs.Instr, depth+1); d != "" {
				return "called from " + core.FuncName(cs.Caller) + " where " + d
			}
		}
		if n > 0 {
			return ""
		}
	}
	return "no mutex.Lock() dominates this access"
}

// ---------------------------------------------------------------------------------------------- R5 unmarshal targets

// c09R5: decoding JSON into a value writes through every non-nil pointer the value already holds (encoding/json reuses
// an existing pointee). A target whose pointer field holds package-level data is therefore a write to shared state by
// whoever reads JSON — sessions, environments, assets. For every call of a JSON decoder in non-test module code the
// pointer fields of the target struct are examined: a field is fine when this function stores a fresh value into it
// before the call, or when no store anywhere in the module can put a pointer derived from a package-level variable
// into it (field-based, flow-insensitive closure over stores and field-to-field copies).
func c09R5(p *core.Program, r *core.Report) {
	sinks := map[string]int{
		"encoding/json.Unmarshal": 1, "github.com/nyaruka/gocommon/jsonx.Unmarshal": 1, "github.com/nyaruka/gocommon/jsonx.MustUnmarshal": 1,
		"github.com/nyaruka/gocommon/jsonx.UnmarshalWithLimit": 1, "utils.UnmarshalAndValidate": 1, "utils.UnmarshalAndValidateWithLimit": 1,
	}
	// which struct fields may hold a pointer to package-level data
	mayGlobal := map[*types.Var]string{}
	type fieldStore struct {
		field *types.Var
		val   ssa.Value
		fn    *ssa.Function
	}
	var stores []fieldStore
	for _, fn := range p.ModuleFunctions() {
		if p.IsTestFile(fn.Pos()) {
			continue
		}
		core.EachInstr(fn, false, func(f *ssa.Function, in ssa.Instruction) {
			st, ok := in.(*ssa.Store)
			if !ok {
				return
			}
			fv := core.FieldAddrVar(st.Addr)
			if fv == nil {
				return
			}
			if _, isPtr := fv.Type().Underlying().(*types.Pointer); !isPtr {
				return
			}
			stores = append(stores, fieldStore{fv, st.Val, f})
		})
	}
	globalDerived := func(v ssa.Value) string {
		for x := range core.BackSlice(v, nil) {
			switch y := x.(type) {
			case *ssa.Global:
				if y.Pkg != nil && core.InModule(y.Pkg.Pkg.Path()) {
					return "package variable " + y.Name()
				}
			case *ssa.UnOp:
				if fv := core.FieldAddrVar(y.X); fv != nil {
					if why, ok := mayGlobal[fv]; ok {
						return "field " + fv.Name() + " (" + why + ")"
					}
				}
			}
		}
		return ""
	}
	for changed := true; changed; {
		changed = false
		for _, st := range stores {
			if _, done := mayGlobal[st.field]; done {
				continue
			}
			if why := globalDerived(st.val); why != "" {
				mayGlobal[st.field] = why
				changed = true
			}
		}
	}
	n := 0
	per := map[string]int{}
	for _, cs := range p.AllCalls() {
		if p.IsTestFile(cs.Pos()) {
			continue
		}
		o := core.CalleeObj(cs.Common())
		if o == nil {
			continue
		}
		idx, isSink := sinks[core.ObjName(o)]
		if !isSink || idx >= len(cs.Common().Args) {
			continue
		}
		target := stripIface(cs.Common().Args[idx])
		pt, ok := target.Type().Underlying().(*types.Pointer)
		if !ok {
			continue
		}
		st, ok := pt.Elem().Underlying().(*types.Struct)
		if !ok {
			continue
		}
		n++
		for i := 0; i < st.NumFields(); i++ {
			f := st.Field(i)
			if _, isPtr := f.Type().Underlying().(*types.Pointer); !isPtr {
				continue
			}
			why, risky := mayGlobal[f]
			if !risky {
				continue
			}
			// what the field holds at the call: follow the target to where it was built
			fresh := false
			storesInto := func(fn *ssa.Function, root ssa.Value, before ssa.Instruction) (n int, bad string) {
				for _, b := range fn.Blocks {
					for _, in := range b.Instrs {
						s2, ok := in.(*ssa.Store)
						if !ok || core.FieldAddrVar(s2.Addr) != f {
							continue
						}
						fa, ok := s2.Addr.(*ssa.FieldAddr)
						if !ok || !(fa.X == root || sameSeq(fa.X, root) || canon(fa.X) == canon(root)) {
							continue
						}
						if before != nil && !instrReaches(s2, before) {
							continue
						}
						n++
						if _, isAlloc := core.StripConv(s2.Val).(*ssa.Alloc); isAlloc {
							// the address of a new variable: a fresh pointee whatever was copied into it (by value)
							if before != nil && core.InstrDominates(s2, before) {
								bad = ""
								fresh = true
							}
							continue
						}
						if w := globalDerived(s2.Val); w != "" {
							bad = w
						}
					}
				}
				return
			}
			origin := derefLocal(target)
			switch x := origin.(type) {
			case *ssa.Alloc:
				if _, bad := storesInto(cs.Caller, x, cs.Instr); bad == "" {
					fresh = true
				} else {
					why = bad
				}
			case *ssa.Call:
				g := x.Call.StaticCallee()
				if g != nil && len(g.Blocks) > 0 && core.InModule(core.FuncPkgPath(g)) {
					risky2 := ""
					for _, ret := range core.Returns(g) {
						for v := range core.BackSlice(ret.Results[0], nil) {
							if al, ok := v.(*ssa.Alloc); ok {
								if _, bad := storesInto(g, al, nil); bad != "" {
									risky2 = bad
								}
							}
						}
					}
					if risky2 == "" {
						fresh = true
					} else {
						why = risky2 + ", stored by " + g.Name()
						// overridden in the caller before the call?
						storesInto(cs.Caller, target, cs.Instr)
					}
				}
			default:
				storesInto(cs.Caller, target, cs.Instr)
			}
			key := core.FuncName(cs.Caller) + "/decode-target." + f.Name()
			per[key]++
			if per[key] > 1 {
				key = fmt.Sprintf("%s#%d", key, per[key])
			}
			r.Check(fresh, "R5", key, p.Pos(cs.Pos()), "the pointer field is given a fresh value before decoding",
				"JSON is decoded into a value whose pointer field "+f.Name()+" can hold "+why+": encoding/json writes through an existing pointer, so reading this JSON rewrites data shared by every session in the process")
		}
	}
	r.Count("json_decode_sites", n)
	r.Require("json_decode_sites", n, 30)
}

// ---------------------------------------------------------------------------------------------- R6

// c09MayBeGlobal: v may be (a pointer held in) a package-level variable of the module.
func c09MayBeGlobal(p *core.Program, v ssa.Value, depth int, seen map[ssa.Value]bool, busy map[*ssa.Function]bool) string {
	if v == nil || seen[v] || depth > 6 {
		return ""
	}
	seen[v] = true
	switch x := v.(type) {
	case *ssa.UnOp:
		if g, ok := x.X.(*ssa.Global); ok && g.Pkg != nil && core.InModule(g.Pkg.Pkg.Path()) {
			return core.RelPkgAny(g.Pkg.Pkg.Path()) + "." + g.Name()
		}
		if x.Op == token.MUL {
			// a local cell: what was stored into it
			if al, ok := x.X.(*ssa.Alloc); ok && al.Referrers() != nil {
				for _, ref := range *al.Referrers() {
					if st, ok := ref.(*ssa.Store); ok && st.Addr == ssa.Value(al) {
						if w := c09MayBeGlobal(p, st.Val, depth, seen, busy); w != "" {
							return w
						}
					}
				}
			}
		}
	case *ssa.Phi:
		for _, e := range x.Edges {
			if w := c09MayBeGlobal(p, e, depth, seen, busy); w != "" {
				return w
			}
		}
	case *ssa.MakeInterface:
		return c09MayBeGlobal(p, x.X, depth, seen, busy)
	case *ssa.ChangeInterface:
		return c09MayBeGlobal(p, x.X, depth, seen, busy)
	case *ssa.ChangeType:
		return c09MayBeGlobal(p, x.X, depth, seen, busy)
	case *ssa.TypeAssert:
		return c09MayBeGlobal(p, x.X, depth, seen, busy)
	case *ssa.Extract:
		return c09MayBeGlobal(p, x.Tuple, depth, seen, busy)
	case *ssa.Call:
		var callees []*ssa.Function
		if g := x.Call.StaticCallee(); g != nil {
			callees = append(callees, g)
		} else if x.Call.IsInvoke() {
			if n := p.CHA().Nodes[x.Parent()]; n != nil {
				for _, e := range n.Out {
					if e.Site == ssa.CallInstruction(x) && core.InModule(core.FuncPkgPath(e.Callee.Func)) {
						callees = append(callees, e.Callee.Func)
					}
				}
			}
		}
		for _, g := range callees {
			if g.Blocks == nil || busy[g] || !core.InModule(core.FuncPkgPath(g)) {
				continue
			}
			busy[g] = true
			for _, ret := range core.Returns(g) {
				for _, rv := range ret.Results {
					if w := c09MayBeGlobal(p, rv, depth+1, map[ssa.Value]bool{}, busy); w != "" {
						delete(busy, g)
						return w + " (returned by " + g.Name() + ")"
					}
				}
			}
			delete(busy, g)
		}
	}
	return ""
}

func c09R6(p *core.Program, r *core.Report) {
	n := 0
	per := map[string]int{}
	for _, cs := range p.CallsToName("excellent/types.XValue.SetDeprecated", "excellent/types.baseValue.SetDeprecated") {
		if p.IsTestFile(cs.Pos()) {
			continue
		}
		var recv ssa.Value
		if cs.Common().IsInvoke() {
			recv = cs.Common().Value
		} else if len(cs.Common().Args) > 0 {
			recv = cs.Common().Args[0]
		}
		if recv == nil || rootFn(cs.Caller).Name() == "SetDeprecated" {
			continue
		}
		n++
		k := core.FuncName(rootFn(cs.Caller)) + "/SetDeprecated"
		per[k]++
		key := k
		if per[k] > 1 {
			key = fmt.Sprintf("%s#%d", k, per[k])
		}
		// through embedded-base field addresses to the object itself
		for {
			if fa, ok := recv.(*ssa.FieldAddr); ok {
				recv = fa.X
				continue
			}
			break
		}
		w := c09MayBeGlobal(p, recv, 0, map[ssa.Value]bool{}, map[*ssa.Function]bool{})
		r.Check(w == "", "R6", key, p.Pos(cs.Pos()), "the marked value is produced for this evaluation", "SetDeprecated is applied to a value that may be the package-level "+w+": the mark is written without synchronisation into a value every session shares, and from then on every session that reads that value logs a deprecation warning")
	}
	r.Require("setdeprecated_sites", n, 3)
}

// c09StatefulLibraryTypes: library types whose documentation says a value must not be used from several goroutines
// at once (they keep scratch state between or during calls).
var c09StatefulLibraryTypes = map[string]string{
	"golang.org/x/text/cases.Caser":           "a Caser may be stateful and should not be shared between goroutines (x/text/cases documentation)",
	"math/rand.Rand":                          "a rand.Rand is not safe for concurrent use",
	"math/rand/v2.Rand":                       "a rand.Rand is not safe for concurrent use",
	"bytes.Buffer":                            "a bytes.Buffer is not safe for concurrent use",
	"strings.Builder":                         "a strings.Builder is not safe for concurrent use",
	"strings.Reader":                          "a strings.Reader keeps a read position",
	"bufio.Reader":                            "a bufio.Reader keeps a buffer and position",
	"bufio.Writer":                            "a bufio.Writer keeps a buffer",
	"bufio.Scanner":                           "a bufio.Scanner keeps a buffer and position",
	"encoding/json.Decoder":                   "a json.Decoder keeps a buffer and position",
	"encoding/json.Encoder":                   "a json.Encoder writes through shared state",
	"encoding/csv.Reader":                     "a csv.Reader keeps a buffer and position",
	"encoding/csv.Writer":                     "a csv.Writer keeps a buffer",
	"golang.org/x/text/transform.Transformer": "a Transformer keeps state between Transform calls",
	"golang.org/x/text/unicode/norm.Iter":     "a norm.Iter keeps a position",
	"golang.org/x/text/collate.Collator":      "a Collator keeps scratch buffers and is not safe for concurrent use",
	"golang.org/x/text/message.Printer":       "a message.Printer keeps formatting state",
	"hash.Hash":                               "a hash keeps a running state",
}
