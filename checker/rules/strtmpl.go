package rules

// Symbolic string templates: an abstract interpretation of go/ssa in which a string is a finite set of
// alternatives, each a sequence of literal pieces and holes (values the analysis does not know: a parameter,
// the text of a parse-tree token, the migrated form of a child expression ...). It understands exactly the
// string-building idioms of the code it is pointed at (constants, +, fmt.Sprintf with a resolvable format,
// strings.Join, closures over cells, variadic argument arrays, element-wise slice copies) and gives up with an
// "unknown" hole on anything else. Each alternative carries the phi edges and return blocks it came through, so
// that a rule can ask under which branch conditions an alternative is produced.

import (
	"fmt"
	"go/token"
	"go/types"
	"os"
	"sort"
	"strconv"
	"strings"

	"golang.org/x/tools/go/ssa"

	"verif/checker/core"
)

type tHole struct {
	kind   string // param child ctxref token name optoken number quoted call unknown substr replaced edited
	name   string
	idx    int
	src    ssa.Value
	closed bool        // the text is a single atom of the target syntax wherever it is used
	subs   [][2]string // strings.Replace pairs applied on the way
	from   *tHole      // the hole this one derives from (substring, replace)
}

type tPiece struct {
	lit  string
	hole *tHole
	virt bool // parenthesis added by a conditional parenthesizer (present whenever it is needed)
}

// tGuard: the alternative flowed as SSA value val over the edge from->to (phi edge), or was returned from block to (from == nil).
type tGuard struct {
	from, to *ssa.BasicBlock
	val      ssa.Value
	call     ssa.Instruction // for a return guard (from == nil): the call whose return this was, once known
}

type tAlt struct {
	pieces []tPiece
	guards []tGuard
}

func (a tAlt) String() string {
	var sb strings.Builder
	for _, pc := range a.pieces {
		if pc.hole != nil {
			sb.WriteString("‹" + pc.hole.kind)
			if pc.hole.idx >= 0 {
				sb.WriteString(strconv.Itoa(pc.hole.idx))
			}
			sb.WriteString("›")
		} else {
			sb.WriteString(pc.lit)
		}
	}
	return sb.String()
}

func (a tAlt) isLit() (string, bool) {
	var sb strings.Builder
	for _, pc := range a.pieces {
		if pc.hole != nil {
			return "", false
		}
		sb.WriteString(pc.lit)
	}
	return sb.String(), true
}

type aval interface{}

type aStr struct{ alts []tAlt }
type aArr struct {
	known   map[int]aval
	summary aval
	dynamic bool // elements written at non-constant indices
}
type aElem struct {
	arr *aArr
	idx int // -1: dynamic
}
type aCell struct{ val aval }
type aClosure struct {
	fn   *ssa.Function
	free []aval
}
type aFuncs struct{ fs []*aClosure }
type aTuple struct{ elems []aval }
type aUnknown struct{ v ssa.Value }
type aGlobal struct{ g *ssa.Global }

const tmplAltLimit = 96

func litStr(s string) *aStr { return &aStr{alts: []tAlt{{pieces: []tPiece{{lit: s}}}}} }
func holeStr(h *tHole) *aStr {
	return &aStr{alts: []tAlt{{pieces: []tPiece{{hole: h}}}}}
}

type tEval struct {
	p       *core.Program
	pkgPath string // only functions of this package are entered
	// hook models calls the rule knows about; ok=false falls through to the generic semantics
	hook           func(ev *tEval, fr *tFrame, c *ssa.Call) (aval, bool)
	parenthesizers map[*ssa.Function]bool
	stack          []*ssa.Function
	notes          []string // constructs the evaluator gave up on
	holes          map[string]*tHole
}

type tFrame struct {
	fn     *ssa.Function
	vals   map[ssa.Value]aval
	params []aval
	free   []aval
}

func (ev *tEval) note(format string, a ...any) {
	s := fmt.Sprintf(format, a...)
	for _, n := range ev.notes {
		if n == s {
			return
		}
	}
	ev.notes = append(ev.notes, s)
}

// namedHole returns one hole object per (kind,name) so that repeated reads compare equal.
func (ev *tEval) namedHole(kind, name string, idx int, closed bool, src ssa.Value) *tHole {
	if ev.holes == nil {
		ev.holes = map[string]*tHole{}
	}
	k := fmt.Sprintf("%s|%s|%d", kind, name, idx)
	if h, ok := ev.holes[k]; ok {
		return h
	}
	h := &tHole{kind: kind, name: name, idx: idx, closed: closed, src: src}
	ev.holes[k] = h
	return h
}

func (ev *tEval) toStr(v aval, src ssa.Value) *aStr {
	switch x := v.(type) {
	case *aStr:
		return x
	case *aCell:
		return ev.toStr(x.val, src)
	}
	name := "?"
	if src != nil {
		name = src.Name()
		if fn := src.Parent(); fn != nil {
			name = fn.Name() + ":" + name
		}
	}
	return holeStr(ev.namedHole("unknown", name, -1, false, src))
}

var unknownStrHoles = map[ssa.Value]*tHole{}

func unknownAsStr(u *aUnknown) *aStr {
	if u.v == nil {
		return nil
	}
	if bt, ok := u.v.Type().Underlying().(*types.Basic); !ok || bt.Info()&types.IsString == 0 {
		return nil
	}
	h := unknownStrHoles[u.v]
	if h == nil {
		name := u.v.Name()
		if fn := u.v.Parent(); fn != nil {
			name = fn.Name() + ":" + name
		}
		h = &tHole{kind: "unknown", name: name, idx: -1, src: u.v}
		unknownStrHoles[u.v] = h
	}
	return holeStr(h)
}

func joinVals(a, b aval) aval {
	if a == nil {
		return b
	}
	if b == nil {
		return a
	}
	// a string the evaluator knows nothing about is still one of the forms the joined value can take
	if u, ok := a.(*aUnknown); ok {
		if _, isStr := b.(*aStr); isStr {
			if us := unknownAsStr(u); us != nil {
				a = us
			}
		}
	}
	if u, ok := b.(*aUnknown); ok {
		if _, isStr := a.(*aStr); isStr {
			if us := unknownAsStr(u); us != nil {
				b = us
			}
		}
	}
	switch x := a.(type) {
	case *aStr:
		if y, ok := b.(*aStr); ok {
			out := &aStr{alts: append([]tAlt{}, x.alts...)}
			for _, alt := range y.alts {
				out.add(alt)
			}
			return out
		}
		return a
	case *aFuncs:
		if yc, ok := b.(*aClosure); ok {
			b = &aFuncs{fs: []*aClosure{yc}}
		}
		if y, ok := b.(*aFuncs); ok {
			out := &aFuncs{fs: append([]*aClosure{}, x.fs...)}
			for _, f := range y.fs {
				dup := false
				for _, g := range out.fs {
					if g == f || (g.fn == f.fn && len(g.free) == 0 && len(f.free) == 0) {
						dup = true
					}
				}
				if !dup {
					out.fs = append(out.fs, f)
				}
			}
			return out
		}
		return a
	case *aClosure:
		return joinVals(&aFuncs{fs: []*aClosure{x}}, b)
	case *aArr:
		// a slice variable assigned on several paths (the phi of an append loop): any element of either
		if y, ok := b.(*aArr); ok && x != y {
			return &aArr{known: map[int]aval{}, dynamic: true, summary: joinVals(x.read(-1), y.read(-1))}
		}
		return a
	case *aTuple:
		if y, ok := b.(*aTuple); ok && len(x.elems) == len(y.elems) {
			out := &aTuple{elems: make([]aval, len(x.elems))}
			for i := range x.elems {
				out.elems[i] = joinVals(x.elems[i], y.elems[i])
			}
			return out
		}
		return a
	case *aUnknown:
		return b
	}
	if y, ok := b.(*aClosure); ok {
		return joinVals(a, &aFuncs{fs: []*aClosure{y}})
	}
	return a
}

func altKey(a tAlt) string {
	var sb strings.Builder
	for _, pc := range a.pieces {
		if pc.hole != nil {
			fmt.Fprintf(&sb, "\x00%p\x00", pc.hole)
		} else if pc.virt {
			sb.WriteString("\x01" + pc.lit)
		} else {
			sb.WriteString(pc.lit)
		}
	}
	sb.WriteString("\x02")
	for _, g := range a.guards {
		fmt.Fprintf(&sb, "%p>%p;", g.from, g.to)
	}
	return sb.String()
}

func (s *aStr) add(a tAlt) {
	if len(s.alts) >= tmplAltLimit {
		return
	}
	k := altKey(a)
	for _, b := range s.alts {
		if altKey(b) == k {
			return
		}
	}
	s.alts = append(s.alts, a)
}

func normPieces(ps []tPiece) []tPiece {
	var out []tPiece
	for _, pc := range ps {
		if pc.hole == nil && pc.lit == "" {
			continue
		}
		if pc.hole == nil && !pc.virt && len(out) > 0 && out[len(out)-1].hole == nil && !out[len(out)-1].virt {
			out[len(out)-1].lit += pc.lit
			continue
		}
		out = append(out, pc)
	}
	return out
}

func concatAlts(a, b tAlt) tAlt {
	out := tAlt{}
	out.pieces = normPieces(append(append([]tPiece{}, a.pieces...), b.pieces...))
	out.guards = append(append([]tGuard{}, a.guards...), b.guards...)
	return out
}

// feasibleTogether: two alternatives cannot both have entered the same (loop-free) block over different edges:
// the phis of one block all take the value of the same incoming edge.
func feasibleTogether(a, b tAlt) bool {
	for _, g := range a.guards {
		if g.from == nil {
			// two results of the same call that left the callee by different return statements
			if g.call != nil {
				for _, h := range b.guards {
					if h.from == nil && h.call == g.call && h.to != g.to {
						return false
					}
				}
			}
			continue
		}
		for _, h := range b.guards {
			if h.from == nil || h.to != g.to || h.from == g.from {
				continue
			}
			inLoop := false
			for _, pr := range g.to.Preds {
				if g.to.Dominates(pr) {
					inLoop = true
				}
			}
			if !inLoop {
				return false
			}
		}
	}
	return true
}

func concatStr(a, b *aStr) *aStr {
	out := &aStr{}
	for _, x := range a.alts {
		for _, y := range b.alts {
			if feasibleTogether(x, y) {
				out.add(concatAlts(x, y))
			}
		}
	}
	return out
}

func withGuard(s *aStr, g tGuard) *aStr {
	out := &aStr{}
	for _, a := range s.alts {
		b := tAlt{pieces: a.pieces, guards: append(append([]tGuard{}, a.guards...), g)}
		out.alts = append(out.alts, b)
	}
	return out
}

// evalFunc evaluates fn on abstract arguments and returns its results (one aval per result).
func (ev *tEval) evalFunc(fn *ssa.Function, params []aval, free []aval) []aval {
	nres := fn.Signature.Results().Len()
	res := make([]aval, nres)
	if len(fn.Blocks) == 0 || len(ev.stack) > 8 {
		ev.note("not entered: %s", fn.Name())
		return res
	}
	for _, f := range ev.stack {
		if f == fn {
			ev.note("recursion cut at %s", fn.Name())
			return res
		}
	}
	if os.Getenv("VCHECK_DEBUG_TMPL") != "" && len(ev.stack) >= 6 {
		var names []string
		for _, f := range ev.stack {
			names = append(names, f.String())
		}
		fmt.Fprintln(os.Stderr, "deep:", strings.Join(names, " > "), ">", fn.String())
	}
	ev.stack = append(ev.stack, fn)
	defer func() { ev.stack = ev.stack[:len(ev.stack)-1] }()

	fr := &tFrame{fn: fn, vals: map[ssa.Value]aval{}, params: params, free: free}
	blocks := rpoBlocks(fn)
	passes := 1
	for _, b := range blocks {
		for _, sc := range b.Succs {
			if sc.Dominates(b) {
				passes = 2 // a loop: values carried round the back edge need a second pass
			}
		}
	}
	for pass := 0; pass < passes; pass++ {
		for _, b := range blocks {
			for _, in := range b.Instrs {
				ev.step(fr, in)
			}
		}
	}
	for _, b := range blocks {
		ret, ok := b.Instrs[len(b.Instrs)-1].(*ssa.Return)
		if !ok {
			continue
		}
		// results of error paths are the caller's business (rule R3): skip returns whose error result is not nil
		if nres > 0 && isErrorType(fn.Signature.Results().At(nres-1).Type()) {
			last := ret.Results[nres-1]
			if c, isC := last.(*ssa.Const); !isC || !c.IsNil() {
				// a pass-through of a callee's (string, error) pair keeps the callee's filtering
				if ex, isEx := last.(*ssa.Extract); !isEx || !isTupleOfPkgCall(ev, ex) {
					continue
				}
			}
		}
		for i, rv := range ret.Results {
			v := ev.val(fr, rv)
			if isStringType(rv.Type()) || isAnyOfString(v) {
				v = withGuard(ev.toStr(v, rv), tGuard{to: b, val: rv})
			}
			res[i] = joinVals(res[i], v)
		}
	}
	return res
}

func isTupleOfPkgCall(ev *tEval, ex *ssa.Extract) bool {
	c, ok := ex.Tuple.(*ssa.Call)
	if !ok {
		return false
	}
	if f := c.Call.StaticCallee(); f != nil {
		return core.FuncPkgPath(f) == ev.pkgPath
	}
	return !c.Call.IsInvoke() // a closure of this package
}

func isAnyOfString(v aval) bool { _, ok := v.(*aStr); return ok }

func isStringType(t types.Type) bool {
	b, ok := t.Underlying().(*types.Basic)
	return ok && b.Info()&types.IsString != 0
}

func (ev *tEval) val(fr *tFrame, v ssa.Value) aval {
	switch x := v.(type) {
	case *ssa.Const:
		if s, ok := core.ConstString(x); ok {
			return litStr(s)
		}
		return &aUnknown{v}
	case *ssa.Parameter:
		for i, p := range fr.fn.Params {
			if p == x && i < len(fr.params) {
				return fr.params[i]
			}
		}
		return &aUnknown{v}
	case *ssa.FreeVar:
		for i, f := range fr.fn.FreeVars {
			if f == x && i < len(fr.free) {
				return fr.free[i]
			}
		}
		return &aUnknown{v}
	case *ssa.Global:
		return &aGlobal{x}
	case *ssa.Function:
		if core.FuncPkgPath(x) == ev.pkgPath {
			return &aClosure{fn: x}
		}
		return &aUnknown{v}
	}
	if a, ok := fr.vals[v]; ok {
		return a
	}
	return &aUnknown{v}
}

func (ev *tEval) step(fr *tFrame, in ssa.Instruction) {
	switch x := in.(type) {
	case *ssa.Alloc:
		if _, ok := fr.vals[x]; ok {
			return
		}
		if _, isArr := x.Type().(*types.Pointer).Elem().Underlying().(*types.Array); isArr {
			fr.vals[x] = &aArr{known: map[int]aval{}}
		} else {
			fr.vals[x] = &aCell{}
		}
	case *ssa.MakeSlice:
		if _, ok := fr.vals[x]; !ok {
			fr.vals[x] = &aArr{known: map[int]aval{}, dynamic: true}
		}
	case *ssa.IndexAddr:
		base := ev.val(fr, x.X)
		if c, ok := base.(*aCell); ok {
			base = c.val
		}
		arr, ok := base.(*aArr)
		if !ok {
			fr.vals[x] = &aUnknown{x}
			return
		}
		if k, ok := core.ConstInt(x.Index); ok {
			fr.vals[x] = &aElem{arr, int(k)}
		} else {
			fr.vals[x] = &aElem{arr, -1}
		}
	case *ssa.Store:
		addr := ev.val(fr, x.Addr)
		v := ev.val(fr, x.Val)
		switch a := addr.(type) {
		case *aCell:
			// a cell holding a container keeps the container; strings join (a variable assigned on several paths)
			a.val = joinVals(a.val, v)
		case *aElem:
			if a.idx >= 0 {
				a.arr.known[a.idx] = joinVals(a.arr.known[a.idx], v)
			} else {
				a.arr.dynamic = true
				a.arr.summary = joinVals(a.arr.summary, v)
			}
		}
	case *ssa.UnOp:
		if x.Op == token.MUL {
			switch a := ev.val(fr, x.X).(type) {
			case *aCell:
				fr.vals[x] = a.val
			case *aElem:
				fr.vals[x] = a.arr.read(a.idx)
			case *aGlobal:
				fr.vals[x] = a
			default:
				fr.vals[x] = &aUnknown{x}
			}
			return
		}
		fr.vals[x] = &aUnknown{x}
	case *ssa.Slice:
		base := ev.val(fr, x.X)
		if c, ok := base.(*aCell); ok {
			base = c.val
		}
		switch b := base.(type) {
		case *aArr:
			fr.vals[x] = b
		case *aStr:
			fr.vals[x] = ev.derive(b, "substr", x, nil)
		default:
			if isStringType(x.Type()) {
				fr.vals[x] = ev.derive(ev.toStr(base, x.X), "substr", x, nil)
			} else {
				fr.vals[x] = &aUnknown{x}
			}
		}
	case *ssa.MakeClosure:
		cl := &aClosure{fn: x.Fn.(*ssa.Function)}
		for _, b := range x.Bindings {
			cl.free = append(cl.free, ev.val(fr, b))
		}
		fr.vals[x] = cl
	case *ssa.ChangeType:
		fr.vals[x] = ev.val(fr, x.X)
	case *ssa.Convert:
		fr.vals[x] = ev.val(fr, x.X)
	case *ssa.MakeInterface:
		fr.vals[x] = ev.val(fr, x.X)
	case *ssa.ChangeInterface:
		fr.vals[x] = ev.val(fr, x.X)
	case *ssa.TypeAssert:
		if x.CommaOk {
			fr.vals[x] = &aTuple{elems: []aval{ev.val(fr, x.X), &aUnknown{x}}}
		} else {
			fr.vals[x] = ev.val(fr, x.X)
		}
	case *ssa.Extract:
		if t, ok := ev.val(fr, x.Tuple).(*aTuple); ok && x.Index < len(t.elems) {
			fr.vals[x] = t.elems[x.Index]
		} else {
			fr.vals[x] = &aUnknown{x}
		}
	case *ssa.Phi:
		var acc aval
		for i, e := range x.Edges {
			v := ev.val(fr, e)
			if _, unk := v.(*aUnknown); unk {
				if _, seen := fr.vals[e]; !seen {
					if _, isC := e.(*ssa.Const); !isC {
						continue // not yet evaluated (loop back edge on the first pass)
					}
				}
			}
			if isStringType(x.Type()) {
				v = withGuard(ev.toStr(v, e), tGuard{from: x.Block().Preds[i], to: x.Block(), val: e})
			}
			acc = joinVals(acc, v)
		}
		if acc != nil {
			fr.vals[x] = acc
		}
	case *ssa.BinOp:
		if x.Op == token.ADD && isStringType(x.Type()) {
			fr.vals[x] = concatStr(ev.toStr(ev.val(fr, x.X), x.X), ev.toStr(ev.val(fr, x.Y), x.Y))
			return
		}
		fr.vals[x] = &aUnknown{x}
	case *ssa.Call:
		fr.vals[x] = ev.call(fr, x)
	case ssa.Value:
		fr.vals[x] = &aUnknown{x}
	}
}

func (a *aArr) read(idx int) aval {
	if idx >= 0 && !a.dynamic {
		return a.known[idx]
	}
	out := a.summary
	keys := []int{}
	for k := range a.known {
		keys = append(keys, k)
	}
	sort.Ints(keys)
	for _, k := range keys {
		if idx < 0 || k == idx {
			out = joinVals(out, a.known[k])
		}
	}
	return out
}

// derive makes one hole per alternative that is not a plain literal: the derived text is some function of it.
func (ev *tEval) derive(s *aStr, kind string, src ssa.Value, sub *[2]string) *aStr {
	out := &aStr{}
	for _, a := range s.alts {
		var from *tHole
		for _, pc := range a.pieces {
			if pc.hole != nil {
				from = pc.hole
			}
		}
		name := src.Name()
		if src.Parent() != nil {
			name = src.Parent().Name() + ":" + name
		}
		h := ev.namedHole(kind, name, -1, false, src)
		h.from = from
		if from != nil {
			h.subs = append([][2]string{}, from.subs...)
		}
		if sub != nil {
			h.subs = append(h.subs, *sub)
		}
		out.add(tAlt{pieces: []tPiece{{hole: h}}, guards: a.guards})
	}
	return out
}

func (ev *tEval) call(fr *tFrame, c *ssa.Call) aval {
	if ev.hook != nil {
		if v, ok := ev.hook(ev, fr, c); ok {
			return v
		}
	}
	com := &c.Call
	// append(s, xs...): a slice holding any element of s or of xs, position unknown (as an element-wise copy at a
	// computed index is); a slice the evaluator knows nothing about stays unknown
	if bi, ok := com.Value.(*ssa.Builtin); ok && bi.Name() == "append" && len(com.Args) == 2 {
		asArr := func(v ssa.Value) *aArr {
			if cst, isC := v.(*ssa.Const); isC && cst.IsNil() {
				return &aArr{known: map[int]aval{}}
			}
			a := ev.val(fr, v)
			if cell, isCell := a.(*aCell); isCell {
				a = cell.val
			}
			arr, _ := a.(*aArr)
			return arr
		}
		if s, xs := asArr(com.Args[0]), asArr(com.Args[1]); s != nil && xs != nil {
			return &aArr{known: map[int]aval{}, dynamic: true, summary: joinVals(s.read(-1), xs.read(-1))}
		}
		return &aUnknown{c}
	}
	if o := core.CalleeObj(com); o != nil {
		switch core.ObjName(o) {
		case "fmt.Sprintf":
			args, _ := ev.val(fr, com.Args[1]).(*aArr)
			return ev.sprintf(ev.toStr(ev.val(fr, com.Args[0]), com.Args[0]), args, c)
		case "strings.Join":
			arr, _ := ev.val(fr, com.Args[0]).(*aArr)
			return ev.join(arr, ev.toStr(ev.val(fr, com.Args[1]), com.Args[1]), c)
		case "strings.ToLower", "strings.ToUpper", "strings.TrimSpace":
			return ev.toStr(ev.val(fr, com.Args[0]), com.Args[0])
		case "strings.Replace", "strings.ReplaceAll":
			from, ok1 := core.ConstString(com.Args[1])
			to, ok2 := core.ConstString(com.Args[2])
			if ok1 && ok2 {
				return ev.derive(ev.toStr(ev.val(fr, com.Args[0]), com.Args[0]), "replaced", c, &[2]string{from, to})
			}
		case "strconv.Quote":
			return holeStr(ev.namedHole("quoted", fr.fn.Name()+":"+c.Name(), -1, true, c))
		case "strconv.Itoa":
			return holeStr(ev.namedHole("number", fr.fn.Name()+":"+c.Name(), -1, true, c))
		}
	}
	// calls into the analysed package
	if f := com.StaticCallee(); f != nil && core.FuncPkgPath(f) == ev.pkgPath && len(f.Blocks) > 0 {
		args := make([]aval, len(com.Args))
		for i, a := range com.Args {
			args[i] = ev.val(fr, a)
		}
		if ev.parenthesizers[f] && len(args) == 1 {
			return ev.virtWrap(ev.toStr(args[0], com.Args[0]))
		}
		var free []aval
		if mc, ok := com.Value.(*ssa.MakeClosure); ok {
			for _, b := range mc.Bindings {
				free = append(free, ev.val(fr, b))
			}
		}
		rs := ev.evalFunc(f, args, free)
		if len(rs) > 1 {
			// the results of ONE call come from one return statement: remember the call on their return guards so that
			// alternatives of different returns are not combined (a template and its operand returned as a pair)
			for _, r0 := range rs {
				if st, ok := r0.(*aStr); ok {
					for ai := range st.alts {
						for gi := range st.alts[ai].guards {
							g := &st.alts[ai].guards[gi]
							if g.from == nil && g.call == nil && g.to != nil && g.to.Parent() == f {
								g.call = c
							}
						}
					}
				}
			}
		}
		return packResults(rs)
	}
	if !com.IsInvoke() {
		var fs []*aClosure
		switch x := ev.val(fr, com.Value).(type) {
		case *aClosure:
			fs = []*aClosure{x}
		case *aFuncs:
			fs = x.fs
		}
		if len(fs) > 0 {
			args := make([]aval, len(com.Args))
			for i, a := range com.Args {
				args[i] = ev.val(fr, a)
			}
			var acc aval
			for _, f := range fs {
				acc = joinVals(acc, packResults(ev.evalFunc(f.fn, args, f.free)))
			}
			return acc
		}
	}
	return &aUnknown{c}
}

func packResults(rs []aval) aval {
	if len(rs) == 1 {
		return rs[0]
	}
	return &aTuple{elems: rs}
}

func (ev *tEval) virtWrap(s *aStr) *aStr {
	out := &aStr{}
	for _, a := range s.alts {
		ps := append([]tPiece{{lit: "(", virt: true}}, a.pieces...)
		ps = append(ps, tPiece{lit: ")", virt: true})
		out.add(tAlt{pieces: ps, guards: a.guards})
	}
	return out
}

func (ev *tEval) argAt(args *aArr, k int, c *ssa.Call) *aStr {
	if args == nil {
		return ev.toStr(nil, c)
	}
	v := args.read(k)
	if args.dynamic || v == nil {
		v = args.read(-1)
	}
	s := ev.toStr(v, c)
	return s
}

// sprintf expands a format whose alternatives are literals; %s %v %d %q and explicit indexes are understood.
func (ev *tEval) sprintf(format *aStr, args *aArr, c *ssa.Call) aval {
	out := &aStr{}
	for _, fa := range format.alts {
		f, ok := fa.isLit()
		if !ok {
			ev.note("Sprintf with a non-literal format at %s", ev.p.Pos(c.Pos()))
			out.add(tAlt{pieces: []tPiece{{hole: ev.namedHole("unknown", "sprintf:"+c.Name(), -1, false, c)}}, guards: fa.guards})
			continue
		}
		acc := &aStr{alts: []tAlt{{guards: fa.guards}}}
		next := 0
		for i := 0; i < len(f); {
			if f[i] != '%' {
				j := strings.IndexByte(f[i:], '%')
				if j < 0 {
					j = len(f) - i
				}
				acc = concatStr(acc, litStr(f[i:i+j]))
				i += j
				continue
			}
			if i+1 < len(f) && f[i+1] == '%' {
				acc = concatStr(acc, litStr("%"))
				i += 2
				continue
			}
			j := i + 1
			if j < len(f) && f[j] == '[' {
				e := strings.IndexByte(f[j:], ']')
				if e > 0 {
					if n, err := strconv.Atoi(f[j+1 : j+e]); err == nil {
						next = n - 1
					}
					j += e + 1
				}
			}
			for j < len(f) && strings.IndexByte("+-# 0123456789.", f[j]) >= 0 {
				j++
			}
			if j >= len(f) {
				break
			}
			acc = concatStr(acc, ev.argAt(args, next, c))
			next++
			i = j + 1
		}
		for _, a := range acc.alts {
			out.add(a)
		}
	}
	return out
}

func (ev *tEval) join(arr *aArr, delim *aStr, c *ssa.Call) aval {
	out := &aStr{}
	if arr == nil {
		return holeStr(ev.namedHole("unknown", "join:"+c.Name(), -1, false, c))
	}
	for _, d := range delim.alts {
		if !arr.dynamic && len(arr.known) > 0 {
			acc := &aStr{alts: []tAlt{{guards: d.guards}}}
			for k := 0; k < len(arr.known); k++ {
				if k > 0 {
					acc = concatStr(acc, &aStr{alts: []tAlt{{pieces: d.pieces}}})
				}
				acc = concatStr(acc, ev.toStr(arr.known[k], c))
			}
			for _, a := range acc.alts {
				out.add(a)
			}
			continue
		}
		// summary element: three copies show a first, a middle and a last position
		// (the elements need not be printed alike: every choice of first, middle and last among the element's forms)
		elems := ev.toStr(arr.read(-1), c).alts
		if len(elems) > 4 {
			elems = elems[:4]
			ev.note("join of an element with more than 4 forms at %s: only the first 4 combined", ev.p.Pos(c.Pos()))
		}
		for _, e1 := range elems {
			for _, e2 := range elems {
				for _, e3 := range elems {
					a := tAlt{guards: append(append(append(append([]tGuard{}, d.guards...), e1.guards...), e2.guards...), e3.guards...)}
					a.pieces = append(a.pieces, e1.pieces...)
					a.pieces = append(a.pieces, d.pieces...)
					a.pieces = append(a.pieces, e2.pieces...)
					a.pieces = append(a.pieces, d.pieces...)
					a.pieces = append(a.pieces, e3.pieces...)
					a.pieces = normPieces(a.pieces)
					out.add(a)
				}
			}
		}
	}
	return out
}

// ---------------------------------------------------------------------------------------------- tokens

type xTok struct {
	kind  byte // o ( ) [ ] , w s h @
	text  string
	hole  *tHole
	depth int
	unary bool
}

var xOps = []string{"!=", "<=", ">=", "<>", "=>", "+", "-", "*", "/", "^", "&", "=", "<", ">"}

// tokenizeAlt splits an alternative into tokens of the Excellent syntax; holes inside a text literal are recorded in inText.
func tokenizeAlt(a tAlt) (toks []xTok, inText []*tHole) {
	depth := 0
	inStr := false
	var cur strings.Builder
	flushWord := func() {
		if cur.Len() > 0 {
			toks = append(toks, xTok{kind: 'w', text: cur.String(), depth: depth})
			cur.Reset()
		}
	}
	for _, pc := range a.pieces {
		if pc.hole != nil {
			if inStr {
				inText = append(inText, pc.hole)
				continue
			}
			flushWord()
			k := byte('h')
			if pc.hole.kind == "optoken" {
				k = 'o'
			}
			toks = append(toks, xTok{kind: k, hole: pc.hole, text: "‹" + pc.hole.kind + "›", depth: depth})
			continue
		}
		s := pc.lit
		for i := 0; i < len(s); i++ {
			ch := s[i]
			if inStr {
				if ch == '\\' && i+1 < len(s) {
					i++
					continue
				}
				if ch == '"' {
					inStr = false
					toks = append(toks, xTok{kind: 's', text: `"…"`, depth: depth})
				}
				continue
			}
			switch {
			case ch == '"':
				flushWord()
				inStr = true
			case ch == ' ' || ch == '\t' || ch == '\n':
				flushWord()
			case ch == '(' || ch == '[':
				flushWord()
				toks = append(toks, xTok{kind: ch, text: string(ch), depth: depth})
				depth++
			case ch == ')' || ch == ']':
				flushWord()
				depth--
				toks = append(toks, xTok{kind: ch, text: string(ch), depth: depth})
			case ch == ',':
				flushWord()
				toks = append(toks, xTok{kind: ',', text: ",", depth: depth})
			case ch == '@':
				flushWord()
				toks = append(toks, xTok{kind: '@', text: "@", depth: depth})
			default:
				matched := false
				for _, op := range xOps {
					if strings.HasPrefix(s[i:], op) {
						flushWord()
						toks = append(toks, xTok{kind: 'o', text: op, depth: depth})
						i += len(op) - 1
						matched = true
						break
					}
				}
				if !matched {
					cur.WriteByte(ch)
				}
			}
		}
	}
	flushWord()
	if inStr {
		toks = append(toks, xTok{kind: 's', text: `"…`, depth: depth})
	}
	for i := range toks {
		if toks[i].kind == 'o' && toks[i].text == "-" {
			if i == 0 || strings.IndexByte("([,o@", toks[i-1].kind) >= 0 {
				toks[i].unary = true
			}
		}
	}
	return toks, inText
}

// closedToks: the text is a single operand wherever it is substituted: no operator at bracket depth 0.
func closedToks(toks []xTok) bool {
	if len(toks) == 0 {
		return false
	}
	if len(toks) == 1 && toks[0].kind == 'h' {
		return toks[0].hole.closed
	}
	for _, t := range toks {
		if t.kind == 'o' && t.depth == 0 {
			return false
		}
	}
	return true
}

// rpoBlocks: the reachable blocks of fn in reverse postorder, so that (loops aside) every predecessor of a block is
// evaluated before the block and its phis see all their incoming values in one pass.
func rpoBlocks(fn *ssa.Function) []*ssa.BasicBlock {
	var post []*ssa.BasicBlock
	seen := map[*ssa.BasicBlock]bool{}
	var dfs func(b *ssa.BasicBlock)
	dfs = func(b *ssa.BasicBlock) {
		seen[b] = true
		for _, s := range b.Succs {
			if !seen[s] {
				dfs(s)
			}
		}
		post = append(post, b)
	}
	if len(fn.Blocks) > 0 {
		dfs(fn.Blocks[0])
	}
	for i, j := 0, len(post)-1; i < j; i, j = i+1, j-1 {
		post[i], post[j] = post[j], post[i]
	}
	return post
}
