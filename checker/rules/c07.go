package rules

import (
	"fmt"
	"go/token"
	"go/types"
	"sort"
	"strings"

	"golang.org/x/tools/go/ssa"

	"verif/checker/core"
)

func init() { register("C07", checkC07) }

func paramNamed(fn *ssa.Function, name string) *ssa.Parameter {
	for _, prm := range fn.Params {
		if prm.Name() == name {
			return prm
		}
	}
	return nil
}

// receiverOfCallIn: for the value v, the receivers of the calls to interface method `method` in its backward slice.
func receiversOf(v ssa.Value, method string) []ssa.Value {
	var out []ssa.Value
	for x := range core.BackSlice(v, nil) {
		if c, ok := x.(*ssa.Call); ok && c.Call.IsInvoke() && c.Call.Method.Name() == method {
			out = append(out, c.Call.Value)
		}
	}
	return out
}

// distinctValues: vs without repetitions, in order of first appearance.
func distinctValues(vs []ssa.Value) []ssa.Value {
	var out []ssa.Value
	seen := map[ssa.Value]bool{}
	for _, v := range vs {
		if !seen[v] {
			seen[v] = true
			out = append(out, v)
		}
	}
	return out
}

func checkC07(p *core.Program, r *core.Report) {
	r.Rule("R1", "one category, three uses: in routeToCategory the value whose ExitUUID() is returned, whose Name() is saved and whose UUID() keys the localized name is one value, selected from recv.categories by UUID() == categoryUUID")
	r.Rule("R2", "argument roles: match -> Result.Value, operand -> Result.Input, recv.resultName -> Result.Name, step.NodeUUID() -> node; in SwitchRouter.Route matchCase's results feed (match, category, extra), the operand text feeds operand, and the default branch is taken exactly on categoryUUID == \"\" && default != \"\" (match re-derived from the operand); RouteTimeout uses wait.Timeout().CategoryUUID()")
	r.Rule("R3", "first match wins: matchCase walks recv.cases forward, returns inside the loop only for a truthy result with that case's CategoryUUID, and the error arm logs and continues")
	r.Rule("R4", "no arbitrary choice: an empty exit fails the run; without a router the first exit is taken under len > 0; the random router's index derives only from random.Decimal, len(categories), Mul, IntPart")
	r.Rule("R5", "Results.Save stores the result it is given on every path (the saved input/node/extra are those of the latest routing)")
	r.Rule("R9", "translated case arguments replace the base arguments only when they are as many: in matchCase the result of the `arguments` lookup is compared by length with the case's own Arguments before it is evaluated (a translation with a different number of items otherwise makes the test fail on its argument count and the first matching case is skipped)")
	r.Rule("R10", "a candidate that fails does not end the search: where a router test tries several candidates found in the input (a loop that calls the comparison it was given), the failing outcome of the comparison goes on to the next candidate — it never leaves the loop (a `break` there makes the test miss inputs whose second number matches, so a later case or Other wins)")
	c07R10(p, r)
	r.Rule("R11", "the search without a parent is the fallback for a parent that was not named: in a location test, a FindLocationsFuzzy call with a nil parent at a level below the top is made only when the text that names the level directly above — the text of the lookup at that level in the same test — is empty")
	c07R11(p, r)
	r.Rule("R12", "what a router test narrows down it then uses: in flows/routers and flows/routers/cases no slice, map or composite value is built and then never read (a local that is assigned a narrowed list — only the top intent — while the loop after it ranges over the full list again makes has_top_intent behave like has_intent)")
	c07R12(p, r)
	r.Rule("R8", "calendar days are taken in one timezone: within a router test, the values handed to dates.ExtractDate agree on being converted with In(env.Timezone()) first (sibling agreement between the operand's date and the argument's date; a day compared across two zones makes an earlier case miss and a later one win)")
	r.Rule("R7", "timeout routing is chosen for the run the timeout was applied to: the condition under which the engine calls Router.RouteTimeout instead of Route traces back, through parameters and every call site, only to a type test of the resume handed to the resuming function (a parameter) or to the constant false — never to session state such as the sprint's current resume, which is still a timeout when a parent run is resumed later in the same sprint")
	r.Assumption("each test function matches what its documentation says; localisation of arguments is C18")

	rtc := p.Method("flows/routers", "baseRouter", "routeToCategory")
	route := p.Method("flows/routers", "SwitchRouter", "Route")
	mc := p.Method("flows/routers", "SwitchRouter", "matchCase")
	rto := p.Method("flows/routers", "baseRouter", "RouteTimeout")
	rnd := p.Method("flows/routers", "RandomRouter", "Route")
	for n, f := range map[string]*ssa.Function{"routeToCategory": rtc, "SwitchRouter.Route": route, "matchCase": mc, "RouteTimeout": rto, "RandomRouter.Route": rnd} {
		if f == nil || f.Blocks == nil {
			r.Errorf("router anchor %s not found", n)
			return
		}
	}
	e := resolveEngine(p, r)
	if e == nil {
		return
	}

	// ------------------------------------------------------------------ R1 + R2 in routeToCategory
	catP, matchP, operandP := paramNamed(rtc, "categoryUUID"), paramNamed(rtc, "match"), paramNamed(rtc, "operand")
	if catP == nil || matchP == nil || operandP == nil {
		r.Errorf("routeToCategory parameters (categoryUUID, match, operand) not found")
		return
	}
	var newResult *ssa.Call
	var getText *ssa.Call
	// the result may be built in routeToCategory itself or in a helper it hands its values to; a parameter of that
	// helper stands for the argument it was called with
	helperArg := map[*ssa.Parameter]ssa.Value{}
	for _, ec := range core.EffectiveCalls(rtc, 1) {
		cs := ec.Inner
		if o := core.CalleeObj(cs.Common()); o != nil {
			switch core.ObjName(o) {
			case "flows.NewResult", "flows.Run.GetText":
				if core.ObjName(o) == "flows.NewResult" {
					newResult, _ = cs.Instr.(*ssa.Call)
				} else {
					getText, _ = cs.Instr.(*ssa.Call)
				}
				if len(ec.Chain) == 1 {
					if oc, ok := ec.Outer.(ssa.CallInstruction); ok {
						for i, fp := range ec.Chain[0].Params {
							if i < len(oc.Common().Args) {
								helperArg[fp] = oc.Common().Args[i]
							}
						}
					}
				}
			}
		}
	}
	actual := func(v ssa.Value) ssa.Value {
		v = core.StripConv(v)
		if prm, ok := v.(*ssa.Parameter); ok {
			if a, ok := helperArg[prm]; ok {
				return core.StripConv(a)
			}
		}
		return v
	}
	actuals := func(vs []ssa.Value) []ssa.Value {
		out := make([]ssa.Value, len(vs))
		for i, v := range vs {
			out[i] = actual(v)
		}
		return out
	}
	if !r.Check(newResult != nil && getText != nil, "R1", "routeToCategory/anchors", p.Pos(rtc.Pos()), "flows.NewResult and Run.GetText calls found", "routeToCategory no longer builds a result / localizes the category name") {
		return
	}
	var exitRecv []ssa.Value
	for _, ret := range core.Returns(rtc) {
		if s, ok := core.ConstString(ret.Results[0]); ok && s == "" {
			continue
		}
		exitRecv = append(exitRecv, receiversOf(ret.Results[0], "ExitUUID")...)
	}
	nameRecv := actuals(receiversOf(newResult.Call.Args[2], "Name"))
	uuidRecv := actuals(receiversOf(getText.Call.Args[0], "UUID"))
	// several returns (or several reads) of the same value are one use of it
	exitRecv, nameRecv, uuidRecv = distinctValues(exitRecv), distinctValues(nameRecv), distinctValues(uuidRecv)
	same := len(exitRecv) == 1 && len(nameRecv) == 1 && len(uuidRecv) == 1 && exitRecv[0] == nameRecv[0] && nameRecv[0] == uuidRecv[0]
	r.Check(same, "R1", "routeToCategory/one-category-three-uses", p.Pos(newResult.Pos()), "exit, saved name and localization key come from the same category value",
		fmt.Sprintf("the exit taken, the category name saved and the localized-name lookup do not use one and the same category (exit from %d, name from %d, key from %d values)", len(exitRecv), len(nameRecv), len(uuidRecv)))
	if same {
		// selected by UUID() == categoryUUID among recv.categories
		cat := exitRecv[0]
		selOK := c07SelectedByUUID(cat, catP, 0)
		r.Check(selOK, "R1", "routeToCategory/category-selected-by-uuid", p.Pos(rtc.Pos()), "element of recv.categories with UUID() == categoryUUID", "the category is not selected by comparing its UUID with the requested category UUID")
	}
	a := newResult.Call.Args
	r.Check(actual(a[1]) == ssa.Value(matchP), "R2", "routeToCategory/value=match", p.Pos(newResult.Pos()), "Result.Value := match", "the saved result's value is not the test's match")
	r.Check(actual(a[5]) == ssa.Value(operandP), "R2", "routeToCategory/input=operand", p.Pos(newResult.Pos()), "Result.Input := operand", "the saved result's input is not the operand")
	r.Check(recvCanon(core.StripConv(a[0]), newResult.Parent()) == "recv.resultName", "R2", "routeToCategory/name=resultName", p.Pos(newResult.Pos()), "Result.Name := recv.resultName", "the result is saved under "+recvCanon(core.StripConv(a[0]), newResult.Parent()))
	nodeOK := false
	for v := range core.BackSlice(a[4], nil) {
		if c, ok := v.(*ssa.Call); ok && c.Call.IsInvoke() && c.Call.Method.Name() == "NodeUUID" {
			if prm, ok := actual(c.Call.Value).(*ssa.Parameter); ok && prm.Name() == "step" && prm.Parent() == rtc {
				nodeOK = true
			}
		}
	}
	r.Check(nodeOK, "R2", "routeToCategory/node=step.NodeUUID", p.Pos(newResult.Pos()), "node := step.NodeUUID()", "the saved result's node is not the step's node")
	// the save is controlled only by resultName != "" (and the earlier category guards)
	// empty categoryUUID -> returns "" without saving
	emptyOK := false
	for _, ret := range core.Returns(rtc) {
		if s, ok := core.ConstString(ret.Results[0]); ok && s == "" && core.IsNilConst(ret.Results[1]) {
			for _, ce := range core.ControllingConds(ret.Block()) {
				if bo, ok := ce.Cond.(*ssa.BinOp); ok && bo.Op == token.EQL && ce.Taken && (bo.X == ssa.Value(catP) || bo.Y == ssa.Value(catP)) {
					emptyOK = true
				}
			}
		}
	}
	r.Check(emptyOK, "R4", "routeToCategory/no-category-no-exit", p.Pos(rtc.Pos()), "categoryUUID == \"\" returns no exit and no error", "an empty category does not yield an empty exit (the engine could not fail the run)")

	// ------------------------------------------------------------------ R2 in SwitchRouter.Route
	var mcCall, rtcCall *ssa.Call
	for _, cs := range core.Calls(route, false) {
		switch cs.Common().StaticCallee() {
		case mc:
			mcCall, _ = cs.Instr.(*ssa.Call)
		case rtc:
			rtcCall, _ = cs.Instr.(*ssa.Call)
		}
	}
	if !r.Check(mcCall != nil && rtcCall != nil, "R2", "SwitchRouter.Route/anchors", p.Pos(route.Pos()), "matchCase and routeToCategory calls found", "SwitchRouter.Route no longer calls matchCase / routeToCategory") {
		return
	}
	extractOf := func(v ssa.Value, call *ssa.Call) map[int]bool {
		out := map[int]bool{}
		for x := range core.BackSlice(v, nil) {
			if ex, ok := x.(*ssa.Extract); ok && ex.Tuple == ssa.Value(call) {
				out[ex.Index] = true
			}
		}
		return out
	}
	// every operand is put to the cases: no path reaches the category decision without the call of matchCase
	// (an operand that is an error value must still meet a has_error case before the default is taken)
	r.Check(mcCall.Block().Dominates(rtcCall.Block()), "R3", "SwitchRouter.Route/cases-tried-for-every-operand", p.Pos(mcCall.Pos()), "matchCase dominates the category decision",
		"SwitchRouter.Route reaches routeToCategory on a path that skips matchCase: for some operands (decided by "+condsOf(mcCall.Block())+") no case is tested and the default category is taken although an earlier case — has_error on a failed operand — matches")
	ra := rtcCall.Call.Args // recv, run, step, categoryUUID, match, operand, extra, log
	r.Check(extractOf(ra[3], mcCall)[1] && len(extractOf(ra[3], mcCall)) == 1, "R2", "SwitchRouter.Route/category<-matchCase#1", p.Pos(rtcCall.Pos()), "category UUID derives from matchCase's category result", "the category routed to does not come from matchCase's category result")
	r.Check(extractOf(ra[4], mcCall)[0] && len(extractOf(ra[4], mcCall)) == 1, "R2", "SwitchRouter.Route/match<-matchCase#0", p.Pos(rtcCall.Pos()), "match derives from matchCase's match result", "the match saved does not come from matchCase's match result")
	r.Check(extractOf(ra[6], mcCall)[2] && len(extractOf(ra[6], mcCall)) == 1, "R2", "SwitchRouter.Route/extra<-matchCase#2", p.Pos(rtcCall.Pos()), "extra derives from matchCase's extra result", "the extra saved does not come from matchCase's extra result")
	// category phi: other edge is recv.defaultCategoryUUID, match phi: other edge derives from ToXText(operand).Native()
	catPhi, _ := ra[3].(*ssa.Phi)
	matchPhi, _ := ra[4].(*ssa.Phi)
	defOK, matchDefOK := false, false
	var defBlock *ssa.BasicBlock
	if catPhi != nil {
		for i, ev := range catPhi.Edges {
			if recvCanon(ev, route) == "recv.defaultCategoryUUID" {
				defOK = true
				defBlock = catPhi.Block().Preds[i]
			}
		}
	}
	operandVal := ssa.Value(nil)
	for _, cs := range core.Calls(route, false) {
		if o := core.CalleeObj(cs.Common()); o != nil && core.ObjName(o) == "flows.Run.EvaluateTemplateValue" {
			for _, ref := range *cs.Instr.(*ssa.Call).Referrers() {
				if ex, ok := ref.(*ssa.Extract); ok && ex.Index == 0 {
					operandVal = ex
				}
			}
		}
	}
	// the text may be taken where it is used or in a helper of the router's package whose result it is: the helper's
	// returns are sliced in turn, its parameters standing for the arguments of the call
	var operandText func(v ssa.Value, bound map[*ssa.Parameter]ssa.Value, depth int) (hasNative, hasToText bool)
	operandText = func(v ssa.Value, bound map[*ssa.Parameter]ssa.Value, depth int) (hasNative, hasToText bool) {
		resolve := func(a ssa.Value) ssa.Value {
			if prm, ok := core.StripConv(a).(*ssa.Parameter); ok {
				if b, ok := bound[prm]; ok {
					return b
				}
			}
			return a
		}
		for x := range core.BackSlice(v, func(c *ssa.Call) bool {
			o := core.CalleeObj(&c.Call)
			return o != nil && (o.Name() == "Native" || core.ObjName(o) == "excellent/types.ToXText")
		}) {
			c, ok := x.(*ssa.Call)
			if !ok {
				continue
			}
			if o := core.CalleeObj(&c.Call); o != nil {
				if o.Name() == "Native" {
					hasNative = true
					continue
				}
				if core.ObjName(o) == "excellent/types.ToXText" {
					if operandVal != nil && resolve(c.Call.Args[1]) == operandVal {
						hasToText = true
					}
					continue
				}
			}
			g := c.Call.StaticCallee()
			if g == nil || len(g.Blocks) == 0 || depth >= 2 || core.FuncPkgPath(g) != core.FuncPkgPath(route) || g.Signature.Results().Len() != 1 {
				continue
			}
			inner := map[*ssa.Parameter]ssa.Value{}
			for i, fp := range g.Params {
				if i < len(c.Call.Args) {
					inner[fp] = resolve(c.Call.Args[i])
				}
			}
			for _, ret := range core.Returns(g) {
				if len(ret.Results) != 1 {
					continue
				}
				n, t := operandText(ret.Results[0], inner, depth+1)
				hasNative, hasToText = hasNative || n, hasToText || t
			}
		}
		return hasNative, hasToText
	}
	fromOperandText := func(v ssa.Value) bool {
		hasNative, hasToText := operandText(v, nil, 0)
		return hasNative && hasToText
	}
	if matchPhi != nil && defBlock != nil {
		for i, ev := range matchPhi.Edges {
			if matchPhi.Block().Preds[i] == defBlock && fromOperandText(ev) {
				matchDefOK = true
			}
		}
	}
	r.Check(defOK, "R2", "SwitchRouter.Route/default-category", p.Pos(rtcCall.Pos()), "falls back to recv.defaultCategoryUUID", "the fallback category is not the router's default category")
	r.Check(matchDefOK, "R2", "SwitchRouter.Route/default-match=operand-text", p.Pos(rtcCall.Pos()), "on the default edge the match is the operand as text", "for the default category the saved value is not the operand itself")
	r.Check(fromOperandText(ra[5]), "R2", "SwitchRouter.Route/operand=operand-text", p.Pos(rtcCall.Pos()), "operand argument is the evaluated operand as text", "the operand passed on (saved as input, logged in the segment) is not the evaluated operand's text")
	// guard of the default branch
	if defBlock != nil {
		hasCatEmpty, hasDefNonEmpty, extra := false, false, ""
		for _, ce := range core.ControllingConds(defBlock) {
			bo, ok := ce.Cond.(*ssa.BinOp)
			if !ok {
				extra = ce.Cond.String()
				continue
			}
			isEmptyConst := func(v ssa.Value) bool { s, ok := core.ConstString(v); return ok && s == "" }
			switch {
			case bo.Op == token.EQL && ce.Taken && isEmptyConst(bo.Y) && extractOf(bo.X, mcCall)[1]:
				hasCatEmpty = true
			case bo.Op == token.NEQ && ce.Taken && isEmptyConst(bo.Y) && recvCanon(bo.X, route) == "recv.defaultCategoryUUID":
				hasDefNonEmpty = true
			case core.IsNilConst(bo.X) || core.IsNilConst(bo.Y):
				// error check of matchCase
			default:
				extra = bo.X.String() + " " + bo.Op.String() + " " + bo.Y.String()
			}
		}
		r.Check(hasCatEmpty && hasDefNonEmpty && extra == "", "R2", "SwitchRouter.Route/default-guard", p.Pos(rtcCall.Pos()), "default taken exactly when matchCase picked no category and a default exists",
			fmt.Sprintf("the default category is not guarded by (no case matched: %v) && (default set: %v); other condition: %s — a matching case can be overridden by the default, or the default skipped", hasCatEmpty, hasDefNonEmpty, extra))
	}
	// second return value of Route is the operand text
	for _, ret := range core.Returns(route) {
		if core.IsNilConst(ret.Results[2]) || ret.Results[2] == ssa.Value(nil) {
			continue
		}
	}
	// RouteTimeout
	toOK := false
	for _, cs := range core.Calls(rto, false) {
		if cs.Common().StaticCallee() == rtc {
			for v := range core.BackSlice(cs.Common().Args[3], nil) {
				if c, ok := v.(*ssa.Call); ok && c.Call.IsInvoke() && c.Call.Method.Name() == "CategoryUUID" {
					for w := range core.BackSlice(c.Call.Value, nil) {
						if c2, ok := w.(*ssa.Call); ok && c2.Call.IsInvoke() && c2.Call.Method.Name() == "Timeout" {
							toOK = true
						}
					}
				}
			}
		}
	}
	r.Check(toOK, "R2", "RouteTimeout/category=wait.Timeout().CategoryUUID", p.Pos(rto.Pos()), "timeout category", "a timeout is not routed to the wait's timeout category")

	// ------------------------------------------------------------------ R3 matchCase
	var truthy *ssa.Call
	var callTest *ssa.Call
	for _, cs := range core.Calls(mc, false) {
		if o := core.CalleeObj(cs.Common()); o != nil {
			switch core.ObjName(o) {
			case "excellent/types.XObject.Truthy":
				truthy, _ = cs.Instr.(*ssa.Call)
			case "excellent/types.XFunction.Call":
				callTest, _ = cs.Instr.(*ssa.Call)
			}
		}
	}
	if !r.Check(truthy != nil && callTest != nil, "R3", "matchCase/anchors", p.Pos(mc.Pos()), "test call and truthiness check found", "matchCase no longer calls the test / checks truthiness") {
		return
	}
	// whether a case is tested does not depend on where it leads: no condition the test call depends on reads the
	// case's category or the router's default category
	{
		lead := ""
		for _, ce := range core.MayConds(callTest.Block()) {
			for v := range core.BackSlice(ce.Cond, nil) {
				if fa, ok := v.(*ssa.FieldAddr); ok && core.FieldAddrVar(fa) != nil {
					switch core.FieldAddrVar(fa).Name() {
					case "CategoryUUID", "defaultCategoryUUID":
						lead = core.FieldAddrVar(fa).Name() + " (" + p.Pos(ce.If.Pos()) + ")"
					}
				}
			}
		}
		r.Check(lead == "", "R3", "matchCase/every-case-is-tested-whatever-its-category", p.Pos(callTest.Pos()), "the test call does not depend on the case's category", "a case is skipped depending on "+lead+": a matching case that leads to the default category no longer stops a later matching case from winning, and the saved match is no longer that case's")
	}
	// forward range over recv.cases
	var caseIdx ssa.Value
	for v := range core.BackSlice(callTest.Call.Args[0], func(*ssa.Call) bool { return true }) {
		if ia, ok := v.(*ssa.IndexAddr); ok {
			for w := range core.BackSlice(ia.X, nil) {
				if fa, ok := w.(*ssa.FieldAddr); ok && core.FieldAddrVar(fa).Name() == "cases" {
					caseIdx = ia.Index
				}
			}
		}
	}
	fwd := false
	if inc, ok := caseIdx.(*ssa.BinOp); ok && inc.Op == token.ADD {
		if k, isC := core.ConstInt(inc.Y); isC && k == 1 {
			if phi, ok := inc.X.(*ssa.Phi); ok {
				for _, ev := range phi.Edges {
					if k0, isC := core.ConstInt(ev); isC && k0 == -1 {
						fwd = true
					}
				}
			}
		}
	}
	r.Check(fwd, "R3", "matchCase/forward-over-cases", p.Pos(mc.Pos()), "range over recv.cases from the first case", "cases are not tried in definition order from the first one")
	// match return: controlled by Truthy() true edge, returns CategoryUUID of the same case element
	retOK := false
	for _, ret := range core.Returns(mc) {
		if s, ok := core.ConstString(ret.Results[1]); ok && s == "" {
			continue
		}
		truthyEdge := false
		for _, ce := range core.ControllingConds(ret.Block()) {
			cond, taken := ce.Cond, ce.Taken
			for {
				u, ok := cond.(*ssa.UnOp)
				if !ok || u.Op != token.NOT {
					break
				}
				cond, taken = u.X, !taken
			}
			if cond == ssa.Value(truthy) && taken {
				truthyEdge = true
			}
		}
		sameCase := false
		for v := range core.BackSlice(ret.Results[1], nil) {
			if fa, ok := v.(*ssa.FieldAddr); ok && core.FieldAddrVar(fa).Name() == "CategoryUUID" {
				for w := range core.BackSlice(fa.X, nil) {
					if ia, ok := w.(*ssa.IndexAddr); ok && ia.Index == caseIdx {
						sameCase = true
					}
				}
			}
		}
		// the truthiness tested is that of this iteration's test result
		fromCall := false
		for v := range core.BackSlice(truthy.Call.Args[0], nil) {
			if v == ssa.Value(callTest) {
				fromCall = true
			}
		}
		if truthyEdge && sameCase && fromCall {
			retOK = true
		} else {
			r.Bad("R3", "matchCase/match-return", p.Pos(ret.Pos()), fmt.Sprintf("a case is returned as matching without (truthy result of this case's test: %v/%v) or with another case's category (same case: %v)", truthyEdge, fromCall, sameCase))
		}
	}
	r.Check(retOK, "R3", "matchCase/returns-first-truthy", p.Pos(mc.Pos()), "returns this case's category on the truthy edge of this case's result", "no return of a truthy case found")
	// error arm continues: blocks controlled by the *XError assertion do not return
	errArmReturns := false
	core.EachInstr(mc, false, func(_ *ssa.Function, in ssa.Instruction) {
		ret, ok := in.(*ssa.Return)
		if !ok {
			return
		}
		for _, ce := range core.ControllingConds(ret.Block()) {
			if ex, ok := ce.Cond.(*ssa.Extract); ok && ce.Taken {
				if ta, ok := ex.Tuple.(*ssa.TypeAssert); ok && core.ShortType(ta.AssertedType) == "*excellent/types.XError" && ta.X == ssa.Value(callTest) {
					errArmReturns = true
				}
			}
		}
	})
	r.Check(!errArmReturns, "R3", "matchCase/error-arm-continues", p.Pos(mc.Pos()), "a test that returns an error is logged and the next case is tried", "a case whose test errors ends the matching: later cases are never tried")

	c07R7(p, r)
	c07R8(p, r)
	c07R9(p, r, mc)
	// ------------------------------------------------------------------ R4 pickNodeExit and random
	failOK := false
	for _, cs := range core.Calls(e.pick, false) {
		if cs.Common().StaticCallee() != e.failRun {
			continue
		}
		for _, ce := range core.ControllingConds(cs.Instr.Block()) {
			if bo, ok := ce.Cond.(*ssa.BinOp); ok && bo.Op == token.EQL && ce.Taken {
				if s, ok := core.ConstString(bo.Y); ok && s == "" {
					for v := range core.BackSlice(bo.X, nil) {
						if c, ok := v.(*ssa.Call); ok && c.Call.IsInvoke() && (c.Call.Method.Name() == "Route" || c.Call.Method.Name() == "RouteTimeout") {
							failOK = true
						}
					}
				}
			}
		}
		// followed by a return of a nil exit in the same block
		if failOK {
			last := cs.Instr.Block().Instrs[len(cs.Instr.Block().Instrs)-1]
			if ret, ok := last.(*ssa.Return); !ok || !core.IsNilConst(ret.Results[0]) {
				failOK = false
			}
		}
	}
	r.Check(failOK, "R4", "pickNodeExit/empty-exit-fails-run", p.Pos(e.pick.Pos()), "router result \"\" => failRun and no exit", "a router that selects no category does not fail the run (an arbitrary or no exit would be taken)")
	// random router
	allowed := map[string]bool{"github.com/nyaruka/gocommon/random.Decimal": true, "github.com/shopspring/decimal.Decimal.Mul": true, "github.com/shopspring/decimal.Decimal.IntPart": true, "github.com/shopspring/decimal.New": true}
	var idx ssa.Value
	core.EachInstr(rnd, false, func(_ *ssa.Function, in ssa.Instruction) {
		if ia, ok := in.(*ssa.IndexAddr); ok {
			for w := range core.BackSlice(ia.X, nil) {
				if fa, ok := w.(*ssa.FieldAddr); ok && core.FieldAddrVar(fa).Name() == "categories" {
					idx = ia.Index
				}
			}
		}
	})
	rndOK := idx != nil
	bad := ""
	hasLen, hasDec := false, false
	// the slice of the index is followed into helpers of the router's package whose result it is (an extracted
	// scaling function): the helper's body must obey the same whitelist, its parameters are bound to the arguments of
	// the call, which the slice of the caller already covers.
	var sliceIdx func(v ssa.Value, top bool, depth int)
	sliceIdx = func(v ssa.Value, top bool, depth int) {
		for v := range core.BackSlice(v, func(*ssa.Call) bool { return true }) {
			if c, ok := v.(*ssa.Call); ok {
				if b, ok := c.Call.Value.(*ssa.Builtin); ok {
					if b.Name() == "len" {
						hasLen = true
					}
					continue
				}
				o := core.CalleeObj(&c.Call)
				if g := c.Call.StaticCallee(); g != nil && (o == nil || !allowed[core.ObjName(o)]) && len(g.Blocks) > 0 && depth < 2 && core.FuncPkgPath(g) == core.FuncPkgPath(rnd) {
					for _, ret := range core.Returns(g) {
						for _, rv := range ret.Results {
							sliceIdx(rv, false, depth+1)
						}
					}
					continue
				}
				if o == nil || !allowed[core.ObjName(o)] {
					rndOK = false
					if o != nil {
						bad = core.ObjName(o)
					}
				} else if core.ObjName(o) == "github.com/nyaruka/gocommon/random.Decimal" {
					hasDec = true
				}
			}
			if _, ok := v.(*ssa.Parameter); ok && top && v != ssa.Value(rnd.Params[0]) {
				rndOK = false
				bad = "parameter " + v.Name()
			}
		}
	}
	if idx != nil {
		sliceIdx(idx, true, 0)
	}
	r.Check(rndOK && hasLen && hasDec, "R4", "RandomRouter.Route/index-from-draw", p.Pos(rnd.Pos()), "category index = IntPart(random.Decimal() * len(categories))", "the random router's category index depends on something other than the random draw and the number of categories: "+bad)

	// ------------------------------------------------------------------ R5 Results.Save
	save := p.Method("flows", "Results", "Save")
	if save == nil {
		r.Errorf("flows.Results.Save not found")
		return
	}
	var upd *ssa.MapUpdate
	core.EachInstr(save, false, func(_ *ssa.Function, in ssa.Instruction) {
		if mu, ok := in.(*ssa.MapUpdate); ok && core.StripConv(mu.Value) == ssa.Value(save.Params[1]) {
			upd = mu
		}
	})
	okSave := upd != nil
	if okSave {
		for _, ret := range core.Returns(save) {
			if !core.InstrDominates(upd, ret) {
				okSave = false
			}
		}
	}
	r.Check(okSave, "R5", "Results.Save/always-stores", p.Pos(save.Pos()), "r[key] = result dominates every return", "Results.Save does not store the new result on every path: a re-routing with the same value and category keeps the earlier input, node and extra")

	// ------------------------------------------------------------------ R6 language of the case arguments
	r.Rule("R6", "the case arguments and category names a router compares and saves are looked up with the documented language fallback (imported from C18/R1 R2): with the wrong language the first matching case is not the one the definition prescribes")
	importObligations(p, r, "C18", map[string]bool{"R1": true, "R2": true}, "R6", "router case arguments are taken from the wrong language")
}

// c07SelectedByUUID: cat is an element of recv.categories picked on the edge where element.UUID() == want — in this
// function, or in a helper of the same package that is handed `want` and returns the element it found.
func c07SelectedByUUID(cat ssa.Value, want ssa.Value, depth int) bool {
	if depth > 2 {
		return false
	}
	for v := range core.BackSlice(cat, nil) {
		if call, ok := v.(*ssa.Call); ok {
			g := call.Call.StaticCallee()
			if g == nil || len(g.Blocks) == 0 || cat.Parent() == nil || core.FuncPkgPath(g) != core.FuncPkgPath(cat.Parent()) {
				continue
			}
			for i, a := range call.Call.Args {
				if a != want || i >= len(g.Params) {
					continue
				}
				all, n := true, 0
				for _, ret := range core.Returns(g) {
					if len(ret.Results) == 0 || core.IsNilConst(ret.Results[0]) {
						continue
					}
					n++
					if !c07SelectedByUUID(ret.Results[0], g.Params[i], depth+1) {
						all = false
					}
				}
				if all && n > 0 {
					return true
				}
			}
			continue
		}
		ld, ok := v.(*ssa.UnOp)
		if !ok {
			continue
		}
		ia, ok := ld.X.(*ssa.IndexAddr)
		if !ok {
			continue
		}
		fromCats := false
		for w := range core.BackSlice(ia.X, nil) {
			if fa, ok := w.(*ssa.FieldAddr); ok && core.FieldAddrVar(fa).Name() == "categories" {
				fromCats = true
			}
		}
		if !fromCats {
			continue
		}
		// the edge that carries this element onwards is controlled by element.UUID() == want
		for _, in := range ld.Block().Instrs {
			bo, ok := in.(*ssa.BinOp)
			if !ok || bo.Op != token.EQL {
				continue
			}
			l, rr := bo.X, bo.Y
			isUUIDOfElem := func(x ssa.Value) bool {
				c, ok := x.(*ssa.Call)
				return ok && c.Call.IsInvoke() && c.Call.Method.Name() == "UUID" && c.Call.Value == ssa.Value(ld)
			}
			if (isUUIDOfElem(l) && rr == want) || (isUUIDOfElem(rr) && l == want) {
				return true
			}
		}
	}
	return false
}

// ---------------------------------------------------------------------------------------------- R7

func c07R7(p *core.Program, r *core.Report) {
	n := 0
	for _, cs := range p.CallsToName("flows.Router.RouteTimeout") {
		if p.IsTestFile(cs.Pos()) || core.RelPkg(core.FuncPkgPath(cs.Caller)) != "flows/engine" {
			continue
		}
		n++
		var origins []string
		bad := ""
		seen := map[ssa.Value]bool{}
		bound := map[*ssa.Parameter]ssa.Value{}
		var trace func(v ssa.Value, depth int)
		trace = func(v ssa.Value, depth int) {
			v = core.StripConv(v)
			if seen[v] || depth > 6 {
				return
			}
			seen[v] = true
			switch x := v.(type) {
			case *ssa.Const:
				origins = append(origins, "constant "+x.Value.String())
				if x.Value.String() != "false" {
					bad = "the constant " + x.Value.String()
				}
			case *ssa.Call:
				// the flag computed by a helper of the package: what its returns derive from, with the helper's
				// parameters standing for the arguments of this call
				g := x.Call.StaticCallee()
				if g == nil || g.Blocks == nil || core.FuncPkgPath(g) != core.FuncPkgPath(cs.Caller) || depth > 4 {
					bad = canonShort(v)
					return
				}
				for i, fp := range g.Params {
					if i < len(x.Call.Args) {
						bound[fp] = x.Call.Args[i]
					}
				}
				for _, ret := range core.Returns(g) {
					if len(ret.Results) > 0 {
						trace(ret.Results[0], depth+1)
					}
				}
			case *ssa.Parameter:
				if a, ok := bound[x]; ok {
					trace(a, depth+1)
					return
				}
				f := x.Parent()
				idx := -1
				for i, fp := range f.Params {
					if fp == x {
						idx = i
					}
				}
				sites := p.CallsTo(f)
				if idx < 0 || len(sites) == 0 || f.Object() == nil || f.Object().Exported() {
					bad = "parameter " + x.Name() + " of " + core.FuncName(f) + " (callers unknown)"
					return
				}
				for _, site := range sites {
					if p.IsTestFile(site.Pos()) {
						continue
					}
					if idx < len(site.Common().Args) {
						trace(site.Common().Args[idx], depth+1)
					}
				}
			case *ssa.Extract:
				ta, ok := x.Tuple.(*ssa.TypeAssert)
				if !ok || !ta.CommaOk || x.Index != 1 {
					bad = canonShort(v)
					return
				}
				subject := core.StripConv(ta.X)
				if prm, ok := subject.(*ssa.Parameter); ok {
					if a, isBound := bound[prm]; isBound {
						subject = core.StripConv(a)
					}
				}
				if prm, ok := subject.(*ssa.Parameter); ok {
					origins = append(origins, fmt.Sprintf("type test of parameter %s of %s against %s", prm.Name(), core.FuncName(prm.Parent()), core.ShortType(ta.AssertedType)))
				} else {
					bad = "a type test of " + canonShort(subject) + ", which is not the resume handed to the function but state that outlives the run being resumed"
				}
			case *ssa.Phi:
				for _, e := range x.Edges {
					trace(e, depth+1)
				}
			case *ssa.UnOp:
				if x.Op == token.NOT {
					trace(x.X, depth+1)
					return
				}
				bad = "a load of " + canonShort(x.X)
			default:
				bad = canonShort(v)
			}
		}
		conds := core.ControllingConds(cs.Instr.Block())
		decided := false
		for _, ce := range conds {
			// the node-has-a-router test is not the choice between Route and RouteTimeout
			if bo, ok := ce.Cond.(*ssa.BinOp); ok && (core.IsNilConst(bo.X) || core.IsNilConst(bo.Y)) {
				continue
			}
			decided = true
			trace(ce.Cond, 0)
		}
		key := core.FuncName(cs.Caller) + "/RouteTimeout-choice"
		if !decided {
			r.Bad("R7", key, p.Pos(cs.Pos()), "RouteTimeout is called without a deciding condition")
			continue
		}
		hasTest := false
		for _, o := range origins {
			if strings.HasPrefix(o, "type test") {
				hasTest = true
			}
		}
		sort.Strings(origins)
		r.Check(bad == "" && hasTest, "R7", key, p.Pos(cs.Pos()), strings.Join(uniq(origins), "; "),
			"whether a node is left by its timeout category depends on "+map[bool]string{true: bad, false: "no type test of the resume at all"}[bad != ""]+": a parent run resumed after its child completes in a sprint started by a timeout would also be routed by RouteTimeout (its own wait's timeout category, or a failed run when it has none)")
	}
	r.Require("route_timeout_sites", n, 1)
}

// ---------------------------------------------------------------------------------------------- R8

func c07R8(p *core.Program, r *core.Report) {
	byFn := map[*ssa.Function][]core.CallSite{}
	for _, cs := range p.AllCalls() {
		o := core.CalleeObj(cs.Common())
		if o == nil || !strings.HasSuffix(core.ObjName(o), "gocommon/dates.ExtractDate") || p.IsTestFile(cs.Pos()) {
			continue
		}
		if core.RelPkg(core.FuncPkgPath(cs.Caller)) != "flows/routers/cases" {
			continue
		}
		byFn[rootFn(cs.Caller)] = append(byFn[rootFn(cs.Caller)], cs)
	}
	n := 0
	for fn, sites := range byFn {
		if len(sites) < 2 {
			continue
		}
		inTZ := func(cs core.CallSite) bool {
			for v := range core.BackSlice(cs.Common().Args[0], func(*ssa.Call) bool { return true }) {
				c, ok := v.(*ssa.Call)
				if !ok {
					continue
				}
				if o := core.CalleeObj(&c.Call); o != nil && o.Name() == "In" {
					for w := range core.BackSlice(c, func(*ssa.Call) bool { return true }) {
						if c2, ok := w.(*ssa.Call); ok && c2.Call.IsInvoke() && c2.Call.Method.Name() == "Timezone" {
							return true
						}
					}
				}
			}
			return false
		}
		nIn := 0
		for _, cs := range sites {
			if inTZ(cs) {
				nIn++
			}
		}
		for i, cs := range sites {
			n++
			r.Check(nIn == 0 || inTZ(cs), "R8", fmt.Sprintf("%s/ExtractDate#%d-in-env-timezone", core.FuncName(fn), i+1), p.Pos(cs.Pos()), "converted with In(env.Timezone()) like its siblings",
				"this date is extracted without converting the value to the environment's timezone while the other one is: the two calendar days are taken in different zones, so has_date_eq/lt/gt pick the wrong case for instants near midnight")
		}
	}
	r.Count("paired_extract_date_sites", n) // zero when the conversion is written once in a helper: agreement by construction
}

// ---------------------------------------------------------------------------------------------- R9

func c07R9(p *core.Program, r *core.Report, mc *ssa.Function) {
	n := 0
	for _, ec := range core.EffectiveCalls(mc, 1) {
		cs := ec.Inner
		o := core.CalleeObj(cs.Common())
		if o == nil || core.ObjName(o) != "flows.Run.GetTextArray" {
			continue
		}
		isArgs := false
		for _, a := range cs.Common().Args {
			if sc, ok := core.ConstString(a); ok && sc == "arguments" {
				isArgs = true
			}
		}
		call, ok := cs.Instr.(*ssa.Call)
		if !isArgs || !ok {
			continue
		}
		n++
		// a length comparison between the lookup's result and a load of the case's Arguments field
		compared := false
		core.EachInstr(cs.Caller, false, func(_ *ssa.Function, in ssa.Instruction) {
			bo, ok := in.(*ssa.BinOp)
			if !ok || (bo.Op != token.EQL && bo.Op != token.NEQ) {
				return
			}
			lenOf := func(v ssa.Value) ssa.Value {
				a, ok := isLenCall(v)
				if !ok {
					return nil
				}
				return a
			}
			x, y := lenOf(bo.X), lenOf(bo.Y)
			if x == nil || y == nil {
				return
			}
			isLookup := func(v ssa.Value) bool {
				for w := range core.BackSlice(v, nil) {
					if ex, ok := w.(*ssa.Extract); ok && ex.Tuple == ssa.Value(call) && ex.Index == 0 {
						return true
					}
				}
				return false
			}
			isBase := func(v ssa.Value) bool {
				for w := range core.BackSlice(v, nil) {
					if fa, ok := w.(*ssa.FieldAddr); ok && core.FieldAddrVar(fa).Name() == "Arguments" {
						return true
					}
				}
				return false
			}
			if (isLookup(x) && isBase(y) && !isLookup(y)) || (isLookup(y) && isBase(x) && !isLookup(x)) {
				compared = true
			}
		})
		r.Check(compared, "R9", "SwitchRouter.matchCase/translated-arguments-same-count", p.Pos(cs.Pos()), "len(translated) is compared with len(case.Arguments)",
			"the translated arguments of a case are used whatever their number: a translation with more or fewer items than the case has arguments changes what the test is called with, so the case the definition prescribes no longer wins")
	}
	r.Require("argument_lookups", n, 1)
}

// ---------------------------------------------------------------------------------------------- R10

// c07R10: package cases. For every call of a function-typed parameter inside a loop whose boolean result decides a
// branch: the edge taken when the result is false stays in the loop until its header.
func c07R10(p *core.Program, r *core.Report) {
	n := 0
	for _, fn := range p.ModuleFunctions() {
		if core.RelPkg(core.FuncPkgPath(fn)) != "flows/routers/cases" {
			continue
		}
		for _, cs := range core.Calls(fn, false) {
			par, ok := cs.Common().Value.(*ssa.Parameter)
			if !ok || cs.Common().IsInvoke() {
				continue
			}
			if _, isSig := par.Type().Underlying().(*types.Signature); !isSig {
				continue
			}
			call, ok := cs.Instr.(*ssa.Call)
			if !ok {
				continue
			}
			header := lexicalLoopHeader(call.Block())
			if header == nil {
				continue
			}
			for _, ref := range *call.Referrers() {
				var iff *ssa.If
				neg := false
				switch x := ref.(type) {
				case *ssa.If:
					iff = x
				case *ssa.UnOp:
					if x.Op == token.NOT {
						for _, r2 := range *x.Referrers() {
							if i2, ok := r2.(*ssa.If); ok {
								iff, neg = i2, true
							}
						}
					}
				}
				if iff == nil {
					continue
				}
				n++
				failSucc := iff.Block().Succs[1]
				if neg {
					failSucc = iff.Block().Succs[0]
				}
				r.Check(!edgeLeavesLoop(failSucc, header), "R10", core.FuncName(fn)+"/"+par.Name()+"/failed-candidate-continues", p.Pos(call.Pos()), "the false outcome of "+par.Name()+" returns to the loop header", "when "+par.Name()+" rejects a candidate the loop over the candidates is left: later candidates in the same input are never tried")
			}
		}
	}
	r.Count("candidate_loops", n)
	r.Require("candidate_loops", n, 1)
}

// ---------------------------------------------------------------------------------------------- R11

func c07R11(p *core.Program, r *core.Report) {
	type lookup struct {
		cs     core.CallSite
		text   ssa.Value // the XText whose Native() is searched
		level  int64
		parent ssa.Value
	}
	textOf := func(v ssa.Value) ssa.Value {
		if c, ok := v.(*ssa.Call); ok {
			if o := core.CalleeObj(&c.Call); o != nil && o.Name() == "Native" && len(c.Call.Args) == 1 {
				return c.Call.Args[0]
			}
		}
		return nil
	}
	n := 0
	for _, fn := range p.ModuleFunctions() {
		if core.RelPkg(core.FuncPkgPath(fn)) != "flows/routers/cases" {
			continue
		}
		var ls []lookup
		for _, cs := range core.Calls(fn, false) {
			o := core.CalleeObj(cs.Common())
			if o == nil || o.Name() != "FindLocationsFuzzy" {
				continue
			}
			a := cs.Common().Args
			if len(a) < 4 {
				continue
			}
			lvl, ok := core.ConstInt(a[len(a)-2])
			if !ok {
				continue
			}
			ls = append(ls, lookup{cs, textOf(a[len(a)-3]), lvl, a[len(a)-1]})
		}
		for _, l := range ls {
			if !core.IsNilConst(l.parent) {
				continue
			}
			var above []ssa.Value
			for _, m := range ls {
				if m.level == l.level-1 && m.text != nil {
					above = append(above, m.text)
				}
			}
			if len(above) == 0 {
				continue
			}
			n++
			okGuard, tested := false, ""
			for _, ce := range core.ControllingConds(l.cs.Instr.Block()) {
				c, ok := ce.Cond.(*ssa.Call)
				if !ok || !ce.Taken {
					continue
				}
				if o := core.CalleeObj(&c.Call); o == nil || o.Name() != "Empty" || len(c.Call.Args) != 1 {
					continue
				}
				tested = canon(c.Call.Args[0])
				for _, t := range above {
					if t == c.Call.Args[0] {
						okGuard = true
					}
				}
			}
			r.Check(okGuard, "R11", fmt.Sprintf("%s/parentless-lookup-level-%d", fn.Name(), l.level), p.Pos(l.cs.Pos()), "made only when the text naming the level above is empty", "the search without a parent at level "+fmt.Sprint(l.level)+" is not decided by the emptiness of the text that names the level above (tested: "+tested+"): the fallback is skipped for inputs that do not name the parent, or taken although the named parent did not match")
		}
	}
	r.Count("parentless_fallback_lookups", n)
	r.Require("parentless_fallback_lookups", n, 1)
}

// condsOf: the conditions a block depends on, for a report.
func condsOf(b *ssa.BasicBlock) string {
	var out []string
	for _, ce := range core.MayConds(b) {
		out = append(out, canonShort(ce.Cond))
	}
	if len(out) == 0 {
		return "nothing"
	}
	return strings.Join(out, ", ")
}

// ---------------------------------------------------------------------------------------------- R12

func c07R12(p *core.Program, r *core.Report) {
	n := 0
	for _, fn := range p.ModuleFunctions() {
		rel := core.RelPkg(core.FuncPkgPath(fn))
		if (rel != "flows/routers" && rel != "flows/routers/cases") || p.IsTestFile(fn.Pos()) || fn.Synthetic != "" {
			continue
		}
		ord := 0
		core.EachInstr(fn, false, func(_ *ssa.Function, in ssa.Instruction) {
			v, ok := in.(ssa.Value)
			if !ok {
				return
			}
			switch in.(type) {
			case *ssa.Slice, *ssa.MakeSlice, *ssa.MakeMap:
			default:
				return
			}
			n++
			used := false
			if refs := v.Referrers(); refs != nil {
				for _, ref := range *refs {
					if _, isDbg := ref.(*ssa.DebugRef); !isDbg {
						used = true
					}
				}
			}
			if used {
				return
			}
			ord++
			r.Bad("R12", fmt.Sprintf("%s/built-but-never-read#%d", core.FuncName(fn), ord), p.Pos(in.Pos()), "a "+core.ShortType(v.Type())+" is built here and never read: the variable it was assigned to is not the one the code after it uses")
		})
	}
	r.Count("router_built_values", n)
	r.Require("router_built_values", n, 10)
}
