package rules

import (
	"go/ast"
	"go/token"
	"go/types"

	"golang.org/x/tools/go/cfg"

	"verif/checker/core"
)

// pairedVarAnalysis: a must-dataflow over the AST control-flow graph (go/cfg) of the engine loop function for the
// fact paired(runVar, stepVar) = "stepVar holds nil or a step of the run held by runVar".
//   - entry: the function's own (run, step) parameters are paired (its callers are checked by R4 on their side)
//   - `stepVar, ... = f(..., runVar, ...)` with f = visitNode, or `stepVar, ... = runVar.PathLocation()` /
//     `stepVar = runVar.CreateStep(..)` establishes the pair
//   - any other assignment to runVar or stepVar destroys it
//
// It returns, for every call failRun(_, runVar, stepVar, _) / pickNodeExit / runVar.LogEvent(stepVar, _) whose
// arguments are plain identifiers, whether the pair holds there (keyed by call position).
func pairedVarAnalysis(p *core.Program, r *core.Report, e *engineFns) (map[token.Pos]bool, int) {
	out := map[token.Pos]bool{}
	pk := p.Pkg("flows/engine")
	if pk == nil {
		return out, 0
	}
	var fd *ast.FuncDecl
	for _, f := range pk.Syntax {
		for _, d := range f.Decls {
			if x, ok := d.(*ast.FuncDecl); ok && x.Body != nil && x.Pos() == e.loop.Pos() || (ok && x.Name.Pos() == e.loop.Pos()) {
				fd = x
			}
		}
	}
	if fd == nil {
		r.Errorf("AST of the engine loop function not found")
		return out, 0
	}
	info := pk.TypesInfo
	type pair struct{ run, step types.Object }
	type facts map[pair]bool
	clone := func(f facts) facts {
		n := facts{}
		for k := range f {
			n[k] = true
		}
		return n
	}
	meet := func(a, b facts) facts {
		n := facts{}
		for k := range a {
			if b[k] {
				n[k] = true
			}
		}
		return n
	}
	equal := func(a, b facts) bool {
		if len(a) != len(b) {
			return false
		}
		for k := range a {
			if !b[k] {
				return false
			}
		}
		return true
	}
	isRunType := func(o types.Object) bool {
		return o != nil && core.ShortType(o.Type()) == "flows.Run"
	}
	isStepType := func(o types.Object) bool {
		return o != nil && core.ShortType(o.Type()) == "flows.Step"
	}
	objOf := func(e ast.Expr) types.Object {
		id, ok := ast.Unparen(e).(*ast.Ident)
		if !ok {
			return nil
		}
		if o := info.Defs[id]; o != nil {
			return o
		}
		return info.Uses[id]
	}
	// entry facts: (run param, step param)
	entry := facts{}
	var runP, stepP types.Object
	for _, fld := range fd.Type.Params.List {
		for _, nm := range fld.Names {
			o := info.Defs[nm]
			if isRunType(o) && runP == nil {
				runP = o
			}
			if isStepType(o) && stepP == nil {
				stepP = o
			}
		}
	}
	if runP != nil && stepP != nil {
		entry[pair{runP, stepP}] = true
	}
	sites := 0
	var transferNode func(n ast.Node, f facts, record bool) facts
	checkCall := func(call *ast.CallExpr, f facts, record bool) {
		if !record {
			return
		}
		var runO, stepO types.Object
		var stepExpr ast.Expr
		switch fun := call.Fun.(type) {
		case *ast.Ident:
			if fun.Name == "failRun" && len(call.Args) == 4 {
				runO, stepO, stepExpr = objOf(call.Args[1]), objOf(call.Args[2]), call.Args[2]
			}
		case *ast.SelectorExpr:
			if fun.Sel.Name == "LogEvent" && len(call.Args) == 2 {
				runO, stepO, stepExpr = objOf(fun.X), objOf(call.Args[0]), call.Args[0]
			}
			if fun.Sel.Name == "pickNodeExit" && len(call.Args) >= 4 {
				runO, stepO, stepExpr = objOf(call.Args[1]), objOf(call.Args[3]), call.Args[3]
			}
		}
		if stepExpr == nil {
			return
		}
		sites++
		if id, ok := ast.Unparen(stepExpr).(*ast.Ident); ok && id.Name == "nil" {
			out[call.Lparen] = true
			out[call.Pos()] = true
			return
		}
		ok := runO != nil && stepO != nil && f[pair{runO, stepO}]
		out[call.Lparen] = ok
		out[call.Pos()] = ok
	}
	transferNode = func(n ast.Node, f facts, record bool) facts {
		// calls inside the node are judged with the facts before the node's own assignment takes effect
		ast.Inspect(n, func(x ast.Node) bool {
			if _, isLit := x.(*ast.FuncLit); isLit {
				return false
			}
			if c, ok := x.(*ast.CallExpr); ok {
				checkCall(c, f, record)
			}
			return true
		})
		as, ok := n.(*ast.AssignStmt)
		if !ok {
			return f
		}
		nf := clone(f)
		var assigned []types.Object
		for _, l := range as.Lhs {
			if o := objOf(l); o != nil {
				assigned = append(assigned, o)
			}
		}
		for _, o := range assigned {
			for k := range nf {
				if k.run == o || k.step == o {
					delete(nf, k)
				}
			}
		}
		// gen
		if len(as.Rhs) == 1 && len(as.Lhs) >= 1 {
			if call, ok := as.Rhs[0].(*ast.CallExpr); ok {
				stepO := objOf(as.Lhs[0])
				if isStepType(stepO) {
					switch fun := call.Fun.(type) {
					case *ast.SelectorExpr:
						if fun.Sel.Name == "PathLocation" || fun.Sel.Name == "CreateStep" {
							if ro := objOf(fun.X); isRunType(ro) {
								nf[pair{ro, stepO}] = true
							}
						}
						if fun.Sel.Name == "visitNode" {
							for _, a := range call.Args {
								if ro := objOf(a); isRunType(ro) {
									nf[pair{ro, stepO}] = true
								}
							}
						}
					}
				}
			}
		}
		return nf
	}
	g := cfg.New(fd.Body, func(*ast.CallExpr) bool { return true })
	in := map[*cfg.Block]facts{}
	outF := map[*cfg.Block]facts{}
	reached := map[*cfg.Block]bool{}
	if len(g.Blocks) == 0 {
		return out, 0
	}
	preds := map[*cfg.Block][]*cfg.Block{}
	for _, b := range g.Blocks {
		for _, s := range b.Succs {
			preds[s] = append(preds[s], b)
		}
	}
	in[g.Blocks[0]] = entry
	reached[g.Blocks[0]] = true
	for changed, iter := true, 0; changed && iter < 200; iter++ {
		changed = false
		for _, b := range g.Blocks {
			if b != g.Blocks[0] {
				var acc facts
				for _, pb := range preds[b] {
					if !reached[pb] {
						continue
					}
					if acc == nil {
						acc = clone(outF[pb])
					} else {
						acc = meet(acc, outF[pb])
					}
				}
				if acc == nil {
					continue
				}
				if !reached[b] || !equal(in[b], acc) {
					in[b] = acc
					reached[b] = true
					changed = true
				}
			}
			cur := in[b]
			for _, n := range b.Nodes {
				cur = transferNode(n, cur, false)
			}
			if outF[b] == nil || !equal(outF[b], cur) {
				outF[b] = cur
				changed = true
			}
		}
	}
	// recording pass
	for _, b := range g.Blocks {
		if !reached[b] {
			continue
		}
		cur := in[b]
		for _, n := range b.Nodes {
			cur = transferNode(n, cur, true)
		}
	}
	return out, sites
}
