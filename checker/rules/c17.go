package rules

import (
	"fmt"
	"go/ast"
	"go/constant"
	"go/token"
	"go/types"
	"os"
	"path/filepath"
	"regexp"
	"regexp/syntax"
	"sort"
	"strings"
	"unicode"

	"golang.org/x/tools/go/ssa"

	"verif/checker/core"
)

func init() { register("C17", checkC17) }

const c17Pkg = "flows/definition/legacy/expressions"

// ---------------------------------------------------------------------------------------------- grammar

type g4RuleAlt struct {
	label string
	body  string
	ops   []string // operator tokens: `op = (A | B)` or the tokens standing next to `expression`
	refs  []string // rule references in the body (lower-case identifiers)
	toks  []string // all token references in the body
}

type g4Grammar struct {
	toks  map[string]string // token name -> literal (only tokens defined by one literal)
	rules map[string][]g4RuleAlt
	order []string
}

func parseG4(path string) (*g4Grammar, error) {
	b, err := os.ReadFile(path)
	if err != nil {
		return nil, err
	}
	src := regexp.MustCompile(`(?m)//.*$`).ReplaceAllString(string(b), "")
	g := &g4Grammar{toks: map[string]string{}, rules: map[string][]g4RuleAlt{}}
	for _, m := range regexp.MustCompile(`(?m)^([A-Z_]+):\s*'((?:[^'\\]|\\.)+)'\s*;`).FindAllStringSubmatch(src, -1) {
		g.toks[m[1]] = strings.ReplaceAll(m[2], `\\`, `\`)
	}
	for _, m := range regexp.MustCompile(`(?ms)^([a-z][A-Za-z]*)\s*:(.*?);\s*$`).FindAllStringSubmatch(src, -1) {
		name, body := m[1], m[2]
		// split alternatives at top-level '|'
		depth := 0
		var parts []string
		last := 0
		for i := 0; i < len(body); i++ {
			switch body[i] {
			case '(':
				depth++
			case ')':
				depth--
			case '|':
				if depth == 0 {
					parts = append(parts, body[last:i])
					last = i + 1
				}
			}
		}
		parts = append(parts, body[last:])
		for _, pt := range parts {
			alt := g4RuleAlt{}
			if i := strings.Index(pt, "#"); i >= 0 {
				alt.label = strings.TrimSpace(pt[i+1:])
				pt = pt[:i]
			}
			alt.body = strings.Join(strings.Fields(pt), " ")
			if mm := regexp.MustCompile(`op\s*=\s*\(([^)]*)\)`).FindStringSubmatch(alt.body); mm != nil {
				for _, t := range strings.Split(mm[1], "|") {
					alt.ops = append(alt.ops, strings.TrimSpace(t))
				}
			}
			for _, w := range regexp.MustCompile(`[A-Za-z_]+`).FindAllString(alt.body, -1) {
				if w == "op" {
					continue
				}
				if w[0] >= 'a' && w[0] <= 'z' {
					alt.refs = append(alt.refs, w)
				} else {
					alt.toks = append(alt.toks, w)
				}
			}
			if alt.ops == nil {
				nexp := 0
				for _, rf := range alt.refs {
					if rf == "expression" {
						nexp++
					}
				}
				if nexp > 0 && (len(alt.refs) == nexp) {
					for _, t := range alt.toks {
						if t != "LPAREN" && t != "RPAREN" && t != "LBRACK" && t != "RBRACK" && t != "ARROW" && t != "COMMA" {
							alt.ops = append(alt.ops, t)
						}
					}
				}
			}
			g.rules[name] = append(g.rules[name], alt)
		}
		g.order = append(g.order, name)
	}
	if len(g.rules["expression"]) == 0 {
		return nil, fmt.Errorf("%s: no `expression` rule found", path)
	}
	return g, nil
}

func (g *g4Grammar) alt(rule, label string) *g4RuleAlt {
	for i := range g.rules[rule] {
		if strings.EqualFold(g.rules[rule][i].label, label) {
			return &g.rules[rule][i]
		}
	}
	return nil
}

// operatorLevels: the operator alternatives of `expression` in order (ANTLR gives earlier alternatives higher precedence).
func (g *g4Grammar) operatorLevels() [][]string {
	var out [][]string
	for _, a := range g.rules["expression"] {
		if len(a.ops) > 0 {
			ops := append([]string{}, a.ops...)
			sort.Strings(ops)
			// a unary alternative is marked so that `MINUS expression` differs from binary MINUS
			nexp := 0
			for _, rf := range a.refs {
				if rf == "expression" {
					nexp++
				}
			}
			if nexp == 1 {
				ops = append([]string{"unary"}, ops...)
			}
			out = append(out, ops)
		}
	}
	return out
}

// ---------------------------------------------------------------------------------------------- the check

type c17 struct {
	evDepth      int
	parsedParams map[*ssa.Parameter]bool // parameters of boolean helpers that are handed excellent.Parse(value)
	parentParams map[*ssa.Parameter]bool // parameters of boolean helpers that are handed ctx.GetParent()
	exactText    bool                    // R5: a change of case or trimming is an edit of the text (R1 reads through it: the grouping is the same)
	p            *core.Program
	r            *core.Report
	ev           *tEval
	pkg          *ssa.Package
	g1           *g4Grammar
	g3           *g4Grammar

	closedNodeTypes map[string]bool // excellent.<Node> types that print as one atom
	identPreds      map[*ssa.Function]string
	closedParents   map[string]string // gen.<X>Context -> reason
	openEntries     []string
	callHole        *tHole
}

func checkC17(p *core.Program, r *core.Report) {
	r.Rule("R1", "migrated text keeps its grouping: every string template of the migration (the 63 callMigrators entries, the parameter migrators, the legacy visitor's formats, the context-reference mappings, wrapRawExpression) is tokenised as Excellent3 text; a substituted operand that stands next to an operator must be a single atom, be parenthesized by a verified conditional parenthesizer, or be the grammar's own operand of that operator; a migrated function call whose text has an operator at bracket depth 0 is only returned bare to parents that place it between brackets or commas")
	r.Rule("R2", "operator tables: the operator alternatives of Excellent1.g4 and Excellent3.g4 list the same token groups in the same precedence order; each operator method of the legacy visitor emits, under each token test, the Excellent3 literal of that token; tokens passed through textually have the same literal in both grammars")
	r.Rule("R3", "no error of the migration is dropped: a call in the package whose error result is discarded while its value is used must have a callee that always returns a nil error")
	r.Rule("R4", "text literals built by hand escape both meta-characters of the Excellent3 literal reader (the quote and the backslash); strconv.Quote is accepted as is")
	r.Rule("R6", "the migration is a function of the template and its options: outside init, no function of the expressions package writes a package-level variable — by a store, a map update, or a mutating method of package sync (Map.Store/LoadOrStore/Swap/Delete, Once.Do excepted) called on it; a cache that outlives one call makes the output depend on what was migrated before")
	r.Rule("R7", "the operand types the migration infers are the types the functions return: every entry name -> type of functionReturnTypes (which decides whether `+`/`-` next to a call becomes arithmetic or datetime arithmetic) names a function of the excellent function table whose implementation returns that type on every non-error path, or is listed")
	c17R7(p, r)
	r.Rule("R8", "a template migrator takes exactly the parameters its template takes: where the package formats a non-constant template with the parameters of the legacy call (fmt.Sprintf(template, params...)), the call is reached only on the equal edge of a comparison of len(params) with a count computed from that template — with fewer parameters fmt writes %!s(BADINDEX) into the expression, with more %!(EXTRA …), and neither parses (the caller's fallback for a known function with the wrong parameters, rendering the call unchanged, is only taken on an error)")
	c17R8(p, r)
	r.Rule("R5", "text outside expressions is copied: the template scanner is switched to unescapeBody=false, BODY tokens are written unchanged, and an expression that fails to migrate is re-emitted between the delimiters the scanner stripped")
	r.Assumption("that each renamed or re-shaped function computes what the legacy function computed is not decided (no specification of the legacy functions is in the tree); argument order inside explicit-index templates is not decided")

	c := &c17{p: p, r: r}
	c.pkg = p.SSAPkg(c17Pkg)
	if c.pkg == nil {
		r.Errorf("package %s not loaded", c17Pkg)
		return
	}
	var err error
	if c.g1, err = parseG4(filepath.Join(p.Repo, "antlr", "Excellent1.g4")); err != nil {
		r.Errorf("%v", err)
		return
	}
	if c.g3, err = parseG4(filepath.Join(p.Repo, "antlr", "Excellent3.g4")); err != nil {
		r.Errorf("%v", err)
		return
	}
	c.ev = &tEval{p: p, pkgPath: c.pkg.Pkg.Path(), parenthesizers: map[*ssa.Function]bool{}}
	c.ev.hook = c.hook
	c.callHole = c.ev.namedHole("call", "migrateFunctionCall", -1, false, nil)

	c.grammarTables()
	c.closedNodes()
	c.identifierPredicates()
	c.parenthesizers()
	c.contextMappings()
	c.visitorMethods()
	c.callMigratorTable()
	c.functionCallClosed()
	c.topLevelWrapper()
	c.droppedErrors()
	c.textLiterals()
	c.bodyCopied()
	c.noMutableState()

	if len(c.ev.notes) > 0 {
		r.Tables["evaluator_notes"] = c.ev.notes
	}
}

func (c *c17) fn(name string) *ssa.Function {
	f := c.p.Func(c17Pkg, name)
	if f == nil {
		c.r.Errorf("anchor %s.%s not found", c17Pkg, name)
	}
	return f
}

func (c *c17) pos(v interface{ Pos() token.Pos }) string { return c.p.Pos(v.Pos()) }

// ---------------------------------------------------------------------------------------------- hooks

func stripIface(v ssa.Value) ssa.Value {
	for {
		switch x := v.(type) {
		case *ssa.MakeInterface:
			v = x.X
		case *ssa.ChangeInterface:
			v = x.X
		case *ssa.ChangeType:
			v = x.X
		default:
			return v
		}
	}
}

// genCtxMethod: a method call on an antlr generated Excellent1 context (or antlr runtime interface).
func genCtxMethod(c *ssa.Call) (string, ssa.Value, bool) {
	com := &c.Call
	if com.IsInvoke() {
		return com.Method.Name(), com.Value, true
	}
	f := com.StaticCallee()
	if f == nil || f.Signature.Recv() == nil || len(com.Args) == 0 {
		return "", nil, false
	}
	pk := core.FuncPkgPath(f)
	if strings.HasSuffix(pk, "antlr/gen/excellent1") || strings.Contains(pk, "antlr4-go/antlr") {
		return f.Name(), com.Args[0], true
	}
	return "", nil, false
}

func (c *c17) hook(ev *tEval, fr *tFrame, call *ssa.Call) (aval, bool) {
	com := &call.Call
	if c.exactText {
		if o := core.CalleeObj(com); o != nil {
			switch core.ObjName(o) {
			case "strings.ToLower", "strings.ToUpper", "strings.TrimSpace":
				return ev.derive(ev.toStr(ev.val(fr, com.Args[0]), com.Args[0]), "edited", call, nil), true
			}
		}
	}
	if f := com.StaticCallee(); f != nil && core.FuncPkgPath(f) == ev.pkgPath {
		switch {
		case f.Name() == "Visit" && f.Signature.Recv() != nil:
			arg := stripIface(com.Args[1])
			if inner, ok := arg.(*ssa.Call); ok {
				if m, _, ok := genCtxMethod(inner); ok {
					switch m {
					case "Expression":
						idx := 0
						if len(inner.Call.Args) > 1 {
							if k, ok := core.ConstInt(inner.Call.Args[1]); ok {
								idx = int(k)
							} else {
								idx = -1
							}
						}
						return holeStr(ev.namedHole("child", fr.fn.Name(), idx, false, call)), true
					case "Parameters":
						return &aArr{known: map[int]aval{}, dynamic: true, summary: holeStr(ev.namedHole("param", "params", -1, false, call))}, true
					}
				}
			}
			return holeStr(ev.namedHole("child", fr.fn.Name(), -1, false, call)), true
		case f.Name() == "MigrateContextReference":
			return holeStr(ev.namedHole("ctxref", "MigrateContextReference", -1, true, call)), true
		case f.Name() == "migrateFunctionCall":
			return &aTuple{elems: []aval{holeStr(c.callHole), &aUnknown{call}}}, true
		}
		return nil, false
	}
	if m, recv, ok := genCtxMethod(call); ok && m == "GetText" {
		if inner, ok := stripIface(recv).(*ssa.Call); ok {
			if im, _, ok := genCtxMethod(inner); ok {
				switch im {
				case "GetOp":
					return holeStr(ev.namedHole("optoken", fr.fn.Name(), -1, false, call)), true
				case "Fnname":
					return holeStr(ev.namedHole("name", "fnname", -1, true, call)), true
				}
			}
			return holeStr(ev.namedHole("token", fr.fn.Name(), -1, true, call)), true
		}
		// the text of the context itself: the visitor methods calling it are single-token alternatives (checked in visitorMethods)
		return holeStr(ev.namedHole("token", fr.fn.Name(), -1, true, call)), true
	}
	return nil, false
}

// ---------------------------------------------------------------------------------------------- R2 grammar tables

func (c *c17) grammarTables() {
	l1, l3 := c.g1.operatorLevels(), c.g3.operatorLevels()
	s := func(l [][]string) string {
		var parts []string
		for _, x := range l {
			parts = append(parts, strings.Join(x, "|"))
		}
		return strings.Join(parts, " > ")
	}
	c.r.Tables["excellent1_operator_levels"] = s(l1)
	c.r.Tables["excellent3_operator_levels"] = s(l3)
	c.r.Check(s(l1) == s(l3) && len(l1) >= 7, "R2", "grammars/operator-precedence-order", "antlr/Excellent1.g4",
		"both grammars order their operator alternatives "+s(l1), "Excellent1 orders "+s(l1)+" but Excellent3 orders "+s(l3)+": textual re-emission regroups")
	c.r.Count("operator_levels", len(l1))
	// tokens with the same name: literals equal except those the visitor translates (checked per method)
	for _, lv := range l1 {
		for _, t := range lv {
			if t == "unary" {
				continue
			}
			if _, ok := c.g3.toks[t]; !ok {
				c.r.Bad("R2", "grammars/token "+t, "antlr/Excellent3.g4", "operator token "+t+" of Excellent1 has no Excellent3 counterpart")
			}
		}
	}
}

// ---------------------------------------------------------------------------------------------- closed Excellent3 nodes

// closedNodes: node types built by the Excellent3 visitor for alternatives of `atom` and for single-token alternatives.
func (c *c17) closedNodes() {
	c.closedNodeTypes = map[string]bool{}
	labels := []string{}
	for _, a := range c.g3.rules["atom"] {
		labels = append(labels, a.label)
	}
	for _, a := range c.g3.rules["expression"] {
		if len(a.refs) == 0 && len(a.toks) > 0 {
			labels = append(labels, a.label)
		}
	}
	for _, lb := range labels {
		m := c.p.Method("excellent", "visitor", "Visit"+strings.ToUpper(lb[:1])+lb[1:])
		if m == nil {
			c.r.Errorf("excellent.visitor has no method for grammar alternative %s", lb)
			continue
		}
		for _, b := range m.Blocks {
			for _, in := range b.Instrs {
				if al, ok := in.(*ssa.Alloc); ok && al.Heap {
					if n, ok := al.Type().(*types.Pointer).Elem().(*types.Named); ok && core.RelPkg(n.Obj().Pkg().Path()) == "excellent" {
						c.closedNodeTypes[n.Obj().Name()] = true
					}
				}
			}
		}
		// the node may be built by a constructor of the package whose result the method returns
		for k := range c17ReturnedNodes(m, 0) {
			c.closedNodeTypes[k] = true
		}
	}
	c.r.Tables["closed_excellent3_nodes"] = core.SortedKeys(c.closedNodeTypes)
	c.r.Require("closed_excellent3_nodes", len(c.closedNodeTypes), 9)
}

// ---------------------------------------------------------------------------------------------- identifier predicates

// globalRegexp returns the constant pattern a package-level *regexp.Regexp is compiled from.
func (c *c17) globalRegexp(g *ssa.Global) (string, bool) {
	for _, m := range c.pkg.Members {
		f, ok := m.(*ssa.Function)
		if !ok || !strings.HasPrefix(f.Name(), "init") {
			continue
		}
		for _, b := range f.Blocks {
			for _, in := range b.Instrs {
				st, ok := in.(*ssa.Store)
				if !ok || st.Addr != g {
					continue
				}
				if call, ok := st.Val.(*ssa.Call); ok {
					if o := core.CalleeObj(&call.Call); o != nil && core.ObjName(o) == "regexp.MustCompile" {
						return core.ConstString(call.Call.Args[0])
					}
				}
			}
		}
	}
	return "", false
}

// identifierOnly: the pattern is anchored at both ends and matches only letters, digits, '_' and '.'.
func identifierOnly(pat string) (bool, string) {
	re, err := syntax.Parse(pat, syntax.Perl)
	if err != nil {
		return false, err.Error()
	}
	re = re.Simplify()
	if re.Op != syntax.OpConcat || len(re.Sub) < 2 || re.Sub[0].Op != syntax.OpBeginText || re.Sub[len(re.Sub)-1].Op != syntax.OpEndText {
		return false, "not anchored with ^ and $"
	}
	okRune := func(r rune) bool { return unicode.IsLetter(r) || unicode.IsNumber(r) || r == '_' || r == '.' }
	var walk func(x *syntax.Regexp) string
	walk = func(x *syntax.Regexp) string {
		switch x.Op {
		case syntax.OpLiteral:
			for _, r := range x.Rune {
				if !okRune(r) {
					return fmt.Sprintf("literal %q", r)
				}
			}
		case syntax.OpCharClass:
			for i := 0; i+1 < len(x.Rune); i += 2 {
				for r := x.Rune[i]; r <= x.Rune[i+1]; r++ {
					if !okRune(r) {
						return fmt.Sprintf("class admits %q", r)
					}
				}
			}
		case syntax.OpAnyChar, syntax.OpAnyCharNotNL:
			return "admits any character"
		case syntax.OpBeginText, syntax.OpEndText, syntax.OpEmptyMatch:
		case syntax.OpConcat, syntax.OpAlternate, syntax.OpStar, syntax.OpPlus, syntax.OpQuest, syntax.OpRepeat, syntax.OpCapture:
			for _, s := range x.Sub {
				if w := walk(s); w != "" {
					return w
				}
			}
		default:
			return "unsupported construct " + x.Op.String()
		}
		return ""
	}
	if w := walk(re); w != "" {
		return false, w
	}
	return true, ""
}

// identifierPredicates: bool functions of one string that return true only under a full match of an identifier-only regexp.
func (c *c17) identifierPredicates() {
	c.identPreds = map[*ssa.Function]string{}
	for _, m := range c.pkg.Members {
		f, ok := m.(*ssa.Function)
		if !ok || len(f.Params) != 1 || f.Signature.Results().Len() != 1 || !isStringType(f.Params[0].Type()) {
			continue
		}
		if b, ok := f.Signature.Results().At(0).Type().Underlying().(*types.Basic); !ok || b.Kind() != types.Bool {
			continue
		}
		good, why := true, ""
		nTrue := 0
		for _, ret := range core.Returns(f) {
			cst, isConst := ret.Results[0].(*ssa.Const)
			if isConst && cst.Value != nil && cst.Value.String() == "false" {
				continue
			}
			if !isConst {
				good, why = false, "returns a computed value at "+c.pos(ret)
				break
			}
			nTrue++
			found := false
			for _, ce := range core.ControllingConds(ret.Block()) {
				call, ok := ce.Cond.(*ssa.Call)
				taken := ce.Taken
				if un, isNot := ce.Cond.(*ssa.UnOp); isNot && un.Op == token.NOT {
					call, ok = un.X.(*ssa.Call)
					taken = !taken
				}
				if !ok || !taken {
					continue
				}
				o := core.CalleeObj(&call.Call)
				if o == nil || core.ObjName(o) != "regexp.Regexp.MatchString" || call.Call.Args[1] != f.Params[0] {
					continue
				}
				ld, ok := call.Call.Args[0].(*ssa.UnOp)
				if !ok {
					continue
				}
				g, ok := ld.X.(*ssa.Global)
				if !ok {
					continue
				}
				pat, ok := c.globalRegexp(g)
				if !ok {
					continue
				}
				if idok, w := identifierOnly(pat); idok {
					found = true
					why = g.Name() + " = " + pat
				} else {
					why = g.Name() + " " + w
				}
			}
			if !found {
				good = false
				if why == "" {
					why = "a `return true` at " + c.pos(ret) + " is not dominated by a full match of an identifier-only regexp"
				}
				break
			}
		}
		if good && nTrue > 0 {
			c.identPreds[f] = why
		}
	}
	names := []string{}
	for f, w := range c.identPreds {
		names = append(names, f.Name()+" ("+w+")")
	}
	sort.Strings(names)
	c.r.Tables["identifier_predicates"] = names
}

// ---------------------------------------------------------------------------------------------- evidence

type evKind int

const (
	evAtomic evKind = iota // the value is a single atom: parsed as a closed node, or matched an identifier predicate
	evParent               // the parse-tree parent places its child between brackets or commas
)

func (c *c17) condEvidence(kind evKind, cond ssa.Value, taken bool, val ssa.Value) (bool, string) {
	if un, ok := cond.(*ssa.UnOp); ok && un.Op == token.NOT {
		return c.condEvidence(kind, un.X, !taken, val)
	}
	if !taken {
		return false, ""
	}
	switch x := cond.(type) {
	case *ssa.Extract:
		ta, ok := x.Tuple.(*ssa.TypeAssert)
		if !ok || x.Index != 1 {
			return false, ""
		}
		pt, ok := ta.AssertedType.(*types.Pointer)
		if !ok {
			return false, ""
		}
		n, ok := pt.Elem().(*types.Named)
		if !ok {
			return false, ""
		}
		switch kind {
		case evAtomic:
			if core.RelPkg(n.Obj().Pkg().Path()) != "excellent" {
				return false, ""
			}
			if par, isPar := stripIface(ta.X).(*ssa.Parameter); isPar && c.parsedParams[par] && stripIface(val) == ssa.Value(par) {
				// inside a helper that was handed the parse of the value: its parameter is that parse
			} else if !c.isParseOf(ta.X, val) {
				return false, ""
			}
			if !c.closedNodeTypes[n.Obj().Name()] {
				return false, "parsed as " + n.Obj().Name() + " which is not an atom"
			}
			return true, "parsed as " + n.Obj().Name()
		case evParent:
			if par, isPar := stripIface(ta.X).(*ssa.Parameter); isPar && c.parentParams[par] {
				// inside a helper that was handed the parse-tree parent: its parameter is that parent
			} else if !isParentOfCtx(ta.X) {
				return false, ""
			}
			if why, ok := c.closedParents[n.Obj().Name()]; ok {
				return true, "parent is " + n.Obj().Name() + " (" + why + ")"
			}
			return false, "parent " + n.Obj().Name() + " puts its child next to an operator"
		}
	case *ssa.Call:
		f := x.Call.StaticCallee()
		if f == nil {
			return false, ""
		}
		if why, ok := c.identPreds[f]; ok && kind == evAtomic && len(x.Call.Args) == 1 && stripIface(x.Call.Args[0]) == stripIface(val) {
			return true, f.Name() + ": " + why
		}
		// a boolean helper of the package that is handed the value (or, for the parent test, the parse-tree parent):
		// every `return true` of the helper carries the evidence about the parameter the value was passed for
		if f.Blocks != nil && core.FuncPkgPath(f) == c.pkg.Pkg.Path() && c.evDepth < 2 && f.Signature.Results().Len() == 1 {
			if b, isB := f.Signature.Results().At(0).Type().Underlying().(*types.Basic); isB && b.Kind() == types.Bool {
				for i, a := range x.Call.Args {
					if i >= len(f.Params) {
						continue
					}
					switch {
					case kind == evParent:
						// the type test on the parent extracted into a predicate: the helper is handed ctx.GetParent()
						if !isParentOfCtx(a) {
							continue
						}
						if c.parentParams == nil {
							c.parentParams = map[*ssa.Parameter]bool{}
						}
						c.parentParams[f.Params[i]] = true
					case c.isParseOf(a, val):
						// the helper is handed the parse of the value instead of the value
						if c.parsedParams == nil {
							c.parsedParams = map[*ssa.Parameter]bool{}
						}
						c.parsedParams[f.Params[i]] = true
					case stripIface(a) != stripIface(val):
						continue
					}
					c.evDepth++
					all, sawTrue := true, false
					var whys []string
					for _, ret := range core.Returns(f) {
						var trueBlocks []*ssa.BasicBlock
						switch rv := ret.Results[0].(type) {
						case *ssa.Const:
							if rv.Value != nil && rv.Value.String() == "true" {
								trueBlocks = append(trueBlocks, ret.Block())
							}
						case *ssa.Phi:
							for k, e := range rv.Edges {
								if cst, isC := e.(*ssa.Const); isC && cst.Value != nil {
									if cst.Value.String() == "true" {
										trueBlocks = append(trueBlocks, rv.Block().Preds[k])
									}
									continue
								}
								all = false
							}
						default:
							all = false
						}
						for _, tb := range trueBlocks {
							sawTrue = true
							ok, why := c.blockEvidence(kind, tb, f.Params[i], map[*ssa.BasicBlock]bool{})
							if !ok {
								all = false
							}
							whys = append(whys, why)
						}
					}
					c.evDepth--
					if all && sawTrue {
						sort.Strings(whys)
						return true, f.Name() + ": " + strings.Join(uniq(whys), "; ")
					}
				}
			}
		}
	}
	return false, ""
}

// isParentOfCtx: v is the result of GetParent() of a generated parse-tree context.
func isParentOfCtx(v ssa.Value) bool {
	pc, ok := stripIface(v).(*ssa.Call)
	if !ok {
		return false
	}
	m, _, ok := genCtxMethod(pc)
	return ok && m == "GetParent"
}

// blockEvidence: every way into block b carries the evidence.
func (c *c17) blockEvidence(kind evKind, b *ssa.BasicBlock, val ssa.Value, seen map[*ssa.BasicBlock]bool) (bool, string) {
	if seen[b] {
		return false, ""
	}
	seen[b] = true
	for _, ce := range core.ControllingConds(b) {
		if ok, why := c.condEvidence(kind, ce.Cond, ce.Taken, val); ok {
			return true, why
		}
	}
	if len(b.Preds) == 0 {
		return false, "reached unconditionally"
	}
	var whys []string
	for _, pr := range b.Preds {
		ok, why := c.edgeEvidence(kind, pr, b, val, seen)
		if !ok {
			if why == "" {
				why = fmt.Sprintf("the edge from block %d carries no evidence", pr.Index)
			}
			return false, why
		}
		whys = append(whys, why)
	}
	sort.Strings(whys)
	return true, strings.Join(uniq(whys), "; ")
}

func uniq(s []string) []string {
	var out []string
	for i, x := range s {
		if i == 0 || x != s[i-1] {
			out = append(out, x)
		}
	}
	return out
}

func (c *c17) edgeEvidence(kind evKind, from, to *ssa.BasicBlock, val ssa.Value, seen map[*ssa.BasicBlock]bool) (bool, string) {
	if iff, ok := from.Instrs[len(from.Instrs)-1].(*ssa.If); ok && from.Succs[0] != from.Succs[1] {
		if ok, why := c.condEvidence(kind, iff.Cond, from.Succs[0] == to, val); ok {
			return true, why
		} else if why != "" {
			return false, why
		}
	}
	return c.blockEvidence(kind, from, val, seen)
}

// altEvidence: some point the alternative flowed through carries the evidence for the value that flowed there.
func (c *c17) altEvidence(kind evKind, a tAlt) (bool, string) {
	last := ""
	for _, g := range a.guards {
		var ok bool
		var why string
		if g.from == nil {
			ok, why = c.blockEvidence(kind, g.to, g.val, map[*ssa.BasicBlock]bool{})
		} else {
			ok, why = c.edgeEvidence(kind, g.from, g.to, g.val, map[*ssa.BasicBlock]bool{})
		}
		if ok {
			return true, why
		}
		if why != "" {
			last = why
		}
	}
	return false, last
}

// ---------------------------------------------------------------------------------------------- parenthesizers

func (c *c17) funcs() []*ssa.Function {
	var out []*ssa.Function
	for _, m := range c.pkg.Members {
		if f, ok := m.(*ssa.Function); ok && !c.p.IsTestFile(f.Pos()) {
			out = append(out, f)
		}
	}
	sort.Slice(out, func(i, j int) bool { return out[i].Name() < out[j].Name() })
	return out
}

// parenthesizers: func(string) string returning either its argument or "(" + argument + ")"; the bare return must
// carry atomicity evidence about the very value returned.
func (c *c17) parenthesizers() {
	for _, f := range c.funcs() {
		if len(f.Params) != 1 || f.Signature.Results().Len() != 1 || !isStringType(f.Params[0].Type()) || !isStringType(f.Signature.Results().At(0).Type()) {
			continue
		}
		ph := &tHole{kind: "param", name: f.Name(), idx: 0}
		res := c.ev.evalFunc(f, []aval{holeStr(ph)}, nil)
		s, ok := res[0].(*aStr)
		if !ok || len(s.alts) == 0 {
			continue
		}
		wrapped, bare, other := 0, []tAlt{}, 0
		for _, a := range s.alts {
			switch {
			case len(a.pieces) == 1 && a.pieces[0].hole == ph:
				bare = append(bare, a)
			case len(a.pieces) == 3 && a.pieces[0].lit == "(" && a.pieces[1].hole == ph && a.pieces[2].lit == ")":
				wrapped++
			default:
				other++
			}
		}
		if wrapped == 0 || other > 0 {
			continue
		}
		c.r.Count("conditional_parenthesizers", 1)
		good := true
		for _, a := range bare {
			ok, why := c.altEvidence(evAtomic, a)
			if !ok {
				good = false
				if why == "" {
					why = "no test of the value dominates the bare return"
				}
				c.r.Bad("R1", "parenthesizer "+f.Name()+"/bare-return-is-atomic", c.pos(f), f.Name()+" returns its argument without parentheses on a path where nothing shows it is a single atom: "+why)
			} else {
				c.r.OK("R1", "parenthesizer "+f.Name()+"/bare-return-is-atomic", c.pos(f), "the argument is returned bare only when "+why)
			}
		}
		if good {
			c.ev.parenthesizers[f] = true
		}
	}
}

// ---------------------------------------------------------------------------------------------- templates

type exposure struct {
	hole  *tHole
	left  *xTok
	right *xTok
}

// exposures lists holes that stand next to an operator and are not closed.
func exposures(toks []xTok) []exposure {
	var out []exposure
	for i := range toks {
		if toks[i].kind != 'h' || toks[i].hole.closed {
			continue
		}
		var e exposure
		e.hole = toks[i].hole
		if i > 0 && toks[i-1].kind == 'o' {
			e.left = &toks[i-1]
		}
		if i+1 < len(toks) && toks[i+1].kind == 'o' && !toks[i+1].unary {
			e.right = &toks[i+1]
		}
		if e.left != nil || e.right != nil {
			out = append(out, e)
		}
	}
	return out
}

func (e exposure) String() string {
	s := ""
	if e.left != nil {
		s += e.left.text + " "
	}
	s += "‹" + e.hole.kind + "›"
	if e.right != nil {
		s += " " + e.right.text
	}
	return s
}

// benign: only `&` next to the operand: it has the lowest precedence and is associative, nothing regroups.
func (e exposure) benign() bool {
	return (e.left == nil || (e.left.text == "&" && !e.left.unary)) && (e.right == nil || e.right.text == "&")
}

// contextMappings: the replacement texts of the context-reference table are single atoms.
func (c *c17) contextMappings() {
	fld := c.p.FieldOf(c17Pkg, "mapping", "replace")
	if fld == nil {
		c.r.Errorf("anchor mapping.replace not found")
		return
	}
	n := 0
	for _, fw := range c.p.FieldWrites(fld) {
		s, ok := core.ConstString(fw.Val)
		if !ok {
			c.r.Unknown("R1", "mappings/non-constant-replacement", c.pos(fw.Instr), "a context mapping's replacement is not a constant")
			continue
		}
		n++
		toks, _ := tokenizeAlt(tAlt{pieces: []tPiece{{lit: s}}})
		c.r.Check(closedToks(toks), "R1", "mappings["+s+"]/closed", c.pos(fw.Instr), "replacement is a single atom", "the replacement `"+s+"` has an operator outside brackets: as the operand of a legacy operator it regroups")
	}
	c.r.Count("context_mappings", n)
	c.r.Require("context_mappings", n, 48)
	// the two other outputs of MigrateContextReference: the lower-cased legacy NAME, and date wrapping through wrap()
	if f := c.fn("MigrateContextReference"); f != nil {
		ph := &tHole{kind: "token", name: "path", idx: 0, closed: true}
		res := c.ev.evalFunc(f, []aval{holeStr(ph), &aUnknown{}}, nil)
		if s, ok := res[0].(*aStr); ok {
			for _, a := range s.alts {
				toks, _ := tokenizeAlt(a)
				// results of regexp replacement and fixLookups' bracket rewriting are table text (checked above) or derived holes
				okc := true
				for _, t := range toks {
					if t.kind == 'o' && t.depth == 0 {
						okc = false
					}
				}
				c.r.Check(okc, "R1", "MigrateContextReference/output "+a.String(), c.pos(f), "no operator outside brackets", "output "+a.String()+" has an operator outside brackets")
			}
		}
	}
}

type visitInfo struct {
	fn    *ssa.Function
	label string
	alt   *g4RuleAlt
	res   aval
}

func (c *c17) visitor() map[string]*visitInfo {
	out := map[string]*visitInfo{}
	for _, rule := range []string{"parse", "expression", "parameters"} {
		for i := range c.g1.rules[rule] {
			a := &c.g1.rules[rule][i]
			lb := a.label
			if lb == "" {
				lb = rule
			}
			name := "Visit" + strings.ToUpper(lb[:1]) + lb[1:]
			m := c.p.Method(c17Pkg, "legacyVisitor", name)
			if m == nil {
				c.r.Bad("R1", "legacyVisitor."+name+"/exists", "flows/definition/legacy/expressions/visitor.go", "grammar alternative "+lb+" of Excellent1 has no visitor method: the base visitor returns nil for it")
				continue
			}
			out[lb] = &visitInfo{fn: m, label: lb, alt: a}
		}
	}
	return out
}

func (c *c17) evalVisit(vi *visitInfo) {
	if vi.res != nil {
		return
	}
	res := c.ev.evalFunc(vi.fn, []aval{&aUnknown{}, &aUnknown{}}, nil)
	vi.res = res[0]
	if vi.res == nil {
		vi.res = &aUnknown{}
	}
}

// visitorMethods checks the legacy visitor's own templates and computes which parse-tree parents are closed.
func (c *c17) visitorMethods() {
	c.closedParents = map[string]string{}
	vis := c.visitor()
	c.r.Count("legacy_visitor_methods", len(vis))
	c.r.Require("legacy_visitor_methods", len(vis), 16)
	labels := []string{}
	for lb := range vis {
		labels = append(labels, lb)
	}
	sort.Strings(labels)
	for _, lb := range labels {
		vi := vis[lb]
		c.evalVisit(vi)
		ctxName := strings.ToUpper(lb[:1]) + lb[1:] + "Context"
		isOp := len(vi.alt.ops) > 0 && vi.alt.label != ""
		nexp := 0
		for _, rf := range vi.alt.refs {
			if rf == "expression" {
				nexp++
			}
		}
		construct := "legacyVisitor." + vi.fn.Name()
		if arr, ok := vi.res.(*aArr); ok {
			// the parameter list: every element is the migrated child, stored at the index it was read from
			c.paramsInOrder(vi, arr)
			c.closedParents[ctxName] = "children become list elements"
			continue
		}
		s, ok := vi.res.(*aStr)
		if !ok {
			c.r.Unknown("R1", construct+"/template", c.pos(vi.fn), "result not understood")
			continue
		}
		parentClosed := nexp > 0
		methodBad := false
		for _, a := range s.alts {
			toks, _ := tokenizeAlt(a)
			// (a) operands next to operators
			for _, e := range exposures(toks) {
				if e.benign() {
					continue
				}
				if e.hole.kind == "child" && isOp && c.ownOperand(vi, toks, e) {
					parentClosed = false
					continue
				}
				if e.hole.kind == "child" {
					parentClosed = false
				}
				methodBad = true
				c.r.Bad("R1", construct+"/operand "+e.String(), c.pos(vi.fn), "in `"+a.String()+"` the substituted "+e.hole.kind+" stands next to an operator that is not the legacy operator it belonged to, and is neither an atom nor parenthesized: an operand with a lower-precedence operator regroups")
			}
			// (c) a migrated child is substituted whole: a slice or textual replacement of it is not an expression
			for _, pc := range a.pieces {
				if pc.hole == nil || (pc.hole.kind != "substr" && pc.hole.kind != "replaced") {
					continue
				}
				for h := pc.hole.from; h != nil; h = h.from {
					if h.kind == "child" {
						methodBad = true
						c.r.Bad("R1", construct+"/child-cut "+a.String(), c.pos(vi.fn), "in `"+a.String()+"` the text of a migrated child expression is "+map[string]string{"substr": "sliced", "replaced": "edited by a textual replacement"}[pc.hole.kind]+" before it is substituted: a prefix such as a leading minus belongs to the child's own operators (-y ^ 2 is (-y) ^ 2), so the rest of the text is another expression")
						break
					}
				}
			}
			// (b) atomic legacy categories yield atoms
			if !isOp && lb != "parse" {
				if lb == "functionCall" {
					continue // decided in functionCallClosed
				}
				c.r.Check(closedToks(toks), "R1", construct+"/closed "+a.String(), c.pos(vi.fn), "an atomic legacy construct migrates to an atom", "`"+a.String()+"` has an operator outside brackets (or is a bare child) although "+lb+" is atomic in the legacy grammar")
			}
			// a bare pass-through of a child keeps the child exposed to whoever consumes this
			if len(toks) == 1 && toks[0].kind == 'h' && toks[0].hole.kind == "child" && lb != "parse" {
				parentClosed = false
			}
		}
		if !methodBad {
			c.r.OK("R1", construct+"/operands", c.pos(vi.fn), fmt.Sprintf("%d template alternative(s): every substituted operand is an atom, parenthesized, between brackets or commas, or the legacy operand of the method's own operator", len(s.alts)))
		}
		if isOp {
			c.operatorTable(vi, s)
		}
		if parentClosed && nexp > 0 {
			if lb == "parse" {
				c.closedParents[ctxName] = "top level, wrapped by wrapRawExpression"
			} else {
				c.closedParents[ctxName] = "child stands between brackets"
			}
		}
	}
	c.r.Tables["closed_parents"] = c.closedParents
}

// ownOperand: the exposed child is the grammar's operand of the alternative's own operator, on the right side.
func (c *c17) ownOperand(vi *visitInfo, toks []xTok, e exposure) bool {
	isOwn := func(t *xTok) bool {
		if t == nil {
			return true
		}
		if t.hole != nil && t.hole.kind == "optoken" {
			return true
		}
		for _, op := range vi.alt.ops {
			if c.g3.toks[op] == t.text {
				return true
			}
		}
		return false
	}
	if !isOwn(e.left) || !isOwn(e.right) {
		return false
	}
	// the whole alternative must be `child0 op child1` (or `op child0`) at depth 0: an operator added by the template
	// elsewhere (e.g. a unary minus) is not the legacy operator
	nOps := 0
	for _, t := range toks {
		if t.kind == 'o' && t.depth == 0 {
			nOps++
		}
	}
	if nOps != 1 {
		return false
	}
	switch {
	case e.hole.idx == 0 && len(vi.alt.refs) == 2:
		return e.right != nil && e.left == nil
	case e.hole.idx == 1:
		return e.left != nil && e.right == nil
	case e.hole.idx == 0:
		return e.left != nil && e.left.unary && e.right == nil
	}
	return false
}

// operatorTable (R2): the operator text an operator method emits under each token test.
func (c *c17) operatorTable(vi *visitInfo, s *aStr) {
	construct := "legacyVisitor." + vi.fn.Name()
	seen := map[string]bool{}
	for _, a := range s.alts {
		toks, _ := tokenizeAlt(a)
		var op *xTok
		n := 0
		for i := range toks {
			if toks[i].kind == 'o' && toks[i].depth == 0 {
				op = &toks[i]
				n++
			}
		}
		if n != 1 {
			continue // re-shaped into a call: R1 covers its operands
		}
		if op.hole != nil {
			// the legacy token text is passed through: literals must coincide
			for _, t := range vi.alt.ops {
				c.r.Check(c.g1.toks[t] == c.g3.toks[t] && c.g1.toks[t] != "", "R2", construct+"/token "+t+" passed through", c.pos(vi.fn),
					"'"+c.g1.toks[t]+"' in both grammars", "the method re-emits the legacy text of "+t+" ('"+c.g1.toks[t]+"') but Excellent3 spells it '"+c.g3.toks[t]+"'")
				seen[t] = true
			}
			continue
		}
		// which token does this alternative stand for? read the token tests on its guards
		want := c.tokenOfAlt(vi, a)
		if want == "" {
			if len(vi.alt.ops) == 1 {
				want = vi.alt.ops[0]
			} else {
				c.r.Unknown("R2", construct+"/operator "+op.text, c.pos(vi.fn), "cannot tell under which token test `"+a.String()+"` is produced")
				continue
			}
		}
		seen[want] = true
		c.r.Check(c.g3.toks[want] == op.text, "R2", construct+"/token "+want, c.pos(vi.fn), "emits '"+op.text+"'",
			"under the test for "+want+" (legacy '"+c.g1.toks[want]+"') the method emits '"+op.text+"' but Excellent3 spells "+want+" '"+c.g3.toks[want]+"'")
	}
	for _, t := range vi.alt.ops {
		if !seen[t] {
			c.r.Unknown("R2", construct+"/token "+t, c.pos(vi.fn), "no operator alternative found for token "+t+" (every occurrence is re-shaped)")
		}
	}
}

// tokenOfAlt reads `ctx.TOK() != nil` tests on the guards of an alternative.
func (c *c17) tokenOfAlt(vi *visitInfo, a tAlt) string {
	decide := func(cond ssa.Value, taken bool) string {
		bo, ok := cond.(*ssa.BinOp)
		if !ok || (bo.Op != token.NEQ && bo.Op != token.EQL) {
			return ""
		}
		var call *ssa.Call
		if core.IsNilConst(bo.Y) {
			call, _ = stripIface(bo.X).(*ssa.Call)
		} else if core.IsNilConst(bo.X) {
			call, _ = stripIface(bo.Y).(*ssa.Call)
		}
		if call == nil {
			return ""
		}
		m, _, ok := genCtxMethod(call)
		if !ok {
			return ""
		}
		present := taken == (bo.Op == token.NEQ)
		in := false
		for _, t := range vi.alt.ops {
			if t == m {
				in = true
			}
		}
		if !in {
			return ""
		}
		if present {
			return m
		}
		if len(vi.alt.ops) == 2 {
			for _, t := range vi.alt.ops {
				if t != m {
					return t
				}
			}
		}
		return ""
	}
	for _, g := range a.guards {
		var conds []core.CondEdge
		if g.from != nil {
			if iff, ok := g.from.Instrs[len(g.from.Instrs)-1].(*ssa.If); ok && g.from.Succs[0] != g.from.Succs[1] {
				conds = append(conds, core.CondEdge{Cond: iff.Cond, Taken: g.from.Succs[0] == g.to, If: iff})
			}
			conds = append(conds, core.ControllingConds(g.from)...)
		} else {
			conds = core.ControllingConds(g.to)
		}
		for _, ce := range conds {
			if t := decide(ce.Cond, ce.Taken); t != "" {
				return t
			}
		}
	}
	return ""
}

// paramsInOrder: VisitFunctionParameters stores the migrated i-th child at index i.
func (c *c17) paramsInOrder(vi *visitInfo, arr *aArr) {
	construct := "legacyVisitor." + vi.fn.Name()
	s, ok := arr.read(-1).(*aStr)
	good := ok && len(s.alts) >= 1
	if ok {
		for _, a := range s.alts {
			if len(a.pieces) != 1 || a.pieces[0].hole == nil || a.pieces[0].hole.kind != "child" {
				good = false
			}
		}
	}
	c.r.Check(good, "R1", construct+"/elements-are-children", c.pos(vi.fn), "each element is the migrated child expression", "an element of the parameter list is not the plain migrated child")
	// same index on both sides
	same := false
	for _, b := range vi.fn.Blocks {
		for _, in := range b.Instrs {
			st, ok := in.(*ssa.Store)
			if !ok {
				continue
			}
			dst, ok := st.Addr.(*ssa.IndexAddr)
			if !ok {
				continue
			}
			for v := range core.BackSlice(st.Val, func(*ssa.Call) bool { return true }) {
				if ld, ok := v.(*ssa.UnOp); ok && ld.Op == token.MUL {
					if src, ok := ld.X.(*ssa.IndexAddr); ok && src.Index == dst.Index {
						same = true
					}
				}
			}
		}
	}
	c.r.Check(same, "R1", construct+"/argument-order", c.pos(vi.fn), "element i is the migration of child i", "the parameter list is not filled index by index from the children: argument order is not preserved")
}

// ---------------------------------------------------------------------------------------------- callMigrators

func (c *c17) callMigratorTable() {
	g, _ := c.pkg.Members["callMigrators"].(*ssa.Global)
	initFn := c.pkg.Func("init")
	if g == nil || initFn == nil {
		c.r.Errorf("anchor callMigrators not found")
		return
	}
	// run the package initialiser abstractly to obtain the closures stored in the table
	fr := &tFrame{fn: initFn, vals: map[ssa.Value]aval{}}
	for _, b := range rpoBlocks(initFn) {
		for _, in := range b.Instrs {
			if call, ok := in.(*ssa.Call); ok {
				// only the migrator constructors matter; skip everything else in the package initialiser
				if f := call.Call.StaticCallee(); f == nil || core.FuncPkgPath(f) != c.ev.pkgPath {
					continue
				}
			}
			c.ev.step(fr, in)
		}
	}
	var table ssa.Value
	for _, b := range initFn.Blocks {
		for _, in := range b.Instrs {
			if st, ok := in.(*ssa.Store); ok && st.Addr == g {
				table = st.Val
			}
		}
	}
	n := 0
	for _, b := range initFn.Blocks {
		for _, in := range b.Instrs {
			mu, ok := in.(*ssa.MapUpdate)
			if !ok || mu.Map != table {
				continue
			}
			key, ok := core.ConstString(mu.Key)
			if !ok {
				c.r.Unknown("R1", "callMigrators/non-constant-key", c.pos(mu), "entry with a computed key")
				continue
			}
			n++
			c.entry(key, ev2closures(fr.vals[mu.Value]), c.pos(mu.Value.(interface{ Pos() token.Pos })))
		}
	}
	c.r.Count("call_migrators", n)
	c.r.Require("call_migrators", n, 60)
	sort.Strings(c.openEntries)
	c.r.Tables["call_migrators_yielding_operator_expressions"] = c.openEntries
	c.callHole.closed = len(c.openEntries) == 0
}

func ev2closures(v aval) []*aClosure {
	switch x := v.(type) {
	case *aClosure:
		return []*aClosure{x}
	case *aFuncs:
		return x.fs
	}
	return nil
}

func (c *c17) entry(key string, cls []*aClosure, pos string) {
	construct := "callMigrators[" + key + "]"
	if len(cls) == 0 {
		c.r.Unknown("R1", construct+"/template", pos, "the migrator is not a closure the evaluator could follow")
		return
	}
	nameH := c.ev.namedHole("name", "funcName", -1, true, nil)
	params := &aArr{known: map[int]aval{}, dynamic: true, summary: holeStr(c.ev.namedHole("param", "params", -1, false, nil))}
	var res aval
	for _, cl := range cls {
		rs := c.ev.evalFunc(cl.fn, []aval{holeStr(nameH), params}, cl.free)
		res = joinVals(res, rs[0])
	}
	s, ok := res.(*aStr)
	if !ok || len(s.alts) == 0 {
		c.r.Unknown("R1", construct+"/template", pos, "no result template")
		return
	}
	var shown []string
	open := false
	bad := false
	for _, a := range s.alts {
		toks, _ := tokenizeAlt(a)
		shown = append(shown, a.String())
		for _, t := range toks {
			if t.kind == 'h' && t.hole.kind == "unknown" && t.hole.name != "asParamMigratorsWithDefaults$1:t13" {
				// an unknown hole in argument position is harmless; next to an operator it is reported below
				_ = t
			}
		}
		for _, e := range exposures(toks) {
			if e.benign() {
				continue
			}
			bad = true
			c.r.Bad("R1", construct+"/operands-atomic-or-parenthesized", pos, "the migrated text `"+a.String()+"` puts a legacy parameter next to `"+strings.TrimSpace(e.String())+"` without parentheses: a parameter that is itself an operator expression regroups (a legacy function argument is delimited by commas)")
		}
		if !closedToks(toks) {
			open = true
		}
	}
	if !bad {
		c.r.OK("R1", construct+"/operands-atomic-or-parenthesized", pos, strings.Join(shown, "  |  "))
	}
	if open {
		c.openEntries = append(c.openEntries, key)
	}
}

// functionCallClosed: what VisitFunctionCall returns is an atom, or goes to a parent that brackets it.
func (c *c17) functionCallClosed() {
	m := c.p.Method(c17Pkg, "legacyVisitor", "VisitFunctionCall")
	if m == nil {
		c.r.Errorf("anchor legacyVisitor.VisitFunctionCall not found")
		return
	}
	res := c.ev.evalFunc(m, []aval{&aUnknown{}, &aUnknown{}}, nil)
	s, ok := res[0].(*aStr)
	if !ok {
		c.r.Unknown("R1", "legacyVisitor.VisitFunctionCall/closed", c.pos(m), "result not understood")
		return
	}
	why := ""
	allOK := true
	sawCall := false
	for _, a := range s.alts {
		toks, _ := tokenizeAlt(a)
		usesCall := false
		for _, pc := range a.pieces {
			if pc.hole == c.callHole {
				usesCall = true
				sawCall = true
			}
		}
		if closedToks(toks) {
			continue
		}
		ok, w := c.altEvidence(evParent, a)
		if ok {
			why = w
			continue
		}
		allOK = false
		if w == "" {
			w = "nothing restricts the parent"
		}
		if usesCall {
			for _, k := range c.openEntries {
				c.r.Bad("R1", "callMigrators["+k+"]/atomic-where-an-operand", c.pos(m), "the legacy call "+strings.ToUpper(k)+"(...) is atomic but migrates to an operator expression, and VisitFunctionCall hands it back without parentheses whatever the parent is ("+w+"): as the operand of an operator it regroups")
			}
		} else {
			c.r.Bad("R1", "legacyVisitor.VisitFunctionCall/closed "+a.String(), c.pos(m), "returns `"+a.String()+"` which is not an atom ("+w+")")
		}
	}
	if !sawCall {
		c.r.Unknown("R1", "legacyVisitor.VisitFunctionCall/uses-migrators", c.pos(m), "VisitFunctionCall does not return the result of migrateFunctionCall")
	}
	if allOK {
		for _, k := range c.openEntries {
			c.r.OK("R1", "callMigrators["+k+"]/atomic-where-an-operand", c.pos(m), "yields an operator expression; VisitFunctionCall returns it bare only when "+why+", otherwise through a verified parenthesizer")
		}
		c.r.OK("R1", "legacyVisitor.VisitFunctionCall/closed", c.pos(m), fmt.Sprintf("%d alternative(s): atoms, parenthesized, or returned to a bracketing parent", len(s.alts)))
	}
}

// topLevelWrapper: migrateExpression's text reaches the template only through a wrapper that emits @identifier or @( ... ).
func (c *c17) topLevelWrapper() {
	w := c.fn("wrapRawExpression")
	me := c.fn("migrateExpression")
	if w == nil || me == nil {
		return
	}
	ph := &tHole{kind: "param", name: "expression", idx: 0}
	res := c.ev.evalFunc(w, []aval{holeStr(ph), holeStr(&tHole{kind: "param", name: "errorAs", idx: 1}), &aUnknown{}}, nil)
	s, ok := res[0].(*aStr)
	if !ok {
		c.r.Unknown("R1", "wrapRawExpression/delimited", c.pos(w), "result not understood")
		return
	}
	good := true
	for _, a := range s.alts {
		toks, _ := tokenizeAlt(a)
		if len(toks) < 2 || toks[0].kind != '@' {
			c.r.Bad("R1", "wrapRawExpression/delimited "+a.String(), c.pos(w), "the wrapped expression `"+a.String()+"` does not start with @")
			good = false
			continue
		}
		rest := toks[1:]
		bracketed := rest[0].kind == '(' && rest[len(rest)-1].kind == ')' && rest[len(rest)-1].depth == 0
		if bracketed {
			// the opening bracket must be the one that closes last
			for _, t := range rest[1 : len(rest)-1] {
				if t.depth == 0 {
					bracketed = false
				}
			}
		}
		if bracketed {
			continue
		}
		ok, why := c.altEvidence(evAtomic, a)
		if !ok {
			good = false
			if why == "" {
				why = "no identifier test dominates it"
			}
			c.r.Bad("R1", "wrapRawExpression/bare-only-if-identifier", c.pos(w), "emits `"+a.String()+"` without the @( ) delimiters on a path where the expression is not shown to be an identifier path: "+why+" — the template scanner reads only an identifier after a bare @")
		}
	}
	if good {
		c.r.OK("R1", "wrapRawExpression/bare-only-if-identifier", c.pos(w), fmt.Sprintf("%d alternative(s): @( … ) or, under a verified identifier predicate, @identifier", len(s.alts)))
	}
	// every use of migrateExpression's text goes through the wrapper (or is dropped on error)
	n := 0
	for _, cs := range c.p.CallsTo(me) {
		if c.p.IsTestFile(cs.Instr.Pos()) {
			continue
		}
		call, ok := cs.Instr.(*ssa.Call)
		if !ok {
			continue
		}
		n++
		for _, ref := range *call.Referrers() {
			ex, ok := ref.(*ssa.Extract)
			if !ok || ex.Index != 0 {
				continue
			}
			for _, use := range *ex.Referrers() {
				uc, ok := use.(*ssa.Call)
				if ok && uc.Call.StaticCallee() == w && uc.Call.Args[0] == ex {
					c.r.OK("R1", "migrateExpression/result-wrapped", c.pos(uc), "passed to wrapRawExpression")
					continue
				}
				c.r.Bad("R1", "migrateExpression/result-wrapped", c.pos(use.(interface{ Pos() token.Pos })), "the migrated expression text is used other than as the argument of wrapRawExpression")
			}
		}
	}
	c.r.Require("migrateExpression_call_sites", n, 1)
}

// ---------------------------------------------------------------------------------------------- R3

func alwaysNilError(f *ssa.Function, idx int, depth int) bool {
	if f == nil || len(f.Blocks) == 0 || depth > 4 {
		return false
	}
	for _, ret := range core.Returns(f) {
		v := ret.Results[idx]
		if cst, ok := v.(*ssa.Const); ok && cst.IsNil() {
			continue
		}
		if ex, ok := v.(*ssa.Extract); ok {
			if call, ok := ex.Tuple.(*ssa.Call); ok && alwaysNilError(call.Call.StaticCallee(), ex.Index, depth+1) {
				continue
			}
		}
		return false
	}
	return true
}

func (c *c17) droppedErrors() {
	n := 0
	var all []*ssa.Function
	for _, f := range c.p.ModuleFunctions() {
		if core.RelPkg(core.FuncPkgPath(f)) == c17Pkg && !c.p.IsTestFile(f.Pos()) {
			all = append(all, f)
		}
	}
	for _, f := range all {
		for _, b := range f.Blocks {
			for _, in := range b.Instrs {
				call, ok := in.(*ssa.Call)
				if !ok {
					continue
				}
				tup, ok := call.Type().(*types.Tuple)
				if !ok || tup.Len() < 2 || !isErrorType(tup.At(tup.Len()-1).Type()) {
					continue
				}
				n++
				errUsed, valUsed := false, false
				for _, ref := range *call.Referrers() {
					if ex, ok := ref.(*ssa.Extract); ok {
						if ex.Index == tup.Len()-1 {
							errUsed = len(*ex.Referrers()) > 0
						} else if len(*ex.Referrers()) > 0 {
							valUsed = true
						}
					}
				}
				callee := "a function value"
				if o := core.CalleeObj(&call.Call); o != nil {
					callee = core.ObjName(o)
				}
				construct := f.Name() + "/" + callee
				if errUsed || !valUsed {
					c.r.OK("R3", construct, c.pos(call), "error result is read")
					continue
				}
				if alwaysNilError(call.Call.StaticCallee(), tup.Len()-1, 0) {
					c.r.OK("R3", construct, c.pos(call), "error discarded, but "+callee+" returns a nil error on every path")
					continue
				}
				c.r.Bad("R3", construct, c.pos(call), "the value returned by "+callee+" is used while its error is discarded: on failure the zero value flows into the migrated text")
			}
		}
	}
	c.r.Count("value_error_calls", n)
	c.r.Require("value_error_calls", n, 4)
}

// ---------------------------------------------------------------------------------------------- R4

func (c *c17) textLiterals() {
	// the reader's meta-characters: Excellent3 TEXT ends at an unescaped quote and unquotes with strconv.Unquote
	found := 0
	installRegexpResolver(c.p)
	// named functions and the function literals inside them
	var all []*ssa.Function
	var addLits func(f *ssa.Function)
	addLits = func(f *ssa.Function) {
		all = append(all, f)
		for _, an := range f.AnonFuncs {
			addLits(an)
		}
	}
	for _, f := range c.funcs() {
		addLits(f)
	}
	for _, f := range all {
		if len(f.Blocks) == 0 || f.Signature.Results().Len() == 0 || !isStringType(f.Signature.Results().At(0).Type()) {
			continue
		}
		if f.Parent() != nil && len(f.FreeVars) > 0 {
			continue // a literal that captures variables is evaluated with its enclosing function
		}
		params := make([]aval, len(f.Params))
		for i, p := range f.Params {
			if isStringType(p.Type()) {
				params[i] = holeStr(&tHole{kind: "param", name: f.Name() + "." + p.Name(), idx: i})
			} else {
				params[i] = &aUnknown{}
			}
		}
		res := c.ev.evalFunc(f, params, nil)
		s, ok := res[0].(*aStr)
		if !ok {
			continue
		}
		for _, a := range s.alts {
			_, inText := tokenizeAlt(a)
			for _, h := range inText {
				if h.kind == "quoted" {
					continue
				}
				found++
				// text that is a match of a pattern which cannot match a quote or a backslash needs no escaping
				origin := h
				for origin.from != nil {
					origin = origin.from
				}
				if origin.kind == "param" && origin.idx >= 0 && origin.idx < len(f.Params) {
					if pats := regexCallbackPatterns(c.p, f.Params[origin.idx]); len(pats) > 0 {
						clean := true
						for _, pat := range pats {
							if regexCanMatchAny(pat, "\"\\") {
								clean = false
							}
						}
						if clean {
							c.r.OK("R4", f.Name()+"/text-literal/needs-no-escaping", c.pos(f), "the text is a match of "+strings.Join(pats, " / ")+", which admits neither quote nor backslash")
							continue
						}
					}
				}
				hasQuote, hasBackslash := false, false
				for _, sb := range h.subs {
					if strings.Contains(sb[0], `"`) && strings.HasSuffix(sb[1], `\"`) {
						hasQuote = true
					}
					if sb[0] == `\` && sb[1] == `\\` {
						hasBackslash = true
					}
				}
				construct := f.Name() + "/text-literal"
				c.r.Check(hasQuote, "R4", construct+"/quote-escaped", c.pos(f), "quotes inside the literal are rewritten to \\\"", "`"+a.String()+"` places text between quotes without escaping the quotes in it")
				c.r.Check(hasBackslash, "R4", construct+"/backslash-escaped", c.pos(f), "backslashes are doubled",
					"`"+a.String()+"` places legacy text between quotes without doubling its backslashes: the legacy literal \"a\\nb\" denotes a, backslash, n, b but the Excellent3 reader (strconv.Unquote) turns the copied \\n into a newline, and a legacy literal ending in a backslash swallows the closing quote")
			}
		}
	}
	c.r.Count("hand_built_text_literals", found)
	c.r.Require("hand_built_text_literals", found, 1)
}

// ---------------------------------------------------------------------------------------------- R5

func (c *c17) bodyCopied() {
	f := c.fn("migrateLegacyTemplateAsString")
	if f == nil {
		return
	}
	// unescapeBody switched off
	okUnescape := false
	for _, cs := range core.Calls(f, false) {
		if o := core.CalleeObj(cs.Common()); o != nil && strings.HasSuffix(core.ObjName(o), ".SetUnescapeBody") {
			args := cs.Common().Args
			if cst, ok := args[len(args)-1].(*ssa.Const); ok && cst.Value != nil && cst.Value.String() == "false" {
				okUnescape = true
			}
		}
	}
	c.r.Check(okUnescape, "R5", "migrateLegacyTemplateAsString/unescape-body-off", c.pos(f), "SetUnescapeBody(false)", "the scanner is not switched to unescapeBody=false: @@ in body text would be collapsed by the migration and again by the engine")
	// BODY tokens are written as scanned
	bodyConst := int64(-1)
	if cst, ok := c.p.SSAPkg("excellent").Members["BODY"].(*ssa.NamedConst); ok {
		bodyConst, _ = constInt64(cst.Value.Value)
	}
	nBody, nErr := 0, 0
	for _, cs := range core.Calls(f, false) {
		o := core.CalleeObj(cs.Common())
		if o == nil || !c17IsWriteString(o) {
			continue
		}
		arg := cs.Common().Args[1]
		isTokenText := func(v ssa.Value) bool {
			for x := range core.BackSlice(v, nil) {
				switch y := x.(type) {
				case *ssa.Phi, *ssa.Extract:
				case *ssa.Call:
					if oo := core.CalleeObj(&y.Call); oo == nil || !strings.HasSuffix(core.ObjName(oo), ".Scan") {
						return false
					}
				default:
					return false
				}
			}
			return true
		}
		for _, ce := range core.ControllingConds(cs.Instr.Block()) {
			bo, ok := ce.Cond.(*ssa.BinOp)
			if !ok || bo.Op != token.EQL || !ce.Taken {
				continue
			}
			if k, ok := core.ConstInt(bo.Y); ok && k == bodyConst {
				nBody++
				c.r.Check(isTokenText(arg), "R5", "migrateLegacyTemplateAsString/body-verbatim", c.pos(cs.Instr), "BODY token text is written unchanged", "the text written for a BODY token is not the scanned token itself")
			}
		}
	}
	c.r.Require("body_writes", nBody, 1)
	// error path: what is written while the error of the migration is non-nil reads "@(" token ")" — decided on the text
	// itself (the writes of the path concatenated in order, each evaluated as a string template), so that three writes,
	// one write of a concatenation or of a Sprintf, and a local hoisted in front of the test are the same fact
	fr := &tFrame{fn: f, vals: map[ssa.Value]aval{}}
	for i, q := range f.Params {
		if isStringType(q.Type()) {
			fr.params = append(fr.params, holeStr(&tHole{kind: "param", name: f.Name() + "." + q.Name(), idx: i}))
		} else {
			fr.params = append(fr.params, &aUnknown{})
		}
	}
	c.exactText = true
	for pass := 0; pass < 2; pass++ { // the scanner loop: the token is carried round the back edge
		for _, b := range rpoBlocks(f) {
			for _, in := range b.Instrs {
				c.ev.step(fr, in)
			}
		}
	}
	c.exactText = false
	// the error results of the package's own (…, error) calls in the function (today: migrateExpression)
	migErr := map[ssa.Value]bool{}
	for _, cs := range core.Calls(f, false) {
		call, ok := cs.Instr.(*ssa.Call)
		callee := cs.Common().StaticCallee()
		if !ok || callee == nil || core.FuncPkgPath(callee) != c.pkg.Pkg.Path() {
			continue
		}
		tup, ok := call.Type().(*types.Tuple)
		if !ok || tup.Len() < 2 || !isErrorType(tup.At(tup.Len()-1).Type()) {
			continue
		}
		for _, ref := range *call.Referrers() {
			if ex, ok := ref.(*ssa.Extract); ok && ex.Index == tup.Len()-1 {
				migErr[ex] = true
			}
		}
	}
	onErrorPath := func(b *ssa.BasicBlock) bool {
		for _, ce := range core.ControllingConds(b) {
			bo, ok := ce.Cond.(*ssa.BinOp)
			if !ok || (bo.Op != token.NEQ && bo.Op != token.EQL) {
				continue
			}
			if !(migErr[bo.X] && core.IsNilConst(bo.Y)) && !(migErr[bo.Y] && core.IsNilConst(bo.X)) {
				continue
			}
			if ce.Taken == (bo.Op == token.NEQ) {
				return true
			}
		}
		return false
	}
	written := &aStr{alts: []tAlt{{}}}
	var errBlocks []*ssa.BasicBlock
	handedOn := false
	var stray []string
	for _, b := range rpoBlocks(f) {
		onErr := onErrorPath(b)
		for _, in := range b.Instrs {
			ci, ok := in.(ssa.CallInstruction)
			if !ok {
				continue
			}
			o := core.CalleeObj(ci.Common())
			if o == nil || !c17IsWriteString(o) {
				// a helper of the package that is handed the buffer on the error path writes on its behalf
				if callee := ci.Common().StaticCallee(); onErr && callee != nil && core.FuncPkgPath(callee) == c.pkg.Pkg.Path() {
					for _, a := range ci.Common().Args {
						if pt, isP := a.Type().Underlying().(*types.Pointer); isP && c17IsTextBuffer(pt.Elem()) {
							handedOn = true
						}
					}
				}
				continue
			}
			arg := ci.Common().Args[1]
			text := c.ev.toStr(c.ev.val(fr, arg), arg)
			if onErr {
				nErr++
				written = concatStr(written, text)
				if len(errBlocks) == 0 || errBlocks[len(errBlocks)-1] != b {
					errBlocks = append(errBlocks, b)
				}
				continue
			}
			// elsewhere only scanned or migrated text is written: a literal piece there is text the template does not have
			for _, a := range text.alts {
				if lit, isLit := a.isLit(); isLit && lit != "" {
					stray = append(stray, lit)
				}
			}
		}
	}
	isScannedToken := func(h *tHole) bool {
		if h == nil || h.src == nil || h.from != nil || len(h.subs) > 0 {
			return false
		}
		for x := range core.BackSlice(h.src, nil) {
			switch y := x.(type) {
			case *ssa.Phi, *ssa.Extract:
			case *ssa.Call:
				if oo := core.CalleeObj(&y.Call); oo == nil || !strings.HasSuffix(core.ObjName(oo), ".Scan") {
					return false
				}
			default:
				return false
			}
		}
		return true
	}
	key := "migrateLegacyTemplateAsString/failed-expression-re-emitted"
	// the writes of the error path must follow one another on every run of it: one block, or a chain in which each block
	// is the only way on from the one before
	straight := true
	for i := 1; i < len(errBlocks); i++ {
		if len(errBlocks[i-1].Succs) != 1 || errBlocks[i-1].Succs[0] != errBlocks[i] || len(errBlocks[i].Preds) != 1 {
			straight = false
		}
	}
	switch {
	case len(migErr) == 0:
		c.r.Unknown("R5", key, c.pos(f), "no call of the package returning an error is made in the function: the path of an expression that fails to migrate is not found")
	case nErr == 0 && handedOn:
		c.r.Unknown("R5", key, c.pos(f), "on the error path the buffer is handed to a helper; what it writes is not followed")
	case !straight:
		c.r.Unknown("R5", key, c.pos(f), "the writes on the error path are spread over branches; their order is not decided")
	default:
		var shown []string
		good := nErr > 0 && len(written.alts) > 0 && len(stray) == 0
		for _, a := range written.alts {
			shown = append(shown, a.String())
			ps := a.pieces
			if len(ps) != 3 || ps[0].hole != nil || ps[0].lit != "@(" || !isScannedToken(ps[1].hole) || ps[2].hole != nil || ps[2].lit != ")" {
				good = false
			}
		}
		sort.Strings(stray)
		c.r.Check(good, "R5", key, c.pos(f), "an expression that fails to migrate is written back as @( token )", "the text written for an unmigratable expression is "+fmt.Sprint(uniq(shown))+", not @( the scanned token ); literal pieces written elsewhere: "+fmt.Sprint(stray))
	}
}

// c17IsWriteString: the WriteString method of the text buffers of the standard library.
func c17IsWriteString(o *types.Func) bool {
	n := core.ObjName(o)
	return n == "bytes.Buffer.WriteString" || n == "strings.Builder.WriteString"
}

func c17IsTextBuffer(t types.Type) bool {
	n, ok := t.(*types.Named)
	if !ok || n.Obj().Pkg() == nil {
		return false
	}
	q := n.Obj().Pkg().Path() + "." + n.Obj().Name()
	return q == "bytes.Buffer" || q == "strings.Builder"
}

// ---------------------------------------------------------------------------------------------- R6

func (c *c17) noMutableState() {
	n := 0
	globalOf := func(v ssa.Value) *ssa.Global {
		for k := 0; k < 4; k++ {
			switch x := v.(type) {
			case *ssa.Global:
				return x
			case *ssa.FieldAddr:
				v = x.X
			case *ssa.UnOp:
				v = x.X
			case *ssa.IndexAddr:
				v = x.X
			default:
				return nil
			}
		}
		return nil
	}
	var fns []*ssa.Function
	var add func(f *ssa.Function)
	add = func(f *ssa.Function) {
		fns = append(fns, f)
		for _, an := range f.AnonFuncs {
			add(an)
		}
	}
	for _, f := range c.funcs() {
		add(f)
	}
	for _, f := range fns {
		root := rootFn(f)
		if root.Name() == "init" || strings.HasPrefix(root.Name(), "init#") {
			continue
		}
		core.EachInstr(f, false, func(_ *ssa.Function, in ssa.Instruction) {
			var g *ssa.Global
			what := ""
			switch x := in.(type) {
			case *ssa.Store:
				if gg := globalOf(x.Addr); gg != nil {
					g, what = gg, "store"
				}
			case *ssa.MapUpdate:
				if gg := globalOf(x.Map); gg != nil {
					g, what = gg, "map update"
				}
			case ssa.CallInstruction:
				o := core.CalleeObj(x.Common())
				if o == nil || o.Pkg() == nil || o.Pkg().Path() != "sync" || len(x.Common().Args) == 0 {
					return
				}
				switch o.Name() {
				case "Store", "LoadOrStore", "Swap", "Delete", "LoadAndDelete", "CompareAndSwap", "CompareAndDelete", "Clear", "Put":
					if gg := globalOf(x.Common().Args[0]); gg != nil {
						g, what = gg, core.ObjName(o)
					}
				}
			}
			if g == nil || g.Pkg == nil || g.Pkg.Pkg.Path() != c.pkg.Pkg.Path() {
				return
			}
			n++
			c.r.Bad("R6", core.FuncName(root)+"->"+g.Name(), c.pos(in), "package-level "+g.Name()+" is written ("+what+") while expressions are migrated: what a template migrates to then depends on what this process migrated earlier (for example a cached result keyed by fewer arguments than the function has)")
		})
	}
	c.r.OK("R6", "expressions/no-package-state-written", "flows/definition/legacy/expressions", fmt.Sprintf("%d functions scanned, %d writes to package-level variables outside init", len(fns), n))
}

// ---------------------------------------------------------------------------------------------- R7

// c17ReturnTypeAllowed: entries of functionReturnTypes whose type is not the Go type the function returns.
var c17ReturnTypeAllowed = map[string]string{
	"format_date": "returns text — the formatted date — which the legacy arithmetic treated as a date; `date`+n on it is migrated to datetime_add, which parses the text",
}

var c17XTypeOf = map[string]string{"number": "XNumber", "datetime": "XDateTime", "date": "XDate", "time": "XTime", "text": "XText", "boolean": "XBoolean"}

func c17R7(p *core.Program, r *core.Report) {
	epk := p.Pkg("flows/definition/legacy/expressions")
	fpk := p.Pkg("excellent/functions")
	if epk == nil || fpk == nil {
		r.Errorf("packages legacy/expressions / excellent/functions not loaded")
		return
	}
	// the table
	table := map[string]string{}
	var tablePos token.Pos
	for _, file := range epk.Syntax {
		ast.Inspect(file, func(n ast.Node) bool {
			vs, ok := n.(*ast.ValueSpec)
			if !ok || len(vs.Names) != 1 || vs.Names[0].Name != "functionReturnTypes" || len(vs.Values) != 1 {
				return true
			}
			cl, ok := vs.Values[0].(*ast.CompositeLit)
			if !ok {
				return true
			}
			tablePos = vs.Pos()
			for _, e := range cl.Elts {
				kv, ok := e.(*ast.KeyValueExpr)
				if !ok {
					continue
				}
				k, ok1 := epk.TypesInfo.Types[kv.Key]
				v, ok2 := epk.TypesInfo.Types[kv.Value]
				if ok1 && ok2 && k.Value != nil && v.Value != nil {
					table[constant.StringVal(k.Value)] = constant.StringVal(v.Value)
				}
			}
			return false
		})
	}
	if !r.Require("function_return_type_entries", len(table), 5) {
		return
	}
	// the function table: name -> implementation (the innermost function named in the entry that returns an XValue)
	impl := map[string]*ssa.Function{}
	for _, file := range fpk.Syntax {
		ast.Inspect(file, func(n ast.Node) bool {
			cl, ok := n.(*ast.CompositeLit)
			if !ok {
				return true
			}
			mt, ok := fpk.TypesInfo.TypeOf(cl).Underlying().(*types.Map)
			if !ok {
				return true
			}
			if nn, ok := mt.Elem().(*types.Named); !ok || nn.Obj().Name() != "XFunc" {
				return true
			}
			for _, e := range cl.Elts {
				kv, ok := e.(*ast.KeyValueExpr)
				if !ok {
					continue
				}
				kt, ok := fpk.TypesInfo.Types[kv.Key]
				if !ok || kt.Value == nil {
					continue
				}
				var inner *types.Func
				ast.Inspect(kv.Value, func(m ast.Node) bool {
					id, ok := m.(*ast.Ident)
					if !ok {
						return true
					}
					fo, ok := fpk.TypesInfo.Uses[id].(*types.Func)
					if !ok {
						return true
					}
					sig := fo.Type().(*types.Signature)
					if sig.Results().Len() == 1 && core.ShortType(sig.Results().At(0).Type()) == "excellent/types.XValue" {
						inner = fo
					}
					return true
				})
				if inner != nil {
					impl[constant.StringVal(kt.Value)] = p.SSA.FuncValue(inner)
				}
			}
			return true
		})
	}
	if !r.Require("excellent_function_table_entries", len(impl), 60) {
		return
	}
	for _, name := range core.SortedKeys(table) {
		want := table[name]
		key := "functionReturnTypes/" + name
		fn := impl[name]
		if fn == nil {
			// a dead entry: a call of that name does not evaluate whatever is made of the operator next to it
			r.OK("R7", key, p.Pos(tablePos), name+" is not a function of the excellent function table: the entry never applies to a call that evaluates")
			continue
		}
		got := c17ReturnedXTypes(fn, 0)
		delete(got, "XError")
		names := core.SortedKeys(got)
		okT := len(names) == 1 && names[0] == c17XTypeOf[want]
		if okT {
			r.OK("R7", key, p.Pos(fn.Pos()), fn.Name()+" returns "+strings.Join(names, ","))
		} else if reason, ok := c17ReturnTypeAllowed[name]; ok {
			r.OK("R7", key, p.Pos(fn.Pos()), "listed: "+reason)
		} else {
			r.Bad("R7", key, p.Pos(tablePos), fmt.Sprintf("the migration treats the result of %s(...) as %s, but %s returns %s: a `+` or `-` next to the call is migrated to the wrong kind of arithmetic", name, want, fn.Name(), strings.Join(names, ",")))
		}
	}
}

// c17ReturnedNodes: the node types of package excellent that fn returns a freshly allocated pointer to, followed through
// the functions of its own package it returns the (statically dispatched) result of.
func c17ReturnedNodes(fn *ssa.Function, depth int) map[string]bool {
	out := map[string]bool{}
	var addVal func(v ssa.Value, seen map[ssa.Value]bool)
	addVal = func(v ssa.Value, seen map[ssa.Value]bool) {
		if v == nil || seen[v] {
			return
		}
		seen[v] = true
		switch x := v.(type) {
		case *ssa.Phi:
			for _, e := range x.Edges {
				addVal(e, seen)
			}
		case *ssa.MakeInterface:
			addVal(x.X, seen)
		case *ssa.ChangeInterface:
			addVal(x.X, seen)
		case *ssa.ChangeType:
			addVal(x.X, seen)
		case *ssa.Alloc:
			if !x.Heap {
				return
			}
			if n, ok := x.Type().(*types.Pointer).Elem().(*types.Named); ok && n.Obj().Pkg() != nil && core.RelPkg(n.Obj().Pkg().Path()) == "excellent" {
				out[n.Obj().Name()] = true
			}
		case *ssa.Call:
			cf := x.Call.StaticCallee()
			if cf != nil && len(cf.Blocks) > 0 && depth < 3 && core.FuncPkgPath(cf) == core.FuncPkgPath(fn) && cf.Signature.Results().Len() == 1 {
				for k := range c17ReturnedNodes(cf, depth+1) {
					out[k] = true
				}
			}
		}
	}
	for _, ret := range core.Returns(fn) {
		if len(ret.Results) != 1 {
			continue
		}
		addVal(ret.Results[0], map[ssa.Value]bool{})
	}
	return out
}

// c17ReturnedXTypes: the concrete types (names in excellent/types) of the XValues fn returns, followed through the
// functions of its own package and of excellent/types it returns the result of.
func c17ReturnedXTypes(fn *ssa.Function, depth int) map[string]bool {
	out := map[string]bool{}
	var addVal func(v ssa.Value, seen map[ssa.Value]bool)
	addVal = func(v ssa.Value, seen map[ssa.Value]bool) {
		if seen[v] {
			return
		}
		seen[v] = true
		switch x := v.(type) {
		case *ssa.Phi:
			for _, e := range x.Edges {
				addVal(e, seen)
			}
		case *ssa.MakeInterface:
			t := x.X.Type()
			if pt, ok := t.(*types.Pointer); ok {
				t = pt.Elem()
			}
			if n, ok := t.(*types.Named); ok {
				out[n.Obj().Name()] = true
			}
		case *ssa.ChangeInterface:
			addVal(x.X, seen)
		case *ssa.Const:
			// nil XValue: no type
		case *ssa.Call:
			cf := x.Call.StaticCallee()
			if cf != nil && len(cf.Blocks) > 0 && depth < 3 && cf.Signature.Results().Len() >= 1 {
				for k := range c17ReturnedXTypes(cf, depth+1) {
					out[k] = true
				}
			} else {
				out["?"+x.Name()] = true
			}
		case *ssa.Extract:
			if c, ok := x.Tuple.(*ssa.Call); ok && x.Index == 0 {
				addVal(c, seen)
			} else {
				out["?"+x.Name()] = true
			}
		default:
			out["?"+v.Name()] = true
		}
	}
	for _, ret := range core.Returns(fn) {
		if len(ret.Results) == 0 {
			continue
		}
		addVal(ret.Results[0], map[ssa.Value]bool{})
	}
	return out
}

// isParseOf: v is the expression result of excellent.Parse(val, …).
func (c *c17) isParseOf(v, val ssa.Value) bool {
	ex, ok := stripIface(v).(*ssa.Extract)
	if !ok || ex.Index != 0 {
		return false
	}
	pc, ok := ex.Tuple.(*ssa.Call)
	if !ok {
		return false
	}
	o := core.CalleeObj(&pc.Call)
	return o != nil && core.ObjName(o) == "excellent.Parse" && stripIface(pc.Call.Args[0]) == stripIface(val)
}

// ---------------------------------------------------------------------------------------------- R8

func c17R8(p *core.Program, r *core.Report) {
	n := 0
	for _, fn := range p.ModuleFunctions() {
		if core.RelPkg(core.FuncPkgPath(fn)) != c17Pkg || p.IsTestFile(fn.Pos()) {
			continue
		}
		for _, cs := range core.Calls(fn, false) {
			o := core.CalleeObj(cs.Common())
			if o == nil || core.ObjName(o) != "fmt.Sprintf" || len(cs.Common().Args) != 2 {
				continue
			}
			format := cs.Common().Args[0]
			if _, isConst := format.(*ssa.Const); isConst {
				continue
			}
			// the variadic argument is a whole slice (not a literal list of values): its length is not fixed here
			if core.VariadicArgs(cs.Common().Args[1]) != nil {
				continue
			}
			// the []string parameter the values come from
			var params *ssa.Parameter
			for _, q := range fn.Params {
				if sl, ok := q.Type().Underlying().(*types.Slice); ok && isStringType(sl.Elem()) {
					params = q
				}
			}
			if params == nil {
				continue
			}
			n++
			// a value the function literal captured stands for what the enclosing function bound it to
			outer := func(v ssa.Value) ssa.Value {
				if ld, ok := v.(*ssa.UnOp); ok && ld.Op == token.MUL {
					if _, isFV := ld.X.(*ssa.FreeVar); isFV {
						v = ld.X
					}
				}
				fv, ok := v.(*ssa.FreeVar)
				if !ok || fn.Parent() == nil {
					return v
				}
				idx := -1
				for i, q := range fn.FreeVars {
					if q == fv {
						idx = i
					}
				}
				var bound ssa.Value
				core.EachInstr(fn.Parent(), false, func(_ *ssa.Function, in ssa.Instruction) {
					if mc, ok := in.(*ssa.MakeClosure); ok && mc.Fn == ssa.Value(fn) && idx >= 0 && idx < len(mc.Bindings) {
						bound = mc.Bindings[idx]
					}
				})
				if al, ok := bound.(*ssa.Alloc); ok { // a captured variable is a cell: what was stored into it
					for _, ref := range *al.Referrers() {
						if st, ok := ref.(*ssa.Store); ok && st.Addr == ssa.Value(al) {
							return st.Val
						}
					}
				}
				if bound != nil {
					return bound
				}
				return v
			}
			format = outer(format)
			exact, how := false, "no comparison of len("+params.Name()+") with a count taken from the template decides the call"
			for _, ce := range core.ControllingConds(cs.Instr.Block()) {
				bo, ok := ce.Cond.(*ssa.BinOp)
				if !ok {
					continue
				}
				var other ssa.Value
				if a, isLen := isLenCall(bo.X); isLen && a == ssa.Value(params) {
					other = bo.Y
				} else if a, isLen := isLenCall(bo.Y); isLen && a == ssa.Value(params) {
					other = bo.X
				}
				if other == nil {
					continue
				}
				fromTemplate := false
				for w := range core.BackSlice(outer(other), func(*ssa.Call) bool { return true }) {
					if w == format || (canon(w) != "" && canon(w) == canon(format)) {
						fromTemplate = true
					}
				}
				if !fromTemplate {
					continue
				}
				if (bo.Op == token.EQL && ce.Taken) || (bo.Op == token.NEQ && !ce.Taken) {
					exact = true
				} else {
					how = "the comparison in front of the call is " + bo.Op.String() + ", not equality: one direction of a wrong parameter count gets through"
				}
			}
			r.Check(exact, "R8", core.FuncName(fn)+"/Sprintf-with-exact-parameter-count", p.Pos(cs.Pos()), "reached only when len("+params.Name()+") equals the count taken from the template", how+": a legacy call with the wrong number of parameters is migrated, without an error, to an expression that does not parse")
		}
	}
	r.Count("template_sprintf_sites", n)
	r.Require("template_sprintf_sites", n, 1)
}
