package rules

import (
	"fmt"
	"go/ast"
	"go/constant"
	"go/token"
	"go/types"
	"reflect"
	"sort"
	"strings"

	"golang.org/x/tools/go/ssa"

	"verif/checker/core"
)

func init() { register("C20", checkC20) }

// recvCanon renders a value canonically with the receiver of fn called "recv".
func recvCanon(v ssa.Value, fn *ssa.Function) string {
	s := canon(v)
	if fn != nil && fn.Signature.Recv() != nil && len(fn.Params) > 0 {
		rn := fn.Params[0].Name()
		if s == rn {
			return "recv"
		}
		if strings.HasPrefix(s, rn+".") {
			return "recv." + strings.TrimPrefix(s, rn+".")
		}
		// embedded receiver paths like a.baseAction.X keep their tail
		s = strings.ReplaceAll(s, "("+rn+".", "(recv.")
		s = strings.ReplaceAll(s, ","+rn+".", ",recv.")
	}
	return s
}

func recvNamed(fn *ssa.Function) *types.Named {
	if fn == nil || fn.Signature.Recv() == nil {
		return nil
	}
	t := fn.Signature.Recv().Type()
	if pt, ok := t.(*types.Pointer); ok {
		t = pt.Elem()
	}
	n, _ := t.(*types.Named)
	return n
}

// globalInitStrings returns the constant strings in the composite-literal initialiser of a package-level var
// (slice elements, or map values when mapValues is set).
func globalInitStrings(p *core.Program, g *ssa.Global) ([]string, bool) {
	pk := p.ByPkg[g.Pkg.Pkg.Path()]
	if pk == nil {
		return nil, false
	}
	for _, f := range pk.Syntax {
		for _, d := range f.Decls {
			gd, ok := d.(*ast.GenDecl)
			if !ok || gd.Tok != token.VAR {
				continue
			}
			for _, sp := range gd.Specs {
				vs := sp.(*ast.ValueSpec)
				for i, nm := range vs.Names {
					if nm.Name != g.Name() || i >= len(vs.Values) {
						continue
					}
					cl, ok := vs.Values[i].(*ast.CompositeLit)
					if !ok {
						return nil, false
					}
					var out []string
					for _, e := range cl.Elts {
						if kv, ok := e.(*ast.KeyValueExpr); ok {
							e = kv.Value
						}
						tv, ok := pk.TypesInfo.Types[e]
						if !ok || tv.Value == nil || tv.Value.Kind() != constant.String {
							return nil, false
						}
						out = append(out, constant.StringVal(tv.Value))
					}
					return out, true
				}
			}
		}
	}
	return nil, false
}

// possibleStrings: the constant strings v may hold (consts, phis of consts, lookups in constant global maps);
// nonConst collects canon forms of non-constant sources.
func possibleStrings(p *core.Program, v ssa.Value, fn *ssa.Function) (consts []string, nonConst []string) {
	seen := map[ssa.Value]bool{}
	var walk func(v ssa.Value)
	walk = func(v ssa.Value) {
		if seen[v] {
			return
		}
		seen[v] = true
		v = core.StripConv(v)
		switch x := v.(type) {
		case *ssa.Const:
			if s, ok := core.ConstString(x); ok {
				consts = append(consts, s)
				return
			}
		case *ssa.Phi:
			for _, e := range x.Edges {
				walk(e)
			}
			return
		case *ssa.Lookup:
			if ld, ok := x.X.(*ssa.UnOp); ok && ld.Op == token.MUL {
				if g, ok := ld.X.(*ssa.Global); ok {
					if vals, ok := globalInitStrings(p, g); ok {
						consts = append(consts, vals...)
						return
					}
				}
			}
		case *ssa.Extract:
			walk(x.Tuple)
			return
		}
		nonConst = append(nonConst, recvCanon(v, fn))
	}
	walk(v)
	return
}

// sliceElemStrings: elements of a []string value: a constant global slice, or a local literal.
func sliceElemStrings(p *core.Program, v ssa.Value, fn *ssa.Function) (consts []string, nonConst []string, ok bool) {
	v = core.StripConv(v)
	switch x := v.(type) {
	case *ssa.UnOp:
		if x.Op == token.MUL {
			if g, isG := x.X.(*ssa.Global); isG {
				vals, ok := globalInitStrings(p, g)
				return vals, nil, ok
			}
		}
	case *ssa.Slice:
		if al, isA := x.X.(*ssa.Alloc); isA {
			for _, ref := range *al.Referrers() {
				if ia, ok := ref.(*ssa.IndexAddr); ok {
					for _, r2 := range *ia.Referrers() {
						if st, ok := r2.(*ssa.Store); ok {
							c, n := possibleStrings(p, st.Val, fn)
							consts = append(consts, c...)
							nonConst = append(nonConst, n...)
						}
					}
				}
			}
			return consts, nonConst, true
		}
	case *ssa.Phi:
		all := true
		for _, e := range x.Edges {
			c, n, ok := sliceElemStrings(p, e, fn)
			if !ok {
				all = false
			}
			consts = append(consts, c...)
			nonConst = append(nonConst, n...)
		}
		return consts, nonConst, all
	case *ssa.MakeSlice:
		return nil, nil, true
	case *ssa.Const:
		return nil, nil, true // nil slice
	case *ssa.Call:
		// names collected in a loop (EnumerateResults): canon of the call
		return nil, []string{recvCanon(v, fn)}, true
	}
	return nil, []string{recvCanon(v, fn)}, false
}

func paramIndex(fn *ssa.Function, name string) int {
	for i, prm := range fn.Params {
		if prm.Name() == name {
			return i
		}
	}
	return -1
}

type c20Save struct {
	site     core.CallSite
	owner    *types.Named
	ownerFn  *ssa.Function
	nameExpr string
	cats     []string
	catExprs []string
}

func checkC20(p *core.Program, r *core.Report) {
	r.Rule("R1", "saves => declares: Run.SaveResult is called only from baseAction.saveResult and baseRouter.routeToCategory; every action type whose methods reach a save implements inspect.ResultContainer, declares the same name field, and lists every constant category that can reach the save; routers declare resultName with all category names")
	r.Rule("R2", "every asset-reference field of an action struct is visible to the reflection walker (exported, json-named) or the type declares its dependencies explicitly")
	r.Rule("R4", "extractExitsFromWaits includes every exit of every node whose router has a wait (no other filter); node enumerators cover all actions and the router")
	r.Rule("R5", "every action struct field whose value reaches Run.EvaluateTemplate* carries engine:\"evaluated\" (else template-borne dependencies are invisible to inspection)")
	r.Rule("R9", "the exits a resumed session can leave a wait by are exits of the waiting node: a category's exit is validated against the node's exits at load (imported from C01/R10), which is what makes `every exit of every waiting node` the complete list")
	importObligations(p, r, "C01", map[string]bool{"R10": true}, "R9", "a wait can be left by an exit that inspection does not list")
	r.Rule("R12", "every way a template can read a contact field is a way inspection knows: the paths through the run context that end at the contact's field values — computed from the map literals of the Context methods, starting at run.RootContext and following flows.Context(env, x) to the Context method of x's type and flows.ContextFunc to the method it is given — are all rows of inspect.fieldRefPaths (a path missing there reads a field at run time that the flow's dependencies do not list)")
	c20R12(p, r)
	r.Rule("R13", "a fixed reference is resolved by what inspection lists: in flows/actions a by-name lookup of an asset (FindByName on the group, label, topic … assets) is given a constant or text that derives from an evaluated template (a name_match reference, a legacy variable) — never the saved Name of a reference whose UUID did not resolve: inspection lists that reference by its UUID (as missing), so a run that falls back to the name touches an asset the inspection does not show")
	c20R13(p, r)
	r.Rule("R11", "a session is only resumed at a node that waits: tryToResume ends the session as failed when the node has no router or the router no wait (imported from C10/R3) — otherwise the resumed run leaves by the exits of a node whose exits inspection does not list as waiting exits")
	importObligations(p, r, "C10", map[string]bool{"R3": true}, "R11", "a session can be resumed at a node without a wait")
	r.Rule("R10", "what validation admits, inspection recognises: the spelling of a case's test type that SwitchRouter.Validate accepts is not laxer than the one Case.Dependencies / inspection compares — if any consumer of Case.Type compares it exactly, Validate looks it up exactly too (a type admitted only after lower-casing runs as has_group but its group is not listed as a dependency)")
	c20R10(p, r)
	r.Rule("R8", "the extraction chain drops nothing: from the tagged fields to the recorded references — templateValues' field callback, Translations, extractTemplates, the callbacks of flow.extract and its recordAssetRef — every hand-over (a call of the include callback, of the next stage, or the append that records) is decided only by loop bounds, type-switch arms, nil tests, the EngineField flags and Reference.Variable(); no hand-over is followed by leaving the enclosing loop early")
	c20R8(p, r)
	r.Rule("R7", "routers enumerate what they use: every receiver field of a router type whose value reaches Run.EvaluateTemplate* in its methods is passed on by its EnumerateTemplates, and every field whose type can hold a DependencyContainer or an asset reference by its EnumerateDependencies")
	r.Assumption("inspect.walk visits exported json-tagged fields recursively (reflection semantics are not re-derived)")

	actIface := p.Interface("flows", "Action")
	if actIface == nil {
		r.Errorf("flows.Action not found")
		return
	}
	var actionTypes []*types.Named
	for _, n := range p.Implementers(actIface) {
		if core.RelPkg(n.Obj().Pkg().Path()) == "flows/actions" {
			actionTypes = append(actionTypes, n)
		}
	}
	if !r.Require("action_types", len(actionTypes), 24) {
		return
	}
	isAction := map[*types.Named]bool{}
	for _, n := range actionTypes {
		isAction[n] = true
	}

	saveResult := p.Method("flows/actions", "baseAction", "saveResult")
	routeToCat := p.Method("flows/routers", "baseRouter", "routeToCategory")
	if saveResult == nil || routeToCat == nil {
		r.Errorf("baseAction.saveResult / baseRouter.routeToCategory not found")
		return
	}

	// ---- R1a who may call Run.SaveResult
	saveOwners := p.HelperClosure(map[*ssa.Function]bool{saveResult: true, routeToCat: true})
	nSave := 0
	for _, cs := range p.CallsToName("flows.Run.SaveResult") {
		if p.IsTestFile(cs.Pos()) {
			continue
		}
		nSave++
		// the two choke points, or an unexported helper called only from them
		ok := saveOwners[cs.Caller]
		r.Check(ok, "R1", core.FuncName(cs.Caller)+"->Run.SaveResult", p.Pos(cs.Pos()), "declared choke point",
			"a result is saved outside baseAction.saveResult / baseRouter.routeToCategory: inspection cannot know about it")
	}
	r.Require("run_saveresult_sites", nSave, 2)

	// ---- R1b action save sites, through wrappers whose name argument is their own parameter
	var saves []c20Save
	var collect func(target *ssa.Function, nameIdx, catIdx int, fixedCats []string, depth int)
	collect = func(target *ssa.Function, nameIdx, catIdx int, fixedCats []string, depth int) {
		if depth > 4 {
			return
		}
		for _, cs := range p.CallsTo(target) {
			if p.IsTestFile(cs.Pos()) {
				continue
			}
			args := cs.Common().Args
			if nameIdx >= len(args) {
				continue
			}
			nameV := core.StripConv(args[nameIdx])
			var cats, catExprs []string
			if catIdx >= 0 && catIdx < len(args) {
				cats, catExprs = possibleStrings(p, args[catIdx], cs.Caller)
			} else {
				cats = fixedCats
			}
			if prm, isParam := nameV.(*ssa.Parameter); isParam && prm.Parent() == cs.Caller {
				// forwarding wrapper (saveWebhookResult): the obligations move to its callers
				ni := paramIndex(cs.Caller, prm.Name())
				ci := -1
				fc := cats
				if len(catExprs) > 0 {
					// category derived from a parameter too?
					if catIdx >= 0 {
						if cp, ok := core.StripConv(args[catIdx]).(*ssa.Parameter); ok {
							ci = paramIndex(cs.Caller, cp.Name())
							fc = nil
						}
					}
				}
				collect(cs.Caller, ni, ci, fc, depth+1)
				continue
			}
			saves = append(saves, c20Save{site: cs, owner: recvNamed(cs.Caller), ownerFn: cs.Caller, nameExpr: recvCanon(nameV, cs.Caller), cats: cats, catExprs: catExprs})
		}
	}
	collect(saveResult, paramIndex(saveResult, "name"), paramIndex(saveResult, "category"), nil, 0)
	if !r.Require("action_save_sites", len(saves), 5) {
		return
	}
	rcIface := p.Interface("flows/inspect", "ResultContainer")
	if rcIface == nil {
		r.Errorf("inspect.ResultContainer not found")
		return
	}
	byOwner := map[*types.Named][]c20Save{}
	for _, s := range saves {
		if s.owner == nil {
			r.Bad("R1", core.FuncName(s.ownerFn)+"/save-owner", p.Pos(s.site.Pos()), "result saved from a function that is not a method of an action type: no type can declare it")
			continue
		}
		byOwner[s.owner] = append(byOwner[s.owner], s)
	}
	var owners []*types.Named
	for o := range byOwner {
		owners = append(owners, o)
	}
	sort.Slice(owners, func(i, j int) bool { return owners[i].Obj().Name() < owners[j].Obj().Name() })
	r.Count("action_types_saving_results", len(owners))
	for _, o := range owners {
		tn := core.QualName(o)
		impl := types.Implements(types.NewPointer(o), rcIface) || types.Implements(o, rcIface)
		// a base type embedded by action types: every embedding action type must implement it
		if !isAction[o] {
			for _, at := range actionTypes {
				if embeds(at, o) {
					ok := types.Implements(types.NewPointer(at), rcIface)
					r.Check(ok, "R1", core.QualName(at)+"/declares-results", p.Pos(at.Obj().Pos()), "embeds a saving base type and implements ResultContainer",
						"embeds "+tn+" whose methods save a run result, but does not implement inspect.ResultContainer")
				}
			}
		}
		if !r.Check(impl, "R1", tn+"/declares-results", p.Pos(byOwner[o][0].site.Pos()), "implements inspect.ResultContainer",
			tn+" saves a run result ("+byOwner[o][0].nameExpr+") but has no Results() method: Inspect() lists no result for it") {
			continue
		}
		resFn := p.Method(core.RelPkg(o.Obj().Pkg().Path()), o.Obj().Name(), "Results")
		if resFn == nil || resFn.Blocks == nil {
			r.Errorf("Results method of %s not resolvable", tn)
			continue
		}
		// declared names / categories
		var declNames []string
		var declCats, declCatExprs []string
		catsKnown := true
		for _, cs := range core.Calls(resFn, true) {
			oo := core.CalleeObj(cs.Common())
			if oo == nil || core.ObjName(oo) != "flows.NewResultInfo" {
				continue
			}
			a := cs.Common().Args
			declNames = append(declNames, recvCanon(core.StripConv(a[0]), resFn))
			c, n, ok := sliceElemStrings(p, a[1], resFn)
			if !ok {
				catsKnown = false
			}
			declCats = append(declCats, c...)
			declCatExprs = append(declCatExprs, n...)
		}
		if len(declNames) == 0 {
			r.Bad("R1", tn+"/declares-results", p.Pos(resFn.Pos()), "Results() never calls flows.NewResultInfo")
			continue
		}
		for _, s := range byOwner[o] {
			fnn := s.ownerFn.Name()
			okName := false
			for _, dn := range declNames {
				if dn == s.nameExpr {
					okName = true
				}
			}
			r.Check(okName, "R1", fmt.Sprintf("%s.%s/name %s", tn, fnn, s.nameExpr), p.Pos(s.site.Pos()), "declared under the same field",
				fmt.Sprintf("result saved under %s but Results() declares %v", s.nameExpr, declNames))
			for _, c := range s.cats {
				has := false
				for _, dc := range declCats {
					if dc == c {
						has = true
					}
				}
				if !catsKnown || (len(declCats) == 0 && len(declCatExprs) == 0) {
					has = true // categories not fixed
				}
				r.Check(has, "R1", fmt.Sprintf("%s.%s/category %q", tn, fnn, c), p.Pos(s.site.Pos()), "category is among the declared ones",
					fmt.Sprintf("category %q can be saved but Results() lists only %v", c, declCats))
			}
			for _, ce := range s.catExprs {
				has := len(declCats) == 0 && len(declCatExprs) == 0
				for _, de := range declCatExprs {
					if de == ce {
						has = true
					}
				}
				r.Check(has, "R1", fmt.Sprintf("%s.%s/category-expr %s", tn, fnn, ce), p.Pos(s.site.Pos()), "non-constant category is declared from the same field",
					fmt.Sprintf("category %s can be saved but Results() lists %v %v", ce, declCats, declCatExprs))
			}
		}
	}
	// routers
	{
		enum := p.Method("flows/routers", "baseRouter", "EnumerateResults")
		if enum == nil {
			r.Errorf("baseRouter.EnumerateResults not found")
		} else {
			var savedName, savedCat string
			for _, ec := range core.EffectiveCalls(routeToCat, 2) {
				cs := ec.Inner
				if oo := core.CalleeObj(cs.Common()); oo != nil && core.ObjName(oo) == "flows.NewResult" {
					savedName = recvCanon(core.StripConv(cs.Common().Args[0]), cs.Caller)
					savedCat = recvCanon(core.StripConv(cs.Common().Args[2]), cs.Caller)
				}
			}
			var declName string
			catsFromAll := false
			for _, cs := range core.Calls(enum, false) {
				if oo := core.CalleeObj(cs.Common()); oo != nil && core.ObjName(oo) == "flows.NewResultInfo" {
					declName = recvCanon(core.StripConv(cs.Common().Args[0]), enum)
					// the categories slice has len(recv.categories) and every element is categories[i].Name()
					catsFromAll = c20AllCategoryNames(enum, cs.Common().Args[1])
				}
			}
			r.Check(savedName != "" && savedName == declName, "R1", "flows/routers.baseRouter/name", p.Pos(routeToCat.Pos()),
				"router saves and declares "+savedName, fmt.Sprintf("router saves under %q but declares %q", savedName, declName))
			r.Check(strings.Contains(savedCat, "flows.Category.Name("), "R1", "flows/routers.baseRouter/saved-category", p.Pos(routeToCat.Pos()),
				"saved category is the Name() of the selected category", "saved category is "+savedCat)
			r.Check(catsFromAll, "R1", "flows/routers.baseRouter/declared-categories", p.Pos(enum.Pos()),
				"declares Name() of every element of recv.categories", "EnumerateResults does not list the names of all categories")
		}
	}

	// ---- R2 reference fields visible
	refIface := p.Interface("assets", "Reference")
	depIface := p.Interface("flows/inspect", "DependencyContainer")
	if refIface == nil || depIface == nil {
		r.Errorf("assets.Reference / inspect.DependencyContainer not found")
		return
	}
	nRef := 0
	for _, at := range actionTypes {
		declares := types.Implements(types.NewPointer(at), depIface)
		var visit func(n *types.Named, path string, seen map[*types.Named]bool)
		visit = func(n *types.Named, path string, seen map[*types.Named]bool) {
			if seen[n] {
				return
			}
			seen[n] = true
			st, ok := n.Underlying().(*types.Struct)
			if !ok {
				return
			}
			for i := 0; i < st.NumFields(); i++ {
				f := st.Field(i)
				tag := reflect.StructTag(st.Tag(i))
				ft := f.Type()
				elem := ft
				if sl, ok := elem.(*types.Slice); ok {
					elem = sl.Elem()
				}
				isRef := false
				if pt, ok := elem.(*types.Pointer); ok {
					if types.Implements(pt, refIface) {
						isRef = true
					}
				}
				jsonName := strings.Split(tag.Get("json"), ",")[0]
				if isRef {
					nRef++
					key := core.QualName(at) + path + "." + f.Name()
					visible := f.Exported() && jsonName != "" && jsonName != "-"
					if visible {
						r.OK("R2", key, p.Pos(f.Pos()), "exported, json:\""+jsonName+"\"")
					} else if declares {
						r.OK("R2", key, p.Pos(f.Pos()), "type implements DependencyContainer")
					} else {
						r.Bad("R2", key, p.Pos(f.Pos()), "asset reference field is skipped by the reflection walker (unexported or without json name) and the type declares no dependencies")
					}
					continue
				}
				// descend into embedded structs and json-visible struct/slice-of-struct fields
				var sub *types.Named
				e2 := elem
				if pt, ok := e2.(*types.Pointer); ok {
					e2 = pt.Elem()
				}
				if nn, ok := e2.(*types.Named); ok {
					if _, isSt := nn.Underlying().(*types.Struct); isSt && nn.Obj().Pkg() != nil && core.InModule(nn.Obj().Pkg().Path()) {
						sub = nn
					}
				}
				if sub != nil && (f.Embedded() || (jsonName != "" && jsonName != "-")) {
					visit(sub, path+"."+f.Name(), seen)
				}
			}
		}
		visit(at, "", map[*types.Named]bool{})
	}
	r.Require("action_reference_fields", nRef, 15)

	// ---- R4
	c20R4(p, r)

	// ---- R5 evaluated templates are tagged
	c20R5(p, r, isAction)
	// ---- R7 routers enumerate what they use
	c20R7(p, r)

	// ---- R6 merge of extracted results
	r.Rule("R6", "NewResultSpecs merges every category of every extracted result into the spec of its key (no other filter) and copies key/name/categories into new specs")
	c20R6(p, r)
}

func embeds(t, base *types.Named) bool {
	st, ok := t.Underlying().(*types.Struct)
	if !ok {
		return false
	}
	for i := 0; i < st.NumFields(); i++ {
		f := st.Field(i)
		if !f.Embedded() {
			continue
		}
		ft := f.Type()
		if pt, ok := ft.(*types.Pointer); ok {
			ft = pt.Elem()
		}
		if n, ok := ft.(*types.Named); ok {
			if n == base || embeds(n, base) {
				return true
			}
		}
	}
	return false
}

// c20AllCategoryNames: the slice passed as categories is made with len(recv.categories) and filled, in a loop over the
// same field, with element.Name().
func c20AllCategoryNames(fn *ssa.Function, v ssa.Value) bool {
	ms, ok := core.StripConv(v).(*ssa.MakeSlice)
	if !ok {
		return false
	}
	lenOK := false
	for x := range core.BackSlice(ms.Len, func(c *ssa.Call) bool { return true }) {
		if fa, ok := x.(*ssa.FieldAddr); ok && core.FieldAddrVar(fa).Name() == "categories" {
			lenOK = true
		}
	}
	storeOK := false
	for _, ref := range *ms.Referrers() {
		ia, ok := ref.(*ssa.IndexAddr)
		if !ok {
			continue
		}
		if _, isConst := ia.Index.(*ssa.Const); isConst {
			continue
		}
		for _, r2 := range *ia.Referrers() {
			st, ok := r2.(*ssa.Store)
			if !ok {
				continue
			}
			c, ok := st.Val.(*ssa.Call)
			if !ok || !c.Call.IsInvoke() || c.Call.Method.Name() != "Name" {
				continue
			}
			// receiver is recv.categories[sameIndex]
			for x := range core.BackSlice(c.Call.Value, nil) {
				if ia2, ok := x.(*ssa.IndexAddr); ok && ia2.Index == ia.Index {
					for y := range core.BackSlice(ia2.X, nil) {
						if fa, ok := y.(*ssa.FieldAddr); ok && core.FieldAddrVar(fa).Name() == "categories" {
							storeOK = true
						}
					}
				}
			}
		}
	}
	return lenOK && storeOK
}

func c20R4(p *core.Program, r *core.Report) {
	fn := p.Method("flows/definition", "flow", "extractExitsFromWaits")
	if fn == nil {
		r.Errorf("flow.extractExitsFromWaits not found")
		return
	}
	// the call Exit.UUID() whose result is collected
	var uuidCalls []*ssa.Call
	core.EachInstr(fn, true, func(f *ssa.Function, in ssa.Instruction) {
		if c, ok := in.(*ssa.Call); ok && c.Call.IsInvoke() && c.Call.Method.Name() == "UUID" {
			if n, ok := c.Call.Value.Type().(*types.Named); ok && n.Obj().Name() == "Exit" {
				uuidCalls = append(uuidCalls, c)
			}
		}
	})
	if len(uuidCalls) != 1 {
		r.Bad("R4", "flows/definition.flow.extractExitsFromWaits/exit-uuid", p.Pos(fn.Pos()), fmt.Sprintf("expected exactly one Exit.UUID() collection site, found %d", len(uuidCalls)))
		return
	}
	uc := uuidCalls[0]
	// exit comes from Exits()[i] with a loop index
	fromLoop := false
	for x := range core.BackSlice(uc.Call.Value, nil) {
		if ia, ok := x.(*ssa.IndexAddr); ok {
			// a real loop index: a phi in a block that one of its own predecessors is dominated by (a back edge)
			loopIdx := false
			for z := range core.BackSlice(ia.Index, nil) {
				if ph, ok := z.(*ssa.Phi); ok {
					for _, pr := range ph.Block().Preds {
						if ph.Block().Dominates(pr) {
							loopIdx = true
						}
					}
				}
			}
			if _, isConst := ia.Index.(*ssa.Const); !isConst && loopIdx {
				for y := range core.BackSlice(ia.X, func(*ssa.Call) bool { return false }) {
					if c, ok := y.(*ssa.Call); ok && c.Call.IsInvoke() && c.Call.Method.Name() == "Exits" {
						fromLoop = true
					}
				}
			}
		}
	}
	r.Check(fromLoop, "R4", "flows/definition.flow.extractExitsFromWaits/all-exits", p.Pos(uc.Pos()),
		"iterates node.Exits() with a loop index", "does not iterate over all of node.Exits()")
	// controlling conditions: only nil tests on Router()/Wait() results and loop bounds
	bad := ""
	nConds := 0
	for _, cond := range mayConds(uc.Block()) {
		nConds++
		b, ok := cond.(*ssa.BinOp)
		if !ok {
			bad = "condition " + cond.String()
			continue
		}
		if b.Op == token.LSS { // range loop bound: index < len
			continue
		}
		if (b.Op == token.NEQ || b.Op == token.EQL) && (core.IsNilConst(b.X) || core.IsNilConst(b.Y)) {
			other := b.X
			if core.IsNilConst(b.X) {
				other = b.Y
			}
			okSrc := false
			for y := range core.BackSlice(other, func(*ssa.Call) bool { return true }) {
				if c, ok := y.(*ssa.Call); ok && c.Call.IsInvoke() && (c.Call.Method.Name() == "Router" || c.Call.Method.Name() == "Wait") {
					okSrc = true
				}
			}
			if okSrc {
				continue
			}
		}
		bad = "extra filter: " + b.String() + " (" + b.X.String() + " " + b.Op.String() + " " + b.Y.String() + ")"
	}
	r.Check(bad == "" && nConds >= 3, "R4", "flows/definition.flow.extractExitsFromWaits/no-filter", p.Pos(uc.Pos()),
		fmt.Sprintf("%d controlling conditions: loop bounds and Router()/Wait() nil tests only", nConds), "exits of waiting nodes are filtered: "+bad)
	// no early exit: after collecting an exit control goes back to the loop over the exits (no break / return)
	r.Check(!leavesLoopEarly(uc), "R4", "flows/definition.flow.extractExitsFromWaits/no-early-exit", p.Pos(uc.Pos()), "after an exit is collected the loop over node.Exits() continues",
		"the loop over node.Exits() is left after an exit has been collected: the other exits of a waiting node are not listed as waiting exits")
	// the outer loop ranges over recv.nodes
	overNodes := false
	for x := range core.BackSlice(uc.Call.Value, func(*ssa.Call) bool { return true }) {
		if fa, ok := x.(*ssa.FieldAddr); ok && core.FieldAddrVar(fa).Name() == "nodes" {
			overNodes = true
		}
	}
	r.Check(overNodes, "R4", "flows/definition.flow.extractExitsFromWaits/all-nodes", p.Pos(fn.Pos()), "ranges over recv.nodes", "does not range over the flow's nodes")

	// node enumerators: each of the 3 ranges over recv.actions (calling the inspect helper with the action) and visits recv.router
	for _, nm := range []struct{ method, helper, routerMethod string }{
		{"EnumerateTemplates", "flows/inspect.Templates", "EnumerateTemplates"},
		{"EnumerateDependencies", "flows/inspect.Dependencies", "EnumerateDependencies"},
		{"EnumerateResults", "flows/inspect.Results", "EnumerateResults"},
	} {
		m := p.Method("flows/definition", "node", nm.method)
		if m == nil {
			r.Errorf("node.%s not found", nm.method)
			continue
		}
		actOK, routerOK := false, false
		for _, cs := range core.Calls(m, false) {
			oo := core.CalleeObj(cs.Common())
			if oo != nil && core.ObjName(oo) == nm.helper {
				// arg0 derives from recv.actions[i] with loop index, with only the loop bound as controlling condition
				for x := range core.BackSlice(cs.Common().Args[0], nil) {
					if ia, ok := x.(*ssa.IndexAddr); ok {
						if _, isConst := ia.Index.(*ssa.Const); !isConst {
							for y := range core.BackSlice(ia.X, nil) {
								if fa, ok := y.(*ssa.FieldAddr); ok && core.FieldAddrVar(fa).Name() == "actions" {
									actOK = true
								}
							}
						}
					}
				}
				for _, cond := range mayConds(cs.Instr.Block()) {
					if b, ok := cond.(*ssa.BinOp); !ok || b.Op != token.LSS {
						actOK = false
					}
				}
			}
			if cs.Common().IsInvoke() && cs.Common().Method.Name() == nm.routerMethod {
				for y := range core.BackSlice(cs.Common().Value, nil) {
					if fa, ok := y.(*ssa.FieldAddr); ok && core.FieldAddrVar(fa).Name() == "router" {
						routerOK = true
					}
				}
				nOther := 0
				for _, c := range mayConds(cs.Instr.Block()) {
					if b, ok := c.(*ssa.BinOp); ok && b.Op == token.LSS {
						continue // bound of the actions loop that precedes the router
					}
					nOther++
				}
				if nOther != 1 {
					routerOK = false
				}
			}
		}
		r.Check(actOK, "R4", "flows/definition.node."+nm.method+"/all-actions", p.Pos(m.Pos()), "passes every recv.actions[i] to "+nm.helper, "not every action of the node is enumerated")
		r.Check(routerOK, "R4", "flows/definition.node."+nm.method+"/router", p.Pos(m.Pos()), "calls router."+nm.routerMethod+" under the router != nil test only", "the router is not enumerated")
	}
}

// inLoop: the instruction's block lies in the body of some loop of its function.
func inLoop(in ssa.Instruction) bool {
	b := in.Block()
	for _, h := range in.Parent().Blocks {
		if !h.Dominates(b) {
			continue
		}
		for _, pr := range h.Preds {
			if h.Dominates(pr) && core.Reachable(b, nil)[h] {
				return true
			}
		}
	}
	return false
}

// innermostLoopHeader: the header of the innermost natural loop containing b (nil when b is in no loop).
func innermostLoopHeader(blk *ssa.BasicBlock) *ssa.BasicBlock {
	var header *ssa.BasicBlock
	for _, b := range blk.Parent().Blocks {
		for _, sc := range b.Succs {
			if sc.Dominates(b) && sc.Dominates(blk) && core.Reachable(blk, nil)[sc] && (header == nil || header.Dominates(sc)) {
				header = sc
			}
		}
	}
	return header
}

// pathLeavesLoop: some path from start leaves the loop of header without going back through the header.
func pathLeavesLoop(start, header *ssa.BasicBlock) bool {
	inBody := func(b *ssa.BasicBlock) bool {
		return header.Dominates(b) && core.Reachable(b, nil)[header]
	}
	seen := map[*ssa.BasicBlock]bool{}
	var walk func(b *ssa.BasicBlock) bool
	walk = func(b *ssa.BasicBlock) bool {
		if b == header || seen[b] {
			return false
		}
		seen[b] = true
		if !inBody(b) {
			return true
		}
		for _, sc := range b.Succs {
			if walk(sc) {
				return true
			}
		}
		return len(b.Succs) == 0
	}
	return walk(start)
}

// leavesLoopEarly: from the block of `in`, some path leaves the innermost enclosing loop without going back through
// its header (a break or return after the instruction).
func leavesLoopEarly(in ssa.Instruction) bool {
	fn := in.Parent()
	var header *ssa.BasicBlock
	for _, b := range fn.Blocks {
		for _, sc := range b.Succs {
			if sc.Dominates(b) && sc.Dominates(in.Block()) && (header == nil || header.Dominates(sc)) {
				header = sc
			}
		}
	}
	if header == nil {
		return true // not in a loop at all
	}
	for _, sc := range in.Block().Succs {
		if pathLeavesLoop(sc, header) {
			return true
		}
	}
	return false
}

// c20R7: routers enumerate what they use. A router's EnumerateTemplates must pass on every receiver field whose value
// reaches Run.EvaluateTemplate* in its methods; its EnumerateDependencies every receiver field whose type can hold a
// DependencyContainer or an asset reference.
func c20R7(p *core.Program, r *core.Report) {
	iface := p.Interface("flows", "Router")
	depCon := p.Interface("flows/inspect", "DependencyContainer")
	ref := p.Interface("assets", "Reference")
	if iface == nil || depCon == nil || ref == nil {
		r.Errorf("flows.Router / inspect.DependencyContainer / assets.Reference not found")
		return
	}
	evalNames := map[string]bool{"flows.Run.EvaluateTemplate": true, "flows.Run.EvaluateTemplateText": true, "flows.Run.EvaluateTemplateValue": true}
	follow := func(c *ssa.Call) bool {
		o := core.CalleeObj(&c.Call)
		if o == nil {
			return false
		}
		n := core.ObjName(o)
		return strings.HasPrefix(n, "flows.Run.GetText") || strings.HasPrefix(n, "flows.Run.GetTranslatedTextArray") || strings.HasPrefix(n, "strings.")
	}
	n := 0
	for _, named := range p.Implementers(iface) {
		if named.Obj().Pkg() == nil || core.RelPkg(named.Obj().Pkg().Path()) != "flows/routers" {
			continue
		}
		st, ok := named.Underlying().(*types.Struct)
		if !ok {
			continue
		}
		n++
		name := named.Obj().Name()
		fieldsOf := func(v ssa.Value, fn *ssa.Function, into map[string]bool) {
			for x := range core.BackSlice(v, follow) {
				if fa, ok := x.(*ssa.FieldAddr); ok {
					t := fa.X.Type().Underlying()
					if pt, ok := t.(*types.Pointer); ok {
						t = pt.Elem()
					}
					if t == types.Type(named) {
						into[core.FieldAddrVar(fa).Name()] = true
					}
				}
			}
		}
		used := map[string]bool{}
		var methods []*ssa.Function
		for _, fn := range p.ModuleFunctions() {
			if recvNamed(fn) == named && !p.IsTestFile(fn.Pos()) {
				methods = append(methods, fn)
			}
		}
		for _, fn := range methods {
			for _, cs := range core.Calls(fn, true) {
				if o := core.CalleeObj(cs.Common()); o != nil && evalNames[core.ObjName(o)] {
					fieldsOf(cs.Common().Args[0], fn, used)
				}
			}
		}
		enumerated := func(method string) map[string]bool {
			out := map[string]bool{}
			m := p.Method("flows/routers", name, method)
			if m == nil {
				return out
			}
			for _, cs := range core.Calls(m, true) {
				for _, a := range cs.Common().Args {
					fieldsOf(a, m, out)
				}
			}
			return out
		}
		et := enumerated("EnumerateTemplates")
		for _, f := range core.SortedKeys(used) {
			r.Check(et[f], "R7", "flows/routers."+name+"."+f+"/template-enumerated", p.Pos(named.Obj().Pos()), "evaluated at run time and passed on by EnumerateTemplates",
				"flows/routers."+name+"."+f+" is evaluated as a template when routing but "+name+".EnumerateTemplates does not pass it on: fields, globals and results it references are missing from the flow's dependencies")
		}
		// fields that can hold dependencies
		ed := enumerated("EnumerateDependencies")
		var holds func(t types.Type, depth int) bool
		holds = func(t types.Type, depth int) bool {
			if depth > 4 {
				return false
			}
			switch x := t.(type) {
			case *types.Pointer:
				if types.Implements(x, depCon) || types.Implements(x, ref) {
					return true
				}
				return holds(x.Elem(), depth+1)
			case *types.Slice:
				return holds(x.Elem(), depth+1)
			case *types.Map:
				return holds(x.Elem(), depth+1)
			case *types.Named:
				if types.Implements(x, depCon) || types.Implements(types.NewPointer(x), depCon) || types.Implements(x, ref) || types.Implements(types.NewPointer(x), ref) {
					return true
				}
				if sx, ok := x.Underlying().(*types.Struct); ok && x.Obj().Pkg() != nil && core.InModule(x.Obj().Pkg().Path()) {
					for i := 0; i < sx.NumFields(); i++ {
						if holds(sx.Field(i).Type(), depth+1) {
							return true
						}
					}
				}
			}
			return false
		}
		for i := 0; i < st.NumFields(); i++ {
			f := st.Field(i)
			if f.Embedded() || !holds(f.Type(), 0) {
				continue
			}
			r.Check(ed[f.Name()], "R7", "flows/routers."+name+"."+f.Name()+"/dependencies-enumerated", p.Pos(f.Pos()), "can hold asset references and is passed on by EnumerateDependencies",
				"flows/routers."+name+"."+f.Name()+" can hold asset references (its type declares dependencies) but "+name+".EnumerateDependencies does not pass it on: e.g. the groups of has_group tests are missing from the flow's dependencies")
		}
	}
	r.Require("router_types", n, 2)
}

func c20R5(p *core.Program, r *core.Report, isAction map[*types.Named]bool) {
	evalNames := map[string]bool{"flows.Run.EvaluateTemplate": true, "flows.Run.EvaluateTemplateText": true, "flows.Run.EvaluateTemplateValue": true}
	type obl struct {
		field *types.Var
		tag   string
		pos   token.Pos
		where string
	}
	found := map[*types.Var]obl{}
	var trace func(v ssa.Value, fn *ssa.Function, depth int, where string, pos token.Pos)
	trace = func(v ssa.Value, fn *ssa.Function, depth int, where string, pos token.Pos) {
		if depth > 4 {
			return
		}
		for x := range core.BackSlice(v, func(c *ssa.Call) bool {
			// through localisation lookups and string helpers, not through arbitrary calls
			o := core.CalleeObj(&c.Call)
			if o == nil {
				return false
			}
			n := core.ObjName(o)
			return strings.HasPrefix(n, "flows.Run.GetText") || strings.HasPrefix(n, "flows.Run.GetTranslatedTextArray") || strings.HasPrefix(n, "strings.")
		}) {
			switch y := x.(type) {
			case *ssa.FieldAddr:
				fv := core.FieldAddrVar(y)
				if fv == nil {
					continue
				}
				// owning struct
				t := y.X.Type().Underlying()
				if pt, ok := t.(*types.Pointer); ok {
					t = pt.Elem()
				}
				n, _ := t.(*types.Named)
				if n == nil || n.Obj().Pkg() == nil || core.RelPkg(n.Obj().Pkg().Path()) != "flows/actions" {
					continue
				}
				if !isStringish(fv.Type()) {
					continue
				}
				st := n.Underlying().(*types.Struct)
				for i := 0; i < st.NumFields(); i++ {
					if st.Field(i) == fv {
						if _, dup := found[fv]; !dup {
							found[fv] = obl{fv, st.Tag(i), pos, where}
						}
					}
				}
			case *ssa.Parameter:
				if y.Parent() != fn || (fn.Signature.Recv() != nil && len(fn.Params) > 0 && y == fn.Params[0]) {
					continue
				}
				idx := paramIndex(fn, y.Name())
				for _, cs := range p.CallsTo(fn) {
					if p.IsTestFile(cs.Pos()) || idx >= len(cs.Common().Args) {
						continue
					}
					trace(cs.Common().Args[idx], cs.Caller, depth+1, where, pos)
				}
			}
		}
	}
	nEval := 0
	for _, cs := range p.AllCalls() {
		o := core.CalleeObj(cs.Common())
		if o == nil || !evalNames[core.ObjName(o)] {
			continue
		}
		if p.IsTestFile(cs.Pos()) || core.RelPkg(core.FuncPkgPath(cs.Caller)) != "flows/actions" {
			continue
		}
		nEval++
		trace(cs.Common().Args[0], cs.Caller, 0, core.FuncName(cs.Caller), cs.Pos())
	}
	r.Require("action_evaluate_sites", nEval, 8)
	var keys []*types.Var
	for k := range found {
		keys = append(keys, k)
	}
	sort.Slice(keys, func(i, j int) bool { return keys[i].Pos() < keys[j].Pos() })
	for _, k := range keys {
		o := found[k]
		tag := reflect.StructTag(o.tag)
		eng := "," + tag.Get("engine") + ","
		key := "field " + p.Pos(k.Pos()) + " " + k.Name()
		key = fieldOwnerName(p, k) + "." + k.Name()
		r.Check(strings.Contains(eng, ",evaluated,"), "R5", key, p.Pos(k.Pos()), "tagged engine:\"evaluated\"",
			"field is evaluated as a template in "+o.where+" but is not tagged engine:\"evaluated\": its expressions (fields, globals, results) are not extracted by Inspect")
	}
	r.Require("evaluated_action_fields", len(keys), 15)
}

func isStringish(t types.Type) bool {
	switch u := t.Underlying().(type) {
	case *types.Basic:
		return u.Info()&types.IsString != 0
	case *types.Slice:
		return isStringish(u.Elem())
	case *types.Map:
		return isStringish(u.Elem())
	}
	return false
}

// fieldOwnerName finds the named struct that declares the field.
func fieldOwnerName(p *core.Program, f *types.Var) string {
	if f.Pkg() == nil {
		return "?"
	}
	sc := f.Pkg().Scope()
	for _, nm := range sc.Names() {
		if tn, ok := sc.Lookup(nm).(*types.TypeName); ok {
			if st, ok := tn.Type().Underlying().(*types.Struct); ok {
				for i := 0; i < st.NumFields(); i++ {
					if st.Field(i) == f {
						return core.RelPkgAny(f.Pkg().Path()) + "." + nm
					}
				}
			}
		}
	}
	return core.RelPkgAny(f.Pkg().Path()) + ".?"
}

// c20R6: NewResultSpecs merges the categories of every extracted result into the spec of its key. The append of a
// category may be controlled only by: the loop bounds, the `existing != nil` test, and the "not already listed" test
// on the same category.
func c20R6(p *core.Program, r *core.Report) {
	fn := p.Func("flows", "NewResultSpecs")
	if fn == nil {
		r.Errorf("flows.NewResultSpecs not found")
		return
	}
	found := 0
	for _, cs := range core.Calls(fn, false) {
		b, ok := cs.Common().Value.(*ssa.Builtin)
		if !ok || b.Name() != "append" {
			continue
		}
		args := cs.Common().Args
		// destination is a Categories field
		destIsCats := false
		for v := range core.BackSlice(args[0], nil) {
			if fa, ok := v.(*ssa.FieldAddr); ok && core.FieldAddrVar(fa).Name() == "Categories" {
				destIsCats = true
			}
		}
		if !destIsCats {
			continue
		}
		found++
		bad := ""
		for _, ce := range core.MayConds(cs.Instr.Block()) {
			switch c := ce.Cond.(type) {
			case *ssa.BinOp:
				if c.Op == token.LSS {
					continue // range bounds
				}
				if (c.Op == token.NEQ || c.Op == token.EQL) && (core.IsNilConst(c.X) || core.IsNilConst(c.Y)) {
					continue // existing != nil
				}
				bad = "condition " + c.X.String() + " " + c.Op.String() + " " + c.Y.String()
			case *ssa.Call:
				o := core.CalleeObj(&c.Call)
				if o != nil && core.ObjName(o) == "utils.StringSliceContains" {
					// must test the Categories slice, not another list
					onCats := false
					for v := range core.BackSlice(c.Call.Args[0], nil) {
						if fa, ok := v.(*ssa.FieldAddr); ok && core.FieldAddrVar(fa).Name() == "Categories" {
							onCats = true
						}
					}
					if onCats {
						continue
					}
					bad = "membership test on " + canon(c.Call.Args[0]) + " (not the category list) decides whether a category is merged"
				} else {
					bad = "call condition " + c.String()
				}
			case *ssa.UnOp:
				// !contains(...)
				if inner, ok := c.X.(*ssa.Call); ok {
					o := core.CalleeObj(&inner.Call)
					if o != nil && core.ObjName(o) == "utils.StringSliceContains" {
						onCats := false
						for v := range core.BackSlice(inner.Call.Args[0], nil) {
							if fa, ok := v.(*ssa.FieldAddr); ok && core.FieldAddrVar(fa).Name() == "Categories" {
								onCats = true
							}
						}
						if onCats {
							continue
						}
						bad = "membership test on " + canon(inner.Call.Args[0]) + " (not the category list) decides whether a category is merged"
						continue
					}
				}
				bad = "condition " + c.String()
			default:
				bad = "condition " + ce.Cond.String()
			}
		}
		r.Check(bad == "", "R6", "flows.NewResultSpecs/merges-every-category", p.Pos(cs.Pos()),
			"category append is controlled only by loop bounds, existing != nil and the not-already-listed test", "categories of a result are dropped from the merged spec: "+bad)
	}
	if found == 0 {
		r.Bad("R6", "flows.NewResultSpecs/merges-every-category", p.Pos(fn.Pos()), "no append to a spec's Categories found: results sharing a key lose the categories of the later producers")
	}
	// the new-spec branch copies Key, Name and Categories of the result's info
	copied := map[string]bool{}
	core.EachInstr(fn, false, func(_ *ssa.Function, in ssa.Instruction) {
		st, ok := in.(*ssa.Store)
		if !ok {
			return
		}
		fa, ok := st.Addr.(*ssa.FieldAddr)
		if !ok {
			return
		}
		name := core.FieldAddrVar(fa).Name()
		for v := range core.BackSlice(st.Val, nil) {
			if f2, ok := v.(*ssa.FieldAddr); ok && core.FieldAddrVar(f2).Name() == name && (name == "Key" || name == "Name" || name == "Categories") {
				copied[name] = true
			}
		}
	})
	r.Check(copied["Key"] && copied["Name"] && copied["Categories"], "R6", "flows.NewResultSpecs/new-spec-copies-info", p.Pos(fn.Pos()),
		"Key, Name, Categories copied from the extracted info", fmt.Sprintf("a new spec does not copy all of Key/Name/Categories from the extracted result (%v)", copied))
}

// ---------------------------------------------------------------------------------------------- R8

// c20BenignCond: conditions that select what kind of thing is enumerated, not whether an existing thing is.
func c20BenignCond(cond ssa.Value) bool {
	switch x := cond.(type) {
	case *ssa.UnOp:
		if x.Op == token.NOT {
			return c20BenignCond(x.X)
		}
		if x.Op == token.MUL {
			if fv := core.FieldAddrVar(x.X); fv != nil {
				if b, ok := fv.Type().Underlying().(*types.Basic); ok && b.Kind() == types.Bool {
					if st := fieldOwner(x.X); st == "EngineField" {
						return true
					}
				}
			}
		}
	case *ssa.BinOp:
		switch x.Op {
		case token.LSS:
			// loop bound: index < len(...) or index < reflect.Value.Len()
			if _, ok := isLenCall(x.Y); ok {
				return true
			}
			if isReflectCall(x.Y, "Len") {
				return true
			}
		case token.EQL, token.NEQ:
			if core.IsNilConst(x.X) || core.IsNilConst(x.Y) {
				return true
			}
			// the kind of the reflected value against a constant: selects what kind of thing is walked
			if _, isC := x.Y.(*ssa.Const); isC && isReflectCall(x.X, "Kind") {
				return true
			}
			if _, isC := x.X.(*ssa.Const); isC && isReflectCall(x.Y, "Kind") {
				return true
			}
		}
	case *ssa.Extract:
		switch t := x.Tuple.(type) {
		case *ssa.TypeAssert:
			return t.CommaOk && x.Index == 1
		case *ssa.Next:
			return x.Index == 0
		}
	case *ssa.Call:
		if x.Call.IsInvoke() && x.Call.Method.Name() == "Variable" {
			return true
		}
		if isReflectCall(x, "IsNil") {
			return true // a nil test on the reflected value
		}
	case *ssa.Phi:
		// a && b / a || b
		for _, e := range x.Edges {
			if c, isC := e.(*ssa.Const); isC && c.Value != nil {
				continue
			}
			if !c20BenignCond(e) {
				return false
			}
		}
		return true
	}
	return false
}

// isReflectCall: v is a call of the named method of reflect.Value / reflect.Type.
func isReflectCall(v ssa.Value, name string) bool {
	c, ok := v.(*ssa.Call)
	if !ok {
		return false
	}
	if c.Call.IsInvoke() {
		return c.Call.Method.Name() == name && c.Call.Method.Pkg() != nil && c.Call.Method.Pkg().Path() == "reflect"
	}
	f := c.Call.StaticCallee()
	return f != nil && f.Name() == name && f.Pkg != nil && f.Pkg.Pkg.Path() == "reflect"
}

// fieldOwner: the name of the struct type whose field the address selects.
func fieldOwner(addr ssa.Value) string {
	fa, ok := addr.(*ssa.FieldAddr)
	if !ok {
		return ""
	}
	t := fa.X.Type()
	if pt, ok := t.Underlying().(*types.Pointer); ok {
		t = pt.Elem()
	}
	if n, ok := t.(*types.Named); ok {
		return n.Obj().Name()
	}
	return ""
}

// c20R13: by-name asset lookups in the actions take evaluated (or constant) names only.
func c20R13(p *core.Program, r *core.Report) {
	n := 0
	per := map[string]int{}
	for _, fn := range p.ModuleFunctions() {
		if core.RelPkg(core.FuncPkgPath(fn)) != "flows/actions" || p.IsTestFile(fn.Pos()) || fn.Synthetic != "" {
			continue
		}
		for _, cs := range core.Calls(fn, false) {
			o := core.CalleeObj(cs.Common())
			if o == nil || o.Name() != "FindByName" || len(cs.Common().Args) == 0 {
				continue
			}
			arg := cs.Common().Args[len(cs.Common().Args)-1]
			n++
			k := core.FuncName(fn) + "->" + core.ObjName(o)
			per[k]++
			key := k
			if per[k] > 1 {
				key = fmt.Sprintf("%s#%d", k, per[k])
			}
			evaluated, fromRef := false, ""
			if _, isC := core.StripConv(arg).(*ssa.Const); isC {
				evaluated = true
			}
			for v := range core.BackSlice(arg, func(*ssa.Call) bool { return true }) {
				switch x := v.(type) {
				case *ssa.Call:
					if co := core.CalleeObj(&x.Call); co != nil && strings.HasPrefix(core.ObjName(co), "flows.Run.EvaluateTemplate") {
						evaluated = true
					}
				case *ssa.FieldAddr:
					if fv := core.FieldAddrVar(x); fv != nil && fv.Name() == "Name" {
						fromRef = fieldOwner(x) + ".Name"
					}
				}
			}
			r.Check(evaluated && fromRef == "", "R13", key+"/evaluated-name-only", p.Pos(cs.Pos()), "the name is a constant or an evaluated template",
				"the asset is looked up by "+fromRef+" (a saved name, not an evaluated one): a reference whose UUID is not in the assets is resolved to another asset of the same name, which inspection — listing the reference by UUID — does not show")
		}
	}
	r.Count("by_name_lookups_in_actions", n)
	r.Require("by_name_lookups_in_actions", n, 2)
}

func c20R8(p *core.Program, r *core.Report) {
	type stage struct {
		fn   *ssa.Function
		name string
		// which calls are hand-overs
		handover func(cs core.CallSite) string
	}
	var stages []stage
	paramCall := func(cs core.CallSite) string {
		// a call of a function-typed parameter or captured variable (the include callback)
		if cs.Common().IsInvoke() || cs.Common().StaticCallee() != nil {
			return ""
		}
		if _, isB := cs.Common().Value.(*ssa.Builtin); isB {
			return ""
		}
		switch v := cs.Common().Value.(type) {
		case *ssa.Parameter:
			return v.Name()
		case *ssa.FreeVar:
			return v.Name()
		case *ssa.UnOp:
			if fvv, ok := v.X.(*ssa.FreeVar); ok {
				return fvv.Name()
			}
		}
		return ""
	}
	staticNamed := func(names ...string) func(cs core.CallSite) string {
		return func(cs core.CallSite) string {
			if f := cs.Common().StaticCallee(); f != nil {
				for _, n := range names {
					if f.Name() == n {
						return n
					}
				}
			}
			return ""
		}
	}
	either := func(fs ...func(cs core.CallSite) string) func(cs core.CallSite) string {
		return func(cs core.CallSite) string {
			for _, f := range fs {
				if s := f(cs); s != "" {
					return s
				}
			}
			return ""
		}
	}
	if tv := p.Func("flows/inspect", "templateValues"); tv != nil {
		for _, an := range tv.AnonFuncs {
			stages = append(stages, stage{an, "inspect.templateValues/callback", either(staticNamed("extractTemplates", "Translations"), paramCall)})
		}
	}
	if f := p.Func("flows/inspect", "Translations"); f != nil {
		stages = append(stages, stage{f, "inspect.Translations", paramCall})
	}
	if f := p.Func("flows/inspect", "extractTemplates"); f != nil {
		stages = append(stages, stage{f, "inspect.extractTemplates", paramCall})
	}
	if ex := p.Method("flows/definition", "flow", "extract"); ex != nil {
		// the recording step may be a function literal of extract or a named function of the package
		isRecorder := func(g *ssa.Function) bool {
			if g == nil || g.Blocks == nil || core.FuncPkgPath(g) != core.FuncPkgPath(ex) {
				return false
			}
			for _, cs := range core.Calls(g, false) {
				if f := cs.Common().StaticCallee(); f != nil && (f.Name() == "NewExtractedReference" || f.Name() == "NewExtractedTemplate") {
					return true
				}
			}
			return false
		}
		recorderCall := func(cs core.CallSite) string {
			if g := cs.Common().StaticCallee(); isRecorder(g) {
				return g.Name()
			}
			return ""
		}
		hand := either(staticNamed("NewExtractedReference", "NewExtractedTemplate"), recorderCall, paramCall)
		recorders := map[*ssa.Function]bool{}
		var walk func(f *ssa.Function)
		walk = func(f *ssa.Function) {
			for _, cs := range core.Calls(f, false) {
				if g := cs.Common().StaticCallee(); isRecorder(g) && !recorders[g] {
					recorders[g] = true
					stages = append(stages, stage{g, "flow.extract/callback", staticNamed("NewExtractedReference", "NewExtractedTemplate")})
				}
			}
			for _, an := range f.AnonFuncs {
				stages = append(stages, stage{an, "flow.extract/callback", hand})
				walk(an)
			}
		}
		walk(ex)
	}
	// the asset-reference walk: inspect.dependencies, its callbacks, the reflection walker and every function of the
	// package they hand a callback to — a hand-over is a call of a callback, of DependencyContainer.Dependencies or of
	// another function of this family
	if dep := p.Func("flows/inspect", "dependencies"); dep != nil {
		takesCallback := func(g *ssa.Function) bool {
			if g == nil || g.Blocks == nil || core.FuncPkgPath(g) != core.FuncPkgPath(dep) {
				return false
			}
			for _, prm := range g.Params {
				if _, isSig := prm.Type().Underlying().(*types.Signature); isSig {
					return true
				}
			}
			return false
		}
		family := map[*ssa.Function]bool{}
		var order []*ssa.Function
		var add func(f *ssa.Function)
		add = func(f *ssa.Function) {
			if family[f] {
				return
			}
			family[f] = true
			order = append(order, f)
			for _, cs := range core.Calls(f, false) {
				if g := cs.Common().StaticCallee(); takesCallback(g) {
					add(g)
				}
			}
			for _, an := range f.AnonFuncs {
				add(an)
			}
		}
		add(dep)
		hand := func(cs core.CallSite) string {
			if g := cs.Common().StaticCallee(); g != nil && family[g] {
				return g.Name()
			}
			if cs.Common().IsInvoke() && cs.Common().Method.Name() == "Dependencies" {
				return "DependencyContainer.Dependencies"
			}
			return paramCall(cs)
		}
		for _, f := range order {
			stages = append(stages, stage{f, "inspect.dependencies/" + f.Name(), hand})
		}
		r.Count("dependency_walk_functions", len(order))
		r.Require("dependency_walk_functions", len(order), 2)
	}
	n := 0
	per := map[string]int{}
	for _, st := range stages {
		for _, cs := range core.Calls(st.fn, false) {
			what := st.handover(cs)
			if what == "" {
				continue
			}
			n++
			k := st.name + "->" + what
			per[k]++
			key := k
			if per[k] > 1 {
				key = fmt.Sprintf("%s#%d", k, per[k])
			}
			bad := ""
			conds := core.MayConds(cs.Instr.Block())
			for _, ce := range conds {
				if !c20BenignCond(ce.Cond) {
					bad = "it also depends on " + canonShort(ce.Cond) + " (" + p.Pos(ce.If.Pos()) + ")"
				}
			}
			if bad == "" && inLoop(cs.Instr) && leavesLoopEarly(cs.Instr) {
				bad = "the enclosing loop is left after the first hand-over"
			}
			r.Check(bad == "", "R8", key, p.Pos(cs.Pos()), fmt.Sprintf("%d deciding conditions: loop bounds, type arms, nil tests, engine flags only", len(conds)),
				"the extraction stage "+st.name+" hands over to "+what+" conditionally: "+bad+" — templates or references that a run uses are then missing from the inspection's dependencies")
		}
	}
	r.Require("extraction_handovers", n, 4)
}

// ---------------------------------------------------------------------------------------------- R10

func c20R10(p *core.Program, r *core.Report) {
	typeField := p.FieldOf("flows/routers", "Case", "Type")
	validate := p.Method("flows/routers", "SwitchRouter", "Validate")
	if typeField == nil || validate == nil {
		r.Errorf("routers.Case.Type / SwitchRouter.Validate not found")
		return
	}
	// per function: how the type is used where it decides something (a comparison or a table lookup)
	type use struct {
		fn      *ssa.Function
		lowered bool
		pos     token.Pos
	}
	var uses []use
	for _, fn := range p.ModuleFunctions() {
		if p.IsTestFile(fn.Pos()) || core.RelPkg(core.FuncPkgPath(fn)) != "flows/routers" {
			continue
		}
		core.EachInstr(fn, false, func(_ *ssa.Function, in ssa.Instruction) {
			var operands []ssa.Value
			switch x := in.(type) {
			case *ssa.BinOp:
				if x.Op == token.EQL || x.Op == token.NEQ {
					operands = []ssa.Value{x.X, x.Y}
				}
			case *ssa.Lookup:
				operands = []ssa.Value{x.Index}
			}
			for _, op := range operands {
				fromType, lowered := false, false
				for v := range core.BackSlice(op, func(*ssa.Call) bool { return true }) {
					switch y := v.(type) {
					case *ssa.FieldAddr:
						if core.FieldAddrVar(y) == typeField {
							fromType = true
						}
					case *ssa.Call:
						if o := core.CalleeObj(&y.Call); o != nil && core.ObjName(o) == "strings.ToLower" {
							lowered = true
						}
					}
				}
				if fromType {
					uses = append(uses, use{rootFn(fn), lowered, in.Pos()})
				}
			}
		})
	}
	exactConsumer := ""
	validateLowered := false
	nV := 0
	for _, u := range uses {
		if u.fn == validate {
			nV++
			if u.lowered {
				validateLowered = true
			}
		} else if !u.lowered {
			exactConsumer = core.FuncName(u.fn) + " at " + p.Pos(u.pos)
		}
	}
	r.Check(!(validateLowered && exactConsumer != ""), "R10", "SwitchRouter.Validate/type-spelling-not-laxer-than-consumers", p.Pos(validate.Pos()), fmt.Sprintf("%d decisions on Case.Type, Validate exact", len(uses)),
		"SwitchRouter.Validate accepts a case type after lower-casing it, but "+exactConsumer+" compares the type exactly: a case spelled HAS_GROUP loads and routes by group membership while its group is missing from the inspected dependencies")
	r.Require("case_type_decisions", len(uses), 2)
	r.Require("case_type_decisions_in_validate", nV, 1)
}

// naturalLoopBody: the blocks of the natural loop(s) with header h (h itself and every block that reaches a back edge
// source without passing through h); nil when h is not a loop header.
func naturalLoopBody(h *ssa.BasicBlock) map[*ssa.BasicBlock]bool {
	var body map[*ssa.BasicBlock]bool
	for _, t := range h.Preds {
		if !h.Dominates(t) {
			continue
		}
		if body == nil {
			body = map[*ssa.BasicBlock]bool{h: true}
		}
		var up func(b *ssa.BasicBlock)
		up = func(b *ssa.BasicBlock) {
			if body[b] {
				return
			}
			body[b] = true
			for _, pr := range b.Preds {
				up(pr)
			}
		}
		up(t)
	}
	return body
}

// lexicalLoopHeader: the header of the innermost loop whose body lexically contains blk: blk is dominated by a
// successor of the header that belongs to the loop. Unlike the natural loop this includes blocks that always leave the
// loop (the arm of an `if` that ends in break or return).
func lexicalLoopHeader(blk *ssa.BasicBlock) *ssa.BasicBlock {
	var header *ssa.BasicBlock
	for _, h := range blk.Parent().Blocks {
		if !h.Dominates(blk) || h == blk {
			continue
		}
		body := naturalLoopBody(h)
		if body == nil {
			continue
		}
		for _, sc := range h.Succs {
			if body[sc] && sc != h && sc.Dominates(blk) && (header == nil || header.Dominates(h)) {
				// an exit of the loop is not dominated by a body successor unless the header has no exit of its own (`for {}`)
				hasExit := false
				for _, s2 := range h.Succs {
					if !body[s2] {
						hasExit = true
					}
				}
				if hasExit {
					header = h
				}
			}
		}
	}
	return header
}

// edgeLeavesLoop: some path from start gets out of the natural loop of header without going back through the header.
func edgeLeavesLoop(start, header *ssa.BasicBlock) bool {
	body := naturalLoopBody(header)
	seen := map[*ssa.BasicBlock]bool{}
	var walk func(b *ssa.BasicBlock) bool
	walk = func(b *ssa.BasicBlock) bool {
		if b == header || seen[b] {
			return false
		}
		seen[b] = true
		if !body[b] {
			return true
		}
		for _, sc := range b.Succs {
			if walk(sc) {
				return true
			}
		}
		return false
	}
	return walk(start)
}

// ---------------------------------------------------------------------------------------------- R12

// c20ContextEdges: the properties a context-producing function puts into the map it returns, each with the function
// that produces the context behind it (nil for plain values).
func c20ContextEdges(p *core.Program, fn *ssa.Function) map[string][]*ssa.Function {
	out := map[string][]*ssa.Function{}
	if fn == nil || len(fn.Blocks) == 0 {
		return out
	}
	ctxMethod := func(t types.Type) *ssa.Function {
		for _, tt := range []types.Type{t, types.NewPointer(t)} {
			if _, isPtr := t.(*types.Pointer); isPtr && tt != t {
				continue
			}
			if sel := p.SSA.MethodSets.MethodSet(tt).Lookup(nil, "Context"); sel != nil {
				return p.SSA.MethodValue(sel)
			}
		}
		return nil
	}
	var targets func(v ssa.Value, seen map[ssa.Value]bool) []*ssa.Function
	targets = func(v ssa.Value, seen map[ssa.Value]bool) []*ssa.Function {
		if v == nil || seen[v] {
			return nil
		}
		seen[v] = true
		switch x := v.(type) {
		case *ssa.Phi:
			var o []*ssa.Function
			for _, e := range x.Edges {
				o = append(o, targets(e, seen)...)
			}
			return o
		case *ssa.MakeInterface:
			return targets(x.X, seen)
		case *ssa.ChangeInterface:
			return targets(x.X, seen)
		case *ssa.Call:
			o := core.CalleeObj(&x.Call)
			if o == nil {
				return nil
			}
			switch core.ObjName(o) {
			case "flows.Context":
				a := x.Call.Args[len(x.Call.Args)-1]
				for {
					if mi, ok := a.(*ssa.MakeInterface); ok {
						a = mi.X
						continue
					}
					if ci, ok := a.(*ssa.ChangeInterface); ok {
						a = ci.X
						continue
					}
					break
				}
				if m := ctxMethod(a.Type()); m != nil {
					return []*ssa.Function{m}
				}
			case "flows.ContextFunc":
				a := x.Call.Args[len(x.Call.Args)-1]
				if mc, ok := a.(*ssa.MakeClosure); ok {
					if f, ok := mc.Fn.(*ssa.Function); ok {
						// a bound method wrapper calls the method
						for _, cs := range core.Calls(f, false) {
							if g := cs.Common().StaticCallee(); g != nil && f.Synthetic != "" {
								return []*ssa.Function{g}
							}
						}
						return []*ssa.Function{f}
					}
				}
				if f, ok := a.(*ssa.Function); ok {
					return []*ssa.Function{f}
				}
			}
		}
		return nil
	}
	core.EachInstr(fn, false, func(_ *ssa.Function, in ssa.Instruction) {
		mu, ok := in.(*ssa.MapUpdate)
		if !ok {
			return
		}
		k, ok := core.ConstString(core.StripConv(mu.Key))
		if !ok {
			return
		}
		out[k] = append(out[k], targets(mu.Value, map[ssa.Value]bool{})...)
	})
	return out
}

func c20R12(p *core.Program, r *core.Report) {
	root := p.Method("flows/runs", "run", "RootContext")
	ipk := p.Pkg("flows/inspect")
	if root == nil || ipk == nil {
		r.Errorf("run.RootContext / package flows/inspect not found")
		return
	}
	// the table
	table := map[string]bool{}
	var tablePos token.Pos
	for _, file := range ipk.Syntax {
		ast.Inspect(file, func(n ast.Node) bool {
			vs, ok := n.(*ast.ValueSpec)
			if !ok || len(vs.Names) != 1 || vs.Names[0].Name != "fieldRefPaths" || len(vs.Values) != 1 {
				return true
			}
			cl, ok := vs.Values[0].(*ast.CompositeLit)
			if !ok {
				return true
			}
			tablePos = vs.Pos()
			for _, row := range cl.Elts {
				rl, ok := row.(*ast.CompositeLit)
				if !ok {
					continue
				}
				var parts []string
				for _, e := range rl.Elts {
					if tv, ok := ipk.TypesInfo.Types[e]; ok && tv.Value != nil {
						parts = append(parts, constant.StringVal(tv.Value))
					}
				}
				table[strings.Join(parts, ".")] = true
			}
			return false
		})
	}
	if !r.Require("field_ref_path_rows", len(table), 1) {
		return
	}
	// the context method that produces the contact's field values
	isFields := func(f *ssa.Function) bool {
		rn := recvNamed(f)
		return rn != nil && rn.Obj().Name() == "FieldValues" && f.Name() == "Context"
	}
	found := map[string]bool{}
	nProducers := map[*ssa.Function]bool{}
	var walk func(f *ssa.Function, path []string)
	walk = func(f *ssa.Function, path []string) {
		nProducers[f] = true
		if len(path) >= 4 {
			return
		}
		edges := c20ContextEdges(p, f)
		for _, k := range core.SortedKeys(edges) {
			for _, g := range edges[k] {
				np := append(append([]string{}, path...), k)
				if isFields(g) {
					found[strings.Join(np, ".")] = true
					continue
				}
				walk(g, np)
			}
		}
	}
	walk(root, nil)
	r.Count("context_producers_walked", len(nProducers))
	if !r.Require("runtime_field_paths", len(found), 3) {
		return
	}
	for _, path := range core.SortedKeys(found) {
		if reason, ok := c20FieldPathAllowed[path]; ok && !table[path] {
			r.OK("R12", "fieldRefPaths/"+path, p.Pos(tablePos), "listed: "+reason)
			continue
		}
		r.Check(table[path], "R12", "fieldRefPaths/"+path, p.Pos(tablePos), "a row of fieldRefPaths", "a template can read a contact field as @"+path+".<key> (the run context has that path) but inspect.fieldRefPaths has no such row: the field is used at run time and missing from the flow's dependencies")
	}
}

// c20FieldPathAllowed: runtime paths to contact fields that inspection deliberately does not follow.
var c20FieldPathAllowed = map[string]string{}
