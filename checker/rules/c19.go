package rules

import (
	"fmt"
	"go/token"
	"go/types"
	"sort"
	"strings"

	"golang.org/x/tools/go/ssa"

	"verif/checker/core"
)

func init() { register("C19", checkC19) }

const urnsPkg = "github.com/nyaruka/gocommon/urns"

func isURNType(t types.Type) bool {
	n, ok := t.(*types.Named)
	return ok && n.Obj().Pkg() != nil && n.Obj().Pkg().Path() == urnsPkg && n.Obj().Name() == "URN"
}

// urnTaintDeclassify: whether phi edges that lie on the non-redacting edge of a policy test are skipped (on, except
// where a rule wants to know that a function handles URN text at all).
var urnTaintDeclassify = true

// policyEdgeInto: like policyEdge for the control-flow edge pr -> succ.
func policyEdgeInto(pr, succ *ssa.BasicBlock) int {
	if e := policyEdge(pr); e != 0 {
		return e
	}
	iff, ok := pr.Instrs[len(pr.Instrs)-1].(*ssa.If)
	if !ok || pr.Succs[0] == pr.Succs[1] {
		return 0
	}
	bo, ok := iff.Cond.(*ssa.BinOp)
	if !ok || (bo.Op != token.EQL && bo.Op != token.NEQ) {
		return 0
	}
	isPolicy := func(v ssa.Value) bool {
		c, ok := v.(*ssa.Call)
		return ok && c.Call.IsInvoke() && c.Call.Method.Name() == "RedactionPolicy"
	}
	isURNsConst := func(v ssa.Value) bool { s, ok := core.ConstString(v); return ok && s == "urns" }
	if !((isPolicy(bo.X) && isURNsConst(bo.Y)) || (isPolicy(bo.Y) && isURNsConst(bo.X))) {
		return 0
	}
	taken := pr.Succs[0] == succ
	if (bo.Op == token.EQL) == taken {
		return 1
	}
	return -1
}

// urnTaint reports whether v carries the identifying part (path, display, query, or the whole) of a URN.
// It is an intraprocedural backward walk that understands which results of the urns API are harmless (the scheme).
func urnTaint(v ssa.Value) (bool, string) {
	seen := map[ssa.Value]bool{}
	why := ""
	var walk func(v ssa.Value) bool
	walk = func(v ssa.Value) bool {
		if v == nil || seen[v] {
			return false
		}
		seen[v] = true
		switch x := v.(type) {
		case *ssa.Const:
			return false
		case *ssa.Extract:
			if c, ok := x.Tuple.(*ssa.Call); ok {
				if o := core.CalleeObj(&c.Call); o != nil && o.Pkg() != nil && o.Pkg().Path() == urnsPkg {
					switch o.Name() {
					case "ToParts":
						if x.Index == 0 {
							return false // scheme
						}
						if len(c.Call.Args) > 0 && walk(c.Call.Args[0]) {
							why = "urns.URN.ToParts result #" + fmt.Sprint(x.Index) + " of " + why
							return true
						}
						return false
					}
				}
			}
			return walk(x.Tuple)
		case *ssa.Call:
			o := core.CalleeObj(&x.Call)
			if o != nil && o.Pkg() != nil && o.Pkg().Path() == urnsPkg {
				switch o.Name() {
				case "Scheme", "IsValidScheme":
					return false
				}
				// any other urns API result derived from a URN argument/receiver carries the secret
				for _, a := range x.Call.Args {
					if walk(a) {
						if why == "" || !strings.HasPrefix(why, "result of") {
							why = "result of urns." + o.Name() + " on " + why
						}
						return true
					}
				}
				return false
			}
			if o != nil {
				n := core.ObjName(o)
				// module accessors that hand out the raw URN
				if n == "flows.ContactURN.URN" || n == "flows.URNList.RawURNs" || n == "flows.ContactURN.String" {
					why = "result of " + n
					return true
				}
				// a function of the module with a body: judged by what its returns carry (c19Summary); a function
				// whose URN-derived returns all lie on the false edge of a bool parameter is clean exactly when that
				// parameter is the redaction policy test at this call
				if g := x.Call.StaticCallee(); g != nil && g.Blocks != nil && core.InModule(core.FuncPkgPath(g)) && x.Type() != nil {
					if _, isTuple := x.Type().(*types.Tuple); !isTuple {
						sm := c19Summary(g)
						switch {
						case !sm.tainted:
							return false
						case sm.guard >= 0 && sm.guard < len(x.Call.Args) && c19IsPolicyTest(x.Call.Args[sm.guard]):
							c19GuardedUses[x] = true
							return false
						default:
							why = "result of " + n + " (" + sm.why + ")"
							return true
						}
					}
				}
				// string helpers propagate
				if strings.HasPrefix(n, "fmt.") || strings.HasPrefix(n, "strings.") || strings.HasPrefix(n, "strconv.") {
					for _, a := range x.Call.Args {
						if walk(a) {
							return true
						}
					}
					return false
				}
			}
			// other calls: tainted only if the result itself is URN-typed
			if isURNType(x.Type()) {
				why = "URN-typed call result"
				return true
			}
			return false
		case *ssa.UnOp:
			if isURNType(x.Type()) {
				why = "URN-typed value " + x.Name()
				return true
			}
			return walk(x.X)
		case *ssa.Parameter:
			if isURNType(x.Type()) {
				why = "URN parameter " + x.Name()
				return true
			}
			return false
		case *ssa.Phi:
			for i, e := range x.Edges {
				// a value that only flows in over the non-redacting edge of a policy test exists only when the policy
				// is off (a result variable assigned in the else-branch of the test)
				if urnTaintDeclassify && policyEdgeInto(x.Block().Preds[i], x.Block()) == -1 {
					continue
				}
				if walk(e) {
					return true
				}
			}
			return false
		case *ssa.Convert:
			return walk(x.X)
		case *ssa.ChangeType:
			return walk(x.X)
		case *ssa.MakeInterface:
			return walk(x.X)
		case *ssa.BinOp:
			return walk(x.X) || walk(x.Y)
		case *ssa.Slice:
			return walk(x.X)
		case *ssa.IndexAddr:
			return walk(x.X)
		case *ssa.Index:
			return walk(x.X)
		case *ssa.Lookup:
			return walk(x.X)
		case *ssa.FieldAddr:
			if fv := core.FieldAddrVar(x); fv != nil && isURNType(fv.Type()) {
				why = "URN field " + fv.Name()
				return true
			}
			return false
		case *ssa.Field:
			if fv := core.FieldAddrVar(x); fv != nil && isURNType(fv.Type()) {
				why = "URN field " + fv.Name()
				return true
			}
			return false
		case *ssa.Alloc:
			// variadic backing array / local: the values stored into it
			for _, ref := range *x.Referrers() {
				switch st := ref.(type) {
				case *ssa.Store:
					if st.Addr == ssa.Value(x) && walk(st.Val) {
						return true
					}
				case *ssa.IndexAddr:
					for _, r2 := range *st.Referrers() {
						if s2, ok := r2.(*ssa.Store); ok && walk(s2.Val) {
							return true
						}
					}
				}
			}
			return false
		}
		return false
	}
	t := walk(v)
	return t, why
}

// c19Sum: what the returns of a module function carry.
type c19Sum struct {
	tainted bool   // some return is URN-derived
	guard   int    // >= 0: every URN-derived return lies on the false edge of this bool parameter
	why     string // for the first tainted return
}

var c19Sums = map[*ssa.Function]*c19Sum{}

// c19GuardedUses: calls judged clean because the callee redacts under the policy flag passed here.
var c19GuardedUses = map[*ssa.Call]bool{}

func c19Summary(g *ssa.Function) *c19Sum {
	if sm, ok := c19Sums[g]; ok {
		return sm
	}
	sm := &c19Sum{guard: -1}
	// while being computed (recursion) a function counts as tainted when it returns a URN
	sm.tainted = g.Signature.Results().Len() > 0 && isURNType(g.Signature.Results().At(0).Type())
	sm.why = "recursive"
	c19Sums[g] = sm
	tainted := false
	why := ""
	guard := -2 // -2: no tainted return seen yet; -1: not guarded
	for _, ret := range core.Returns(g) {
		if len(ret.Results) == 0 {
			continue
		}
		t, w := urnTaint(ret.Results[0])
		if !t {
			continue
		}
		if policyEdge(ret.Block()) == -1 {
			continue // the function tests the policy itself: URN text only on its non-redacting edge
		}
		tainted = true
		if why == "" {
			why = w
		}
		gp := -1
		for _, ce := range core.ControllingConds(ret.Block()) {
			if prm, ok := ce.Cond.(*ssa.Parameter); ok && !ce.Taken {
				for i, fp := range g.Params {
					if fp == prm {
						gp = i
					}
				}
			}
		}
		if guard == -2 {
			guard = gp
		} else if guard != gp {
			guard = -1
		}
	}
	sm.tainted, sm.why = tainted, why
	if tainted && guard >= 0 {
		sm.guard = guard
	} else {
		sm.guard = -1
	}
	return sm
}

// c19TaintedOverUnredactedEdge: v (through conversions) is a variable merged from several branches, and a value
// carrying URN text arrives over the non-redacting edge of a policy test.
func c19TaintedOverUnredactedEdge(v ssa.Value) bool {
	seen := map[ssa.Value]bool{}
	var walk func(v ssa.Value) bool
	walk = func(v ssa.Value) bool {
		v = core.StripConv(v)
		ph, ok := v.(*ssa.Phi)
		if !ok || seen[v] {
			return false
		}
		seen[v] = true
		for i, e := range ph.Edges {
			if policyEdgeInto(ph.Block().Preds[i], ph.Block()) == -1 {
				if t, _ := urnTaint(e); t {
					return true
				}
			} else if walk(e) {
				return true
			}
		}
		return false
	}
	return walk(v)
}

// c19IsPolicyTest: v is env.RedactionPolicy() == urns.
func c19IsPolicyTest(v ssa.Value) bool {
	// the test written as a helper of the module: every return of the helper is the test
	if c, ok := v.(*ssa.Call); ok {
		g := c.Call.StaticCallee()
		if g == nil || g.Blocks == nil || !core.InModule(core.FuncPkgPath(g)) || len(core.Returns(g)) == 0 {
			return false
		}
		for _, ret := range core.Returns(g) {
			if len(ret.Results) != 1 {
				return false
			}
			if inner, isCall := ret.Results[0].(*ssa.Call); isCall && inner.Call.StaticCallee() == g {
				return false
			}
			if !c19IsPolicyTest(ret.Results[0]) {
				return false
			}
		}
		return true
	}
	bo, ok := v.(*ssa.BinOp)
	if !ok || bo.Op != token.EQL {
		return false
	}
	pol := false
	for w := range core.BackSlice(bo, nil) {
		if c2, ok := w.(*ssa.Call); ok && c2.Call.IsInvoke() && c2.Call.Method.Name() == "RedactionPolicy" {
			pol = true
		}
	}
	s1, _ := core.ConstString(bo.X)
	s2, _ := core.ConstString(bo.Y)
	return pol && (s1 == "urns" || s2 == "urns")
}

// policyEdge: the (must) controlling condition `env.RedactionPolicy() == urns` of block b, if any: returns +1 when b is
// on the redacting edge, -1 when on the non-redacting edge, 0 when the policy does not dominate b.
func policyEdge(b *ssa.BasicBlock) int {
	for _, ce := range core.ControllingConds(b) {
		bo, ok := ce.Cond.(*ssa.BinOp)
		if !ok || (bo.Op != token.EQL && bo.Op != token.NEQ) {
			continue
		}
		isPolicy := func(v ssa.Value) bool {
			c, ok := v.(*ssa.Call)
			return ok && c.Call.IsInvoke() && c.Call.Method.Name() == "RedactionPolicy"
		}
		isURNsConst := func(v ssa.Value) bool { s, ok := core.ConstString(v); return ok && s == "urns" }
		if (isPolicy(bo.X) && isURNsConst(bo.Y)) || (isPolicy(bo.Y) && isURNsConst(bo.X)) {
			redacting := (bo.Op == token.EQL) == ce.Taken
			if redacting {
				return 1
			}
			return -1
		}
	}
	return 0
}

// c19R7: environments rebuilt from another one copy the redaction policy.
func c19R7(p *core.Program, r *core.Report) {
	nBuilders, nCopies := 0, 0
	for _, fn := range p.ModuleFunctions() {
		if p.IsTestFile(fn.Pos()) || fn.Synthetic != "" || core.RelPkg(core.FuncPkgPath(fn)) == "envs" {
			continue
		}
		usesBuilder := false
		copied := map[string]bool{} // With… setter -> fed from an Environment getter
		for _, cs := range core.Calls(fn, false) {
			o := core.CalleeObj(cs.Common())
			if o == nil || o.Pkg() == nil || !strings.HasSuffix(o.Pkg().Path(), "/envs") {
				continue
			}
			if o.Name() == "NewBuilder" {
				usesBuilder = true
			}
			if !strings.HasPrefix(o.Name(), "With") {
				continue
			}
			for _, a := range cs.Common().Args[1:] {
				for v := range core.BackSlice(a, func(*ssa.Call) bool { return true }) {
					if c, ok := v.(*ssa.Call); ok && c.Call.IsInvoke() && strings.HasSuffix(core.ShortType(c.Call.Value.Type()), "Environment") {
						copied[o.Name()] = true
					}
				}
			}
		}
		if !usesBuilder {
			continue
		}
		nBuilders++
		if len(copied) < 2 {
			continue
		}
		nCopies++
		r.Check(copied["WithRedactionPolicy"], "R7", core.FuncName(fn)+"/environment-copy-keeps-redaction-policy", p.Pos(fn.Pos()), "the policy is copied with the other settings",
			core.FuncName(fn)+" rebuilds an environment from an existing one ("+strings.Join(core.SortedKeys(copied), ", ")+") without its redaction policy: the copy does not redact, and URN conditions or URN text handled in it are visible again")
	}
	if nCopies == 0 {
		r.OK("R7", "no-environment-copy-without-policy", "", fmt.Sprintf("%d functions outside envs use the environment builder; none rebuilds an environment from the getters of another", nBuilders))
	}
	r.Count("environment_builders_outside_envs", nBuilders)
	r.Count("environment_copies", nCopies)
	r.Require("environment_builders_outside_envs", nBuilders, 1)
}

func checkC19(p *core.Program, r *core.Report) {
	r.Rule("R1", "single conversion point: in the module's non-test code a value carrying the identifying part of a URN (urns.URN values, results of the urns API other than the scheme, ContactURN.URN()/String()) reaches an X-value constructor only inside ContactURN.ToXValue through withoutQuery(redact); withoutQuery returns nothing derived from path/display/query unless on the redact==false edge; redact is RedactionPolicy()==urns; Contact.Format returns URN-derived text only on the non-redacting edge")
	r.Rule("R2", "queries: every construction of a URN-typed condition (and of a condition on the urn attribute) in the query visitor/parser is guarded by a RedactionPolicy test (rejecting, or on the non-redacting edge)")
	r.Rule("R3", "positive direction: on the non-redacting edge withoutQuery passes scheme, path and display to urns.NewFromParts (only the query is dropped)")
	r.Rule("R4", "the policy in force is the session's current one: session.MergedEnvironment (the environment every template is evaluated under) returns a wrapper built by flows.NewSessionEnvironment on that call; if it returns a value kept in a session field instead, every function that writes session.env also writes that field")
	c19R4(p, r)
	r.Rule("R7", "a copy of an environment keeps its redaction policy: wherever module code builds an environment with envs.NewBuilder and feeds at least two of its With… setters from getters of an existing Environment (a modified copy), WithRedactionPolicy is fed from that environment too — a rebuilt environment without it falls back to policy `none`, and whatever is parsed or evaluated in it (the queries of the smart groups) sees the URNs")
	c19R7(p, r)
	r.Rule("R6", "no decision is taken on the hidden part: in the methods of Contact, URNList and ContactURN (package flows) — which choose the URNs, the preferred URN and channel and the destinations the context then shows — no branch condition is computed from the identifying part of a URN (a result of the urns API other than the scheme, ContactURN.URN()/String()), unless the branch lies on the non-redacting edge of the policy test or is listed: which masked value is shown must not tell what the mask hides")
	c19R6(p, r)
	r.Rule("R5", "a changed policy is a changed environment: environment.Equal, which decides whether a resume's environment replaces the session's, compares the marshalled form of both or reads the redaction policy of both")
	c19R5(p, r)
	r.Assumption("values that reach the context from outside the engine (trigger params, webhook responses, message text) are data, not URN-typed")

	// ------------------------------------------------------------------ R1a sinks
	sinkNames := map[string]bool{"excellent/types.NewXText": true, "excellent/types.NewXErrorf": false}
	nSinks, nTainted := 0, 0
	toX := p.Method("flows", "ContactURN", "ToXValue")
	wq := p.Method("flows", "ContactURN", "withoutQuery")
	format := p.Method("flows", "Contact", "Format")
	if toX == nil || wq == nil || format == nil {
		r.Errorf("ContactURN.ToXValue / withoutQuery / Contact.Format not found")
		return
	}
	for _, cs := range p.AllCalls() {
		o := core.CalleeObj(cs.Common())
		if o == nil || !sinkNames[core.ObjName(o)] || p.IsTestFile(cs.Pos()) {
			continue
		}
		rel := core.RelPkg(core.FuncPkgPath(cs.Caller))
		if strings.HasPrefix(rel, "cmd") || strings.HasPrefix(rel, "test") {
			continue
		}
		nSinks++
		t, why := urnTaint(cs.Common().Args[0])
		if !t {
			continue
		}
		nTainted++
		key := core.FuncName(rootFn(cs.Caller)) + "/NewXText"
		r.Check(policyEdge(cs.Instr.Block()) == -1, "R1", key, p.Pos(cs.Pos()), "URN-derived text becomes an expression value only on the edge where the policy is not urns",
			"URN-derived text ("+why+") is turned into an expression value on a path that is not the non-redacting edge of a RedactionPolicy test: redacted environments can see it")
	}
	r.Require("xtext_constructor_sites", nSinks, 100)
	// the conversion point: ContactURN.ToXValue hands out URN text either from a callee that redacts under the policy
	// flag it is passed, or itself on the non-redacting edge
	{
		point := false
		for _, cs := range core.Calls(toX, false) {
			if o := core.CalleeObj(cs.Common()); o != nil && core.ObjName(o) == "excellent/types.NewXText" {
				urnTaint(cs.Common().Args[0])
				for v := range core.BackSlice(cs.Common().Args[0], nil) {
					if c, ok := v.(*ssa.Call); ok && c19GuardedUses[c] {
						point = true
						r.OK("R1", "ContactURN.ToXValue/redact=policy==urns", p.Pos(c.Pos()), c.Call.StaticCallee().Name()+"(env.RedactionPolicy() == urns): its URN-derived returns lie on the false edge of that flag")
					}
				}
				if t, _ := urnTaint(cs.Common().Args[0]); t && policyEdge(cs.Instr.Block()) == -1 {
					point = true
					r.OK("R1", "ContactURN.ToXValue/unredacted-edge", p.Pos(cs.Pos()), "URN text on the edge where the policy is not urns")
				}
				// the policy test chooses the value instead of the constructor call: a variable that receives URN text only
				// over the non-redacting edge of the test (the sink loop above has judged every other edge)
				if c19TaintedOverUnredactedEdge(cs.Common().Args[0]) {
					point = true
					r.OK("R1", "ContactURN.ToXValue/unredacted-edge-value", p.Pos(cs.Pos()), "URN text flows into the value only over the edge where the policy is not urns")
				}
			}
		}
		r.Check(point, "R1", "ContactURN.ToXValue/conversion-point", p.Pos(toX.Pos()), "URN text is produced under the policy test", "ContactURN.ToXValue does not hand out URN text under a redaction policy test at all (the positive direction: without the policy expressions see the URN)")
	}
	// per return of every module function that was judged by a guard parameter: nothing URN-derived off the false edge
	for g, sm := range c19Sums {
		if sm.guard < 0 {
			continue
		}
		nRet := 0
		for _, ret := range core.Returns(g) {
			nRet++
			t, why := urnTaint(ret.Results[0])
			onFalse := false
			for _, ce := range core.ControllingConds(ret.Block()) {
				if ce.Cond == ssa.Value(g.Params[sm.guard]) && !ce.Taken {
					onFalse = true
				}
			}
			key := fmt.Sprintf("%s/return#%d", core.FuncName(g), nRet)
			r.Check(!t || onFalse, "R1", key, p.Pos(ret.Pos()), map[bool]string{true: "URN text only on the redact==false edge", false: "returns nothing URN-derived"}[t],
				"returns URN-derived text ("+why+") on a path that is not the redact==false edge: redacted environments can see it")
		}
	}
	// ------------------------------------------------------------------ R1c Contact.Format
	nF := 0
	for _, ret := range core.Returns(format) {
		urnTaintDeclassify = false
		raw, why := urnTaint(ret.Results[0])
		urnTaintDeclassify = true
		if !raw {
			continue
		}
		nF++
		t, _ := urnTaint(ret.Results[0])
		r.Check(!t || policyEdge(ret.Block()) == -1, "R1", "Contact.Format/urn-only-unredacted", p.Pos(ret.Pos()), "URN-derived display only on the edge where the policy is not urns",
			"Contact.Format returns URN-derived text ("+why+") on a path not dominated by the non-redacting edge of the policy test: a nameless contact is shown by URN under redaction")
	}
	r.Require("contact_format_urn_returns", nF, 1)
	// ... and under redaction a contact without a name is shown by its id: every return of Contact.Format that is not
	// the name is decided by the policy test, and the redacting edge returns text made from the id
	{
		fieldsOf := func(v ssa.Value) map[string]bool {
			out := map[string]bool{}
			// also the fields read by a helper of the package that is handed the contact (a parameter of the helper is
			// continued in the argument of its call)
			c14Slice(v, nil, core.FuncPkgPath(format), 2, func(*ssa.Call) bool { return true }, func(w ssa.Value, ctx *c14Ctx) {
				if fa, ok := w.(*ssa.FieldAddr); ok && len(format.Params) > 0 && c14Canon(fa.X, ctx, format) == "recv" {
					out[core.FieldAddrVar(fa).Name()] = true
				}
			})
			return out
		}
		idOnRedacting := false
		k := 0
		// what is returned, per way of getting there: a result variable merged at a single exit is taken apart into the
		// values that flow into it and the edge each arrives by
		type leaf struct {
			v        ssa.Value
			pr, succ *ssa.BasicBlock
			pos      token.Pos
		}
		var leaves []leaf
		var expand func(v ssa.Value, pr, succ *ssa.BasicBlock, pos token.Pos, seen map[ssa.Value]bool)
		expand = func(v ssa.Value, pr, succ *ssa.BasicBlock, pos token.Pos, seen map[ssa.Value]bool) {
			if ph, ok := v.(*ssa.Phi); ok && !seen[v] {
				seen[v] = true
				for i, e := range ph.Edges {
					expand(e, ph.Block().Preds[i], ph.Block(), pos, seen)
				}
				return
			}
			leaves = append(leaves, leaf{v, pr, succ, pos})
		}
		for _, ret := range core.Returns(format) {
			expand(ret.Results[0], nil, ret.Block(), ret.Pos(), map[ssa.Value]bool{})
		}
		for _, lf := range leaves {
			fs := fieldsOf(lf.v)
			if fs["name"] && len(fs) == 1 {
				continue
			}
			k++
			pe := 0
			if lf.pr == nil {
				pe = policyEdge(lf.succ)
			} else {
				pe = policyEdgeInto(lf.pr, lf.succ)
			}
			if pe == 1 && fs["id"] {
				idOnRedacting = true
			}
			r.Check(pe != 0, "R1", fmt.Sprintf("Contact.Format/nameless-return#%d/decided-by-policy", k), p.Pos(lf.pos), "returned on one edge of the redaction policy test", "Contact.Format returns something other than the name before asking the redaction policy: under redaction a contact without a name is then not shown by its id")
		}
		r.Check(idOnRedacting, "R1", "Contact.Format/id-when-redacted", p.Pos(format.Pos()), "the redacting edge returns text made from the contact's id", "no return on the redacting edge of Contact.Format is made from the contact's id")
	}
	// any other function in package flows (non-test) that returns a string derived from a URN and takes an Environment is
	// suspicious; enumerate them
	for _, fn := range p.ModuleFunctions() {
		if p.IsTestFile(fn.Pos()) || fn == format || fn == wq || fn.Parent() != nil {
			continue
		}
		rel := core.RelPkg(core.FuncPkgPath(fn))
		if rel != "flows" && rel != "flows/runs" && rel != "flows/inputs" && rel != "flows/triggers" && rel != "flows/resumes" {
			continue
		}
		takesEnv := false
		for _, prm := range fn.Params {
			if strings.HasSuffix(core.ShortType(prm.Type()), "envs.Environment") {
				takesEnv = true
			}
		}
		if !takesEnv || fn.Signature.Results().Len() == 0 {
			continue
		}
		if b, ok := fn.Signature.Results().At(0).Type().Underlying().(*types.Basic); !ok || b.Kind() != types.String {
			continue
		}
		for _, ret := range core.Returns(fn) {
			if t, why := urnTaint(ret.Results[0]); t {
				r.Check(policyEdge(ret.Block()) == -1, "R1", core.FuncName(fn)+"/urn-text-return", p.Pos(ret.Pos()), "only on the non-redacting edge",
					"an environment-aware formatter returns URN-derived text ("+why+") without a dominating policy test")
			}
		}
	}

	// ------------------------------------------------------------------ R3
	posOK := false
	for _, ec := range core.EffectiveCalls(toX, 1) {
		cs := ec.Inner
		if o := core.CalleeObj(cs.Common()); o != nil && o.Pkg() != nil && o.Pkg().Path() == urnsPkg && o.Name() == "NewFromParts" {
			a := cs.Common().Args
			idx := func(v ssa.Value) int {
				if ex, ok := v.(*ssa.Extract); ok {
					return ex.Index
				}
				return -1
			}
			if len(a) == 4 && idx(a[0]) == 0 && idx(a[1]) == 1 && idx(a[3]) == 3 {
				posOK = true
			}
		}
	}
	r.Check(posOK, "R3", "ContactURN.ToXValue/keeps-scheme-path-display", p.Pos(toX.Pos()), "NewFromParts(scheme, path, nil, display)", "without the policy the URN handed to expressions no longer carries scheme, path and display")

	// ------------------------------------------------------------------ R2 queries
	c19R2(p, r)
}

func c19R2(p *core.Program, r *core.Report) {
	newCond := p.Func("contactql", "NewCondition")
	if newCond == nil {
		r.Errorf("contactql.NewCondition not found")
		return
	}
	// a block tests the redaction policy when it calls RedactionPolicy() itself or a helper of the package that does
	// (an extracted `checkURNsNotRedacted(value)`)
	var fnTestsPolicy func(f *ssa.Function, depth int) bool
	fnTestsPolicy = func(f *ssa.Function, depth int) bool {
		if f == nil || len(f.Blocks) == 0 || depth > 2 || core.RelPkg(core.FuncPkgPath(f)) != "contactql" {
			return false
		}
		for _, cs := range core.Calls(f, false) {
			if cs.Common().IsInvoke() && cs.Common().Method.Name() == "RedactionPolicy" {
				return true
			}
			if fnTestsPolicy(cs.Common().StaticCallee(), depth+1) {
				return true
			}
		}
		return false
	}
	hasPolicyCall := func(b *ssa.BasicBlock) bool {
		for _, in := range b.Instrs {
			if c, ok := in.(*ssa.Call); ok {
				if c.Call.IsInvoke() && c.Call.Method.Name() == "RedactionPolicy" {
					return true
				}
				if fnTestsPolicy(c.Call.StaticCallee(), 0) {
					return true
				}
			}
			// the test was hoisted into a local: the block branches on a value computed from the policy
			if iff, ok := in.(*ssa.If); ok {
				for w := range core.BackSlice(iff.Cond, nil) {
					if c, ok := w.(*ssa.Call); ok && c.Call.IsInvoke() && c.Call.Method.Name() == "RedactionPolicy" {
						return true
					}
				}
			}
		}
		return false
	}
	n := 0
	for _, cs := range p.CallsTo(newCond) {
		if p.IsTestFile(cs.Pos()) || core.RelPkg(core.FuncPkgPath(cs.Caller)) != "contactql" {
			continue
		}
		typArg := cs.Common().Args[0]
		keyArg := cs.Common().Args[1]
		fnName := core.FuncName(cs.Caller)
		// direct constant
		if s, ok := core.ConstString(typArg); ok {
			if s == "urn" {
				n++
				r.Check(policyEdge(cs.Instr.Block()) == -1, "R2", fnName+"/NewCondition(urn)@"+blockLabel(cs.Instr.Block()), p.Pos(cs.Pos()), "URN condition built only on the non-redacting edge",
					"a URN condition is built without a dominating redaction-policy test")
			}
			continue
		}
		// phi of constants: every edge that brings the URN type must have passed a policy test inside its arm
		phi, ok := typArg.(*ssa.Phi)
		if !ok {
			continue
		}
		top := phi.Block().Idom()
		var visit func(ph *ssa.Phi, seen map[*ssa.Phi]bool)
		armNo := 0
		visit = func(ph *ssa.Phi, seen map[*ssa.Phi]bool) {
			if seen[ph] {
				return
			}
			seen[ph] = true
			for i, ev := range ph.Edges {
				if p2, ok := ev.(*ssa.Phi); ok {
					visit(p2, seen)
					continue
				}
				s, ok := core.ConstString(ev)
				if !ok || s != "urn" {
					continue
				}
				n++
				armNo++
				pred := ph.Block().Preds[i]
				guarded := false
				for b := pred; b != nil && b != top; b = b.Idom() {
					if hasPolicyCall(b) || policyEdge(b) != 0 {
						guarded = true
					}
				}
				r.Check(guarded, "R2", fmt.Sprintf("%s/urn-arm#%d", fnName, armNo), p.Pos(pred.Instrs[len(pred.Instrs)-1].Pos()), "the arm that selects the URN property type tests the redaction policy",
					"an arm of the condition visitor yields a URN-typed condition without consulting the redaction policy (e.g. the `urns.<scheme>` prefix form): contact queries on URNs are accepted under redaction")
			}
		}
		visit(phi, map[*ssa.Phi]bool{})
		// the `urn` attribute: a block comparing the key with "urn" must lead to a policy test
		_ = keyArg
	}
	r.Require("urn_condition_constructions", n, 2)
	// urn attribute guard
	vc := p.Method("contactql", "visitor", "VisitCondition")
	if vc != nil {
		ok := false
		core.EachInstr(vc, false, func(_ *ssa.Function, in ssa.Instruction) {
			bo, isB := in.(*ssa.BinOp)
			if !isB || bo.Op != token.EQL {
				return
			}
			s1, _ := core.ConstString(bo.X)
			s2, _ := core.ConstString(bo.Y)
			if s1 != "urn" && s2 != "urn" {
				return
			}
			// the true edge of this comparison leads to a block with a RedactionPolicy call
			for _, ref := range *bo.Referrers() {
				if iff, isIf := ref.(*ssa.If); isIf {
					if hasPolicyCall(iff.Block().Succs[0]) {
						ok = true
					}
				}
			}
		})
		r.Check(ok, "R2", "visitor.VisitCondition/urn-attribute-guard", p.Pos(vc.Pos()), "key == \"urn\" leads to a redaction-policy test", "the `urn` attribute can be queried without a redaction-policy test")
	} else {
		r.Errorf("contactql visitor.VisitCondition not found")
	}
	// ParseQuery's tel rewrite
	pq := p.Func("contactql", "ParseQuery")
	if pq != nil {
		// wherever a constant starting with `tel` is used to build text (Sprintf format or concatenation)
		ok, nTel := true, 0
		type telUse struct {
			in  ssa.Instruction
			ctx *c14Ctx
		}
		judged := map[telUse]bool{}
		judge := func(in ssa.Instruction, ctx *c14Ctx) {
			if judged[telUse{in, ctx}] {
				return
			}
			judged[telUse{in, ctx}] = true
			for _, op := range in.Operands(nil) {
				if s, isC := core.ConstString(*op); isC && strings.HasPrefix(s, "tel") {
					nTel++
					// the non-redacting edge is where the text is built, or where the helper that builds it is called
					unredacted := policyEdge(in.Block()) == -1 || c19UnderNonEmptyFromUnredacted(in.Block())
					for c := ctx; c != nil; c = c.up {
						if policyEdge(c.call.Block()) == -1 || c19UnderNonEmptyFromUnredacted(c.call.Block()) {
							unredacted = true
						}
					}
					if !unredacted {
						ok = false
					}
				}
			}
		}
		core.EachInstr(pq, false, func(_ *ssa.Function, in ssa.Instruction) { judge(in, nil) })
		// ... also in the helpers of the package that make the text ParseQuery hands to the lexer (C14/R6's slice)
		_, inputs := c14LexerInputs(pq)
		for _, li := range inputs {
			if in, isInstr := li.v.(ssa.Instruction); isInstr {
				judge(in, li.ctx)
			}
		}
		ok = ok && nTel > 0
		r.Check(ok, "R2", "ParseQuery/tel-rewrite-unredacted-only", p.Pos(pq.Pos()), "a bare number becomes `tel = ...` only when the policy is not urns", "a bare number is rewritten into a tel query under redaction")
	}
}

func c19R4(p *core.Program, r *core.Report) {
	me := p.Method("flows/engine", "session", "MergedEnvironment")
	envField := p.FieldOf("flows/engine", "session", "env")
	if me == nil || envField == nil {
		r.Errorf("session.MergedEnvironment / session.env not found")
		return
	}
	// session fields the result may come from
	cached := map[*types.Var]bool{}
	fresh := false
	for _, b := range me.Blocks {
		ret, ok := b.Instrs[len(b.Instrs)-1].(*ssa.Return)
		if !ok || len(ret.Results) == 0 {
			continue
		}
		for v := range core.BackSlice(ret.Results[0], nil) {
			switch x := v.(type) {
			case *ssa.UnOp:
				if fv := core.FieldAddrVar(x.X); fv != nil && x.Op == token.MUL {
					cached[fv] = true
				}
			case *ssa.Call:
				if o := core.CalleeObj(&x.Call); o != nil && core.ObjName(o) == "flows.NewSessionEnvironment" {
					fresh = true
				}
			}
		}
	}
	if len(cached) == 0 {
		r.Check(fresh, "R4", "session.MergedEnvironment/fresh", p.Pos(me.Pos()), "built by NewSessionEnvironment on every call", "session.MergedEnvironment does not build its result with flows.NewSessionEnvironment")
		return
	}
	// a cache: every writer of session.env must reset it
	var missing []string
	for _, w := range p.FieldWrites(envField) {
		if p.IsTestFile(w.Instr.Pos()) {
			continue
		}
		for fv := range cached {
			resets := false
			for _, w2 := range p.FieldWrites(fv) {
				if rootFn(w2.Fn) == rootFn(w.Fn) {
					resets = true
				}
			}
			if !resets {
				missing = append(missing, core.FuncName(w.Fn)+" (writes env, not "+fv.Name()+")")
			}
		}
	}
	sort.Strings(missing)
	r.Check(len(missing) == 0, "R4", "session.MergedEnvironment/fresh", p.Pos(me.Pos()), "cached wrapper is reset wherever the environment is replaced",
		"session.MergedEnvironment returns a wrapper kept in the session, but "+strings.Join(missing, ", ")+": after a resume with a new environment, templates are still evaluated under the old redaction policy")
}

func c19R5(p *core.Program, r *core.Report) {
	eq := p.Method("envs", "environment", "Equal")
	if eq == nil {
		r.Errorf("envs.environment.Equal not found")
		return
	}
	marshals, field, getter := 0, false, false
	core.EachInstr(eq, false, func(_ *ssa.Function, in ssa.Instruction) {
		switch x := in.(type) {
		case *ssa.FieldAddr:
			if core.FieldAddrVar(x).Name() == "redactionPolicy" {
				field = true
			}
		case ssa.CallInstruction:
			if x.Common().IsInvoke() && x.Common().Method.Name() == "RedactionPolicy" {
				getter = true
			}
			if o := core.CalleeObj(x.Common()); o != nil && (strings.HasSuffix(core.ObjName(o), "jsonx.Marshal") || core.ObjName(o) == "encoding/json.Marshal") {
				marshals++
			}
		}
	})
	r.Check(marshals >= 2 || (field && getter), "R5", "environment.Equal/sees-redaction-policy", p.Pos(eq.Pos()), map[bool]string{true: "compares the marshalled environments", false: "reads the redaction policy of both"}[marshals >= 2],
		"environment.Equal does not look at the redaction policy: a resume whose environment differs only in the policy counts as unchanged, so where the new environment is installed only when it differs (or announced only then) the session keeps evaluating under the old policy")
}

// c19UnderNonEmptyFromUnredacted: block b runs only where a string X is non-empty, X being a variable that receives a
// non-constant value only over the non-redacting edge of a policy test (it is "" otherwise).
func c19UnderNonEmptyFromUnredacted(b *ssa.BasicBlock) bool {
	for _, ce := range core.ControllingConds(b) {
		bo, ok := ce.Cond.(*ssa.BinOp)
		if !ok || (bo.Op != token.NEQ && bo.Op != token.EQL) {
			continue
		}
		var x ssa.Value
		if sc, isC := core.ConstString(bo.Y); isC && sc == "" {
			x = bo.X
		} else if sc, isC := core.ConstString(bo.X); isC && sc == "" {
			x = bo.Y
		}
		if x == nil || (bo.Op == token.NEQ) != ce.Taken {
			continue
		}
		phi, ok := x.(*ssa.Phi)
		if !ok {
			continue
		}
		all := true
		for i, e := range phi.Edges {
			if sc, isC := core.ConstString(e); isC && sc == "" {
				continue
			}
			if policyEdgeInto(phi.Block().Preds[i], phi.Block()) != -1 {
				all = false
			}
		}
		if all {
			return true
		}
	}
	return false
}

// ---------------------------------------------------------------------------------------------- R6

// c19BranchAllowed: branches on URN content in those methods that the property allows. key as reported.
var c19BranchAllowed = map[string]string{}

func c19R6(p *core.Program, r *core.Report) {
	n := 0
	// what the context shows of a contact is computed by the Context / ToXValue / MapContext / Format methods of
	// package flows and whatever they call, directly or through the lazy closures they hand out
	reach := map[*ssa.Function]bool{}
	var visit func(fn *ssa.Function)
	visit = func(fn *ssa.Function) {
		if fn == nil || reach[fn] || len(fn.Blocks) == 0 || core.RelPkg(core.FuncPkgPath(fn)) != "flows" {
			return
		}
		reach[fn] = true
		for _, an := range fn.AnonFuncs {
			visit(an)
		}
		core.EachInstr(fn, false, func(_ *ssa.Function, in ssa.Instruction) {
			switch x := in.(type) {
			case ssa.CallInstruction:
				visit(x.Common().StaticCallee())
			case *ssa.MakeClosure:
				if f, ok := x.Fn.(*ssa.Function); ok {
					visit(f)
				}
			}
		})
	}
	nRoots := 0
	for _, fn := range p.ModuleFunctions() {
		if core.RelPkg(core.FuncPkgPath(fn)) != "flows" || p.IsTestFile(fn.Pos()) || fn.Signature.Recv() == nil {
			continue
		}
		rt := fn.Signature.Recv().Type()
		if pt, ok := rt.(*types.Pointer); ok {
			rt = pt.Elem()
		}
		nt, ok := rt.(*types.Named)
		if !ok || (nt.Obj().Name() != "Contact" && nt.Obj().Name() != "URNList" && nt.Obj().Name() != "ContactURN") {
			continue
		}
		switch fn.Name() {
		case "Context", "ToXValue", "MapContext", "Format":
			nRoots++
			visit(fn)
		}
	}
	r.Require("context_roots_of_contact_and_urns", nRoots, 4)
	var fns []*ssa.Function
	for _, fn := range p.ModuleFunctions() {
		if reach[fn] {
			fns = append(fns, fn)
		}
	}
	for fn := range reach {
		if fn.Parent() != nil || fn.Synthetic != "" {
			found := false
			for _, g := range fns {
				if g == fn {
					found = true
				}
			}
			if !found {
				fns = append(fns, fn)
			}
		}
	}
	sort.SliceStable(fns, func(i, j int) bool { return core.FuncName(fns[i]) < core.FuncName(fns[j]) })
	for _, fn := range fns {
		ord := 0
		core.EachInstr(fn, false, func(_ *ssa.Function, in ssa.Instruction) {
			iff, ok := in.(*ssa.If)
			if !ok {
				return
			}
			n++
			t, why := urnTaint(iff.Cond)
			if !t {
				return
			}
			ord++
			key := fmt.Sprintf("%s/branch-on-urn#%d", core.FuncName(fn), ord)
			if policyEdge(iff.Block()) == -1 {
				r.OK("R6", key, p.Pos(condPos(iff)), "on the non-redacting edge of the policy test")
				return
			}
			if reason, ok := c19BranchAllowed[key]; ok {
				r.OK("R6", key, p.Pos(condPos(iff)), "listed: "+reason)
				return
			}
			r.Bad("R6", key, p.Pos(condPos(iff)), "a branch of "+fn.Name()+" is decided by "+why+": what the context shows (which URN, channel or destination) then depends on the part of the URN that redaction hides")
		})
	}
	r.Count("branches_in_context_methods", n)
	r.Require("branches_in_context_methods", n, 10)
}

func condPos(iff *ssa.If) token.Pos {
	if iff.Cond.Pos().IsValid() {
		return iff.Cond.Pos()
	}
	if c, ok := iff.Cond.(*ssa.BinOp); ok && c.X.Pos().IsValid() {
		return c.X.Pos()
	}
	return iff.Parent().Pos()
}
