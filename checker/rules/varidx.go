package rules

// Variable indexes: x[i], s[i], x[lo:hi] with a computed index in the evaluation packages. A site is discharged when,
// on every path, the index is shown non-negative and below (for slice bounds: at most) the length of the very value it
// indexes — by a dominating comparison with len() of that value (or of a value shown to have the same length), by
// being the index of a range loop over it, by len-k / min(len, …) / negative-index normalisation arithmetic, by the
// contract of package sort — or by a listed reason. Functions that index with an unchecked parameter (XArray.Get) move
// the obligation to each of their call sites.

import (
	"fmt"
	"go/ast"
	"go/token"
	"go/types"
	"math"
	"regexp"
	"strings"

	"golang.org/x/tools/go/ssa"

	"verif/checker/core"
)

type varIdxSite struct {
	fn    *ssa.Function
	instr ssa.Instruction
	base  ssa.Value
	idx   ssa.Value
	kind  string // index | low | high
	hi    ssa.Value
	// forwarded site: the length is described by an expression over the callee's receiver, instantiated at the call
	measured string
}

func isIndexable(t types.Type) bool {
	switch u := t.Underlying().(type) {
	case *types.Slice, *types.Array:
		return true
	case *types.Basic:
		return u.Info()&types.IsString != 0
	case *types.Pointer:
		_, ok := u.Elem().Underlying().(*types.Array)
		return ok
	}
	return false
}

func varIndexSites(fn *ssa.Function) []varIdxSite {
	var out []varIdxSite
	core.EachInstr(fn, false, func(f *ssa.Function, in ssa.Instruction) {
		nonConst := func(v ssa.Value) bool {
			if v == nil {
				return false
			}
			_, isC := core.ConstInt(v)
			return !isC
		}
		switch x := in.(type) {
		case *ssa.IndexAddr:
			if isIndexable(x.X.Type()) && nonConst(x.Index) {
				out = append(out, varIdxSite{fn: f, instr: in, base: x.X, idx: x.Index, kind: "index"})
			}
		case *ssa.Index:
			if isIndexable(x.X.Type()) && nonConst(x.Index) {
				out = append(out, varIdxSite{fn: f, instr: in, base: x.X, idx: x.Index, kind: "index"})
			}
		case *ssa.Lookup:
			if b, ok := x.X.Type().Underlying().(*types.Basic); ok && b.Info()&types.IsString != 0 && nonConst(x.Index) {
				out = append(out, varIdxSite{fn: f, instr: in, base: x.X, idx: x.Index, kind: "index"})
			}
		case *ssa.Slice:
			if !isIndexable(x.X.Type()) {
				return
			}
			if nonConst(x.Low) {
				out = append(out, varIdxSite{fn: f, instr: in, base: x.X, idx: x.Low, kind: "low", hi: x.High})
			}
			if nonConst(x.High) {
				out = append(out, varIdxSite{fn: f, instr: in, base: x.X, idx: x.High, kind: "high"})
			}
		}
	})
	return out
}

func isLenCall(v ssa.Value) (ssa.Value, bool) {
	c, ok := v.(*ssa.Call)
	if !ok {
		return nil, false
	}
	bi, ok := c.Call.Value.(*ssa.Builtin)
	if !ok || bi.Name() != "len" {
		return nil, false
	}
	return c.Call.Args[0], true
}

// countedMapRange: ph counts the iterations of `for k := range M` (0 on entry, +1 exactly once per iteration), base
// was made with len(M) elements, the site lies inside the loop body and nothing in the body can add to M: the k-th
// iteration sees ph == k < len(M) == len(base).
func countedMapRange(ph *ssa.Phi, base ssa.Value, conds []core.CondEdge) bool {
	hdr := ph.Block()
	if len(ph.Edges) != 2 {
		return false
	}
	entryOK, backOK := false, false
	for i, e := range ph.Edges {
		if hdr.Dominates(hdr.Preds[i]) {
			if bo, ok := e.(*ssa.BinOp); ok && bo.Op == token.ADD && bo.X == ssa.Value(ph) {
				if k, isC := core.ConstInt(bo.Y); isC && k == 1 {
					backOK = true
				}
			}
		} else if k, isC := core.ConstInt(e); isC && k == 0 {
			entryOK = true
		}
	}
	if !entryOK || !backOK {
		return false
	}
	var next *ssa.Next
	for _, in := range hdr.Instrs {
		if n, ok := in.(*ssa.Next); ok && !n.IsString {
			next = n
		}
	}
	if next == nil {
		return false
	}
	rng, ok := next.Iter.(*ssa.Range)
	if !ok {
		return false
	}
	if _, isMap := rng.X.Type().Underlying().(*types.Map); !isMap {
		return false
	}
	mk, ok := derefLocal(base).(*ssa.MakeSlice)
	if !ok || !isLenOf(mk.Len, rng.X) {
		return false
	}
	inBody := false
	for _, ce := range conds {
		if ex, ok := ce.Cond.(*ssa.Extract); ok && ce.Taken && ex.Tuple == ssa.Value(next) && ex.Index == 0 {
			inBody = true
		}
	}
	if !inBody {
		return false
	}
	for _, b := range hdr.Parent().Blocks {
		if !hdr.Dominates(b) || !core.Reachable(b, nil)[hdr] {
			continue
		}
		for _, in := range b.Instrs {
			switch x := in.(type) {
			case *ssa.MapUpdate, *ssa.Go, *ssa.Defer:
				return false
			case *ssa.Call:
				if _, isB := x.Call.Value.(*ssa.Builtin); !isB && !pureLibraryCall(x) {
					return false
				}
			}
		}
	}
	return true
}

// derefLocal: a load of a local variable that is stored exactly once yields the stored value.
func derefLocal(v ssa.Value) ssa.Value {
	for {
		switch x := v.(type) {
		case *ssa.ChangeType:
			v = x.X
			continue
		case *ssa.Slice:
			if x.Low == nil && x.High == nil {
				v = x.X
				continue
			}
		case *ssa.UnOp:
			if x.Op == token.MUL {
				if st := fieldStored(x); st != nil {
					v = st
					continue
				}
				if al, ok := x.X.(*ssa.Alloc); ok {
					var stored ssa.Value
					n := 0
					for _, ref := range *al.Referrers() {
						if st, ok := ref.(*ssa.Store); ok && st.Addr == al {
							stored = st.Val
							n++
						}
					}
					if n == 1 {
						v = stored
						continue
					}
				}
				if fv, ok := x.X.(*ssa.FreeVar); ok {
					// a captured local: find the binding in the enclosing function
					lit := fv.Parent()
					if lit != nil && lit.Parent() != nil {
						for i, f2 := range lit.FreeVars {
							if f2 != fv {
								continue
							}
							for _, b := range lit.Parent().Blocks {
								for _, in := range b.Instrs {
									if mc, ok := in.(*ssa.MakeClosure); ok && mc.Fn == ssa.Value(lit) && i < len(mc.Bindings) {
										if al, ok := mc.Bindings[i].(*ssa.Alloc); ok {
											var stored ssa.Value
											n := 0
											for _, ref := range *al.Referrers() {
												if st, ok := ref.(*ssa.Store); ok && st.Addr == al {
													stored = st.Val
													n++
												}
											}
											if n == 1 {
												return derefLocal(stored)
											}
										}
									}
								}
							}
						}
					}
				}
			}
		}
		return v
	}
}

// varRoot: the local variable a load reads (directly, or through the free variable of a function literal bound to it).
func varRoot(v ssa.Value) *ssa.Alloc {
	v = stripIface(v)
	for {
		if sl, ok := v.(*ssa.Slice); ok && sl.Low == nil && sl.High == nil {
			v = sl.X
			continue
		}
		break
	}
	ld, ok := v.(*ssa.UnOp)
	if !ok || ld.Op != token.MUL {
		return nil
	}
	if al, ok := ld.X.(*ssa.Alloc); ok {
		return al
	}
	if fv, ok := ld.X.(*ssa.FreeVar); ok {
		lit := fv.Parent()
		if lit == nil || lit.Parent() == nil {
			return nil
		}
		for i, f2 := range lit.FreeVars {
			if f2 != fv {
				continue
			}
			for _, b := range lit.Parent().Blocks {
				for _, in := range b.Instrs {
					if mc, ok := in.(*ssa.MakeClosure); ok && mc.Fn == ssa.Value(lit) && i < len(mc.Bindings) {
						if al, ok := mc.Bindings[i].(*ssa.Alloc); ok {
							return al
						}
					}
				}
			}
		}
	}
	return nil
}

// fieldStored: v loads a struct field that the same function assigned exactly once, in a block dominating the load:
// the assigned value.
func fieldStored(v ssa.Value) ssa.Value {
	ld, ok := v.(*ssa.UnOp)
	if !ok || ld.Op != token.MUL {
		return nil
	}
	fa, ok := ld.X.(*ssa.FieldAddr)
	if !ok || ld.Parent() == nil {
		return nil
	}
	want := canon(fa)
	var stored ssa.Value
	n := 0
	for _, b := range ld.Parent().Blocks {
		for _, in := range b.Instrs {
			if st, ok := in.(*ssa.Store); ok {
				if fa2, ok := st.Addr.(*ssa.FieldAddr); ok && fa2.Field == fa.Field && canon(fa2) == want {
					n++
					if b.Dominates(ld.Block()) {
						stored = st.Val
					}
				}
			}
		}
	}
	if n == 1 {
		return stored
	}
	return nil
}

// sameSeq: a and b denote the same sequence value.
func sameSeq(a, b ssa.Value) bool {
	if a == b || canon(a) == canon(b) {
		return true
	}
	if ra, rb := varRoot(a), varRoot(b); ra != nil && ra == rb {
		return true
	}
	da, db := derefLocal(a), derefLocal(b)
	return da == db || canon(da) == canon(db)
}

// isLenOf: v is len(base).
func isLenOf(v ssa.Value, base ssa.Value) bool {
	a, ok := isLenCall(v)
	return ok && sameSeq(a, base)
}

// lengthGetter: fn is `func (r T) M() int { return len(r.P()) }` (or len(r.f)): the canonical text of the measured
// expression with the receiver written as "recv".
func lengthGetter(fn *ssa.Function) (string, bool) {
	if fn == nil || len(fn.Blocks) != 1 || fn.Signature.Recv() == nil {
		return "", false
	}
	rets := core.Returns(fn)
	if len(rets) != 1 || len(rets[0].Results) != 1 {
		return "", false
	}
	a, ok := isLenCall(rets[0].Results[0])
	if !ok {
		return "", false
	}
	return canonRecv(a, fn), true
}

// canonRecv renders v canonically with every occurrence of fn's receiver parameter written as "recv".
func canonRecv(v ssa.Value, fn *ssa.Function) string {
	s := canon(derefLocal(v))
	if fn == nil || fn.Signature.Recv() == nil || len(fn.Params) == 0 {
		return s
	}
	return regexp.MustCompile(`\b`+regexp.QuoteMeta(fn.Params[0].Name())+`\b`).ReplaceAllString(s, "recv")
}

// lenExpr: the canonical text of the sequence whose length v denotes ("" if v is not a length).
func lenExpr(v ssa.Value) string {
	if a, ok := isLenCall(v); ok {
		return canon(derefLocal(a))
	}
	if c, ok := v.(*ssa.Call); ok {
		if measured, ok := lengthGetter(c.Call.StaticCallee()); ok && len(c.Call.Args) > 0 {
			return strings.ReplaceAll(measured, "recv", canon(c.Call.Args[0]))
		}
	}
	return ""
}

// equivLen: L and N denote the same number.
func equivLen(L, N ssa.Value) bool {
	if L == N || canon(L) == canon(N) {
		return true
	}
	if a, b := lenExpr(L), lenExpr(N); a != "" && a == b {
		return true
	}
	// len(make([]T, n)) == n
	for _, pr := range [][2]ssa.Value{{L, N}, {N, L}} {
		if a, ok := isLenCall(pr[0]); ok {
			if mk, ok := derefLocal(a).(*ssa.MakeSlice); ok && (mk.Len == pr[1] || canon(mk.Len) == canon(pr[1]) || (lenExpr(mk.Len) != "" && lenExpr(mk.Len) == lenExpr(pr[1]))) {
				return true
			}
		}
	}
	// len(x[k:]) == len(x) - k
	sub := func(p, q ssa.Value) bool {
		a, ok := isLenCall(q)
		if !ok {
			return false
		}
		sl, ok := a.(*ssa.Slice)
		if !ok || sl.High != nil || sl.Low == nil {
			return false
		}
		k, ok := core.ConstInt(sl.Low)
		if !ok {
			return false
		}
		bo, ok := p.(*ssa.BinOp)
		if !ok || bo.Op != token.SUB {
			return false
		}
		k2, ok := core.ConstInt(bo.Y)
		return ok && k2 == k && isLenOf(bo.X, sl.X)
	}
	return sub(L, N) || sub(N, L)
}

type idxCtx struct {
	conds   []core.CondEdge
	aliases []ssa.Value // values that denote the index on this path
}

func (c *idxCtx) isIdx(v ssa.Value) bool {
	for _, a := range c.aliases {
		if v == a || canon(v) == canon(a) {
			return true
		}
	}
	return false
}

type idxCmp struct {
	op    token.Token // idx OP other
	other ssa.Value
}

// comparisons of the index with something, read from the dominating conditions (normalised to idx OP other, taken).
func (c *idxCtx) cmps() []idxCmp {
	var out []idxCmp
	var read func(cond ssa.Value, taken bool)
	read = func(cond ssa.Value, taken bool) {
		if un, ok := cond.(*ssa.UnOp); ok && un.Op == token.NOT {
			read(un.X, !taken)
			return
		}
		bo, ok := cond.(*ssa.BinOp)
		if !ok {
			return
		}
		op := bo.Op
		x, y := bo.X, bo.Y
		if c.isIdx(y) && !c.isIdx(x) {
			x, y = y, x
			switch op {
			case token.LSS:
				op = token.GTR
			case token.GTR:
				op = token.LSS
			case token.LEQ:
				op = token.GEQ
			case token.GEQ:
				op = token.LEQ
			}
		} else if !c.isIdx(x) {
			return
		}
		if !taken {
			switch op {
			case token.LSS:
				op = token.GEQ
			case token.GEQ:
				op = token.LSS
			case token.GTR:
				op = token.LEQ
			case token.LEQ:
				op = token.GTR
			case token.EQL:
				op = token.NEQ
			case token.NEQ:
				op = token.EQL
			default:
				return
			}
		}
		out = append(out, idxCmp{op, y})
	}
	for _, ce := range c.conds {
		read(ce.Cond, ce.Taken)
	}
	return out
}

// lenAtLeast: len(base) >= N at the site (N a length value).
func lenAtLeast(base, N ssa.Value, conds []core.CondEdge, measured string) bool {
	if measured != "" {
		return lenExpr(N) == measured
	}
	if isLenOf(N, base) {
		return true
	}
	// N = len(x) with x = make([]T, len(base))
	if a, ok := isLenCall(N); ok {
		if mk, ok := derefLocal(a).(*ssa.MakeSlice); ok && (isLenOf(mk.Len, base) || (lenExpr(mk.Len) != "" && lenExpr(mk.Len) == canon(derefLocal(base)))) {
			return true
		}
	}
	// base holds the arguments of a function that is only entered through functions.NumArgsCheck(len(seq), f): it has
	// exactly len(seq) elements (the wrapper's contract is C04/R3)
	if prm, ok := base.(*ssa.Parameter); ok {
		if a, isLen := isLenCall(N); isLen {
			if seq := argsCountChecked(prm, 0); seq != "" && seq == recvCanonOf(a, prm.Parent()) {
				return true
			}
		}
	}
	b := derefLocal(base)
	if mk, ok := b.(*ssa.MakeSlice); ok {
		if equivLen(mk.Len, N) {
			return true
		}
		// make([]T, len(a)+len(b)) is at least as long as either
		if sum, ok := mk.Len.(*ssa.BinOp); ok && sum.Op == token.ADD {
			if (equivLen(sum.X, N) && intLB(sum.Y, map[ssa.Value]bool{}, 0) >= 0) || (equivLen(sum.Y, N) && intLB(sum.X, map[ssa.Value]bool{}, 0) >= 0) {
				return true
			}
		}
	}
	if ph, ok := b.(*ssa.Phi); ok {
		all := len(ph.Edges) > 0
		for _, e := range ph.Edges {
			if e != ssa.Value(ph) && !lenAtLeast(e, N, conds, "") {
				all = false
			}
		}
		if all {
			return true
		}
	}
	// an equal-length guard: `len(base) != N` left the function
	want := lenExpr(N)
	for _, ce := range conds {
		bo, ok := ce.Cond.(*ssa.BinOp)
		if !ok || !((bo.Op == token.EQL && ce.Taken) || (bo.Op == token.NEQ && !ce.Taken) || (bo.Op == token.GEQ && ce.Taken) || (bo.Op == token.LSS && !ce.Taken)) {
			continue
		}
		p, q := bo.X, bo.Y
		pe, qe := lenExpr(p), lenExpr(q)
		baseE := canon(derefLocal(base))
		if bo.Op == token.EQL || bo.Op == token.NEQ {
			if (pe == baseE && (q == N || (want != "" && qe == want))) || (qe == baseE && (p == N || (want != "" && pe == want))) {
				return true
			}
		} else if pe == baseE && (q == N || (want != "" && qe == want)) { // len(base) >= N
			return true
		}
	}
	return false
}

// intLB: a lower bound of integer value v that holds wherever v is defined (no path conditions).
func intLB(v ssa.Value, seen map[ssa.Value]bool, depth int) int64 {
	const ninf = math.MinInt64 / 4
	const pinf = math.MaxInt64 / 4
	if depth > 8 {
		return ninf
	}
	if k, ok := core.ConstInt(v); ok {
		return k
	}
	if seen[v] {
		return pinf // a cycle contributes nothing new to the minimum
	}
	seen[v] = true
	defer delete(seen, v)
	switch x := v.(type) {
	case *ssa.Call:
		if bi, ok := x.Call.Value.(*ssa.Builtin); ok {
			switch bi.Name() {
			case "len", "cap":
				return 0
			case "min":
				lb := int64(pinf)
				for _, a := range x.Call.Args {
					if l := intLB(a, seen, depth+1); l < lb {
						lb = l
					}
				}
				return lb
			case "max":
				lb := int64(ninf)
				for _, a := range x.Call.Args {
					if l := intLB(a, seen, depth+1); l > lb {
						lb = l
					}
				}
				return lb
			}
		}
		if _, ok := lengthGetter(x.Call.StaticCallee()); ok {
			return 0
		}
		if o := core.CalleeObj(&x.Call); o != nil {
			switch core.ObjName(o) {
			case "strings.Index", "strings.IndexByte", "strings.IndexRune", "strings.LastIndex", "strings.IndexAny", "bytes.IndexByte", "bytes.Index":
				return -1
			case "strings.Count", "unicode/utf8.RuneCountInString", "unicode/utf8.RuneLen":
				return 0
			}
		}
	case *ssa.Phi:
		lb := int64(pinf)
		for _, e := range x.Edges {
			if l := intLB(e, seen, depth+1); l < lb {
				lb = l
			}
		}
		return lb
	case *ssa.BinOp:
		l, r := intLB(x.X, seen, depth+1), intLB(x.Y, seen, depth+1)
		switch x.Op {
		case token.ADD:
			if l <= ninf || r <= ninf {
				return ninf
			}
			if l >= pinf || r >= pinf {
				if (l >= pinf && r >= 0) || (r >= pinf && l >= 0) {
					return pinf // phi + k inside the phi's own cycle
				}
				return ninf
			}
			return l + r
		case token.MUL:
			if l >= 0 && r >= 0 && l < pinf && r < pinf {
				return 0
			}
		case token.QUO, token.REM:
			if l >= 0 && r >= 1 && l < pinf {
				return 0
			}
		case token.SUB:
			if k, ok := core.ConstInt(x.Y); ok && l > ninf && l < pinf {
				return l - k
			}
		case token.SHR, token.AND:
			if l >= 0 {
				return 0
			}
		}
	case *ssa.Convert:
		if b, ok := x.X.Type().Underlying().(*types.Basic); ok {
			if b.Info()&types.IsUnsigned != 0 {
				return 0
			}
			if b.Info()&types.IsInteger != 0 {
				return intLB(x.X, seen, depth+1)
			}
		}
	}
	return ninf
}

// sortLessParam: idx is a parameter of a function literal passed as the `less` argument of sort.Slice/SliceStable: the
// sort package only passes indexes of the slice it was given, and base is that slice.
func sortLessParam(idx, base ssa.Value) bool {
	prm, ok := idx.(*ssa.Parameter)
	if !ok || prm.Parent() == nil || prm.Parent().Parent() == nil {
		return false
	}
	lit := prm.Parent()
	for _, b := range lit.Parent().Blocks {
		for _, in := range b.Instrs {
			c, ok := in.(*ssa.Call)
			if !ok {
				continue
			}
			o := core.CalleeObj(&c.Call)
			if o == nil || (core.ObjName(o) != "sort.Slice" && core.ObjName(o) != "sort.SliceStable") {
				continue
			}
			for _, a := range c.Call.Args {
				if mc, ok := a.(*ssa.MakeClosure); ok && mc.Fn == ssa.Value(lit) {
					// the sorted slice is the (boxed) first argument
					return sameSeq(derefLocal(stripIface(c.Call.Args[0])), derefLocal(base))
				}
			}
		}
	}
	return false
}

// idxResult summarises a search helper: every value the function returns is a negative integer constant ("not found")
// or a valid index (0 <= v < len) of one sequence reachable from one of its parameters by field selections.
type idxResult struct {
	param int    // position of the parameter (the receiver is 0)
	path  string // the field selections from it, as canon writes them (".groups")
	negs  []int64
}

var idxResultMemo = map[*ssa.Function]*idxResult{}

// paramSeq: v is parameter #i of fn followed by field selections (loads included): i and the selections; -1 otherwise.
func paramSeq(fn *ssa.Function, v ssa.Value) (int, string) {
	path := ""
	for k := 0; k < 12; k++ {
		switch x := v.(type) {
		case *ssa.UnOp:
			if x.Op != token.MUL {
				return -1, ""
			}
			v = x.X
		case *ssa.FieldAddr:
			path = "." + core.FieldAddrVar(x).Name() + path
			v = x.X
		case *ssa.Field:
			path = "." + core.FieldAddrVar(x).Name() + path
			v = x.X
		case *ssa.ChangeType:
			v = x.X
		case *ssa.Parameter:
			for i, q := range fn.Params {
				if q == x {
					return i, path
				}
			}
			return -1, ""
		default:
			return -1, ""
		}
	}
	return -1, ""
}

// indexResult decides the summary with the analysis of this file: each returned value is judged as an index site of
// the sequence it was compared with, under the conditions that dominate its return.
func indexResult(g *ssa.Function) *idxResult {
	if g == nil || len(g.Blocks) == 0 || g.Signature.Results().Len() != 1 {
		return nil
	}
	if r, ok := idxResultMemo[g]; ok {
		return r
	}
	idxResultMemo[g] = nil // recursion: undecided
	if b, ok := g.Signature.Results().At(0).Type().Underlying().(*types.Basic); !ok || b.Info()&types.IsInteger == 0 {
		return nil
	}
	res := &idxResult{param: -1}
	var one func(v ssa.Value, at ssa.Instruction, conds []core.CondEdge, depth int) bool
	one = func(v ssa.Value, at ssa.Instruction, conds []core.CondEdge, depth int) bool {
		if k, isC := core.ConstInt(v); isC {
			if k >= 0 {
				return false
			}
			res.negs = append(res.negs, k)
			return true
		}
		if ph, ok := v.(*ssa.Phi); ok && !inLoopHeaderWithSelf(ph) && depth < 2 {
			// `found := -1; … found = i; break … return found`: each incoming value under the conditions of its edge
			for i, e := range ph.Edges {
				pr := ph.Block().Preds[i]
				c2 := append([]core.CondEdge{}, core.ControllingConds(pr)...)
				if iff, ok := pr.Instrs[len(pr.Instrs)-1].(*ssa.If); ok && pr.Succs[0] != pr.Succs[1] {
					c2 = append(c2, core.CondEdge{Cond: iff.Cond, Taken: pr.Succs[0] == ph.Block(), If: iff})
				}
				if !one(e, at, c2, depth+1) {
					return false
				}
			}
			return true
		}
		ctx := &idxCtx{conds: conds, aliases: []ssa.Value{v}}
		for _, cm := range ctx.cmps() {
			seq, isLen := isLenCall(cm.other)
			if cm.op != token.LSS || !isLen {
				continue
			}
			pi, path := paramSeq(g, seq)
			if pi < 0 || (res.param >= 0 && (res.param != pi || res.path != path)) {
				continue
			}
			if miss, _ := inRange(varIdxSite{fn: g, instr: at, base: seq, idx: v, kind: "index"}, v, ctx, 1); miss == "" {
				res.param, res.path = pi, path
				return true
			}
		}
		return false
	}
	rets := core.Returns(g)
	for _, ret := range rets {
		if !one(ret.Results[0], ret, core.ControllingConds(ret.Block()), 0) {
			return nil
		}
	}
	if len(rets) == 0 || res.param < 0 {
		return nil
	}
	idxResultMemo[g] = res
	return res
}

// searchHit: j is the result of a search helper (indexResult) asked about the very sequence base denotes: then j is
// below len(base) whenever it is not one of the helper's negative results; nonneg tells whether the conditions on j at
// the site exclude those.
func searchHit(j ssa.Value, base ssa.Value, conds []core.CondEdge, measured ...string) (match, nonneg bool) {
	c, ok := j.(*ssa.Call)
	if !ok || c.Call.IsInvoke() {
		return false, false
	}
	sum := indexResult(c.Call.StaticCallee())
	if sum == nil || sum.param >= len(c.Call.Args) {
		return false, false
	}
	want := canon(c.Call.Args[sum.param]) + sum.path
	if len(measured) > 0 && measured[0] != "" {
		// an index forwarded to a callee: the callee indexes measured (a field path of the receiver it is called on)
		if measured[0] != want {
			return false, false
		}
	} else if canon(base) != want && canon(derefLocal(base)) != want {
		return false, false
	}
	lb := int64(0)
	for _, n := range sum.negs {
		lb = min(lb, n)
	}
	excluded := map[int64]bool{}
	ctx := &idxCtx{conds: conds, aliases: []ssa.Value{j}}
	for _, cm := range ctx.cmps() {
		k, isC := core.ConstInt(cm.other)
		if !isC {
			continue
		}
		switch cm.op {
		case token.GEQ, token.EQL:
			lb = max(lb, k)
		case token.GTR:
			lb = max(lb, k+1)
		case token.NEQ:
			excluded[k] = true
		}
	}
	nonneg = true
	for _, n := range sum.negs {
		if n >= lb && !excluded[n] {
			nonneg = false
		}
	}
	return true, nonneg
}

// inRange decides one index value under a context; returns what is missing ("" = in range) and why it is in range.
func inRange(s varIdxSite, idx ssa.Value, ctx *idxCtx, depth int) (string, string) {
	if depth > 4 {
		return "not decided (nesting)", ""
	}
	base := s.base
	// a phi: every incoming value must be in range under the conditions of its edge
	if ph, ok := idx.(*ssa.Phi); ok && !inLoopHeaderWithSelf(ph) {
		whys := []string{}
		for i, e := range ph.Edges {
			pr := ph.Block().Preds[i]
			c2 := &idxCtx{aliases: []ssa.Value{e}}
			c2.conds = append(c2.conds, core.ControllingConds(pr)...)
			if iff, ok := pr.Instrs[len(pr.Instrs)-1].(*ssa.If); ok && pr.Succs[0] != pr.Succs[1] {
				c2.conds = append(c2.conds, core.CondEdge{Cond: iff.Cond, Taken: pr.Succs[0] == ph.Block(), If: iff})
			}
			// facts stated about the phi itself at the site also hold for the value that flowed in
			for _, ce := range ctx.conds {
				c2.conds = append(c2.conds, ce)
			}
			c2.aliases = append(c2.aliases, ctx.aliases...)
			miss, why := inRange(s, e, c2, depth+1)
			if miss != "" {
				return miss, ""
			}
			whys = append(whys, why)
		}
		return "", "each incoming value: " + strings.Join(uniq(whys), "; ")
	}
	lb := intLB(idx, map[ssa.Value]bool{}, 0)
	below, atMost := false, false
	why := ""
	setBelow := func(w string) {
		below, atMost = true, true
		if why == "" {
			why = w
		}
	}
	if sortLessParam(idx, base) {
		lb = 0
		setBelow("index handed to the less function by package sort")
	}
	if s.measured == "" && isLenOf(idx, base) {
		atMost = true
		why = "len of the same value"
	}
	if ph, ok := idx.(*ssa.Phi); ok && inLoopHeaderWithSelf(ph) && len(ph.Edges) == 2 {
		// descending scan: i starts at len - k (k >= 1) and only decreases, so it stays below the length
		startOK, stepOK := false, false
		for i, e := range ph.Edges {
			bo, isBo := e.(*ssa.BinOp)
			if !isBo || bo.Op != token.SUB {
				continue
			}
			k, isC := core.ConstInt(bo.Y)
			if !isC || k < 1 {
				continue
			}
			if ph.Block().Dominates(ph.Block().Preds[i]) {
				stepOK = bo.X == ssa.Value(ph)
			} else {
				startOK = lenAtLeast(base, bo.X, ctx.conds, s.measured)
			}
		}
		if startOK && stepOK {
			setBelow("descending from len - k")
		}
	}
	if ph, ok := idx.(*ssa.Phi); ok && s.measured == "" && inLoopHeaderWithSelf(ph) && countedMapRange(ph, base, ctx.conds) {
		lb = max(lb, 0)
		setBelow("iteration counter of a range over a map, in a slice made with the length of that map")
	}
	if c, ok := idx.(*ssa.Call); ok {
		if bi, ok := c.Call.Value.(*ssa.Builtin); ok && bi.Name() == "min" {
			for _, a := range c.Call.Args {
				if lenAtLeast(base, a, ctx.conds, s.measured) {
					atMost = true
					why = "min(len, …)"
				}
			}
		}
	}
	// the result of a search helper that returns an index of this very sequence or a negative "not found"
	{
		if match, nonneg := searchHit(idx, base, ctx.conds, s.measured); match && nonneg {
			lb = max(lb, 0)
			setBelow("index returned by a search of the same value (its negative results are excluded here)")
		}
	}
	cmps := ctx.cmps()
	for _, cm := range cmps {
		if k, isC := core.ConstInt(cm.other); isC {
			switch cm.op {
			case token.GEQ, token.EQL:
				if k > lb {
					lb = k
				}
			case token.GTR:
				if k+1 > lb {
					lb = k + 1
				}
			}
			continue
		}
		switch cm.op {
		case token.LSS:
			if lenAtLeast(base, cm.other, ctx.conds, s.measured) {
				setBelow("below " + canonShort(cm.other) + ", the length of the indexed value (or of one at least as long)")
			}
			// idx < len - k
			if sub, ok := cm.other.(*ssa.BinOp); ok && sub.Op == token.SUB {
				if k, isC := core.ConstInt(sub.Y); isC && k >= 0 && lenAtLeast(base, sub.X, ctx.conds, s.measured) {
					setBelow("below len - k")
				}
			}
		case token.LEQ, token.EQL:
			if lenAtLeast(base, cm.other, ctx.conds, s.measured) {
				atMost = true
			}
			if sub, ok := cm.other.(*ssa.BinOp); ok && sub.Op == token.SUB {
				if k, isC := core.ConstInt(sub.Y); isC && k >= 1 && lenAtLeast(base, sub.X, ctx.conds, s.measured) {
					setBelow("at most len - k")
				}
			}
		}
	}
	// arithmetic on a bounded value
	if bo, ok := idx.(*ssa.BinOp); ok {
		switch bo.Op {
		case token.SUB:
			// len - k
			if k, isC := core.ConstInt(bo.Y); isC && k >= 1 && lenAtLeast(base, bo.X, ctx.conds, s.measured) {
				setBelow(fmt.Sprintf("len - %d", k))
				if s.measured == "" {
					if l, _ := sliceLenLB(s.instr.Block(), base); l >= k {
						lb = max(lb, 0)
					}
				}
			}
			// j - k with j bounded
			if k, isC := core.ConstInt(bo.Y); isC && k >= 0 {
				c2 := &idxCtx{conds: ctx.conds, aliases: []ssa.Value{bo.X}}
				for _, cm := range c2.cmps() {
					if (cm.op == token.LSS || (cm.op == token.LEQ && k >= 1)) && lenAtLeast(base, cm.other, ctx.conds, s.measured) {
						setBelow("a bounded index minus a constant")
					}
					if kk, isC := core.ConstInt(cm.other); isC && (cm.op == token.GEQ || cm.op == token.GTR) {
						if cm.op == token.GTR {
							kk++
						}
						lb = max(lb, kk-k)
					}
				}
			}
			// N - (i + 1) with 0 <= i < N  (reverse fill)
			if add, ok := bo.Y.(*ssa.BinOp); ok && add.Op == token.ADD {
				if k, isC := core.ConstInt(add.Y); isC && k == 1 && lenAtLeast(base, bo.X, ctx.conds, s.measured) {
					c2 := &idxCtx{conds: ctx.conds, aliases: []ssa.Value{add.X}}
					iBelow := false
					for _, cm := range c2.cmps() {
						if cm.op == token.LSS && equivLen(cm.other, bo.X) {
							iBelow = true
						}
					}
					if iBelow && intLB(add.X, map[ssa.Value]bool{}, 0) >= 0 {
						lb = max(lb, 0)
						setBelow("N - (i + 1) with 0 <= i < N")
					}
				}
			}
		case token.ADD:
			// second half of a slice made for two sequences: len(a) + i with i < len(b) and base = make(len(a)+len(b))
			if mk, ok := derefLocal(base).(*ssa.MakeSlice); ok && s.measured == "" {
				if sum, ok := mk.Len.(*ssa.BinOp); ok && sum.Op == token.ADD {
					for _, pr := range [][2]ssa.Value{{bo.X, bo.Y}, {bo.Y, bo.X}} {
						off, i := pr[0], pr[1]
						for _, ps := range [][2]ssa.Value{{sum.X, sum.Y}, {sum.Y, sum.X}} {
							if !equivLen(off, ps[0]) {
								continue
							}
							c2 := &idxCtx{conds: ctx.conds, aliases: []ssa.Value{i}}
							for _, cm := range c2.cmps() {
								if cm.op == token.LSS && equivLen(cm.other, ps[1]) && intLB(i, map[ssa.Value]bool{}, 0) >= 0 {
									lb = max(lb, 0)
									setBelow("len(a) + i with i < len(b), in a slice made with len(a) + len(b)")
								}
							}
						}
					}
				}
			}
			// j + k with j < len - c: below the length when k <= c, at most the length when k <= c + 1 (the bounds of
			// `x[i+1:]` inside a range over x, of `x[i:i+2]` under `i < len(x)-1`)
			for _, pr := range [][2]ssa.Value{{bo.X, bo.Y}, {bo.Y, bo.X}} {
				j := pr[0]
				k, isC := core.ConstInt(pr[1])
				if !isC || k < 0 {
					continue
				}
				// j found by a search of the same value: 0 <= j < len
				if match, nonneg := searchHit(j, base, ctx.conds); match && nonneg && s.measured == "" {
					lb = max(lb, k)
					if k == 0 {
						setBelow("found index + 0")
					} else if k == 1 {
						atMost = true
						if why == "" {
							why = "j + 1 with j an index returned by a search of the same value"
						}
					}
				}
				c2 := &idxCtx{conds: ctx.conds, aliases: []ssa.Value{j}}
				for _, cm := range c2.cmps() {
					if cm.op != token.LSS {
						continue
					}
					c := int64(-1)
					if lenAtLeast(base, cm.other, ctx.conds, s.measured) {
						c = 0
					} else if sub, ok := cm.other.(*ssa.BinOp); ok && sub.Op == token.SUB {
						if kk, isK := core.ConstInt(sub.Y); isK && kk >= 0 && lenAtLeast(base, sub.X, ctx.conds, s.measured) {
							c = kk
						}
					}
					if c < 0 {
						continue
					}
					if k <= c {
						setBelow(fmt.Sprintf("j + %d with j < len - %d", k, c))
					} else if k <= c+1 {
						atMost = true
						if why == "" {
							why = fmt.Sprintf("j + %d with j < len - %d", k, c)
						}
					}
				}
			}
			// position after a separator that was found: strings.Index(base, sep) + k with k <= len(sep)
			for _, pr := range [][2]ssa.Value{{bo.X, bo.Y}, {bo.Y, bo.X}} {
				call, isCall := pr[0].(*ssa.Call)
				k, isC := core.ConstInt(pr[1])
				if !isCall || !isC || k < 0 {
					continue
				}
				o := core.CalleeObj(&call.Call)
				if o == nil || (core.ObjName(o) != "strings.Index" && core.ObjName(o) != "strings.LastIndex") || !sameSeq(call.Call.Args[0], base) {
					continue
				}
				sep, isS := core.ConstString(call.Call.Args[1])
				if !isS || int64(len(sep)) < k {
					continue
				}
				c2 := &idxCtx{conds: ctx.conds, aliases: []ssa.Value{call}}
				for _, cm := range c2.cmps() {
					if kk, ok := core.ConstInt(cm.other); ok && ((cm.op == token.GTR && kk >= -1) || (cm.op == token.GEQ && kk >= 0) || (cm.op == token.NEQ && kk == -1)) {
						lb = max(lb, 0)
						atMost = true
						if why == "" {
							why = "just after a separator that strings.Index found in the same string"
						}
					}
				}
			}
			// negative-index normalisation: i + N with -N <= i < 0
			for _, pair := range [][2]ssa.Value{{bo.X, bo.Y}, {bo.Y, bo.X}} {
				i, N := pair[0], pair[1]
				if !lenAtLeast(base, N, ctx.conds, s.measured) {
					continue
				}
				c2 := &idxCtx{conds: ctx.conds, aliases: []ssa.Value{i}}
				neg, geNegN := false, false
				for _, cm := range c2.cmps() {
					if k, isC := core.ConstInt(cm.other); isC && ((cm.op == token.LSS && k <= 0) || (cm.op == token.LEQ && k < 0)) {
						neg = true
					}
					if un, ok := cm.other.(*ssa.UnOp); ok && un.Op == token.SUB && cm.op == token.GEQ && equivLen(un.X, N) {
						geNegN = true
					}
				}
				if neg {
					setBelow("i + N with i < 0")
				}
				if geNegN {
					lb = max(lb, 0)
				}
			}
		}
	}
	miss := []string{}
	if lb < 0 {
		miss = append(miss, "not shown non-negative")
	}
	switch s.kind {
	case "index":
		if !below {
			miss = append(miss, "not shown below the length")
		}
	case "high":
		if !atMost {
			miss = append(miss, "not shown at most the length")
		}
	case "low":
		okLow := atMost
		if s.hi != nil {
			for _, cm := range cmps {
				if (cm.op == token.LSS || cm.op == token.LEQ) && (cm.other == s.hi || canon(cm.other) == canon(s.hi)) {
					okLow = true
				}
			}
			// hi is a phi/min over values the low bound is compared with
			c2 := &idxCtx{conds: ctx.conds, aliases: []ssa.Value{s.hi}}
			for _, cm := range c2.cmps() {
				if (cm.op == token.GTR || cm.op == token.GEQ) && ctx.isIdx(cm.other) {
					okLow = true
				}
			}
		}
		if !okLow {
			miss = append(miss, "not shown at most the upper bound")
		}
	}
	return strings.Join(miss, ", "), why
}

// inLoopHeaderWithSelf: a loop-carried phi (one of its edges depends on itself): judged as a whole, not per edge.
func inLoopHeaderWithSelf(ph *ssa.Phi) bool {
	for _, pr := range ph.Block().Preds {
		if ph.Block().Dominates(pr) {
			return true
		}
	}
	return false
}

func decideVarIdx(s varIdxSite) (string, string) {
	ctx := &idxCtx{conds: core.ControllingConds(s.instr.Block()), aliases: []ssa.Value{s.idx}}
	return inRange(s, s.idx, ctx, 0)
}

// forwardedIndexParams: functions of the given set that index `measured(recv)` with one of their parameters without
// any test: the obligation belongs to their callers. Returns callee -> (parameter position, measured expression).
type idxForward struct {
	param    int
	measured string
}

func forwardedIndexParams(fns []*ssa.Function) map[*ssa.Function]idxForward {
	out := map[*ssa.Function]idxForward{}
	for _, fn := range fns {
		if fn.Signature.Recv() == nil || len(fn.Blocks) != 1 {
			continue
		}
		sites := varIndexSites(fn)
		for _, s := range sites {
			prm, ok := s.idx.(*ssa.Parameter)
			if !ok || s.kind != "index" {
				continue
			}
			for i, p := range fn.Params {
				if p == prm && i > 0 {
					out[fn] = idxForward{param: i, measured: canonRecv(s.base, fn)}
				}
			}
		}
		// x[:p] / x[p+1:] / x[p] all on one field path of the receiver with one parameter p: a valid index p of that
		// path makes every one of them in range, so the obligation `p is an index of recv.path` goes to the callers
		if _, done := out[fn]; !done && len(sites) > 0 {
			param, measured, all := 0, "", true
			for _, s := range sites {
				prm := forwardedParam(s)
				// the field path as it is read (not what this very function stores into it afterwards)
				m := regexp.MustCompile(`\b`+regexp.QuoteMeta(fn.Params[0].Name())+`\b`).ReplaceAllString(canon(s.base), "recv")
				k := 0
				for i, p := range fn.Params {
					if prm != nil && p == prm && i > 0 {
						k = i
					}
				}
				if k == 0 || !strings.HasPrefix(m, "recv") || (param != 0 && (param != k || measured != m)) {
					all = false
					break
				}
				param, measured = k, m
			}
			if all && !ast.IsExported(fn.Name()) {
				out[fn] = idxForward{param: param, measured: measured}
			}
		}
	}
	return out
}

// forwardedParam: the parameter a site's index is (x[p], x[:p]) or is one more than (x[p+1:]); nil otherwise.
func forwardedParam(s varIdxSite) *ssa.Parameter {
	if prm, ok := s.idx.(*ssa.Parameter); ok && (s.kind == "index" || s.kind == "high") {
		return prm
	}
	if bo, ok := s.idx.(*ssa.BinOp); ok && bo.Op == token.ADD && s.kind == "low" {
		if k, isC := core.ConstInt(bo.Y); isC && k == 1 {
			if prm, ok := bo.X.(*ssa.Parameter); ok {
				return prm
			}
		}
	}
	return nil
}

// recvCanonOf renders a field path rooted at the receiver as "recv.f.g": the root is the receiver parameter of the
// method fn belongs to, a local cell holding it (a captured receiver is spilled), or — inside a function literal — the
// captured variable of the receiver's name. "" for anything else.
func recvCanonOf(v ssa.Value, fn *ssa.Function) string {
	root := fn
	for root != nil && root.Parent() != nil {
		root = root.Parent()
	}
	if root == nil || root.Signature.Recv() == nil || len(root.Params) == 0 {
		return ""
	}
	recv := root.Params[0]
	var fields []string
	for k := 0; k < 12; k++ {
		switch x := v.(type) {
		case *ssa.UnOp:
			if x.Op != token.MUL {
				return ""
			}
			v = x.X
		case *ssa.FieldAddr:
			fields = append([]string{core.FieldAddrVar(x).Name()}, fields...)
			v = x.X
		case *ssa.Field:
			fields = append([]string{core.FieldAddrVar(x).Name()}, fields...)
			v = x.X
		case *ssa.Slice:
			if x.Low != nil || x.High != nil {
				return ""
			}
			v = x.X
		case *ssa.Parameter:
			if x != recv {
				return ""
			}
			return "recv." + strings.Join(fields, ".")
		case *ssa.FreeVar:
			if x.Name() != recv.Name() {
				return ""
			}
			return "recv." + strings.Join(fields, ".")
		case *ssa.Alloc:
			// a cell that only ever holds the receiver
			if x.Referrers() == nil {
				return ""
			}
			n := 0
			for _, ref := range *x.Referrers() {
				if st, ok := ref.(*ssa.Store); ok && st.Addr == ssa.Value(x) {
					n++
					if st.Val != ssa.Value(recv) {
						return ""
					}
				}
			}
			if n != 1 {
				return ""
			}
			return "recv." + strings.Join(fields, ".")
		default:
			return ""
		}
	}
	return ""
}

// argsCountChecked: prm, the (variadic) arguments parameter of a function, is only ever filled through
// functions.NumArgsCheck(len(seq), f) — f being the function literal prm belongs to, or a literal that forwards its own
// arguments unchanged to the named function prm belongs to (on the same receiver). Returns seq with the receiver
// written as "recv", or "".
func argsCountChecked(prm *ssa.Parameter, depth int) string {
	fn := prm.Parent()
	if fn == nil || depth > 1 {
		return ""
	}
	idx := -1
	for i, fp := range fn.Params {
		if fp == prm {
			idx = i
		}
	}
	if idx < 0 {
		return ""
	}
	if par := fn.Parent(); par != nil {
		// a function literal: its only use is as the second argument of NumArgsCheck
		out := ""
		for _, b := range par.Blocks {
			for _, in := range b.Instrs {
				mc, ok := in.(*ssa.MakeClosure)
				if !ok || mc.Fn != ssa.Value(fn) || mc.Referrers() == nil {
					continue
				}
				for _, ref := range *mc.Referrers() {
					var user ssa.Instruction = ref
					// through a conversion to the named function type
					if ct, ok := ref.(*ssa.ChangeType); ok && ct.Referrers() != nil && len(*ct.Referrers()) == 1 {
						user = (*ct.Referrers())[0]
					}
					c, ok := user.(*ssa.Call)
					if !ok {
						return ""
					}
					o := core.CalleeObj(&c.Call)
					if o == nil || core.ObjName(o) != "excellent/functions.NumArgsCheck" || len(c.Call.Args) != 2 {
						return ""
					}
					a, isLen := isLenCall(c.Call.Args[0])
					if !isLen {
						return ""
					}
					out = recvCanonOf(a, par)
				}
			}
		}
		return out
	}
	// a named function: every caller is a literal that passes its own arguments parameter on, on the captured receiver
	if lenLBProgram == nil || fn.Object() == nil || fn.Object().Exported() {
		return ""
	}
	sites := lenLBProgram.CallsTo(fn)
	out := ""
	for _, cs := range sites {
		if lenLBProgram.IsTestFile(cs.Pos()) {
			continue
		}
		if idx >= len(cs.Common().Args) || cs.Caller.Parent() == nil {
			return ""
		}
		fwd, ok := cs.Common().Args[idx].(*ssa.Parameter)
		if !ok || fwd.Parent() != cs.Caller {
			return ""
		}
		if fn.Signature.Recv() != nil {
			ra := core.StripConv(cs.Common().Args[0])
			if ld, isLd := ra.(*ssa.UnOp); isLd && ld.Op == token.MUL {
				ra = ld.X // a captured receiver is reached through its cell
			}
			if _, isFV := ra.(*ssa.FreeVar); !isFV {
				return ""
			}
		}
		seq := argsCountChecked(fwd, depth+1)
		if seq == "" || (out != "" && out != seq) {
			return ""
		}
		out = seq
	}
	return out
}

// pureLibraryCall: a call of a function outside the module that is handed values of basic type only (directly or as
// the elements of its variadic argument): it has no way to reach a map of the module.
func pureLibraryCall(c *ssa.Call) bool {
	o := core.CalleeObj(&c.Call)
	if o == nil || o.Pkg() == nil || core.InModule(o.Pkg().Path()) || c.Call.IsInvoke() {
		return false
	}
	basic := func(v ssa.Value) bool {
		if mi, ok := v.(*ssa.MakeInterface); ok {
			v = mi.X
		}
		_, isBasic := v.Type().Underlying().(*types.Basic)
		return isBasic
	}
	for _, a := range c.Call.Args {
		if basic(a) {
			continue
		}
		elems := core.VariadicArgs(a)
		if elems == nil {
			return false
		}
		for _, e := range elems {
			if e == nil || !basic(e) {
				return false
			}
		}
	}
	return true
}
