package rules

import (
	"go/constant"
	"go/types"
	"sort"
	"strings"

	"golang.org/x/tools/go/ssa"

	"verif/checker/core"
)

// typeRegistrySymmetry: in every module package that has a `registerType(name, reader-or-factory)` function, the
// name a struct type is registered under is the name its constructors put into it. A type written under one name
// and registered under another cannot be read back (or is read back as a different type).
//
//	registered name  <- constant argument of registerType(...) in an init function
//	struct type      <- the struct the registered factory / read function allocates and returns
//	constructed name <- a registered-name constant that a function of the package allocating that struct passes on
func typeRegistrySymmetry(p *core.Program, r *core.Report, rule string, pkgFilter func(rel string) bool) {
	nPkgs, nTypes := 0, 0
	for _, pk := range p.Pkgs {
		rel := core.RelPkg(pk.PkgPath)
		if pkgFilter != nil && !pkgFilter(rel) {
			continue
		}
		sp := p.SSAPkg(rel)
		if sp == nil {
			continue
		}
		reg := sp.Func("registerType")
		if reg == nil {
			reg = sp.Func("RegisterType")
		}
		if reg == nil || len(reg.Params) != 2 || !isStringType(reg.Params[0].Type()) {
			continue
		}
		// registrations
		names := map[string]bool{}               // all registered names of the package
		byStruct := map[string]map[string]bool{} // struct -> names it is registered under
		pos := map[string]string{}
		for _, cs := range p.CallsTo(reg) {
			if p.IsTestFile(cs.Pos()) {
				continue
			}
			name, ok := core.ConstString(cs.Common().Args[0])
			if !ok {
				r.Unknown(rule, rel+"/registration@"+p.Pos(cs.Pos()), p.Pos(cs.Pos()), "registered under a computed name")
				continue
			}
			names[name] = true
			var fn *ssa.Function
			switch v := core.StripConv(cs.Common().Args[1]).(type) {
			case *ssa.Function:
				fn = v
			case *ssa.MakeClosure:
				fn, _ = v.Fn.(*ssa.Function)
			}
			if fn == nil {
				continue
			}
			for _, st := range returnedStructs(fn) {
				if byStruct[st] == nil {
					byStruct[st] = map[string]bool{}
				}
				byStruct[st][name] = true
				pos[st] = p.Pos(cs.Pos())
			}
		}
		if len(byStruct) == 0 {
			continue
		}
		nPkgs++
		// the package's declared type-name constants count as type names even when nothing is registered under them
		sc := pk.Types.Scope()
		for _, nm := range sc.Names() {
			if c, ok := sc.Lookup(nm).(*types.Const); ok && strings.HasPrefix(nm, "Type") && c.Val().Kind() == constant.String {
				names[constant.StringVal(c.Val())] = true
			}
		}
		// constructions
		for _, m := range sp.Members {
			_ = m
		}
		used := map[string]map[string]string{} // struct -> constant -> where
		for _, fn := range p.ModuleFunctions() {
			if core.FuncPkgPath(fn) != pk.PkgPath || p.IsTestFile(fn.Pos()) {
				continue
			}
			allocs := map[string]bool{}
			for _, b := range fn.Blocks {
				for _, in := range b.Instrs {
					if al, ok := in.(*ssa.Alloc); ok {
						if n, ok := al.Type().(*types.Pointer).Elem().(*types.Named); ok {
							if _, isSt := n.Underlying().(*types.Struct); isSt && n.Obj().Pkg() != nil && n.Obj().Pkg().Path() == pk.PkgPath {
								allocs[n.Obj().Name()] = true
							}
						}
					}
				}
			}
			single := ""
			if len(allocs) == 1 {
				for k := range allocs {
					single = k
				}
			}
			for _, cs := range core.Calls(fn, false) {
				if cs.Common().StaticCallee() == reg {
					continue
				}
				for _, a := range cs.Common().Args {
					c, ok := core.ConstString(a)
					if !ok || !names[c] || !isStringType(a.Type()) {
						continue
					}
					// the struct the call's result is stored into (a base struct built with the type name), else the
					// only struct the function allocates
					st := single
					if v, isVal := cs.Instr.(ssa.Value); isVal && v.Referrers() != nil {
						for _, ref := range *v.Referrers() {
							if sto, ok := ref.(*ssa.Store); ok && sto.Val == v {
								root := sto.Addr
								for {
									if fa, ok := root.(*ssa.FieldAddr); ok {
										root = fa.X
										continue
									}
									break
								}
								if al, ok := root.(*ssa.Alloc); ok {
									if n, ok := al.Type().(*types.Pointer).Elem().(*types.Named); ok {
										st = n.Obj().Name()
									}
								}
							}
						}
					}
					if st == "" || byStruct[st] == nil {
						continue
					}
					if used[st] == nil {
						used[st] = map[string]string{}
					}
					used[st][c] = core.FuncName(fn) + " at " + p.Pos(cs.Pos())
				}
			}
		}
		sts := make([]string, 0, len(byStruct))
		for st := range byStruct {
			sts = append(sts, st)
		}
		sort.Strings(sts)
		for _, st := range sts {
			nTypes++
			regNames := core.SortedKeys(byStruct[st])
			bad := ""
			for c, where := range used[st] {
				if !byStruct[st][c] {
					bad = "constructed with type name \"" + c + "\" (" + where + ") but registered under " + strings.Join(regNames, ", ")
				}
			}
			if bad == "" && len(used[st]) == 0 {
				r.OK(rule, rel+"."+st+"/registered-name", pos[st], "registered under "+strings.Join(regNames, ", ")+"; no constructor in the package passes a type-name constant")
				continue
			}
			r.Check(bad == "", rule, rel+"."+st+"/registered-name", pos[st], "registered under "+strings.Join(regNames, ", ")+", the name its constructors use",
				rel+"."+st+" is "+bad+": what is written under that name is read back by another reader, or by none")
		}
	}
	r.Count("type_registries", nPkgs)
	r.Count("registered_struct_types", nTypes)
}

// returnedStructs: names of the struct types (of fn's own package) whose pointer fn allocates and returns.
func returnedStructs(fn *ssa.Function) []string {
	return returnedStructsDepth(fn, 0)
}

func returnedStructsDepth(fn *ssa.Function, depth int) []string {
	set := map[string]bool{}
	for _, ret := range core.Returns(fn) {
		if len(ret.Results) == 0 {
			continue
		}
		for v := range core.BackSlice(ret.Results[0], nil) {
			if call, isCall := v.(*ssa.Call); isCall && depth < 3 {
				// a reader that returns what a constructor of the same package built
				if cf := call.Call.StaticCallee(); cf != nil && len(cf.Blocks) > 0 && core.FuncPkgPath(cf) == core.FuncPkgPath(fn) {
					for _, st := range returnedStructsDepth(cf, depth+1) {
						set[st] = true
					}
				}
				continue
			}
			al, ok := v.(*ssa.Alloc)
			if !ok {
				continue
			}
			if n, ok := al.Type().(*types.Pointer).Elem().(*types.Named); ok {
				if _, isSt := n.Underlying().(*types.Struct); isSt {
					set[n.Obj().Name()] = true
				}
			}
		}
	}
	return core.SortedKeys(set)
}
