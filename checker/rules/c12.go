package rules

import (
	"fmt"
	"go/token"
	"go/types"
	"sort"
	"strings"

	"golang.org/x/tools/go/ssa"

	"verif/checker/core"
)

func init() { register("C12", checkC12) }

// runeOf maps the abstract alphabet to concrete runes for deciding comparisons with constants.
var c12Runes = map[byte]int64{'q': '"', 'b': '\\', 'o': 'x', 'a': '@', 'p': '(', 'n': 'n', 'e': 0, 's': ' ', 'd': '.', 'c': ')'}

// simulateReader abstractly runs a scanner function whose only input is a sequence of s.input.read() results.
// word is over c12Runes keys; reads past the end return eof. boolFields gives the value of boolean receiver fields.
// It returns the trace of effects (write:<x>, unread:<x>), the number of reads performed and the constant results.
type scanTrace struct {
	reads   int
	effects []string
	ret     []string
	paths   int
}

// c12ParamVals: rune parameters of a helper being simulated on behalf of a scanner function.
var c12ParamVals = map[*ssa.Parameter]int64{}
var c12DepthHelpers int

func simulateReader(fn *ssa.Function, word string, boolFields map[string]bool, loopBound int) scanTrace {
	tr := scanTrace{}
	isRead := func(v ssa.Value) bool {
		c, ok := v.(*ssa.Call)
		return ok && c.Call.StaticCallee() != nil && c.Call.StaticCallee().Name() == "read"
	}
	// value of a rune-typed SSA value on this path: the index of the read it stems from
	var runeVal func(s *core.PathState, v ssa.Value, depth int) (int64, bool)
	runeVal = func(s *core.PathState, v ssa.Value, depth int) (int64, bool) {
		if depth > 6 {
			return 0, false
		}
		if k, ok := core.ConstInt(v); ok {
			return k, true
		}
		// a parameter of a helper simulated on behalf of the scanner function: the value it was called with
		if prm, ok := v.(*ssa.Parameter); ok {
			if k, ok := c12ParamVals[prm]; ok {
				return k, true
			}
		}
		// integer values computed along the path (recorded by OnInstr in execution order)
		if in, ok := v.(ssa.Instruction); ok {
			for i := len(s.Effects) - 1; i >= 0; i-- {
				if s.Effects[i].Kind == "VAL" && s.Effects[i].Instr == in {
					return s.Effects[i].Data.(int64), true
				}
			}
		}
		if isRead(v) {
			for _, e := range s.Effects {
				if e.Kind == "READ" && e.Instr == v.(ssa.Instruction) {
					// the latest read performed by this call instruction
				}
			}
			idx := -1
			for _, e := range s.Effects {
				if e.Kind == "READ" && e.Instr == v.(ssa.Instruction) {
					idx = e.Data.(int)
				}
			}
			if idx < 0 {
				return 0, false
			}
			if idx >= len(word) {
				return 0, true // eof is rune(0) in this scanner
			}
			return c12Runes[word[idx]], true
		}
		if bo, ok := v.(*ssa.BinOp); ok && (bo.Op == token.ADD || bo.Op == token.SUB) {
			l, ok1 := runeVal(s, bo.X, depth+1)
			rr, ok2 := runeVal(s, bo.Y, depth+1)
			if ok1 && ok2 {
				if bo.Op == token.ADD {
					return l + rr, true
				}
				return l - rr, true
			}
			return 0, false
		}
		if phi, ok := v.(*ssa.Phi); ok {
			// the incoming edge of the phi's block on this path: the block visited just before its latest visit
			bi := phi.Block().Index
			for i := len(s.Blocks) - 1; i >= 1; i-- {
				if s.Blocks[i] != bi {
					continue
				}
				pred := s.Blocks[i-1]
				for k, pb := range phi.Block().Preds {
					if pb.Index == pred {
						return runeVal(s, phi.Edges[k], depth+1)
					}
				}
				break
			}
		}
		return 0, false
	}
	describe := func(s *core.PathState, v ssa.Value) string {
		if k, ok := runeVal(s, v, 0); ok {
			if k == 0 {
				return "eof"
			}
			return fmt.Sprintf("%q", rune(k))
		}
		return "?"
	}
	var lastBlocks int
	res := core.ExplorePaths(fn, core.PathRules{
		LoopBound: loopBound,
		OnBranch: func(s *core.PathState, cond ssa.Value) core.AB {
			// resolve phis of rune type lazily: record their value at first use in this block visit
			switch c := cond.(type) {
			case *ssa.BinOp:
				if c.Op == token.EQL || c.Op == token.NEQ {
					l, ok1 := runeVal(s, c.X, 0)
					rr, ok2 := runeVal(s, c.Y, 0)
					if ok1 && ok2 {
						return boolAB((l == rr) == (c.Op == token.EQL))
					}
				}
			case *ssa.UnOp:
				if c.Op == token.MUL {
					if fv := core.FieldAddrVar(c.X); fv != nil {
						if b, ok := boolFields[fv.Name()]; ok {
							return boolAB(b)
						}
					}
				}
			case *ssa.Call:
				// isNameChar(peek)
				if f := c.Call.StaticCallee(); f != nil && f.Name() == "isNameChar" {
					if k, ok := runeVal(s, c.Call.Args[0], 0); ok {
						return boolAB(k == 'n')
					}
				}
			}
			return core.Unk
		},
		OnPhi: func(s *core.PathState, phi *ssa.Phi, edge int) *core.Effect {
			if b, ok := phi.Type().Underlying().(*types.Basic); !ok || b.Kind() != types.Int {
				return nil
			}
			if val, ok := runeVal(s, phi.Edges[edge], 0); ok {
				return &core.Effect{Kind: "VAL", Instr: phi, Data: val}
			}
			return nil
		},
		OnInstr: func(s *core.PathState, in ssa.Instruction) {
			_ = lastBlocks
			// track plain integer arithmetic (a parenthesis depth counter): phis take the value of the edge just taken
			switch x := in.(type) {
			case *ssa.BinOp:
				// generalised: a comparison of known runes whose result is kept in a variable (`escaped = ch == '\\'`)
				// rather than branched on at once: its boolean value on this path is recorded for the phis and branches
				// that use it later
				if x.Op == token.EQL || x.Op == token.NEQ {
					if l, ok1 := runeVal(s, x.X, 0); ok1 {
						if rr, ok2 := runeVal(s, x.Y, 0); ok2 {
							s.Vals[x] = boolAB((l == rr) == (x.Op == token.EQL))
						}
					}
					return
				}
				if b, ok := x.Type().Underlying().(*types.Basic); !ok || b.Kind() != types.Int {
					return
				}
				if x.Op == token.ADD || x.Op == token.SUB {
					l, ok1 := runeVal(s, x.X, 0)
					rr, ok2 := runeVal(s, x.Y, 0)
					if ok1 && ok2 {
						val := l + rr
						if x.Op == token.SUB {
							val = l - rr
						}
						s.Effects = append(s.Effects, core.Effect{Kind: "VAL", Instr: in, Data: val})
					}
				}
			}
		},
		OnCall: func(s *core.PathState, c ssa.CallInstruction) []core.CallOutcome {
			call, ok := c.(*ssa.Call)
			if !ok {
				return nil
			}
			f := call.Call.StaticCallee()
			name := ""
			if f != nil {
				name = f.Name()
			} else if call.Call.IsInvoke() {
				name = call.Call.Method.Name()
			}
			switch name {
			case "readTextLiteral":
				// a nested reader: run it on the rest of the input and account for the characters it consumes
				if f != nil && f != fn {
					n := 0
					for _, e := range s.Effects {
						if e.Kind == "READ" {
							n++
						}
					}
					rest := ""
					if n < len(word) {
						rest = word[n:]
					}
					sub := simulateReader(f, rest, boolFields, loopBound)
					if sub.paths != 1 {
						return nil
					}
					var effs []core.Effect
					for i := 0; i < sub.reads; i++ {
						effs = append(effs, core.Effect{Kind: "READ", Instr: nil, Data: n + i})
					}
					return []core.CallOutcome{{Effects: effs}}
				}
			case "read":
				n := 0
				for _, e := range s.Effects {
					if e.Kind == "READ" {
						n++
					}
				}
				return []core.CallOutcome{{Effects: []core.Effect{{Kind: "READ", Instr: call, Data: n}}}}
			case "unread":
				return []core.CallOutcome{{Effects: []core.Effect{{Kind: "OUT", Data: "unread:" + describe(s, call.Call.Args[len(call.Call.Args)-1])}}}}
			case "WriteRune":
				return []core.CallOutcome{{Effects: []core.Effect{{Kind: "OUT", Data: "write:" + describe(s, call.Call.Args[len(call.Call.Args)-1])}}}}
			case "isNameChar":
				if k, ok := runeVal(s, call.Call.Args[0], 0); ok {
					return []core.CallOutcome{{Result: boolAB(k == 'n')}}
				}
			default:
				// a helper of the scanner that only pushes back / writes runes it is given (e.g. `unreadAt(peek)`):
				// simulated with its rune parameters bound, its effects appended in order
				if f != nil && f != fn && f.Blocks != nil && core.FuncPkgPath(f) == core.FuncPkgPath(fn) && f.Signature.Recv() != nil && c12DepthHelpers < 2 {
					saved := map[*ssa.Parameter]int64{}
					var bound []*ssa.Parameter
					allKnown := true
					for i, fp := range f.Params {
						if i == 0 || i >= len(call.Call.Args) {
							continue
						}
						if b, ok := fp.Type().Underlying().(*types.Basic); !ok || b.Info()&types.IsInteger == 0 {
							continue
						}
						k, ok := runeVal(s, call.Call.Args[i], 0)
						if !ok {
							allKnown = false
							break
						}
						if old, had := c12ParamVals[fp]; had {
							saved[fp] = old
						}
						c12ParamVals[fp] = k
						bound = append(bound, fp)
					}
					var outs []core.CallOutcome
					if allKnown {
						c12DepthHelpers++
						sub := simulateReader(f, "", boolFields, loopBound)
						c12DepthHelpers--
						if sub.paths == 1 && sub.reads == 0 {
							var effs []core.Effect
							for _, e := range sub.effects {
								effs = append(effs, core.Effect{Kind: "OUT", Data: e})
							}
							outs = []core.CallOutcome{{Effects: effs}}
						}
					}
					for _, fp := range bound {
						delete(c12ParamVals, fp)
					}
					for fp, v := range saved {
						c12ParamVals[fp] = v
					}
					if outs != nil {
						return outs
					}
				}
			}
			return nil
		},
		OnExit: func(s *core.PathState, ret *ssa.Return, pan *ssa.Panic) {
			tr.paths++
			tr.reads = 0
			tr.effects = nil
			for _, e := range s.Effects {
				switch e.Kind {
				case "READ":
					tr.reads++
				case "OUT":
					tr.effects = append(tr.effects, e.Data.(string))
				}
			}
			if ret != nil {
				for _, rv := range ret.Results {
					if k, ok := core.ConstInt(rv); ok {
						tr.ret = append(tr.ret, fmt.Sprint(k))
					}
				}
			}
		},
	})
	_ = res
	return tr
}

func checkC12(p *core.Program, r *core.Report) {
	r.Rule("R1", "string-literal termination: readTextLiteral, run abstractly on the strconv.Quote image of every abstract string over {quote, backslash, other} up to length 4 followed by more input, stops exactly at the closing quote; the lexer's TEXT rule (read from the grammar, determinised over the same alphabet) is termination-unambiguous and accepts every such image")
	r.Rule("R2", "body fidelity: scanBody's reaction to '@' followed by '(', '@', a name character, end of input or anything else is evaluated per case: '@@' yields one '@' exactly when unescaping, '@'+other and a trailing '@' are copied verbatim, expression/identifier starts are pushed back; every other character is copied")
	r.Rule("R3", "top-level gate and identifier fidelity: scanIdentifier returns IDENTIFIER only when the lower-cased first segment equals an allowed top level (or no list is given), and the text it returns (identifier or '@'+identifier) is the scanned text, never a case-folded copy")
	r.Rule("R4", "quote/unquote pair: TextLiteral.String derives from strconv.Quote of the literal's full native value and VisitTextLiteral from strconv.Unquote")
	r.Rule("R5", "literal text reaches a result only as the scanner's BODY token: a raw template string (a parameter that is handed to NewXScanner, directly or through another such function) is otherwise only trimmed, measured, compared or passed on — it never flows into a value, buffer or return of the evaluator, unless the use is guarded by the template containing no '@' at all")
	r.Assumption("strconv.Quote/Unquote are inverse; the abstraction {quote, backslash, other} is exact for the scanner and the lexer rule because both only distinguish these classes inside a literal")

	rtl := p.Method("excellent", "xscanner", "readTextLiteral")
	body := p.Method("excellent", "xscanner", "scanBody")
	ident := p.Method("excellent", "xscanner", "scanIdentifier")
	for n, f := range map[string]*ssa.Function{"readTextLiteral": rtl, "scanBody": body, "scanIdentifier": ident} {
		if f == nil || f.Blocks == nil {
			r.Errorf("scanner anchor %s not found", n)
			return
		}
	}

	// ------------------------------------------------------------------ R1 scanner
	nWords := 0
	firstBad := ""
	badLen := 0
	var gen func(prefix string, k int)
	gen = func(prefix string, k int) {
		img := quoteImage(prefix) // q ... q
		rest := img[1:]           // the scanner function starts after the opening quote
		word := rest + "oo"       // more input follows the literal
		tr := simulateReader(rtl, word, nil, len(word)+2)
		nWords++
		if tr.paths != 1 || tr.reads != len(rest) {
			if firstBad == "" || len(prefix) < badLen {
				badLen = len(prefix)
				firstBad = fmt.Sprintf("for the literal %s (value %q over q=quote b=backslash o=other) the scanner consumes %d characters after the opening quote instead of %d (paths %d)", img, prefix, tr.reads, len(rest), tr.paths)
			}
		}
		if k == 0 {
			return
		}
		for _, c := range "qbo" {
			gen(prefix+string(c), k-1)
		}
	}
	gen("", 4)
	r.Count("literal_words_simulated", nWords)
	r.Check(firstBad == "", "R1", "xscanner.readTextLiteral/stops-at-closing-quote", p.Pos(rtl.Pos()), fmt.Sprintf("%d quoted literals: the scanner stops exactly at the closing quote", nWords),
		"the template scanner mis-judges where a string literal ends: "+firstBad+" — the expression is cut in the wrong place and the template is returned verbatim or mis-evaluated")
	// scanExpression: the end of an expression is the first closing parenthesis at depth 0 outside text literals
	if se := p.Method("excellent", "xscanner", "scanExpression"); se == nil || se.Blocks == nil {
		r.Errorf("scanner anchor scanExpression not found")
	} else {
		refReads := func(w string) int {
			depth := 1
			i := 0
			for i < len(w) {
				ch := w[i]
				i++
				switch ch {
				case 'q':
					esc := false
					for i < len(w) {
						c2 := w[i]
						i++
						if c2 == 'q' && !esc {
							break
						} else if c2 == 'b' && !esc {
							esc = true
						} else {
							esc = false
						}
					}
					if i >= len(w) && (len(w) == 0 || w[len(w)-1] != 'q') {
						// ran into the end inside the literal: the literal reader saw eof (one more read)
						return len(w) + 2
					}
				case 'p':
					depth++
				case 'c':
					depth--
					if depth == 0 {
						return i
					}
				}
			}
			return len(w) + 1
		}
		nExpr, badExpr := 0, ""
		var genE func(prefix string, k int)
		genE = func(prefix string, k int) {
			w := prefix + "coo"
			want := refReads(w)
			if want <= len(w) { // only inputs on which the reference terminates inside the word
				tr := simulateReader(se, w, nil, len(w)+3)
				nExpr++
				if (tr.paths != 1 || tr.reads != want) && (badExpr == "" || len(prefix) < len(badExpr)) {
					badExpr = fmt.Sprintf("on the expression body %q (q=quote b=backslash o=other p=( c=) ) the scanner consumes %d characters, the expression ends after %d (paths %d)", w, tr.reads, want, tr.paths)
				}
			}
			if k == 0 {
				return
			}
			for _, c := range "qbopc" {
				genE(prefix+string(c), k-1)
			}
		}
		genE("", 4)
		r.Count("expression_bodies_simulated", nExpr)
		r.Require("expression_bodies_simulated", nExpr, 300)
		r.Check(badExpr == "", "R1", "xscanner.scanExpression/ends-where-the-parser-ends", p.Pos(se.Pos()), fmt.Sprintf("%d expression bodies: parentheses inside text literals are not counted, the expression ends at its own closing parenthesis", nExpr),
			"the template scanner and the expression grammar disagree on where an expression ends: "+badExpr)
	}
	// lexer rule
	lexStringRule(p, r, "R1", "Excellent3.g4", "TEXT")

	// ------------------------------------------------------------------ R2 scanBody
	type bcase struct {
		word     string
		unescape bool
		want     []string
		reads    int
		what     string
	}
	cases := []bcase{
		{"ap", true, []string{`unread:'('`, `unread:'@'`}, 2, "@( starts an expression: both characters are pushed back"},
		{"an", true, []string{`unread:'n'`, `unread:'@'`}, 2, "@name starts an identifier: both characters are pushed back"},
		{"aao", true, []string{`write:'@'`, `write:'x'`}, 4, "@@ yields one @ when unescaping"},
		{"aao", false, []string{`write:'@'`, `write:'@'`, `write:'x'`}, 4, "@@ is kept when not unescaping"},
		{"aso", true, []string{`write:'@'`, `write:' '`, `write:'x'`}, 4, "@ followed by another character is copied verbatim"},
		{"a", true, []string{`write:'@'`}, 2, "a trailing @ is copied"},
		{"oo", true, []string{`write:'x'`, `write:'x'`}, 3, "ordinary characters are copied"},
	}
	for _, c := range cases {
		tr := simulateReader(body, c.word, map[string]bool{"unescapeBody": c.unescape}, len(c.word)+3)
		got := strings.Join(tr.effects, " ")
		want := strings.Join(c.want, " ")
		key := fmt.Sprintf("xscanner.scanBody/%s/unescape=%v", c.word, c.unescape)
		r.Check(tr.paths == 1 && got == want, "R2", key, p.Pos(body.Pos()), c.what+": "+got,
			fmt.Sprintf("on input %q (a=@ p=( n=name s=space o=other) with unescapeBody=%v scanBody does [%s], expected [%s]: %s (paths %d)", c.word, c.unescape, got, want, c.what, tr.paths))
	}

	// ------------------------------------------------------------------ R3 scanIdentifier
	nRet := 0
	for _, ret := range core.Returns(ident) {
		nRet++
		kind, _ := core.ConstInt(ret.Results[0])
		// provenance of the returned text: no case folding
		folded := false
		for v := range core.BackSlice(ret.Results[1], func(c *ssa.Call) bool { return true }) {
			if c, ok := v.(*ssa.Call); ok {
				if o := core.CalleeObj(&c.Call); o != nil {
					switch core.ObjName(o) {
					case "strings.ToLower", "strings.ToUpper", "strings.Title", "strings.ToTitle":
						folded = true
					}
				}
			}
		}
		key := fmt.Sprintf("xscanner.scanIdentifier/return#%d", nRet)
		r.Check(!folded, "R3", key+"/text-unmodified", p.Pos(ret.Pos()), "returns the scanned text", "the text returned by scanIdentifier is a case-folded copy of what was scanned: literal text such as an e-mail address or a @Mention changes case")
		if kind == 0 { // BODY: the '@' that introduced the name was consumed and must be given back
			keepsAt := false
			for v := range core.BackSlice(ret.Results[1], func(c *ssa.Call) bool { return true }) {
				if sc, ok := core.ConstString(v); ok && strings.HasPrefix(sc, "@") {
					keepsAt = true
				}
			}
			r.Check(keepsAt, "R3", key+"/body-keeps-at", p.Pos(ret.Pos()), "a name that is not an allowed top level is returned as '@' + name", "scanIdentifier returns a disallowed name as body text without the '@' it consumed: bob@nyaruka.com becomes bobnyaruka.com")
		}
		if kind == 1 { // IDENTIFIER
			gated := false
			for _, ce := range core.ControllingConds(ret.Block()) {
				if c12Gate(ce.Cond, ce.Taken, nil, 0) {
					gated = true
				}
			}
			r.Check(gated, "R3", key+"/identifier-gated", p.Pos(ret.Pos()), "IDENTIFIER only for an allowed (lower-cased) top level, or when no list is given", "scanIdentifier returns IDENTIFIER without the allowed-top-level test: e-mail addresses and mentions are evaluated as expressions")
		}
	}
	r.Require("scanIdentifier_returns", nRet, 2)

	// ------------------------------------------------------------------ R2b the input reader
	if rd := p.Method("excellent", "xinput", "read"); rd == nil {
		r.Errorf("xinput.read not found")
	} else {
		filtered := ""
		nReads := 0
		core.EachInstr(rd, false, func(_ *ssa.Function, in ssa.Instruction) {
			c, ok := in.(*ssa.Call)
			if !ok {
				return
			}
			if o := core.CalleeObj(&c.Call); o == nil || o.Name() != "ReadRune" {
				return
			}
			nReads++
			// the rune result must not be compared with anything: every rune read is handed on
			if c.Referrers() == nil {
				return
			}
			for _, ref := range *c.Referrers() {
				ex, ok := ref.(*ssa.Extract)
				if !ok || ex.Index != 0 || ex.Referrers() == nil {
					continue
				}
				for _, u := range *ex.Referrers() {
					if bo, ok := u.(*ssa.BinOp); ok {
						filtered = canonShort(bo) + " at " + p.Pos(bo.Pos())
					}
				}
			}
		})
		r.Check(filtered == "" && nReads > 0, "R2", "xinput.read/every-rune-handed-on", p.Pos(rd.Pos()), "the rune ReadRune returns is returned whenever there is no error", "the template reader tests the rune it has read ("+filtered+") before handing it on: characters it filters out never reach the scanner, so literal text and string literals lose them (U+FFFD is a valid character and also what ReadRune reports for invalid bytes)")
	}

	// ------------------------------------------------------------------ R4
	c11QuotePair(p, r, "R4")
	c12RawTemplate(p, r)
}

// c11QuotePair: TextLiteral.String quotes the full native value; VisitTextLiteral unquotes. Shared by C11/R3 and C12/R4.
func c11QuotePair(p *core.Program, r *core.Report, rule string) {
	tls := p.Method("excellent", "TextLiteral", "String")
	vtl := p.Method("excellent", "visitor", "VisitTextLiteral")
	if tls == nil || vtl == nil {
		r.Errorf("TextLiteral.String / visitor.VisitTextLiteral not found")
		return
	}
	ok, why := quotesFaithfully(p, tls, 0)
	r.Check(ok, rule, "TextLiteral.String/strconv.Quote(native)", p.Pos(tls.Pos()), "prints strconv.Quote of the literal's full native value", "a text literal is not printed as strconv.Quote of its full value ("+why+"): printing and re-parsing an expression changes the literal")
	okU := false
	for _, ret := range core.Returns(vtl) {
		// the literal's value: the returned node is built from it (follow the stores into the allocated node)
		if core.DerivesFromCallDeep(ret.Results[0], 2, "strconv.Unquote") {
			okU = true
		}
	}
	r.Check(okU, rule, "visitor.VisitTextLiteral/strconv.Unquote", p.Pos(vtl.Pos()), "text literals are read with strconv.Unquote", "VisitTextLiteral does not unquote with strconv.Unquote")
	// what is unquoted is the token's text as written: no call stands between GetText() and strconv.Unquote
	var rawText func(v ssa.Value, in *ssa.Function, depth int) string
	rawText = func(v ssa.Value, in *ssa.Function, depth int) string {
		for w := range core.BackSlice(v, nil) {
			switch x := w.(type) {
			case *ssa.Call:
				if o := core.CalleeObj(&x.Call); o == nil || o.Name() != "GetText" {
					name := "a call"
					if o != nil {
						name = core.ObjName(o)
					}
					return "it went through " + name + " (" + p.Pos(x.Pos()) + ") first"
				}
			case *ssa.Parameter:
				if in == vtl || depth >= 2 {
					continue
				}
				for k, fp := range in.Params {
					if fp != x {
						continue
					}
					for _, cs := range p.CallsTo(in) {
						if cs.Common().StaticCallee() == in && k < len(cs.Common().Args) {
							if why := rawText(cs.Common().Args[k], cs.Caller, depth+1); why != "" {
								return why
							}
						}
					}
				}
			}
		}
		return ""
	}
	nU := 0
	for _, ec := range core.EffectiveCalls(vtl, 2) {
		if o := core.CalleeObj(ec.Inner.Common()); o != nil && core.ObjName(o) == "strconv.Unquote" {
			nU++
			why := rawText(ec.Inner.Common().Args[0], ec.Inner.Caller, 0)
			r.Check(why == "", rule, "visitor.VisitTextLiteral/unquotes-the-text-as-written", p.Pos(ec.Inner.Pos()), "strconv.Unquote is given the token's own text", "the text handed to strconv.Unquote is not the literal as written: "+why+" — a rewrite that does not know about escaped backslashes (\\\\' is not \\') makes Unquote fail or changes the value, and the other escapes of the literal come back raw")
		}
	}
	r.Count("unquote_calls_for_text_literals", nU)
}

// quotesFaithfully: every return of fn is strconv.Quote(x) where x is the receiver's Native()/native value with no other
// transformation, or the result of a callee method on the receiver's value that does so.
func quotesFaithfully(p *core.Program, fn *ssa.Function, depth int) (bool, string) {
	if fn == nil || fn.Blocks == nil || depth > 3 {
		return false, "unresolvable"
	}
	for _, ret := range core.Returns(fn) {
		c, ok := core.StripConv(ret.Results[0]).(*ssa.Call)
		if !ok {
			return false, "return value is not a call result"
		}
		o := core.CalleeObj(&c.Call)
		if o != nil && core.ObjName(o) == "strconv.Quote" {
			arg := core.StripConv(c.Call.Args[0])
			// Native() of the receiver, or a field load of the receiver
			if ac, ok := arg.(*ssa.Call); ok {
				if ao := core.CalleeObj(&ac.Call); ao != nil && ao.Name() == "Native" {
					continue
				}
				return false, "the quoted value is " + canonShort(arg)
			}
			if u, ok := arg.(*ssa.UnOp); ok && core.FieldAddrVar(u.X) != nil {
				continue
			}
			return false, "the quoted value is " + canonShort(arg)
		}
		// delegate: method on the literal's value
		var callee *ssa.Function
		if f := c.Call.StaticCallee(); f != nil {
			callee = f
		}
		if callee == nil {
			return false, "delegates to a dynamic call"
		}
		if ok, why := quotesFaithfully(p, callee, depth+1); !ok {
			return false, core.FuncName(callee) + ": " + why
		}
	}
	return len(core.Returns(fn)) > 0, ""
}

// c12RawTemplate: R5. The scanner is the only reader of raw template text in package excellent.
func c12RawTemplate(p *core.Program, r *core.Report) {
	var fns []*ssa.Function
	for _, fn := range p.ModuleFunctions() {
		if core.RelPkg(core.FuncPkgPath(fn)) == "excellent" && fn.Parent() == nil && !p.IsTestFile(fn.Pos()) {
			fns = append(fns, fn)
		}
	}
	// uses of v (through conversions, TrimSpace and phis): what each reaches
	type use struct {
		instr ssa.Instruction
		what  string
		arg   int
		call  *ssa.CallCommon
	}
	passThrough := map[string]bool{"strings.TrimSpace": true, "strings.NewReader": true}
	var usesOf func(v ssa.Value, seen map[ssa.Value]bool) []use
	usesOf = func(v ssa.Value, seen map[ssa.Value]bool) []use {
		var out []use
		if seen[v] || v.Referrers() == nil {
			return nil
		}
		seen[v] = true
		for _, u := range *v.Referrers() {
			switch x := u.(type) {
			case *ssa.Phi, *ssa.ChangeType, *ssa.Convert, *ssa.MakeInterface, *ssa.ChangeInterface:
				out = append(out, usesOf(x.(ssa.Value), seen)...)
			case ssa.CallInstruction:
				com := x.Common()
				if bi, ok := com.Value.(*ssa.Builtin); ok && bi.Name() == "len" {
					continue
				}
				o := core.CalleeObj(com)
				name := ""
				if o != nil {
					name = core.ObjName(o)
				}
				if passThrough[name] {
					if val, ok := x.(ssa.Value); ok {
						out = append(out, usesOf(val, seen)...)
					}
					continue
				}
				for i, a := range com.Args {
					if a == v {
						out = append(out, use{x, name, i, com})
					}
				}
			case *ssa.BinOp:
				switch x.Op {
				case token.EQL, token.NEQ:
					continue
				}
				out = append(out, use{instr: x, what: "concatenation"})
			case *ssa.DebugRef:
			default:
				out = append(out, use{instr: u, what: fmt.Sprintf("%T", u)})
			}
		}
		return out
	}
	// raw template parameters: fixpoint from NewXScanner(strings.NewReader(param))
	raw := map[*ssa.Parameter]bool{}
	feedsScanner := func(u use) bool {
		if u.what == "excellent.NewXScanner" {
			return true
		}
		if u.call != nil {
			if g := u.call.StaticCallee(); g != nil && u.arg < len(g.Params) && raw[g.Params[u.arg]] {
				return true
			}
		}
		return false
	}
	for changed := true; changed; {
		changed = false
		for _, fn := range fns {
			for _, prm := range fn.Params {
				if raw[prm] {
					continue
				}
				if b, ok := prm.Type().Underlying().(*types.Basic); !ok || b.Kind() != types.String {
					continue
				}
				for _, u := range usesOf(prm, map[ssa.Value]bool{}) {
					if feedsScanner(u) {
						raw[prm] = true
						changed = true
					}
				}
			}
		}
	}
	noAt := func(b *ssa.BasicBlock) bool {
		for _, ce := range core.ControllingConds(b) {
			for v := range core.BackSlice(ce.Cond, nil) {
				c, ok := v.(*ssa.Call)
				if !ok {
					continue
				}
				if o := core.CalleeObj(&c.Call); o != nil {
					switch core.ObjName(o) {
					case "strings.Contains", "strings.ContainsRune", "strings.IndexByte", "strings.Index", "strings.IndexRune", "strings.ContainsAny":
						if s, ok := core.ConstString(c.Call.Args[1]); ok && s == "@" {
							return true
						}
						if k, ok := core.ConstInt(c.Call.Args[1]); ok && k == '@' {
							return true
						}
					}
				}
			}
		}
		return false
	}
	// what is tested is what is scanned: a comparison of a TRIMMED copy decides nothing about the untrimmed text, so
	// where a function compares a value derived from the raw template (TrimSpace(t) == ""), the scanner must be fed
	// that same derived value, not the parameter itself
	trimmedCompare := func(prm *ssa.Parameter) (string, bool) {
		derivedCmp := ""
		var walk func(v ssa.Value, derived bool, seen map[ssa.Value]bool)
		directScan := false
		walk = func(v ssa.Value, derived bool, seen map[ssa.Value]bool) {
			if seen[v] || v.Referrers() == nil {
				return
			}
			seen[v] = true
			for _, u := range *v.Referrers() {
				switch x := u.(type) {
				case *ssa.Phi, *ssa.ChangeType, *ssa.Convert, *ssa.MakeInterface:
					walk(x.(ssa.Value), derived, seen)
				case *ssa.BinOp:
					if (x.Op == token.EQL || x.Op == token.NEQ) && derived {
						derivedCmp = p.Pos(x.Pos())
					}
				case ssa.CallInstruction:
					o := core.CalleeObj(x.Common())
					name := ""
					if o != nil {
						name = core.ObjName(o)
					}
					switch {
					case name == "strings.TrimSpace":
						if val, ok := x.(ssa.Value); ok {
							walk(val, true, seen)
						}
					case name == "strings.NewReader":
						if !derived {
							directScan = true
						}
					default:
						if !derived && feedsScanner(use{instr: x, what: name, call: x.Common(), arg: argIndex(x.Common(), v)}) {
							directScan = true
						}
					}
				}
			}
		}
		walk(prm, false, map[ssa.Value]bool{})
		return derivedCmp, derivedCmp != "" && directScan
	}
	n := 0
	var prms []*ssa.Parameter
	for prm := range raw {
		prms = append(prms, prm)
	}
	sort.Slice(prms, func(i, j int) bool { return prms[i].Pos() < prms[j].Pos() })
	for _, prm := range prms {
		n++
		var bad []string
		at := prm.Pos()
		for _, u := range usesOf(prm, map[ssa.Value]bool{}) {
			if feedsScanner(u) || noAt(u.instr.Block()) {
				continue
			}
			what := u.what
			if u.call != nil && what == "" {
				what = "a dynamic call"
			}
			bad = append(bad, what+" at "+p.Pos(u.instr.Pos()))
			at = u.instr.Pos()
		}
		if at, mismatch := trimmedCompare(prm); mismatch {
			r.Bad("R5", core.FuncName(prm.Parent())+"/"+prm.Name()+"/tested-as-scanned", at, "a trimmed copy of the raw template is compared (at "+at+") while the untrimmed text is what gets scanned: a template that consists of white space only is treated as empty and its text is dropped instead of passing through unchanged")
		} else {
			r.OK("R5", core.FuncName(prm.Parent())+"/"+prm.Name()+"/tested-as-scanned", p.Pos(prm.Pos()), "comparisons and the scanner see the same text")
		}
		r.Check(len(bad) == 0, "R5", core.FuncName(prm.Parent())+"/"+prm.Name()+"/only-scanned", p.Pos(at), "the raw template is only trimmed, measured, compared and scanned",
			fmt.Sprintf("the raw template text of %s flows into %s without passing the scanner: '@@' is not unescaped there and the result differs from what Template produces for the same text", core.FuncName(prm.Parent()), strings.Join(bad, "; ")))
	}
	r.Require("raw_template_parameters", n, 3)
}

// c12Gate: the branch edge (cond, taken) establishes "the lower-cased top level is in identifierTopLevels, or no list
// was given". Either directly (topLevel == validTopLevel taken, or identifierTopLevels == nil), or through a
// boolean helper of the package all of whose true-returns are gated the same way (args maps the helper's parameters
// to the values it was called with).
func c12Gate(cond ssa.Value, taken bool, args map[*ssa.Parameter]ssa.Value, depth int) bool {
	if un, ok := cond.(*ssa.UnOp); ok && un.Op == token.NOT {
		return c12Gate(un.X, !taken, args, depth)
	}
	lowered := func(v ssa.Value) bool {
		for x := range core.BackSlice(v, func(c *ssa.Call) bool { return true }) {
			switch y := x.(type) {
			case *ssa.Call:
				if o := core.CalleeObj(&y.Call); o != nil && core.ObjName(o) == "strings.ToLower" {
					return true
				}
			case *ssa.Parameter:
				if a, ok := args[y]; ok {
					for z := range core.BackSlice(a, func(c *ssa.Call) bool { return true }) {
						if c, ok := z.(*ssa.Call); ok {
							if o := core.CalleeObj(&c.Call); o != nil && core.ObjName(o) == "strings.ToLower" {
								return true
							}
						}
					}
				}
			}
		}
		return false
	}
	fromList := func(v ssa.Value) bool {
		for x := range core.BackSlice(v, nil) {
			if fa, ok := x.(*ssa.FieldAddr); ok && core.FieldAddrVar(fa).Name() == "identifierTopLevels" {
				return true
			}
		}
		return false
	}
	switch c := cond.(type) {
	case *ssa.BinOp:
		if c.Op == token.EQL && taken && ((lowered(c.X) && fromList(c.Y)) || (lowered(c.Y) && fromList(c.X))) {
			return true
		}
		// identifierTopLevels == nil: no gate requested
		if (core.IsNilConst(c.Y) && fromList(c.X)) || (core.IsNilConst(c.X) && fromList(c.Y)) {
			if (c.Op == token.EQL && taken) || (c.Op == token.NEQ && !taken) {
				return true
			}
		}
	case *ssa.Call:
		h := c.Call.StaticCallee()
		if h == nil || h.Blocks == nil || depth > 1 || !taken {
			return false
		}
		bind := map[*ssa.Parameter]ssa.Value{}
		for i, fp := range h.Params {
			if i < len(c.Call.Args) {
				bind[fp] = c.Call.Args[i]
			}
		}
		all := false
		for _, ret := range core.Returns(h) {
			if len(ret.Results) != 1 {
				return false
			}
			var trueBlocks []*ssa.BasicBlock
			switch v := ret.Results[0].(type) {
			case *ssa.Const:
				if v.Value != nil && v.Value.String() == "true" {
					trueBlocks = append(trueBlocks, ret.Block())
				}
			case *ssa.Phi:
				for i, e := range v.Edges {
					if k, isC := e.(*ssa.Const); isC && k.Value != nil && k.Value.String() == "false" {
						continue
					}
					if k, isC := e.(*ssa.Const); !isC || k.Value == nil || k.Value.String() != "true" {
						return false
					}
					trueBlocks = append(trueBlocks, v.Block().Preds[i])
				}
			default:
				return false
			}
			for _, tb := range trueBlocks {
				ok := false
				conds := core.ControllingConds(tb)
				if iff, isIf := tb.Instrs[len(tb.Instrs)-1].(*ssa.If); isIf && tb.Succs[0] != tb.Succs[1] {
					if _, isPhi := ret.Results[0].(*ssa.Phi); isPhi {
						conds = append(conds, core.CondEdge{Cond: iff.Cond, Taken: tb.Succs[0] == ret.Block(), If: iff})
					}
				}
				for _, ce := range conds {
					if c12Gate(ce.Cond, ce.Taken, bind, depth+1) {
						ok = true
					}
				}
				if !ok {
					return false
				}
				all = true
			}
		}
		return all
	}
	return false
}

func argIndex(com *ssa.CallCommon, v ssa.Value) int {
	for i, a := range com.Args {
		if a == v {
			return i
		}
	}
	return -1
}
