package rules

import (
	"fmt"
	"go/ast"
	"go/constant"
	"go/token"
	"go/types"
	"sort"
	"strings"

	"golang.org/x/tools/go/ssa"

	"verif/checker/core"
)

func init() { register("C15", checkC15) }

// operator constants of contactql (name -> text), read from the package's const block
func c15Operators(p *core.Program) map[string]string {
	out := map[string]string{}
	pk := p.Pkg("contactql")
	if pk == nil {
		return out
	}
	sc := pk.Types.Scope()
	for _, nm := range sc.Names() {
		c, ok := sc.Lookup(nm).(*types.Const)
		if !ok || !strings.HasPrefix(nm, "Op") {
			continue
		}
		if n, ok := c.Type().(*types.Named); ok && n.Obj().Name() == "Operator" {
			if s, ok := constStringOf(c); ok {
				out[nm] = s
			}
		}
	}
	return out
}

// decideOpCond: decides `x == "<const>"` / `!=` where x is the operator value (parameter or field load named operator/op).
func isOperatorValue(v ssa.Value) bool {
	switch x := v.(type) {
	case *ssa.Parameter:
		return x.Name() == "op" || x.Name() == "operator"
	case *ssa.UnOp:
		if fv := core.FieldAddrVar(x.X); fv != nil && (fv.Name() == "operator" || fv.Name() == "op") {
			return true
		}
	}
	return false
}

func decideConstEq(cond ssa.Value, isSubject func(ssa.Value) bool, chosen string) core.AB {
	bo, ok := cond.(*ssa.BinOp)
	if !ok || (bo.Op != token.EQL && bo.Op != token.NEQ) {
		return core.Unk
	}
	var other ssa.Value
	if isSubject(bo.X) {
		other = bo.Y
	} else if isSubject(bo.Y) {
		other = bo.X
	} else {
		return core.Unk
	}
	s, ok := core.ConstString(other)
	if !ok {
		return core.Unk
	}
	return boolAB((s == chosen) == (bo.Op == token.EQL))
}

// c15SeedConstEq gives a comparison of the subject with a constant its value for the chosen constant where it is
// computed, so that a comparison hoisted into a local (`isAnd := b.op == "and"`) and then used as a boolean value
// (compared with a result, negated, returned) is decided like the same comparison written in a branch.
func c15SeedConstEq(s *core.PathState, in ssa.Instruction, isSubject func(ssa.Value) bool, chosen string) {
	if bo, ok := in.(*ssa.BinOp); ok {
		if d := decideConstEq(bo, isSubject, chosen); d != core.Unk {
			s.Vals[bo] = d
		}
	}
}

// evalTable explores fn for each (operator, situation) cell; decideCall gives the abstract result of the comparison
// primitives in that situation. Returns table[op][situation] = "T" | "F" | "panic" | "?".
// c15Bind maps the parameters of a helper being evaluated on behalf of a comparison function to the values it was
// called with; the call deciders look at arguments through c15Arg so that `notBefore(objectVal, dayStart)` written as
// a helper is the same thing as the two calls it contains.
var c15Bind = map[*ssa.Parameter]ssa.Value{}

func c15Arg(v ssa.Value) ssa.Value {
	for k := 0; k < 4; k++ {
		prm, ok := v.(*ssa.Parameter)
		if !ok {
			break
		}
		a, ok := c15Bind[prm]
		if !ok {
			break
		}
		v = a
	}
	return v
}

// c15BindCall binds the parameters of h to the arguments of one call of it (seen through the bindings in force) and
// returns the function that restores the bindings as they were.
func c15BindCall(cc *ssa.CallCommon, h *ssa.Function) func() {
	saved := map[*ssa.Parameter]ssa.Value{}
	for i, fp := range h.Params {
		if i < len(cc.Args) {
			if old, had := c15Bind[fp]; had {
				saved[fp] = old
			}
			c15Bind[fp] = c15Arg(cc.Args[i])
		}
	}
	return func() {
		for _, fp := range h.Params {
			delete(c15Bind, fp)
		}
		for k, v := range saved {
			c15Bind[k] = v
		}
	}
}

// c15SamePkgHelper: the function a call resolves to statically when it is a function with a body of the package of
// `from` (a helper a refactoring may have extracted), else nil.
func c15SamePkgHelper(c ssa.CallInstruction, from *ssa.Function) *ssa.Function {
	if c.Common().IsInvoke() {
		return nil
	}
	h := c.Common().StaticCallee()
	if h == nil || len(h.Blocks) == 0 || core.FuncPkgPath(h) != core.FuncPkgPath(from) {
		return nil
	}
	return h
}

// c15Helper evaluates a boolean helper of the same package for one situation: T, F, or "" when it is not determined.
func c15Helper(call *ssa.Call, from *ssa.Function, sit string, decideCall func(c *ssa.Call, situation string) core.AB, depth int) core.AB {
	h := call.Call.StaticCallee()
	if h == nil || h.Blocks == nil || depth > 1 || core.FuncPkgPath(h) != core.FuncPkgPath(from) || h.Signature.Results().Len() != 1 {
		return core.Unk
	}
	if b, ok := h.Signature.Results().At(0).Type().Underlying().(*types.Basic); !ok || b.Kind() != types.Bool {
		return core.Unk
	}
	defer c15BindCall(&call.Call, h)()
	result := core.Unk
	mixed := false
	core.ExplorePaths(h, core.PathRules{
		OnCall: func(s *core.PathState, c ssa.CallInstruction) []core.CallOutcome {
			cc, ok := c.(*ssa.Call)
			if !ok {
				return nil
			}
			if d := decideCall(cc, sit); d != core.Unk {
				return []core.CallOutcome{{Result: d}}
			}
			if d := c15Helper(cc, h, sit, decideCall, depth+1); d != core.Unk {
				return []core.CallOutcome{{Result: d}}
			}
			return nil
		},
		OnExit: func(s *core.PathState, ret *ssa.Return, pan *ssa.Panic) {
			if ret == nil {
				mixed = true
				return
			}
			v := s.Val(ret.Results[0])
			if v == core.Unk || (result != core.Unk && result != v) {
				mixed = true
			}
			result = v
		},
	})
	if mixed {
		return core.Unk
	}
	return result
}

func evalTable(fn *ssa.Function, ops map[string]string, situations []string, decideCall func(c *ssa.Call, situation string) core.AB) map[string]map[string]string {
	table := map[string]map[string]string{}
	for _, opText := range ops {
		table[opText] = map[string]string{}
		for _, sit := range situations {
			result := ""
			set := func(v string) {
				if result == "" || result == v {
					result = v
				} else {
					result = "?"
				}
			}
			core.ExplorePaths(fn, core.PathRules{
				OnInstr: func(s *core.PathState, in ssa.Instruction) { c15SeedConstEq(s, in, isOperatorValue, opText) },
				OnBranch: func(s *core.PathState, cond ssa.Value) core.AB {
					return decideConstEq(cond, isOperatorValue, opText)
				},
				OnCall: func(s *core.PathState, c ssa.CallInstruction) []core.CallOutcome {
					call, ok := c.(*ssa.Call)
					if !ok {
						return nil
					}
					if d := decideCall(call, sit); d != core.Unk {
						return []core.CallOutcome{{Result: d}}
					}
					if d := c15Helper(call, fn, sit, decideCall, 0); d != core.Unk {
						return []core.CallOutcome{{Result: d}}
					}
					return nil
				},
				OnExit: func(s *core.PathState, ret *ssa.Return, pan *ssa.Panic) {
					if ret == nil {
						set("panic")
						return
					}
					switch s.Val(ret.Results[0]) {
					case core.True:
						set("T")
					case core.False:
						set("F")
					default:
						set("?")
					}
				},
			})
			if result == "" {
				result = "?"
			}
			table[opText][sit] = result
		}
	}
	return table
}

func checkC15(p *core.Program, r *core.Report) {
	r.Rule("R1", "comparison truth tables: numberComparison over the 3 orderings and dateComparison over the 5 positions relative to [dayStart, dayEnd) are evaluated exhaustively per operator (abstract transfer for Equal/GreaterThan/LessThan/... and Equal/After/Before): exactly one of <, =, > holds in every cell; <= is < or =; >= is > or =; != is not =; no admitted operator panics")
	r.Rule("R2", "boolean structure: evaluateBoolCombination over all 2-child truth vectors is conjunction for AND and disjunction for OR; evaluateCondition over all value vectors of length 0..2 gives any() for =-like operators, all() for !=, `!=` is the negation of `=` (per-value results negated), and the empty-value forms test absence/presence")
	r.Rule("R3", "no failing assertion: the Go type asserted by evaluateConditionWithValue for each value type agrees with the static types Contact.QueryProperty / FieldValue.QueryValue put into []any for every attribute of that type, every URN and every field type")
	r.Rule("R4", "the validator admits only what the evaluator handles: over operator x value type, every combination Condition.validate can accept reaches a non-panicking arm of the comparison function evaluateConditionWithValue dispatches to")
	r.Rule("R6", "the attribute table is consulted for attributes only: in contactql every lookup in the package-level attribute type table is control-dependent on a test of the condition's property type (a switch arm or an == on propType); otherwise a field whose key happens to be an attribute's name (fields.id, fields.status) gets the attribute's type, the validator admits text operators on it and the evaluator's type assertion on the field's number or date panics")
	c15R6(p, r)
	r.Rule("R5", "node switches over QueryNode in the evaluator and in Simplify cover both node types; Simplify flattens only children with the same operator and keeps their order")
	r.Assumption("decimal and time comparison primitives are a total order; date parsing of query values and text tokenisation are not decided")

	ops := c15Operators(p)
	if !r.Require("operators", len(ops), 7) {
		return
	}
	numCmp := p.Func("contactql", "numberComparison")
	dateCmp := p.Func("contactql", "dateComparison")
	textCmp := p.Func("contactql", "textComparison")
	evalCond := p.Func("contactql", "evaluateCondition")
	evalBool := p.Func("contactql", "evaluateBoolCombination")
	evalCWV := p.Func("contactql", "evaluateConditionWithValue")
	evalNode := p.Func("contactql", "evaluateNode")
	for n, f := range map[string]*ssa.Function{"numberComparison": numCmp, "dateComparison": dateCmp, "textComparison": textCmp, "evaluateCondition": evalCond, "evaluateBoolCombination": evalBool, "evaluateConditionWithValue": evalCWV, "evaluateNode": evalNode} {
		if f == nil || f.Blocks == nil {
			r.Errorf("evaluator anchor %s not found", n)
			return
		}
	}
	cmpOps := []string{"=", "!=", "<", "<=", ">", ">="}

	// ------------------------------------------------------------------ R1 numbers
	objN, qryN := numCmp.Params[0], numCmp.Params[2]
	numSits := []string{"lt", "eq", "gt"}
	numTable := evalTable(numCmp, ops, numSits, func(c *ssa.Call, sit string) core.AB {
		o := core.CalleeObj(&c.Call)
		if o == nil || o.Pkg() == nil || o.Pkg().Path() != "github.com/shopspring/decimal" || len(c.Call.Args) != 2 {
			return core.Unk
		}
		a, b := c15Arg(c.Call.Args[0]), c15Arg(c.Call.Args[1])
		rel := sit
		switch {
		case a == ssa.Value(objN) && b == ssa.Value(qryN):
		case a == ssa.Value(qryN) && b == ssa.Value(objN):
			rel = map[string]string{"lt": "gt", "eq": "eq", "gt": "lt"}[sit]
		default:
			return core.Unk
		}
		switch o.Name() {
		case "Equal", "Equals":
			return boolAB(rel == "eq")
		case "GreaterThan":
			return boolAB(rel == "gt")
		case "GreaterThanOrEqual":
			return boolAB(rel != "lt")
		case "LessThan":
			return boolAB(rel == "lt")
		case "LessThanOrEqual":
			return boolAB(rel != "gt")
		}
		return core.Unk
	})
	c15Relations(r, p, "numberComparison", numCmp, numTable, cmpOps, numSits)
	r.Tables["number_comparison"] = numTable

	// ------------------------------------------------------------------ R1 dates
	var rangeCall *ssa.Call
	for _, cs := range core.Calls(dateCmp, false) {
		if o := core.CalleeObj(cs.Common()); o != nil && o.Name() == "DayToUTCRange" {
			rangeCall, _ = cs.Instr.(*ssa.Call)
		}
	}
	if rangeCall == nil {
		r.Bad("R1", "dateComparison/day-range", p.Pos(dateCmp.Pos()), "dates are not compared against the calendar day [start, end) of the query value in its timezone")
		return
	}
	// the day is that of the query value in the query value's own location
	qryD := dateCmp.Params[2]
	locOK := rangeCall.Call.Args[0] == ssa.Value(qryD)
	if locOK {
		locOK = false
		if lc, ok := rangeCall.Call.Args[1].(*ssa.Call); ok {
			if o := core.CalleeObj(&lc.Call); o != nil && o.Name() == "Location" && lc.Call.Args[0] == ssa.Value(qryD) {
				locOK = true
			}
		}
	}
	r.Check(locOK, "R1", "dateComparison/day-of-query-value", p.Pos(rangeCall.Pos()), "DayToUTCRange(queryVal, queryVal.Location())", "the calendar day is not that of the query value in its own (environment) timezone")
	objD := dateCmp.Params[0]
	bound := func(v ssa.Value) string {
		if ex, ok := v.(*ssa.Extract); ok && ex.Tuple == ssa.Value(rangeCall) {
			return []string{"start", "end"}[ex.Index]
		}
		return ""
	}
	dateSits := []string{"before-start", "at-start", "inside", "at-end", "after-end"}
	pos := map[string]int{"before-start": 0, "at-start": 1, "inside": 2, "at-end": 3, "after-end": 4}
	dateTable := evalTable(dateCmp, ops, dateSits, func(c *ssa.Call, sit string) core.AB {
		o := core.CalleeObj(&c.Call)
		if o == nil || o.Pkg() == nil || o.Pkg().Path() != "time" || len(c.Call.Args) != 2 {
			return core.Unk
		}
		if c15Arg(c.Call.Args[0]) != ssa.Value(objD) {
			return core.Unk
		}
		b := bound(c15Arg(c.Call.Args[1]))
		if b == "" {
			return core.Unk
		}
		ps := pos[sit]
		at := 1 // position index of the bound itself
		if b == "end" {
			at = 3
		}
		switch o.Name() {
		case "Equal":
			return boolAB(ps == at)
		case "After":
			return boolAB(ps > at)
		case "Before":
			return boolAB(ps < at)
		}
		return core.Unk
	})
	c15Relations(r, p, "dateComparison", dateCmp, dateTable, cmpOps, dateSits)
	// day semantics: = is exactly [start, end)
	for _, sit := range dateSits {
		want := "F"
		if sit == "at-start" || sit == "inside" {
			want = "T"
		}
		r.Check(dateTable["="][sit] == want, "R1", "dateComparison/=/"+sit, p.Pos(dateCmp.Pos()), "= "+want, fmt.Sprintf("date = is %s for a value %s the queried day; it must hold exactly on [dayStart, dayEnd)", dateTable["="][sit], sit))
	}
	r.Tables["date_comparison"] = dateTable

	// ------------------------------------------------------------------ R2
	c15R2(p, r, evalBool, evalCond, evalNode, evalCWV, ops)

	// ------------------------------------------------------------------ R3 + R4
	c15R3R4(p, r, evalCWV, numCmp, dateCmp, textCmp, ops)
	c15TextNormalisation(p, r, textCmp)

	// ------------------------------------------------------------------ R5
	c15R5(p, r, evalNode)

	// ------------------------------------------------------------------ R6 computed indexes in the query packages
	r.Rule("R6", "every computed index or slice bound in the contactql packages is shown non-negative and within the length of the value it indexes on every path, or listed (same analysis as C04/R7)")
	var qfns []*ssa.Function
	for _, fn := range p.ModuleFunctions() {
		rel := core.RelPkg(core.FuncPkgPath(fn))
		if (rel == "contactql" || rel == "contactql/es") && !p.IsTestFile(fn.Pos()) {
			qfns = append(qfns, fn)
		}
	}
	r.Count("variable_index_sites", varIndexRule(p, r, qfns, "R6", c15VarIndexAllowed))
}

// c15VarIndexAllowed: computed indexes in contactql the generic idioms do not prove (confirmed by reading).
var c15VarIndexAllowed = map[string]string{
	"contactql.Stringify/high#1": "s[1:len(s)-1] under HasPrefix(s, \"(\") && HasSuffix(s, \")\"): two different one-character affixes need len(s) >= 2",
}

// c15Relations checks the algebraic relations between the six comparison operators over every situation.
func c15Relations(r *core.Report, p *core.Program, label string, fn *ssa.Function, table map[string]map[string]string, cmpOps, sits []string) {
	pos := p.Pos(fn.Pos())
	for _, op := range cmpOps {
		for _, sit := range sits {
			v := table[op][sit]
			r.Check(v == "T" || v == "F", "R1", fmt.Sprintf("%s/%s/%s/decided", label, op, sit), pos, v, fmt.Sprintf("%s %s for %s evaluates to %q (must be a definite boolean: a panic or an undecidable shape here breaks totality)", label, op, sit, v))
		}
	}
	t := func(op, sit string) bool { return table[op][sit] == "T" }
	for _, sit := range sits {
		n := 0
		for _, op := range []string{"<", "=", ">"} {
			if t(op, sit) {
				n++
			}
		}
		r.Check(n == 1, "R1", label+"/trichotomy/"+sit, pos, "exactly one of <, =, >", fmt.Sprintf("for a value %s, %d of (<, =, >) hold (< %s, = %s, > %s): the operators are not mutually consistent", sit, n, table["<"][sit], table["="][sit], table[">"][sit]))
		r.Check(t("<=", sit) == (t("<", sit) || t("=", sit)), "R1", label+"/<=/"+sit, pos, "<= is < or =", fmt.Sprintf("for a value %s, <= is %s but < is %s and = is %s", sit, table["<="][sit], table["<"][sit], table["="][sit]))
		r.Check(t(">=", sit) == (t(">", sit) || t("=", sit)), "R1", label+"/>=/"+sit, pos, ">= is > or =", fmt.Sprintf("for a value %s, >= is %s but > is %s and = is %s", sit, table[">="][sit], table[">"][sit], table["="][sit]))
		r.Check(t("!=", sit) == !t("=", sit), "R1", label+"/!=/"+sit, pos, "!= is not =", fmt.Sprintf("for a value %s, != is %s and = is %s: != is not the negation of =", sit, table["!="][sit], table["="][sit]))
	}
}

func c15R2(p *core.Program, r *core.Report, evalBool, evalCond, evalNode, evalCWV *ssa.Function, ops map[string]string) {
	// ---- bool combination: 2 children, all vectors
	for _, op := range []string{"and", "or"} {
		for _, vec := range [][]bool{{false, false}, {false, true}, {true, false}, {true, true}} {
			result := ""
			isOpLoad := func(v ssa.Value) bool {
				u, ok := v.(*ssa.UnOp)
				return ok && core.FieldAddrVar(u.X) != nil && core.FieldAddrVar(u.X).Name() == "op"
			}
			core.ExplorePaths(evalBool, core.PathRules{
				LoopBound: 4,
				// the test of the operator may be kept in a local (isAnd := b.op == "and") and used as a value later
				OnInstr: func(s *core.PathState, in ssa.Instruction) { c15SeedConstEq(s, in, isOpLoad, op) },
				OnBranch: func(s *core.PathState, cond ssa.Value) core.AB {
					// b.op == "and"
					if d := decideConstEq(cond, isOpLoad, op); d != core.Unk {
						return d
					}
					// loop bound: idx < len(children): true while fewer than 2 children were evaluated in this loop
					if bo, ok := cond.(*ssa.BinOp); ok && bo.Op == token.LSS {
						n := 0
						for _, e := range s.Effects {
							if e.Kind == "CHILD" {
								n++
							}
						}
						// each of the two loops of the function walks the children once; count per loop via the block
						seen := 0
						for _, e := range s.Effects {
							if e.Kind == "CHILD" && e.Data == any(bo) {
								seen++
							}
						}
						return boolAB(seen < 2)
					}
					return core.Unk
				},
				OnCall: func(s *core.PathState, c ssa.CallInstruction) []core.CallOutcome {
					if c.Common().StaticCallee() != evalNode {
						return nil
					}
					// which loop are we in: the controlling LSS condition of this block
					var loopCond ssa.Value
					for _, ce := range core.ControllingConds(c.Block()) {
						if bo, ok := ce.Cond.(*ssa.BinOp); ok && bo.Op == token.LSS {
							loopCond = bo
						}
					}
					i := 0
					for _, e := range s.Effects {
						if e.Kind == "CHILD" && e.Data == any(loopCond) {
							i++
						}
					}
					if i >= 2 {
						return nil
					}
					return []core.CallOutcome{{Result: boolAB(vec[i]), Effects: []core.Effect{{Kind: "CHILD", Data: loopCond}}}}
				},
				OnExit: func(s *core.PathState, ret *ssa.Return, pan *ssa.Panic) {
					if ret == nil {
						result = "panic"
						return
					}
					v := s.Val(ret.Results[0]).String()
					if result != "" && result != v {
						result = "?"
					} else {
						result = v
					}
				},
			})
			want := vec[0] && vec[1]
			if op == "or" {
				want = vec[0] || vec[1]
			}
			ws := "F"
			if want {
				ws = "T"
			}
			r.Check(result == ws, "R2", fmt.Sprintf("evaluateBoolCombination/%s/%v", op, vec), p.Pos(evalBool.Pos()), result, fmt.Sprintf("%s over children %v evaluates to %s, expected %s", strings.ToUpper(op), vec, result, ws))
		}
	}
	// ---- evaluateCondition: value vectors
	// one way out of a function evaluated for a vector of per-value results: the abstract value of each result, how
	// many values were evaluated on the way, and what the first result stands for when it is not a tracked boolean
	type c15Out struct {
		vals  string // the results, one of T F ? each
		first string // T, F, ?, or panic
		n     int
	}
	reachesCWV := func(g *ssa.Function) bool {
		for _, ec := range core.EffectiveCalls(g, 2) {
			if ec.Inner.Common().StaticCallee() == evalCWV {
				return true
			}
		}
		return false
	}
	run := func(opText string, emptyValue bool, vec []bool) string {
		isOperator := func(v ssa.Value) bool { return isOperatorValue(c15Arg(v)) }
		// explore evaluates fn with `base` values already evaluated by its callers; the per-value loop may sit in
		// evaluateCondition or in a helper of the package it calls (any number of results): the helper is evaluated
		// under the same rules and each way out of it is one outcome of the call
		var explore func(fn *ssa.Function, base, depth int) []c15Out
		explore = func(fn *ssa.Function, base, depth int) []c15Out {
			var outs []c15Out
			seenOut := map[c15Out]bool{}
			count := func(s *core.PathState) int {
				n := base
				for _, e := range s.Effects {
					if e.Kind == "VAL" {
						n++
					}
				}
				return n
			}
			core.ExplorePaths(fn, core.PathRules{
				LoopBound: 4,
				OnInstr: func(s *core.PathState, in ssa.Instruction) {
					// the test of the operator may be kept in a local and used as a value later
					c15SeedConstEq(s, in, isOperator, opText)
					// one result of a helper evaluated below
					if ex, ok := in.(*ssa.Extract); ok {
						for i := len(s.Effects) - 1; i >= 0; i-- {
							if e := s.Effects[i]; e.Kind == "RET" && ssa.Value(e.Instr.(*ssa.Call)) == ex.Tuple {
								if rv := e.Data.(string); ex.Index < len(rv) {
									switch rv[ex.Index] {
									case 'T':
										s.Vals[ex] = core.True
									case 'F':
										s.Vals[ex] = core.False
									}
								}
								break
							}
						}
					}
				},
				OnBranch: func(s *core.PathState, cond ssa.Value) core.AB {
					if d := decideConstEq(cond, isOperator, opText); d != core.Unk {
						return d
					}
					bo, ok := cond.(*ssa.BinOp)
					if !ok {
						return core.Unk
					}
					// c.value == ""
					if u, ok := c15Arg(bo.X).(*ssa.UnOp); ok && core.FieldAddrVar(u.X) != nil && core.FieldAddrVar(u.X).Name() == "value" {
						if sv, ok := core.ConstString(bo.Y); ok && sv == "" {
							return boolAB((bo.Op == token.EQL) == emptyValue)
						}
					}
					// loop bound
					if bo.Op == token.LSS {
						return boolAB(count(s) < len(vec))
					}
					return core.Unk
				},
				OnCall: func(s *core.PathState, c ssa.CallInstruction) []core.CallOutcome {
					if c.Common().StaticCallee() == evalCWV {
						if n := count(s); n < len(vec) {
							return []core.CallOutcome{{Result: boolAB(vec[n]), Effects: []core.Effect{{Kind: "VAL"}}}}
						}
						return nil
					}
					call, isCall := c.(*ssa.Call)
					h := c15SamePkgHelper(c, evalCond)
					if !isCall || h == nil || depth >= 2 || h == fn || !reachesCWV(h) {
						return nil
					}
					restore := c15BindCall(&call.Call, h)
					inner := explore(h, count(s), depth+1)
					restore()
					var cos []core.CallOutcome
					for _, o := range inner {
						co := core.CallOutcome{}
						for k := count(s); k < o.n; k++ {
							co.Effects = append(co.Effects, core.Effect{Kind: "VAL"})
						}
						if o.first == "panic" {
							co.Effects = append(co.Effects, core.Effect{Kind: "PANIC"})
						} else {
							co.Effects = append(co.Effects, core.Effect{Kind: "RET", Instr: call, Data: o.vals})
							if len(o.vals) == 1 {
								co.Result = map[byte]core.AB{'T': core.True, 'F': core.False}[o.vals[0]]
							}
						}
						cos = append(cos, co)
					}
					return cos
				},
				OnExit: func(s *core.PathState, ret *ssa.Return, pan *ssa.Panic) {
					o := c15Out{n: count(s)}
					if ret == nil || s.Has("PANIC") {
						o.first = "panic"
					} else {
						for _, rv := range ret.Results {
							o.vals += s.Val(rv).String()
						}
						if len(ret.Results) > 0 {
							o.first = s.Val(ret.Results[0]).String()
							if s.Val(ret.Results[0]) == core.Unk {
								// len(vals) == 0 / > 0 forms
								if bo, ok := ret.Results[0].(*ssa.BinOp); ok {
									if c, ok := bo.X.(*ssa.Call); ok {
										if bi, ok := c.Call.Value.(*ssa.Builtin); ok && bi.Name() == "len" {
											if k, isC := core.ConstInt(bo.Y); isC && k == 0 {
												switch bo.Op {
												case token.EQL:
													o.first = boolAB(len(vec) == 0).String()
												case token.GTR, token.NEQ:
													o.first = boolAB(len(vec) > 0).String()
												}
											}
										}
									}
								}
							}
						}
					}
					if !seenOut[o] {
						seenOut[o] = true
						outs = append(outs, o)
					}
				},
			})
			return outs
		}
		result := ""
		for _, o := range explore(evalCond, 0, 0) {
			if result != "" && result != o.first {
				result = "?"
			} else {
				result = o.first
			}
		}
		return result
	}
	vectors := [][]bool{{}, {false}, {true}, {false, false}, {false, true}, {true, false}, {true, true}}
	neg := func(v []bool) []bool {
		o := make([]bool, len(v))
		for i := range v {
			o[i] = !v[i]
		}
		return o
	}
	bs := func(b bool) string {
		if b {
			return "T"
		}
		return "F"
	}
	anyOf := func(v []bool) bool {
		for _, x := range v {
			if x {
				return true
			}
		}
		return false
	}
	pos := p.Pos(evalCond.Pos())
	for _, vec := range vectors {
		// per-value results of `=`: vec; of `!=`: neg(vec)
		eq := run("=", false, vec)
		ne := run("!=", false, neg(vec))
		r.Check(eq == bs(anyOf(vec)), "R2", fmt.Sprintf("evaluateCondition/=/values%v", vec), pos, "any value matches", fmt.Sprintf("= over per-value results %v gives %s, expected %s (true iff any value matches)", vec, eq, bs(anyOf(vec))))
		r.Check(ne == bs(!anyOf(vec)), "R2", fmt.Sprintf("evaluateCondition/!=/values%v", vec), pos, "all values differ", fmt.Sprintf("!= with per-value results %v (the negations of =%v) gives %s, expected %s: != must be the negation of =", neg(vec), vec, ne, bs(!anyOf(vec))))
		// another any-operator
		gt := run(">", false, vec)
		r.Check(gt == bs(anyOf(vec)), "R2", fmt.Sprintf("evaluateCondition/>/values%v", vec), pos, "any value matches", fmt.Sprintf("> over per-value results %v gives %s, expected %s", vec, gt, bs(anyOf(vec))))
		// empty value forms depend on the number of values only
		e1 := run("=", true, vec)
		e2 := run("!=", true, vec)
		r.Check(e1 == bs(len(vec) == 0), "R2", fmt.Sprintf("evaluateCondition/=\"\"/values%d", len(vec)), pos, "absence test", fmt.Sprintf("`= \"\"` with %d values gives %s, expected %s", len(vec), e1, bs(len(vec) == 0)))
		r.Check(e2 == bs(len(vec) > 0), "R2", fmt.Sprintf("evaluateCondition/!=\"\"/values%d", len(vec)), pos, "presence test", fmt.Sprintf("`!= \"\"` with %d values gives %s, expected %s", len(vec), e2, bs(len(vec) > 0)))
	}
	_ = ops
}

func c15R3R4(p *core.Program, r *core.Report, evalCWV, numCmp, dateCmp, textCmp *ssa.Function, ops map[string]string) {
	// ---- dispatch: value type -> (asserted Go type, comparison function)
	fieldTypes := map[string]string{} // const name -> value
	if pk := p.Pkg("assets"); pk != nil {
		sc := pk.Types.Scope()
		for _, nm := range sc.Names() {
			if c, ok := sc.Lookup(nm).(*types.Const); ok && strings.HasPrefix(nm, "FieldType") {
				if s, ok := constStringOf(c); ok {
					fieldTypes[nm] = s
				}
			}
		}
	}
	if !r.Require("field_types", len(fieldTypes), 6) {
		return
	}
	isValueTypeCall := func(v ssa.Value) bool {
		c, ok := v.(*ssa.Call)
		return ok && c.Call.StaticCallee() != nil && c.Call.StaticCallee().Name() == "resolveValueType"
	}
	// the dispatch on the value type may sit in evaluateConditionWithValue itself or in a function of the package it
	// hands the resolved type and the value to: then that function is analysed, its parameters standing for them
	var vtParam, valParam *ssa.Parameter
	for _, cs := range core.Calls(evalCWV, false) {
		g := cs.Common().StaticCallee()
		if g == nil || g.Blocks == nil || core.FuncPkgPath(g) != core.FuncPkgPath(evalCWV) || g == numCmp || g == dateCmp || g == textCmp {
			continue
		}
		var vt, vv *ssa.Parameter
		for i, a := range cs.Common().Args {
			if i >= len(g.Params) {
				break
			}
			if isValueTypeCall(a) {
				vt = g.Params[i]
			}
			if prm, ok := a.(*ssa.Parameter); ok && prm.Parent() == evalCWV && core.ShortType(prm.Type()) == "any" {
				vv = g.Params[i]
			}
		}
		if vt != nil && vv != nil {
			evalCWV, vtParam, valParam = g, vt, vv
		}
	}
	isValueType := func(v ssa.Value) bool {
		return isValueTypeCall(v) || (vtParam != nil && v == ssa.Value(vtParam))
	}
	_ = valParam
	type disp struct {
		asserted string
		cmp      *ssa.Function
	}
	dispatch := map[string]disp{}
	for _, ft := range fieldTypes {
		d := disp{}
		core.ExplorePaths(evalCWV, core.PathRules{
			OnBranch: func(s *core.PathState, cond ssa.Value) core.AB { return decideConstEq(cond, isValueType, ft) },
			OnInstr: func(s *core.PathState, in ssa.Instruction) {
				if ta, ok := in.(*ssa.TypeAssert); ok && !ta.CommaOk {
					if _, isParam := ta.X.(*ssa.Parameter); isParam {
						d.asserted = core.ShortType(ta.AssertedType)
					}
				}
			},
			OnCall: func(s *core.PathState, c ssa.CallInstruction) []core.CallOutcome {
				if f := c.Common().StaticCallee(); f == numCmp || f == dateCmp || f == textCmp {
					d.cmp = f
				}
				return nil
			},
		})
		dispatch[ft] = d
	}
	// ---- producers: attributes
	attrType := map[string]string{}
	cpk := p.Pkg("contactql")
	for _, f := range cpk.Syntax {
		ast.Inspect(f, func(n ast.Node) bool {
			vs, ok := n.(*ast.ValueSpec)
			if !ok || len(vs.Names) != 1 || vs.Names[0].Name != "attributes" || len(vs.Values) != 1 {
				return true
			}
			cl, ok := vs.Values[0].(*ast.CompositeLit)
			if !ok {
				return true
			}
			for _, e := range cl.Elts {
				kv := e.(*ast.KeyValueExpr)
				ktv, vtv := cpk.TypesInfo.Types[kv.Key], cpk.TypesInfo.Types[kv.Value]
				if ktv.Value != nil && vtv.Value != nil {
					attrType[constant.StringVal(ktv.Value)] = constant.StringVal(vtv.Value)
				}
			}
			return false
		})
	}
	if !r.Require("query_attributes", len(attrType), 10) {
		return
	}
	qp := p.Method("flows", "Contact", "QueryProperty")
	qv := p.Method("flows", "FieldValue", "QueryValue")
	if qp == nil || qv == nil {
		r.Errorf("Contact.QueryProperty / FieldValue.QueryValue not found")
		return
	}
	// values placed into []any under `key == K`
	produced := map[string]map[string]bool{} // situation -> Go types
	addProduced := func(sit, t string) {
		if produced[sit] == nil {
			produced[sit] = map[string]bool{}
		}
		produced[sit][t] = true
	}
	keyP := paramNamed(qp, "key")
	typeP := paramNamed(qp, "propType")
	// QueryProperty may hand the key / the property type on to helpers of the package that build the values (the
	// attribute switch as a method, one loop shared by the two URN cases): each helper is read like the body of
	// QueryProperty, its parameters standing for the key and the type it was called with, under the situation of the
	// call site. Only helpers whose result can hold query values ([]any / any) are followed, two levels deep.
	type c15Host struct {
		fn       *ssa.Function
		key, typ ssa.Value // what stands for the key / the property type in fn (nil when it is not handed on)
		sit      string    // situation established by the call sites on the way to fn
		recv     bool      // fn is a method called on QueryProperty's own receiver
	}
	sitAt := func(h c15Host, b *ssa.BasicBlock) string {
		sit := ""
		for _, ce := range core.ControllingConds(b) {
			bo, ok := ce.Cond.(*ssa.BinOp)
			if !ok || bo.Op != token.EQL || !ce.Taken {
				continue
			}
			if h.key != nil && bo.X == h.key {
				if s, ok := core.ConstString(bo.Y); ok {
					sit = "attribute:" + s
				}
			}
			if h.typ != nil && bo.X == h.typ && sit == "" {
				if s, ok := core.ConstString(bo.Y); ok && s == "urn" {
					sit = "urn"
				}
			}
		}
		if sit == "" {
			sit = h.sit
		}
		return sit
	}
	holdsValues := func(g *ssa.Function) bool {
		res := g.Signature.Results()
		for i := 0; i < res.Len(); i++ {
			t := res.At(i).Type()
			if sl, ok := t.Underlying().(*types.Slice); ok {
				t = sl.Elem()
			}
			if core.ShortType(t) == "any" {
				return true
			}
		}
		return false
	}
	hosts := []c15Host{{fn: qp, recv: true}}
	if keyP != nil {
		hosts[0].key = keyP
	}
	if typeP != nil {
		hosts[0].typ = typeP
	}
	var follow func(h c15Host, depth int)
	follow = func(h c15Host, depth int) {
		if depth >= 2 {
			return
		}
		for _, cs := range core.Calls(h.fn, false) {
			g := cs.Common().StaticCallee()
			if cs.Common().IsInvoke() || g == nil || len(g.Blocks) == 0 || g == qp || g == qv || g == h.fn || core.FuncPkgPath(g) != core.FuncPkgPath(qp) || !holdsValues(g) {
				continue
			}
			nh := c15Host{fn: g, sit: sitAt(h, cs.Instr.Block())}
			for i, a := range cs.Common().Args {
				if i >= len(g.Params) {
					break
				}
				if h.key != nil && a == h.key {
					nh.key = g.Params[i]
				}
				if h.typ != nil && a == h.typ {
					nh.typ = g.Params[i]
				}
				if i == 0 && h.recv && g.Signature.Recv() != nil && len(h.fn.Params) > 0 && a == ssa.Value(h.fn.Params[0]) {
					nh.recv = true
				}
			}
			hosts = append(hosts, nh)
			follow(nh, depth+1)
		}
	}
	follow(hosts[0], 0)
	for _, h := range hosts {
		h := h
		core.EachInstr(h.fn, false, func(_ *ssa.Function, in ssa.Instruction) {
			mi, ok := in.(*ssa.MakeInterface)
			if !ok || core.ShortType(mi.Type()) != "any" {
				return
			}
			sit := sitAt(h, mi.Block())
			if sit == "" {
				// the field fall-through passes QueryValue's result on unchanged (already an interface): not a MakeInterface
				sit = "other"
			}
			addProduced(sit, core.ShortType(mi.X.Type()))
		})
	}
	fieldTypeCall := func(v ssa.Value) bool {
		c, ok := v.(*ssa.Call)
		return ok && c.Call.IsInvoke() && c.Call.Method.Name() == "Type"
	}
	// per field type: every way out of QueryValue, with the tests on field.Type() decided for that type (this also
	// covers values returned after the type switch, which belong to every type that falls through to them)
	for _, ft := range fieldTypes {
		ft := ft
		core.ExplorePaths(qv, core.PathRules{
			OnBranch: func(s *core.PathState, cond ssa.Value) core.AB { return decideConstEq(cond, fieldTypeCall, ft) },
			OnExit: func(s *core.PathState, ret *ssa.Return, pan *ssa.Panic) {
				if ret == nil || len(ret.Results) != 1 {
					return
				}
				rv := ret.Results[0]
				for k := 0; k < 4; k++ {
					phi, ok := rv.(*ssa.Phi)
					if !ok {
						break
					}
					in := pathIncoming(s, phi)
					if in == nil {
						break
					}
					rv = in
				}
				if mi, ok := rv.(*ssa.MakeInterface); ok {
					addProduced("field:"+ft, core.ShortType(mi.X.Type()))
				}
			},
		})
	}
	// presence guards: where a value of the contact is supplied only under a test, the test looks at the same field
	// of the contact as the value comes from (the empty-value forms `x = ""` / `x != ""` test absence / presence of x)
	// each kind of property is answered from its own source: the contact's field values are consulted only when the
	// property is not an attribute and not a URN scheme (an attribute the contact has no value for has no values — it
	// must not fall through to a field that happens to have the same key)
	{
		nF := 0
		// the lookups in QueryProperty itself, and the calls of helpers of the package that do the lookup for it
		isFieldsLookup := func(in ssa.Instruction) bool {
			x, ok := in.(*ssa.Lookup)
			if !ok {
				return false
			}
			_, isMap := x.X.Type().Underlying().(*types.Map)
			return isMap && strings.HasSuffix(canon(x.X), ".fields")
		}
		var looksUp func(fn *ssa.Function, depth int) bool
		looksUp = func(fn *ssa.Function, depth int) bool {
			found := false
			core.EachInstr(fn, false, func(_ *ssa.Function, in ssa.Instruction) {
				if isFieldsLookup(in) {
					found = true
				}
				if ci, ok := in.(ssa.CallInstruction); ok && depth < 2 {
					if g := ci.Common().StaticCallee(); g != nil && len(g.Blocks) > 0 && core.FuncPkgPath(g) == core.FuncPkgPath(qp) && g != qp && looksUp(g, depth+1) {
						found = true
					}
				}
			})
			return found
		}
		core.EachInstr(qp, false, func(_ *ssa.Function, in ssa.Instruction) {
			if !isFieldsLookup(in) {
				ci, ok := in.(ssa.CallInstruction)
				if !ok {
					return
				}
				g := ci.Common().StaticCallee()
				handsFields := false // ... or are handed the fields map to do it
				for _, a := range ci.Common().Args {
					if _, isMap := a.Type().Underlying().(*types.Map); isMap && strings.HasSuffix(canon(a), ".fields") {
						handsFields = true
					}
				}
				if g == nil || len(g.Blocks) == 0 || core.FuncPkgPath(g) != core.FuncPkgPath(qp) || g == qp || !(looksUp(g, 1) || handsFields) {
					return
				}
			}
			nF++
			excluded := map[string]bool{}
			isField := false
			for _, ce := range core.ControllingConds(in.Block()) {
				bo, ok := ce.Cond.(*ssa.BinOp)
				if !ok || bo.Op != token.EQL || bo.X != ssa.Value(typeP) {
					continue
				}
				if k, ok := core.ConstString(bo.Y); ok {
					if ce.Taken && k == "field" {
						isField = true
					} else if !ce.Taken {
						excluded[k] = true
					}
				}
			}
			r.Check(isField || (excluded["attr"] && excluded["urn"]), "R3", "QueryProperty/fields-only-for-field-properties", p.Pos(in.Pos()), "the field lookup runs only when the property type is neither attr nor urn",
				"the contact's fields are consulted on a path where the property is an attribute or a URN scheme: an attribute without a case of its own is answered with the value of a field of the same key instead of no value")
		})
		r.Require("field_lookups_in_QueryProperty", nF, 1)
	}
	{
		nG := 0
		guarded := map[*ssa.Function]bool{}
		for _, h := range hosts { // QueryProperty and the methods it calls on its own receiver to build the values
			if !h.recv || guarded[h.fn] {
				continue
			}
			guarded[h.fn] = true
			var skip []ssa.Value
			for _, v := range []ssa.Value{h.key, h.typ} {
				if v != nil {
					skip = append(skip, v)
				}
			}
			nG += c15PresenceGuards(p, r, h.fn, "QueryProperty", skip)
		}
		if qv := p.Method("flows", "FieldValue", "QueryValue"); qv != nil {
			nG += c15PresenceGuards(p, r, qv, "FieldValue.QueryValue", nil)
		} else {
			r.Errorf("FieldValue.QueryValue not found")
		}
		r.Require("presence_guards", nG, 3)
	}
	nP := 0
	for _, sit := range core.SortedKeys(produced) {
		var ft string
		switch {
		case strings.HasPrefix(sit, "attribute:"):
			ft = attrType[strings.TrimPrefix(sit, "attribute:")]
		case sit == "urn":
			ft = "text"
		case strings.HasPrefix(sit, "field:"):
			ft = strings.TrimPrefix(sit, "field:")
		default:
			continue
		}
		d, ok := dispatch[ft]
		if !ok {
			r.Bad("R3", "QueryProperty/"+sit, p.Pos(qp.Pos()), "values are produced for a value type ("+ft+") the evaluator does not dispatch")
			continue
		}
		for _, t := range core.SortedKeys(produced[sit]) {
			nP++
			r.Check(t == d.asserted, "R3", "QueryProperty/"+sit+"/"+t, p.Pos(qp.Pos()), "evaluator asserts "+d.asserted,
				fmt.Sprintf("for %s the contact supplies a %s but the evaluator asserts %s for value type %q: evaluating such a condition panics", sit, t, d.asserted, ft))
		}
	}
	r.Require("produced_value_types", nP, 10)
	// every attribute with a declared type that QueryProperty can be asked for is produced (others return nil)
	r.Tables["dispatch"] = func() map[string]string {
		o := map[string]string{}
		for ft, d := range dispatch {
			n := ""
			if d.cmp != nil {
				n = d.cmp.Name()
			}
			o[ft] = d.asserted + " -> " + n
		}
		return o
	}()

	// ---- R4 validator vs evaluator
	validate := p.Method("contactql", "Condition", "validate")
	if validate == nil {
		r.Errorf("Condition.validate not found")
		return
	}
	// supported operators per comparison function: those that do not reach the panic
	supported := map[*ssa.Function]map[string]bool{}
	for _, f := range []*ssa.Function{numCmp, dateCmp, textCmp} {
		supported[f] = map[string]bool{}
		for _, opText := range ops {
			panics := false
			core.ExplorePaths(f, core.PathRules{
				OnBranch: func(s *core.PathState, cond ssa.Value) core.AB { return decideConstEq(cond, isOperatorValue, opText) },
				OnExit: func(s *core.PathState, ret *ssa.Return, pan *ssa.Panic) {
					if pan != nil {
						panics = true
					}
				},
			})
			supported[f][opText] = !panics
		}
	}
	nCells := 0
	var fts []string
	for _, ft := range fieldTypes {
		fts = append(fts, ft)
	}
	sort.Strings(fts)
	var opTexts []string
	for _, o := range ops {
		opTexts = append(opTexts, o)
	}
	sort.Strings(opTexts)
	// property classes: the value type is a function of the property, so the key/type tests of the validator are
	// correlated with it: only text-typed properties can be the name attribute, the urn attribute or a URN scheme
	fieldLoad := func(name string) func(ssa.Value) bool {
		return func(v ssa.Value) bool {
			u, ok := v.(*ssa.UnOp)
			return ok && core.FieldAddrVar(u.X) != nil && core.FieldAddrVar(u.X).Name() == name
		}
	}
	var resolverP *ssa.Parameter
	for _, prm := range validate.Params {
		if strings.HasSuffix(core.ShortType(prm.Type()), "contactql.Resolver") {
			resolverP = prm
		}
	}
	for _, ft := range fts {
		classes := []string{"other"}
		if ft == "text" {
			classes = []string{"name", "urn-attribute", "urn-scheme", "other"}
		}
		for _, class := range classes {
			propKey, propType := "some_field", "field"
			switch class {
			case "name":
				propKey, propType = "name", "attribute"
			case "urn-attribute":
				propKey, propType = "urn", "attribute"
			case "urn-scheme":
				propKey, propType = "tel", "urn"
			}
			for _, opText := range opTexts {
				admitted := false
				viaArg := func(f func(ssa.Value) bool) func(ssa.Value) bool {
					return func(v ssa.Value) bool { return f(c15Arg(v)) }
				}
				decide := func(s *core.PathState, cond ssa.Value) core.AB {
					if d := decideConstEq(cond, viaArg(isOperatorValue), opText); d != core.Unk {
						return d
					}
					if d := decideConstEq(cond, viaArg(isValueType), ft); d != core.Unk {
						return d
					}
					if d := decideConstEq(cond, viaArg(fieldLoad("propKey")), propKey); d != core.Unk {
						return d
					}
					if d := decideConstEq(cond, viaArg(fieldLoad("propType")), propType); d != core.Unk {
						return d
					}
					if bo, ok := cond.(*ssa.BinOp); ok && (bo.Op == token.EQL || bo.Op == token.NEQ) {
						x, y := bo.X, bo.Y
						if core.IsNilConst(x) {
							x, y = y, x
						}
						if core.IsNilConst(y) {
							// evaluation requires a resolver: resolver == nil is false
							if resolverP != nil && c15Arg(x) == ssa.Value(resolverP) {
								return boolAB(bo.Op == token.NEQ)
							}
							// the error of a helper of the package evaluated below
							if n := c15NilOf(s, x); n != core.Unk {
								return boolAB((n == core.True) == (bo.Op == token.EQL))
							}
						}
					}
					return core.Unk
				}
				// a test kept as a value (a local, one operand of the || of a switch case) is decided where it is computed
				seed := func(s *core.PathState, in ssa.Instruction) {
					if bo, ok := in.(*ssa.BinOp); ok {
						if d := decide(s, bo); d != core.Unk {
							s.Vals[bo] = d
						}
					}
				}
				// a part of the validation may sit in a helper of the package that returns its error (last result): the
				// helper is evaluated for the same cell, its parameters standing for the arguments, and the call has one
				// outcome per nil-ness of the error the helper can return
				type nilness struct{ canNil, canNon bool }
				memo := map[ssa.CallInstruction]nilness{}
				var onCall func(from *ssa.Function, depth int) func(s *core.PathState, c ssa.CallInstruction) []core.CallOutcome
				var errorOf func(h *ssa.Function, depth int) nilness
				errorOf = func(h *ssa.Function, depth int) nilness {
					out := nilness{}
					res := core.ExplorePaths(h, core.PathRules{
						MaxPaths: 20000,
						OnBranch: decide,
						OnInstr:  seed,
						OnCall:   onCall(h, depth),
						OnExit: func(s *core.PathState, ret *ssa.Return, pan *ssa.Panic) {
							if ret == nil || len(ret.Results) == 0 {
								return
							}
							switch c15NilOf(s, ret.Results[len(ret.Results)-1]) {
							case core.True:
								out.canNil = true
							case core.False:
								out.canNon = true
							default:
								out.canNil, out.canNon = true, true
							}
						},
					})
					if res.Truncated {
						return nilness{true, true}
					}
					return out
				}
				onCall = func(from *ssa.Function, depth int) func(s *core.PathState, c ssa.CallInstruction) []core.CallOutcome {
					return func(s *core.PathState, c ssa.CallInstruction) []core.CallOutcome {
						h := c15SamePkgHelper(c, validate)
						if h == nil || depth >= 2 || h == from || h == validate {
							return nil
						}
						rs := h.Signature.Results()
						if rs.Len() == 0 || !types.Identical(rs.At(rs.Len()-1).Type(), types.Universe.Lookup("error").Type()) {
							return nil
						}
						nn, done := memo[c]
						if !done {
							restore := c15BindCall(c.Common(), h)
							nn = errorOf(h, depth+1)
							restore()
							memo[c] = nn
						}
						var cos []core.CallOutcome
						if nn.canNil {
							cos = append(cos, core.CallOutcome{Effects: []core.Effect{{Kind: "NIL", Instr: c, Data: true}}})
						}
						if nn.canNon {
							cos = append(cos, core.CallOutcome{Effects: []core.Effect{{Kind: "NIL", Instr: c, Data: false}}})
						}
						return cos
					}
				}
				res := core.ExplorePaths(validate, core.PathRules{
					MaxPaths: 200000,
					OnBranch: decide,
					OnInstr:  seed,
					OnCall:   onCall(validate, 0),
					OnExit: func(s *core.PathState, ret *ssa.Return, pan *ssa.Panic) {
						if ret != nil && c15NilOf(s, ret.Results[0]) == core.True {
							admitted = true
						}
					},
				})
				key := "validate/" + ft + "/" + class + "/" + opText
				if res.Truncated {
					r.Unknown("R4", key, p.Pos(validate.Pos()), "path budget exceeded")
					continue
				}
				nCells++
				if !admitted {
					r.OK("R4", key, p.Pos(validate.Pos()), "rejected by the validator")
					continue
				}
				d := dispatch[ft]
				ok := d.cmp != nil && supported[d.cmp][opText]
				name := "?"
				if d.cmp != nil {
					name = d.cmp.Name()
				}
				r.Check(ok, "R4", key, p.Pos(validate.Pos()), "admitted and handled by "+name,
					fmt.Sprintf("the validator can accept operator %q on a %s property (%s) but %s panics for it", opText, ft, class, name))
			}
		}
	}
	r.Require("validator_cells", nCells, 40)
}

// c15NilOf: whether an error (interface) value is nil on this path: True nil, False not nil, Unk not known. The error
// of a call evaluated by the caller's OnCall is recorded as a NIL effect on the call (the last result of a tuple).
func c15NilOf(s *core.PathState, v ssa.Value) core.AB {
	for k := 0; k < 4; k++ {
		phi, ok := v.(*ssa.Phi)
		if !ok {
			break
		}
		in := pathIncoming(s, phi)
		if in == nil {
			return core.Unk
		}
		v = in
	}
	if core.IsNilConst(v) {
		return core.True
	}
	var call ssa.Value
	switch x := v.(type) {
	case *ssa.MakeInterface:
		return core.False // a concrete value put into an interface makes a non-nil interface, whatever the value
	case *ssa.Call:
		call = x
	case *ssa.Extract:
		if c, ok := x.Tuple.(*ssa.Call); ok && x.Index == c.Call.Signature().Results().Len()-1 {
			call = c
		}
	}
	if call == nil {
		return core.Unk
	}
	for i := len(s.Effects) - 1; i >= 0; i-- {
		if e := s.Effects[i]; e.Kind == "NIL" && e.Instr != nil {
			if ev, ok := e.Instr.(ssa.Value); ok && ev == call {
				return boolAB(e.Data.(bool))
			}
		}
	}
	return core.Unk
}

// c15R6: lookups in the attribute type table happen under a property-type test.
func c15R6(p *core.Program, r *core.Report) {
	// the value of the constant PropertyTypeAttribute
	attrConst := ""
	if pk := p.Pkg("contactql"); pk != nil {
		if c, ok := pk.Types.Scope().Lookup("PropertyTypeAttribute").(*types.Const); ok {
			attrConst = constant.StringVal(c.Val())
		}
	}
	if attrConst == "" {
		r.Errorf("contactql.PropertyTypeAttribute not found")
		return
	}
	n := 0
	per := map[string]int{}
	for _, fn := range p.ModuleFunctions() {
		if core.RelPkg(core.FuncPkgPath(fn)) != "contactql" || p.IsTestFile(fn.Pos()) || fn.Synthetic != "" {
			continue
		}
		core.EachInstr(fn, false, func(_ *ssa.Function, in ssa.Instruction) {
			lk, ok := in.(*ssa.Lookup)
			if !ok {
				return
			}
			g := loadedGlobal(lk.X)
			if g == nil || g.Name() != "attributes" {
				return
			}
			if lk.CommaOk {
				// a pure membership test (only the ok is used) is how the property type is found in the first place
				valueUsed := false
				for _, ref := range *lk.Referrers() {
					if ex, ok := ref.(*ssa.Extract); ok && ex.Index == 0 && ex.Referrers() != nil && len(*ex.Referrers()) > 0 {
						valueUsed = true
					}
				}
				if !valueUsed {
					return
				}
			}
			n++
			k := core.FuncName(fn)
			per[k]++
			key := k + "/attribute-table-lookup"
			if per[k] > 1 {
				key = fmt.Sprintf("%s#%d", key, per[k])
			}
			guarded := false
			for _, ce := range core.ControllingConds(lk.Block()) {
				bo, ok := ce.Cond.(*ssa.BinOp)
				if !ok || (bo.Op != token.EQL && bo.Op != token.NEQ) || (bo.Op == token.EQL) != ce.Taken {
					continue // only the edge on which the property type EQUALS something
				}
				isAttrConst, isPropType := false, false
				for _, o := range []ssa.Value{bo.X, bo.Y} {
					if c, ok := o.(*ssa.Const); ok && strings.HasSuffix(c.Type().String(), "PropertyType") {
						if sv, isS := core.ConstString(c); isS && sv == attrConst {
							isAttrConst = true
						}
					}
					for v := range core.BackSlice(o, nil) {
						if u, ok := v.(*ssa.UnOp); ok {
							if fv := core.FieldAddrVar(u.X); fv != nil && fv.Name() == "propType" {
								isPropType = true
							}
						}
						if prm, ok := v.(*ssa.Parameter); ok && strings.HasSuffix(prm.Type().String(), "PropertyType") {
							isPropType = true
						}
					}
				}
				if isAttrConst && isPropType {
					guarded = true
				}
			}
			r.Check(guarded, "R6", key+"/under-property-type-test", p.Pos(lk.Pos()), "controlled by a test of the property type", "the attribute type table is consulted for any key, not only when the property is an attribute: a field keyed like an attribute gets the attribute's type")
		})
	}
	r.Count("attribute_table_lookups", n)
	r.Require("attribute_table_lookups", n, 1)
}

func c15R5(p *core.Program, r *core.Report, evalNode *ssa.Function) {
	qn := p.Interface("contactql", "QueryNode")
	if qn == nil {
		r.Errorf("contactql.QueryNode not found")
		return
	}
	var impls []string
	for _, n := range p.Implementers(qn) {
		if core.RelPkg(n.Obj().Pkg().Path()) == "contactql" {
			impls = append(impls, "*contactql."+n.Obj().Name())
		}
	}
	sort.Strings(impls)
	r.Require("query_node_types", len(impls), 2)
	// every function in contactql (and contactql/es) that type-switches on a QueryNode covers all implementers or panics in default
	for _, fn := range p.ModuleFunctions() {
		rel := core.RelPkg(core.FuncPkgPath(fn))
		if (rel != "contactql" && rel != "contactql/es") || p.IsTestFile(fn.Pos()) {
			continue
		}
		covered := map[string]bool{}
		var subject ssa.Value
		core.EachInstr(fn, false, func(_ *ssa.Function, in ssa.Instruction) {
			ta, ok := in.(*ssa.TypeAssert)
			if !ok || !ta.CommaOk || core.ShortType(ta.X.Type()) != "contactql.QueryNode" {
				return
			}
			subject = ta.X
			covered[core.ShortType(ta.AssertedType)] = true
		})
		if subject == nil || len(covered) < 2 {
			continue // single assertion = a cast, not a switch over node kinds
		}
		missing := []string{}
		for _, im := range impls {
			if !covered[im] {
				missing = append(missing, im)
			}
		}
		r.Check(len(missing) == 0, "R5", core.FuncName(fn)+"/covers-node-types", p.Pos(fn.Pos()), "switch covers "+strings.Join(impls, ", "), "a switch over query node types does not handle "+strings.Join(missing, ", ")+": such nodes are silently dropped")
	}
	// Simplify on BoolCombination: flattens only children with the same operator
	simp := p.Method("contactql", "BoolCombination", "Simplify")
	if simp == nil {
		r.Errorf("BoolCombination.Simplify not found")
		return
	}
	sameOp := false
	// the flattening may be written in Simplify or in a helper of the package it calls (handed the operator)
	hosts := []*ssa.Function{simp}
	opParams := map[*ssa.Parameter]bool{} // parameters of a helper that receive the combination's own operator
	isOpField := func(v ssa.Value) bool {
		u, ok := v.(*ssa.UnOp)
		return ok && core.FieldAddrVar(u.X) != nil && core.FieldAddrVar(u.X).Name() == "op"
	}
	for _, cs := range core.Calls(simp, false) {
		g := cs.Common().StaticCallee()
		if cs.Common().IsInvoke() || g == nil || g == simp || len(g.Blocks) == 0 || core.FuncPkgPath(g) != core.FuncPkgPath(simp) {
			continue
		}
		hosts = append(hosts, g)
		for i, a := range cs.Common().Args {
			if i < len(g.Params) && isOpField(a) {
				opParams[g.Params[i]] = true
			}
		}
	}
	isOp := func(v ssa.Value) bool {
		if par, ok := v.(*ssa.Parameter); ok && opParams[par] {
			return true
		}
		return isOpField(v)
	}
	for _, h := range hosts {
		core.EachInstr(h, false, func(_ *ssa.Function, in ssa.Instruction) {
			bo, ok := in.(*ssa.BinOp)
			if !ok || (bo.Op != token.EQL && bo.Op != token.NEQ) {
				return // `!=` with the branches swapped decides the same thing (the splice rule below checks the edge)
			}
			if isOp(bo.X) && isOp(bo.Y) && (isOpField(bo.X) || isOpField(bo.Y)) {
				sameOp = true
			}
		})
	}
	// the node whose children are spliced in is the node whose operator was compared
	nSplice := 0
	for _, h := range hosts {
		core.EachInstr(h, false, func(_ *ssa.Function, in ssa.Instruction) {
			call, ok := in.(*ssa.Call)
			if !ok || len(call.Call.Args) != 2 {
				return
			}
			if b, isB := call.Call.Value.(*ssa.Builtin); !isB || b.Name() != "append" {
				return
			}
			ld, ok := call.Call.Args[1].(*ssa.UnOp)
			if !ok || ld.Op != token.MUL {
				return
			}
			fa, ok := ld.X.(*ssa.FieldAddr)
			if !ok || core.FieldAddrVar(fa) == nil || core.FieldAddrVar(fa).Name() != "children" {
				return
			}
			if len(h.Params) > 0 && fa.X == ssa.Value(h.Params[0]) && h == simp {
				return // the combination's own children
			}
			nSplice++
			tested := false
			for _, ce := range core.ControllingConds(call.Block()) {
				bo, ok := ce.Cond.(*ssa.BinOp)
				if !ok || (bo.Op != token.EQL && bo.Op != token.NEQ) || (bo.Op == token.EQL) != ce.Taken {
					continue // the edge on which the two operators are equal
				}
				for _, o := range []ssa.Value{bo.X, bo.Y} {
					if u, ok := o.(*ssa.UnOp); ok {
						if ofa, ok := u.X.(*ssa.FieldAddr); ok && core.FieldAddrVar(ofa) != nil && core.FieldAddrVar(ofa).Name() == "op" && ofa.X == fa.X {
							tested = true
						}
					}
				}
			}
			r.Check(tested, "R5", fmt.Sprintf("BoolCombination.Simplify/splices-the-node-it-tested#%d", nSplice), p.Pos(call.Pos()), "the children spliced in belong to the node whose operator equals the parent's",
				"Simplify splices the children of one node into the parent after comparing the operator of another node (the child before it was simplified): AND(a, AND(OR(b, c))) comes out as a AND b AND c")
		})
	}
	r.Count("simplify_splices", nSplice)
	r.Require("simplify_splices", nSplice, 1)
	simpDecl := simp
	for _, h := range hosts {
		n := 0
		core.EachInstr(h, false, func(_ *ssa.Function, in ssa.Instruction) {
			if ta, ok := in.(*ssa.TypeAssert); ok && ta.CommaOk && core.ShortType(ta.X.Type()) == "contactql.QueryNode" {
				n++
			}
		})
		if n >= 2 {
			simp = h // the function that holds the switch over the child's node type
			break
		}
	}
	defer func() { simp = simpDecl }()
	// every simplified child is kept: inside the loop that switches on the child's type, a path back to the loop
	// header that appends nothing must have failed the assertion for every node type (so it cannot happen)
	{
		var first *ssa.TypeAssert
		core.EachInstr(simp, false, func(_ *ssa.Function, in ssa.Instruction) {
			if ta, ok := in.(*ssa.TypeAssert); ok && ta.CommaOk && core.ShortType(ta.X.Type()) == "contactql.QueryNode" {
				if first == nil || ta.Block().Dominates(first.Block()) {
					first = ta
				}
			}
		})
		dropped := ""
		if first == nil {
			dropped = "no switch over the child's node type was found"
		} else {
			var header *ssa.BasicBlock
			for _, b := range simp.Blocks {
				for _, sc := range b.Succs {
					if sc.Dominates(b) && sc.Dominates(first.Block()) && (header == nil || header.Dominates(sc)) {
						header = sc
					}
				}
			}
			type st struct {
				b      *ssa.BasicBlock
				failed string
			}
			seen := map[st]bool{}
			var walk func(b *ssa.BasicBlock, failed map[string]bool)
			walk = func(b *ssa.BasicBlock, failed map[string]bool) {
				if dropped != "" {
					return
				}
				key := st{b, strings.Join(core.SortedKeys(failed), ",")}
				if seen[key] {
					return
				}
				seen[key] = true
				for _, in := range b.Instrs {
					if c, ok := in.(*ssa.Call); ok {
						if bi, ok := c.Call.Value.(*ssa.Builtin); ok && bi.Name() == "append" {
							return // this iteration keeps (or flattens) the child
						}
					}
				}
				if b == header || header == nil {
					var miss []string
					for _, im := range impls {
						if !failed[im] {
							miss = append(miss, im)
						}
					}
					if len(miss) > 0 {
						dropped = "a child of type " + strings.Join(miss, " or ") + " reaches the next iteration without being appended"
					}
					return
				}
				iff, isIf := b.Instrs[len(b.Instrs)-1].(*ssa.If)
				for k, sc := range b.Succs {
					f2 := failed
					if isIf && k == 1 {
						if ex, ok := iff.Cond.(*ssa.Extract); ok && ex.Index == 1 {
							if ta, ok := ex.Tuple.(*ssa.TypeAssert); ok && ta.X == first.X {
								f2 = map[string]bool{core.ShortType(ta.AssertedType): true}
								for k2 := range failed {
									f2[k2] = true
								}
							}
						}
					}
					walk(sc, f2)
				}
			}
			walk(first.Block(), map[string]bool{})
		}
		r.Check(dropped == "", "R5", "BoolCombination.Simplify/keeps-every-child", p.Pos(simp.Pos()), "every simplified child is appended (or flattened) in its iteration", "Simplify loses children: "+dropped+" — the simplified query has fewer conditions than the one that was parsed")
	}
	r.Check(sameOp, "R5", "BoolCombination.Simplify/flattens-same-operator-only", p.Pos(simp.Pos()), "child.op == parent.op guards the flattening", "Simplify merges a child combination into its parent without comparing their operators: (a OR b) AND c would change meaning")
}

// c15PresenceGuards: in a method that supplies values of its receiver to the query evaluator, a value supplied only
// under a test of a receiver field (x != "" / x != nil, the field read directly) comes from that same field.
func c15PresenceGuards(p *core.Program, r *core.Report, fn *ssa.Function, name string, skip []ssa.Value) int {
	if len(fn.Params) == 0 {
		return 0
	}
	recv := ssa.Value(fn.Params[0])
	// the receiver, or a struct embedded in it (FieldValue embeds *Value)
	isRecv := func(v ssa.Value) bool {
		if v == recv {
			return true
		}
		if ld, ok := v.(*ssa.UnOp); ok && ld.Op == token.MUL {
			v = ld.X
		}
		if fa, ok := v.(*ssa.FieldAddr); ok && fa.X == recv {
			if fv := core.FieldAddrVar(fa); fv != nil && fv.Embedded() {
				return true
			}
		}
		return false
	}
	recvFields := func(v ssa.Value) map[string]bool {
		out := map[string]bool{}
		for w := range core.BackSlice(v, func(*ssa.Call) bool { return true }) {
			if fa, ok := w.(*ssa.FieldAddr); ok && isRecv(fa.X) {
				if fv := core.FieldAddrVar(fa); fv != nil && !fv.Embedded() {
					out[fv.Name()] = true
				}
			}
		}
		return out
	}
	directField := func(v ssa.Value) string {
		v = core.StripConv(v)
		if ld, ok := v.(*ssa.UnOp); ok && ld.Op == token.MUL {
			if fa, ok := ld.X.(*ssa.FieldAddr); ok && isRecv(fa.X) {
				return core.FieldAddrVar(fa).Name()
			}
		}
		return ""
	}
	nG := 0
	core.EachInstr(fn, false, func(_ *ssa.Function, in ssa.Instruction) {
		mi, ok := in.(*ssa.MakeInterface)
		if !ok || core.ShortType(mi.Type()) != "any" {
			return
		}
		vf := recvFields(mi.X)
		if len(vf) == 0 {
			return
		}
		for _, ce := range core.ControllingConds(mi.Block()) {
			bo, ok := ce.Cond.(*ssa.BinOp)
			if !ok || (bo.Op != token.EQL && bo.Op != token.NEQ) {
				continue
			}
			skipIt := false
			for _, sk := range skip {
				if bo.X == sk || bo.Y == sk {
					skipIt = true
				}
			}
			if skipIt {
				continue
			}
			isSentinel := func(v ssa.Value) bool { // a constant, or a package-level "nil value" variable (i18n.NilLanguage)
				if _, isConst := v.(*ssa.Const); isConst {
					return true
				}
				if ld, ok := v.(*ssa.UnOp); ok && ld.Op == token.MUL {
					_, isGlobal := ld.X.(*ssa.Global)
					return isGlobal
				}
				return false
			}
			f := ""
			if isSentinel(bo.Y) {
				f = directField(bo.X)
			} else if isSentinel(bo.X) {
				f = directField(bo.Y)
			}
			if f == "" {
				continue
			}
			nG++
			r.Check(vf[f], "R3", name+"/presence-guard/"+f+"/supplies-"+strings.Join(core.SortedKeys(vf), "+"), p.Pos(mi.Pos()), "the guard tests "+f+", the value comes from "+strings.Join(core.SortedKeys(vf), "+"),
				fmt.Sprintf("the %s supplied to the query evaluator depends on a test of %s: whether `= \"\"` / `!= \"\"` holds for it then depends on another property, and a set value can be withheld while an unset one is supplied as an empty string", strings.Join(core.SortedKeys(vf), "+"), f))
			break
		}
	})
	return nG
}

// c15TextNormalisation (R1): the two texts textComparison compares are normalised alike — wherever it compares (==, !=)
// or hands on (strings.Contains, the tokenised prefix match) a pair of values derived from its two text parameters,
// the same strings.* normalising calls lie behind both. `= "bob"` otherwise depends on blanks or case in the stored
// value but not in the query (or the reverse), and `=` / `!=` on equal-looking texts are no longer complementary
// across the two sides.
func c15TextNormalisation(p *core.Program, r *core.Report, textCmp *ssa.Function) {
	if textCmp == nil {
		return
	}
	var pars []*ssa.Parameter
	for _, q := range textCmp.Params {
		if bt, ok := q.Type().Underlying().(*types.Basic); ok && bt.Info()&types.IsString != 0 && core.ShortType(q.Type()) == "string" {
			pars = append(pars, q)
		}
	}
	if len(pars) != 2 {
		r.Unknown("R1", "textComparison/two-text-operands", p.Pos(textCmp.Pos()), fmt.Sprintf("textComparison has %d plain string parameters, expected the stored text and the query text", len(pars)))
		return
	}
	norm := func(v ssa.Value) (string, *ssa.Parameter) {
		set := map[string]bool{}
		var from *ssa.Parameter
		for w := range core.BackSlice(v, func(*ssa.Call) bool { return true }) {
			if c, ok := w.(*ssa.Call); ok {
				if o := core.CalleeObj(&c.Call); o != nil && strings.HasPrefix(core.ObjName(o), "strings.") {
					set[o.Name()] = true
				}
			}
			if q, ok := w.(*ssa.Parameter); ok && (q == pars[0] || q == pars[1]) {
				if from != nil && from != q {
					return "", nil // derived from both: not one side of a comparison
				}
				from = q
			}
		}
		return strings.Join(core.SortedKeys(set), "+"), from
	}
	n := 0
	check := func(x, y ssa.Value, pos token.Pos, what string) {
		nx, fx := norm(x)
		ny, fy := norm(y)
		if fx == nil || fy == nil || fx == fy {
			return
		}
		n++
		r.Check(nx == ny, "R1", fmt.Sprintf("textComparison/%s#%d/both-sides-normalised-alike", what, n), p.Pos(pos), "both through "+nx,
			fmt.Sprintf("textComparison compares %s (normalised by [%s]) with %s (normalised by [%s]): blanks or case count on one side only", fx.Name(), nx, fy.Name(), ny))
	}
	core.EachInstr(textCmp, false, func(_ *ssa.Function, in ssa.Instruction) {
		switch x := in.(type) {
		case *ssa.BinOp:
			if x.Op == token.EQL || x.Op == token.NEQ {
				check(x.X, x.Y, x.Pos(), x.Op.String())
			}
		case *ssa.Call:
			if len(x.Call.Args) >= 2 && !x.Call.IsInvoke() {
				if o := core.CalleeObj(&x.Call); o != nil && (core.ObjName(o) == "strings.Contains" || core.InModule(o.Pkg().Path())) {
					check(x.Call.Args[0], x.Call.Args[1], x.Pos(), o.Name())
				}
			}
		}
	})
	r.Count("text_comparison_pairs", n)
	r.Require("text_comparison_pairs", n, 2)
}
