package rules

import (
	"fmt"

	"verif/checker/core"
)

var importDepth int

// importObligations runs the rules of a sibling property whose verdicts this property's statement depends on, and
// carries the selected ones over: each violated or undecided obligation is reported under this property (with its
// original key in the construct), the discharged ones are summarised in one obligation.
func importObligations(p *core.Program, r *core.Report, from string, rules map[string]bool, asRule, why string) {
	check := Registry[from]
	if check == nil {
		r.Errorf("cannot import from %s: no such check", from)
		return
	}
	// imports do not nest: while a check runs on behalf of another one its own imports are skipped (two properties may
	// import from each other, e.g. C07 <- C18 R1 R2 and C18 <- C07 R5)
	if importDepth > 0 {
		return
	}
	importDepth++
	sub := core.NewReport(from, r.Tier)
	check(p, sub)
	importDepth--
	n, ok := 0, 0
	for _, ob := range sub.Obs {
		if !rules[ob.Rule] {
			continue
		}
		n++
		switch ob.Status {
		case core.Discharged:
			ok++
		case core.Undecided:
			r.Unknown(asRule, ob.Key, ob.Pos, ob.Detail)
		default:
			r.Bad(asRule, ob.Key, ob.Pos, why+": "+ob.Detail)
		}
	}
	if len(sub.Errors) > 0 {
		r.Errorf("imported check %s could not decide: %v", from, sub.Errors)
	}
	r.OK(asRule, "imported from "+from, "-", fmt.Sprintf("%d of %d obligations of %s discharged", ok, n, from))
	r.Count("imported_"+from+"_obligations", n)
	r.Require("imported_"+from+"_obligations", n, 1)
}
