package rules

// Language inclusion between two fully anchored Go regular expressions (constants of the analysed source or
// reference grammars written here), by Thompson construction over rune intervals and a product subset search.

import (
	"fmt"
	"regexp/syntax"
	"sort"
	"strings"
	"unicode"
)

type rxEdge struct {
	to     int
	lo, hi rune
}

type rxNFA struct {
	eps    [][]int
	edges  [][]rxEdge
	start  int
	accept int
}

func (a *rxNFA) state() int {
	a.eps = append(a.eps, nil)
	a.edges = append(a.edges, nil)
	return len(a.eps) - 1
}

// rxCompile builds an NFA for a pattern of the form ^...$ (full match).
func rxCompile(pat string) (*rxNFA, error) {
	re, err := syntax.Parse(pat, syntax.Perl)
	if err != nil {
		return nil, err
	}
	re = re.Simplify()
	if re.Op != syntax.OpConcat || len(re.Sub) < 2 || re.Sub[0].Op != syntax.OpBeginText || re.Sub[len(re.Sub)-1].Op != syntax.OpEndText {
		return nil, fmt.Errorf("pattern %q is not anchored with ^ and $", pat)
	}
	a := &rxNFA{}
	var build func(x *syntax.Regexp) (int, int, error)
	build = func(x *syntax.Regexp) (int, int, error) {
		s, e := a.state(), a.state()
		switch x.Op {
		case syntax.OpEmptyMatch:
			a.eps[s] = append(a.eps[s], e)
		case syntax.OpLiteral:
			cur := s
			for i, r := range x.Rune {
				nx := e
				if i < len(x.Rune)-1 {
					nx = a.state()
				}
				a.edges[cur] = append(a.edges[cur], rxEdge{nx, r, r})
				if x.Flags&syntax.FoldCase != 0 {
					for f := unicode.SimpleFold(r); f != r; f = unicode.SimpleFold(f) {
						a.edges[cur] = append(a.edges[cur], rxEdge{nx, f, f})
					}
				}
				cur = nx
			}
			if len(x.Rune) == 0 {
				a.eps[s] = append(a.eps[s], e)
			}
		case syntax.OpCharClass:
			for i := 0; i+1 < len(x.Rune); i += 2 {
				a.edges[s] = append(a.edges[s], rxEdge{e, x.Rune[i], x.Rune[i+1]})
			}
		case syntax.OpAnyChar:
			a.edges[s] = append(a.edges[s], rxEdge{e, 0, unicode.MaxRune})
		case syntax.OpAnyCharNotNL:
			a.edges[s] = append(a.edges[s], rxEdge{e, 0, '\n' - 1}, rxEdge{e, '\n' + 1, unicode.MaxRune})
		case syntax.OpCapture:
			is, ie, err := build(x.Sub[0])
			if err != nil {
				return 0, 0, err
			}
			a.eps[s] = append(a.eps[s], is)
			a.eps[ie] = append(a.eps[ie], e)
		case syntax.OpConcat:
			cur := s
			for _, sub := range x.Sub {
				is, ie, err := build(sub)
				if err != nil {
					return 0, 0, err
				}
				a.eps[cur] = append(a.eps[cur], is)
				cur = ie
			}
			a.eps[cur] = append(a.eps[cur], e)
		case syntax.OpAlternate:
			for _, sub := range x.Sub {
				is, ie, err := build(sub)
				if err != nil {
					return 0, 0, err
				}
				a.eps[s] = append(a.eps[s], is)
				a.eps[ie] = append(a.eps[ie], e)
			}
		case syntax.OpStar, syntax.OpPlus, syntax.OpQuest:
			is, ie, err := build(x.Sub[0])
			if err != nil {
				return 0, 0, err
			}
			a.eps[s] = append(a.eps[s], is)
			a.eps[ie] = append(a.eps[ie], e)
			if x.Op != syntax.OpPlus {
				a.eps[s] = append(a.eps[s], e)
			}
			if x.Op != syntax.OpQuest {
				a.eps[ie] = append(a.eps[ie], is)
			}
		default:
			return 0, 0, fmt.Errorf("unsupported regexp construct %s in %q", x.Op, pat)
		}
		return s, e, nil
	}
	inner := &syntax.Regexp{Op: syntax.OpConcat, Sub: re.Sub[1 : len(re.Sub)-1]}
	s, e, err := build(inner)
	if err != nil {
		return nil, err
	}
	a.start, a.accept = s, e
	return a, nil
}

func (a *rxNFA) closure(set map[int]bool) {
	var stack []int
	for s := range set {
		stack = append(stack, s)
	}
	for len(stack) > 0 {
		s := stack[len(stack)-1]
		stack = stack[:len(stack)-1]
		for _, t := range a.eps[s] {
			if !set[t] {
				set[t] = true
				stack = append(stack, t)
			}
		}
	}
}

func (a *rxNFA) move(set map[int]bool, r rune) map[int]bool {
	out := map[int]bool{}
	for s := range set {
		for _, e := range a.edges[s] {
			if e.lo <= r && r <= e.hi {
				out[e.to] = true
			}
		}
	}
	a.closure(out)
	return out
}

func rxSetKey(set map[int]bool) string {
	ks := make([]int, 0, len(set))
	for k := range set {
		ks = append(ks, k)
	}
	sort.Ints(ks)
	return fmt.Sprint(ks)
}

// rxIncludes decides L(sub) ⊆ L(sup); when not, it returns a shortest word of sub that sup rejects.
func rxIncludes(sup, sub *rxNFA) (bool, string) {
	// alphabet atoms: one representative rune per maximal interval not cut by any edge boundary
	cuts := map[rune]bool{0: true}
	for _, a := range []*rxNFA{sup, sub} {
		for _, es := range a.edges {
			for _, e := range es {
				cuts[e.lo] = true
				if e.hi < unicode.MaxRune {
					cuts[e.hi+1] = true
				}
			}
		}
	}
	var reps []rune
	for c := range cuts {
		reps = append(reps, c)
	}
	sort.Slice(reps, func(i, j int) bool { return reps[i] < reps[j] })
	type node struct {
		a, b map[int]bool
		word string
	}
	s0 := map[int]bool{sub.start: true}
	sub.closure(s0)
	p0 := map[int]bool{sup.start: true}
	sup.closure(p0)
	queue := []node{{s0, p0, ""}}
	seen := map[string]bool{rxSetKey(s0) + "|" + rxSetKey(p0): true}
	for len(queue) > 0 {
		n := queue[0]
		queue = queue[1:]
		if n.a[sub.accept] && !n.b[sup.accept] {
			return false, n.word
		}
		for _, r := range reps {
			na := sub.move(n.a, r)
			if len(na) == 0 {
				continue
			}
			nb := sup.move(n.b, r)
			k := rxSetKey(na) + "|" + rxSetKey(nb)
			if seen[k] {
				continue
			}
			seen[k] = true
			queue = append(queue, node{na, nb, n.word + string(r)})
		}
	}
	return true, ""
}

// rxCaptureGroups lists the source text of each capture group of a pattern, in order.
func rxCaptureGroups(pat string) ([]string, error) {
	re, err := syntax.Parse(pat, syntax.Perl)
	if err != nil {
		return nil, err
	}
	var out []string
	var walk func(x *syntax.Regexp)
	walk = func(x *syntax.Regexp) {
		if x.Op == syntax.OpCapture {
			for len(out) < x.Cap {
				out = append(out, "")
			}
			out[x.Cap-1] = strings.TrimSpace(x.Sub[0].String())
		}
		for _, s := range x.Sub {
			walk(s)
		}
	}
	walk(re)
	return out, nil
}
