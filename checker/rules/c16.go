package rules

import (
	"fmt"
	"go/ast"
	"go/constant"
	"go/token"
	"go/types"
	"reflect"
	"sort"
	"strings"

	"golang.org/x/tools/go/ssa"

	"verif/checker/core"
)

func init() { register("C16", checkC16) }

var c16Pkgs = []string{"flows/definition/migrations", "flows/definition/legacy", "flows/definition/legacy/expressions", "utils/jsonpath", "flows/definition"}

const c16VisitorReason = "value returned by this package's own legacy visitor methods, which return string / []string on every path (not decoded JSON)"
const c16BuiltReason = "value stored by this package's own constructor for the migrated object (newNode/newExit/... store a uuids.UUID under \"uuid\"), not decoded JSON"
const c16OwnImplReason = "the flow/node/localization objects held by definition.flow are the package's own implementations (built by ReadFlow/NewFlow's readers); not decoded JSON"

var c16AssertAllowed = map[string]string{
	"(*flows/definition/legacy/expressions.legacyVisitor).VisitFunctionCall/([]string)#1":                     c16VisitorReason,
	"(*flows/definition/legacy/expressions.legacyVisitor).VisitAdditionOrSubtractionExpression/(string)#1":    c16VisitorReason,
	"(*flows/definition/legacy/expressions.legacyVisitor).VisitAdditionOrSubtractionExpression/(string)#2":    c16VisitorReason,
	"(*flows/definition/legacy/expressions.legacyVisitor).VisitFunctionParameters/(string)#1":                 c16VisitorReason,
	"flows/definition/legacy/expressions.migrateExpression/(string)#1":                                        c16VisitorReason,
	"(flows/definition/legacy.migratedExit).UUID/(github.com/nyaruka/gocommon/uuids.UUID)#1":                  c16BuiltReason,
	"(flows/definition/legacy.migratedNode).UUID/(github.com/nyaruka/gocommon/uuids.UUID)#1":                  c16BuiltReason,
	"(flows/definition/legacy.migratedCategory).UUID/(github.com/nyaruka/gocommon/uuids.UUID)#1":              c16BuiltReason,
	"(flows/definition/legacy.migratedCase).UUID/(github.com/nyaruka/gocommon/uuids.UUID)#1":                  c16BuiltReason,
	"(flows/definition/legacy.migratedAction).UUID/(github.com/nyaruka/gocommon/uuids.UUID)#1":                c16BuiltReason,
	"(flows/definition/legacy.NodeUIConfig).AddCaseConfig/(map[github.com/nyaruka/gocommon/uuids.UUID]any)#1": "the \"cases\" entry is only ever stored by this method itself (a map[uuids.UUID]any) on a config created by make(NodeUIConfig)",
	"(*flows/definition.node).MarshalJSON/(*flows/definition.exit)#1":                                         c16OwnImplReason,
	"(*flows/definition.flow).ChangeLanguage/(flows/definition.localization)#1":                               c16OwnImplReason,
	"(*flows/definition.flow).copy/(*flows/definition.flow)#1":                                                c16OwnImplReason,
	"(*flows/definition.flow).MarshalJSON/(flows/definition.localization)#1":                                  c16OwnImplReason,
	"(*flows/definition.flow).MarshalJSON/(*flows/definition.node)#2":                                         c16OwnImplReason,
}

// c16FieldAssertAllowed: the same invariant stated for the field instead of the reading function (whichever function
// of the package reads the field and asserts its own implementation type is covered).
var c16FieldAssertAllowed = map[string]string{
	"flows/definition.flow.localization/(flows/definition.localization)": c16OwnImplReason,
	"flows/definition.flow.nodes/(*flows/definition.node)":               c16OwnImplReason,
	"flows/definition.node.exits/(*flows/definition.exit)":               c16OwnImplReason,
}
var c16SliceAllowed = map[string]string{
	"flows/definition/legacy/expressions.MigrateStringLiteral/[1:]": "only called from VisitStringLiteral with the text of a STRING token, which starts and ends with a double quote",
	"(*flows/definition/legacy.Translations).UnmarshalJSON/[0]":     "encoding/json never calls UnmarshalJSON with empty input",
	"(*flows/definition/legacy.StringOrNumber).UnmarshalJSON/[0]":   "encoding/json never calls UnmarshalJSON with empty input",
	"(*flows/definition/legacy.StringOrNumber).UnmarshalJSON/[1:]":  "under data[0]=='\"': encoding/json passes a complete string token, at least two bytes",
	"(*flows/definition/legacy.LabelReference).UnmarshalJSON/[0]":   "encoding/json never calls UnmarshalJSON with empty input",
	"(*flows/definition/legacy.GroupReference).UnmarshalJSON/[0]":   "encoding/json never calls UnmarshalJSON with empty input",
}
var c16PanicAllowed = map[string]string{
	"flows/definition/migrations.GetTemplateCatalog": "called by the per-version migration functions with their own constant version; specdata/templates.json carries a catalog for each (TestCurrentTemplateCatalog pins it)",
}
var c16NilAllowed = map[string]string{}

// c16VarIndexAllowed: computed indexes in the migration packages the generic idioms do not prove (confirmed by reading).
var c16VarIndexAllowed = map[string]string{
	"utils/jsonpath.parsePath/index#1":                                         "runes[i] right after `if i == len(runes) { break }`: i starts at 1 with len(runes) >= 1 (tested) and only grows by one after a read of runes[i] or under `i < len(runes)`, so i <= len(runes) throughout; paths are the constants produced by inspect.TemplatePaths, not definition input",
	"utils/jsonpath.parsePath/index#5":                                         "the `else if runes[i] == '['` read of the same position as index#1",
	"flows/definition/legacy/expressions.asParamMigratorsWithDefaults/index#2": "defaults[i] on the branch i >= len(oldParams) of a loop over make(max(len(oldParams), len(defaults))): there i < max(...) forces max == len(defaults) > i",
	"flows/definition/legacy/expressions.asParamMigratorsWithDefaults/index#4": "paramMigrators[i] with i < max(len(oldParams), len(defaults)): len(oldParams) <= len(paramMigrators) is tested first and the only caller with defaults (`fixed`) passes 2 defaults and 3 migrators",
	"flows/definition/legacy/expressions.MigrateStringLiteral/high#1":          "s[1:len(s)-1] on the text of a STRING token of the legacy grammar, which starts and ends with a quote (len >= 2)",
	"flows/definition/legacy.TransformTranslations/index#2":                    "perLanguage[i] with i ranging over items: perLanguage is make([]string, len(items)), either just created or fetched from the map it was stored in on an earlier iteration",
	"(*flows/definition/legacy.StringOrNumber).UnmarshalJSON/high#1":           "data[1:len(data)-1] under data[0] == '\"': encoding/json hands UnmarshalJSON one complete JSON value, so a value starting with a quote also ends with one (len >= 2)",
}
var c16IndexAllowed = map[string]string{
	"utils/jsonpath.visit/path[0]":  "paths are \"$\" + the constant entries of specdata/templates.json (every entry has at least one step; TestCurrentTemplateCatalog pins the catalog) and the recursion only descends while len(rem) != 0",
	"utils/jsonpath.visit/path[1:]": "same: len(path) >= 1 at every call",
}

func checkC16(p *core.Program, r *core.Report) {
	r.Rule("R1", "version registry: registered versions are distinct, each is handled by the function named for it, the highest equals definition.CurrentSpecVersion; migrate() applies exactly the versions in (from, to], in ascending order, with the function registered for that version, stamps spec_version with the applied version and returns its input untouched when nothing applies")
	r.Rule("R2", "hostile JSON: every type assertion without comma-ok in the migration/legacy/definition packages is guarded by a type test or listed")
	r.Rule("R3", "optional JSON pointers: every dereference of a pointer-typed, non-required field of a JSON-decoded legacy struct is guarded by a nil test on the same value")
	r.Rule("R4", "constant-offset string/byte slicing in these packages is guarded by a length/non-empty/prefix test or listed")
	r.Rule("R5", "explicit panics in these packages are listed with the reason they cannot be reached from definition input")
	r.Assumption("encoding/json never calls UnmarshalJSON with empty input; validator tags are enforced by utils.UnmarshalAndValidate")

	pk := map[string]bool{}
	for _, e := range c16Pkgs {
		pk[e] = true
	}
	var fns []*ssa.Function
	for _, fn := range p.ModuleFunctions() {
		if pk[core.RelPkg(core.FuncPkgPath(fn))] && !p.IsTestFile(fn.Pos()) {
			fns = append(fns, fn)
		}
	}
	if !r.Require("migration_functions", len(fns), 180) {
		return
	}
	c16R1(p, r)
	uncheckedAsserts(p, r, fns, "R2", c16AssertAllowed, "definition-migration code (input is untrusted JSON)", c16FieldAssertAllowed)
	c16R3(p, r, fns)
	r.Count("const_offset_string_sites", c04R5(p, r, fns, "R4", c16SliceAllowed))
	r.Rule("R8", "wildcard agreement between the producer of template paths (inspect.TemplatePaths: \".*\" for maps, \"[*]\" for slices) and their consumer jsonpath.visit (object arm and array arm both accept \"*\")")
	c16R8(p, r)
	r.Rule("R9", "legacy identity is kept: the UUID given to every migrated node and exit (first argument of newNode / newExit in the legacy package) is loaded from the legacy definition (a field of a decoded legacy struct), never freshly generated; the destination of an exit derives from the legacy destination")
	c16R9(p, r)
	r.Rule("R10", "legacy writer vs action reader: every new<X>Action constructor of the legacy package writes a registered action type, only keys that are json fields of that action's struct, every required field unconditionally, and never an empty string into a required text field (constant, or defaulted on the == \"\" edge, at every call site)")
	c16R10(p, r)
	r.Rule("R7", "every constant index or slice bound on a slice in these packages is within a length established on every path or listed")
	r.Count("const_index_sites", constIndexRule(p, r, fns, "R7", c16IndexAllowed, false))
	r.Rule("R11", "every computed index or slice bound in these packages is shown non-negative and within the length of the value it indexes on every path, or listed (same analysis as C04/R7)")
	r.Count("variable_index_sites", varIndexRule(p, r, fns, "R11", c16VarIndexAllowed))
	r.Rule("R6", "in the generic-JSON migrations, every write into a map that comes from a discarded-ok assertion on decoded JSON (directly or through an accessor such as GetLanguageTranslation) is controlled by a nil / ok test")
	c16R6(p, r, fns)
	r.Rule("R14", "the expression rewrites of the 13.x migrations hand every template to the rewriter and keep what it returns (imported from C11/R4)")
	importObligations(p, r, "C11", map[string]bool{"R4": true}, "R14", "a migration does not rewrite every reference it should, so a template evaluates differently after it")
	r.Rule("R15", "a digit test covers every digit: where these packages classify a byte or rune of the input by a range that ends at '9', the range starts at '0' (a number that begins with 0 — `0`, `0.5` — is a number; StringOrNumber otherwise rejects a valid legacy definition)")
	c16R15(p, r, fns)
	r.Rule("R16", "things are merged only when their names are equal: where the legacy migration de-duplicates by a text-keyed map (a lookup and an insert on the same map in one function), the insert uses the key of the lookup and that key is, unchanged, the name given to the object that is created when the lookup fails — a folded or trimmed key merges rules whose categories differ (Yes / YES) and the second rule's exit and destination disappear from the migrated flow")
	c16R16(p, r)
	r.Rule("R17", "an ordering treats both sides alike: in the definition packages (flows/definition, …/legacy, …/migrations) the comparison function handed to sort.Slice / sort.SliceStable reads the element at its first index as many times as the element at its second — a comparator that special-cases only its left element (`if nodes[i] is the entry { return true }`) is not an ordering, and whether the entry node ends up first then depends on where the sort happens to compare it from")
	c16R17(p, r)
	r.Rule("R13", "null elements are rejected at load: every JSON member of a definition struct (flow, node, action, router, case, wait types) that is a slice or map of pointers to structs carries `dive,required` in its validate tag — the repository's idiom (nodes, exits) for turning `[null]` into a validation error — since the code that later ranges over the slice dereferences each element")
	c16R13(p, r)
	r.Rule("R12", "a truncation is decided by the value it cuts: where a call that truncates X to N characters (stringsx.Truncate, directly or through a local helper) is controlled by a length comparison, a comparison against N measures X itself, and a comparison of len(X) uses a bound of at most N")
	c16R12(p, r, fns)
	// R5
	nP := 0
	for _, fn := range fns {
		core.EachInstr(fn, false, func(f *ssa.Function, in ssa.Instruction) {
			pn, ok := in.(*ssa.Panic)
			if !ok {
				return
			}
			nP++
			key := core.FuncName(rootFn(f))
			if n := countPanicsBefore(f, pn); n > 0 {
				key = fmt.Sprintf("%s#%d", key, n+1)
			}
			if reason, ok := c16PanicAllowed[key]; ok {
				r.OK("R5", key, p.Pos(pn.Pos()), "listed: "+reason)
			} else {
				r.Bad("R5", key, p.Pos(pn.Pos()), "explicit panic in definition-migration code and not listed as unreachable from definition input")
			}
		})
	}
	r.Count("explicit_panics", nP)
}

// ---------------------------------------------------------------------------------------------- R1

func c16R1(p *core.Program, r *core.Report) {
	mpk := p.Pkg("flows/definition/migrations")
	if mpk == nil {
		r.Errorf("migrations package not found")
		return
	}
	type reg struct {
		ver string
		fn  string
		pos token.Pos
	}
	var regs []reg
	for _, f := range mpk.Syntax {
		ast.Inspect(f, func(n ast.Node) bool {
			call, ok := n.(*ast.CallExpr)
			if !ok {
				return true
			}
			id, ok := call.Fun.(*ast.Ident)
			if !ok || id.Name != "registerMigration" || len(call.Args) != 2 {
				return true
			}
			if fo, ok := mpk.TypesInfo.Uses[id].(*types.Func); !ok || fo.Pkg() != mpk.Types {
				return true
			}
			ver := ""
			if mp, ok := call.Args[0].(*ast.CallExpr); ok && len(mp.Args) == 1 {
				if tv, ok := mpk.TypesInfo.Types[mp.Args[0]]; ok && tv.Value != nil && tv.Value.Kind() == constant.String {
					ver = constant.StringVal(tv.Value)
				}
			}
			fn := ""
			if fid, ok := call.Args[1].(*ast.Ident); ok {
				fn = fid.Name
			}
			regs = append(regs, reg{ver, fn, call.Pos()})
			return true
		})
	}
	if !r.Require("registered_migrations", len(regs), 6) {
		return
	}
	seen := map[string]bool{}
	maxV := [3]int{}
	maxS := ""
	for _, g := range regs {
		key := "migration " + g.ver
		var a, b, c int
		n, _ := fmt.Sscanf(g.ver, "%d.%d.%d", &a, &b, &c)
		if n != 3 {
			r.Bad("R1", key+"/version-constant", p.Pos(g.pos), "registered version is not a constant MAJOR.MINOR.PATCH string")
			continue
		}
		r.Check(!seen[g.ver], "R1", key+"/distinct", p.Pos(g.pos), "registered once", "version registered twice (the map is keyed by pointer, both would run)")
		seen[g.ver] = true
		want := fmt.Sprintf("Migrate%d_%d", a, b)
		r.Check(g.fn == want, "R1", key+"/function", p.Pos(g.pos), "handled by "+want, fmt.Sprintf("version %s is registered with %s, expected %s", g.ver, g.fn, want))
		v := [3]int{a, b, c}
		if v[0] > maxV[0] || (v[0] == maxV[0] && (v[1] > maxV[1] || (v[1] == maxV[1] && v[2] > maxV[2]))) {
			maxV, maxS = v, g.ver
		}
	}
	// CurrentSpecVersion
	cur := ""
	if dpk := p.Pkg("flows/definition"); dpk != nil {
		for _, f := range dpk.Syntax {
			for _, d := range f.Decls {
				gd, ok := d.(*ast.GenDecl)
				if !ok {
					continue
				}
				for _, sp := range gd.Specs {
					vs, ok := sp.(*ast.ValueSpec)
					if !ok || len(vs.Names) != 1 || vs.Names[0].Name != "CurrentSpecVersion" || len(vs.Values) != 1 {
						continue
					}
					if call, ok := vs.Values[0].(*ast.CallExpr); ok && len(call.Args) == 1 {
						if tv, ok := dpk.TypesInfo.Types[call.Args[0]]; ok && tv.Value != nil {
							cur = constant.StringVal(tv.Value)
						}
					}
				}
			}
		}
	}
	r.Check(cur != "" && cur == maxS, "R1", "CurrentSpecVersion==max(registered)", "-", "both "+cur,
		fmt.Sprintf("definition.CurrentSpecVersion is %q but the highest registered migration is %q: migrated flows are stamped with a version the reader does not consider current", cur, maxS))
	// a template catalog exists for every version a migration rewrites templates for: left to the runtime panic table (R5)

	// migrate()
	mig := p.Func("flows/definition/migrations", "migrate")
	if mig == nil {
		r.Errorf("migrations.migrate not found")
		return
	}
	data, from, to := mig.Params[0], mig.Params[1], mig.Params[2]
	// (f) filter
	gtOK, cmpOK := false, false
	var appendCall *ssa.Call
	// the selection of versions may sit in migrate() itself or in a helper it hands (from, to) to: a parameter of the
	// helper stands for the argument it was called with
	actual := func(v ssa.Value, ec core.EffCall) ssa.Value {
		prm, ok := v.(*ssa.Parameter)
		if !ok || len(ec.Chain) != 1 {
			return v
		}
		oc, ok := ec.Outer.(ssa.CallInstruction)
		if !ok {
			return v
		}
		for i, fp := range ec.Chain[0].Params {
			if fp == prm && i < len(oc.Common().Args) {
				return oc.Common().Args[i]
			}
		}
		return v
	}
	var sortFns []*ssa.Function
	sortFns = append(sortFns, mig.AnonFuncs...)
	for _, ec := range core.EffectiveCalls(mig, 1) {
		cs := ec.Inner
		if len(ec.Chain) == 1 {
			sortFns = append(sortFns, ec.Chain[0].AnonFuncs...)
		}
		o := core.CalleeObj(cs.Common())
		if o == nil {
			if b, ok := cs.Common().Value.(*ssa.Builtin); ok && b.Name() == "append" {
				appendCall, _ = cs.Instr.(*ssa.Call)
			}
			continue
		}
		switch core.ObjName(o) {
		case "github.com/Masterminds/semver.Version.GreaterThan":
			a := cs.Common().Args
			if actual(a[1], ec) == ssa.Value(from) {
				// result must be a controlling condition (true edge) of the append
				gtOK = true
			}
		case "github.com/Masterminds/semver.Version.Compare":
			a := cs.Common().Args
			if actual(a[1], ec) == ssa.Value(to) {
				for _, ref := range *cs.Instr.(*ssa.Call).Referrers() {
					if b, ok := ref.(*ssa.BinOp); ok && b.Op == token.LEQ {
						if k, isC := core.ConstInt(b.Y); isC && k == 0 {
							cmpOK = true
						}
					}
				}
			}
		}
	}
	if appendCall != nil {
		conds := core.ControllingConds(appendCall.Block())
		hasGT := false
		for _, ce := range conds {
			if c, ok := ce.Cond.(*ssa.Call); ok && ce.Taken {
				if o := core.CalleeObj(&c.Call); o != nil && core.ObjName(o) == "github.com/Masterminds/semver.Version.GreaterThan" {
					hasGT = true
				}
			}
		}
		gtOK = gtOK && hasGT
	}
	r.Check(gtOK, "R1", "migrate/lower-bound", p.Pos(mig.Pos()), "collects v only on the true edge of v.GreaterThan(from)", "migrate() does not restrict applied versions to those strictly greater than the source version (a second migration would not be a no-op)")
	r.Check(cmpOK, "R1", "migrate/upper-bound", p.Pos(mig.Pos()), "v.Compare(to) <= 0", "migrate() does not restrict applied versions to those <= the target version")
	// (g) no-op returns data unchanged
	noop := false
	for _, ret := range core.Returns(mig) {
		if len(ret.Results) == 2 && ret.Results[0] == ssa.Value(data) && core.IsNilConst(ret.Results[1]) {
			for _, ce := range core.ControllingConds(ret.Block()) {
				if b, ok := ce.Cond.(*ssa.BinOp); ok && b.Op == token.EQL && ce.Taken {
					if k, isC := core.ConstInt(b.Y); isC && k == 0 {
						noop = true
					}
				}
			}
		}
	}
	r.Check(noop, "R1", "migrate/no-op-returns-input", p.Pos(mig.Pos()), "returns the data parameter itself when no version applies", "a definition already at the target version is not returned untouched")
	// (e) spec_version stamped with the applied version; (i) function looked up with the same version
	stampOK, lookupOK := false, false
	var loopVer ssa.Value
	core.EachInstr(mig, false, func(_ *ssa.Function, in ssa.Instruction) {
		switch x := in.(type) {
		case *ssa.MapUpdate:
			if k, ok := core.ConstString(x.Key); ok && k == "spec_version" {
				for v := range core.BackSlice(x.Value, func(*ssa.Call) bool { return true }) {
					if c, ok := v.(*ssa.Call); ok {
						if o := core.CalleeObj(&c.Call); o != nil && core.ObjName(o) == "github.com/Masterminds/semver.Version.String" {
							loopVer = c.Call.Args[0]
						}
					}
				}
			}
		}
	})
	if loopVer != nil {
		// loopVer derives from an element of the sorted versions slice (IndexAddr with loop index), not from `to`/`from`
		fromSlice := false
		for v := range core.BackSlice(loopVer, nil) {
			if _, ok := v.(*ssa.IndexAddr); ok {
				fromSlice = true
			}
			if v == ssa.Value(to) || v == ssa.Value(from) {
				fromSlice = false
				break
			}
		}
		stampOK = fromSlice
		core.EachInstr(mig, false, func(_ *ssa.Function, in ssa.Instruction) {
			if lk, ok := in.(*ssa.Lookup); ok && lk.Index == loopVer {
				lookupOK = true
			}
		})
	}
	r.Check(stampOK, "R1", "migrate/stamps-applied-version", p.Pos(mig.Pos()), "spec_version := the version just applied", "spec_version is not stamped with the version of the migration that was just applied (stepwise and one-go migration diverge)")
	r.Check(lookupOK, "R1", "migrate/applies-registered-function", p.Pos(mig.Pos()), "registered[version] with the same version", "the function applied is not the one registered for the version that is stamped")
	// (h) ascending sort
	asc := false
	for _, an := range sortFns {
		for _, cs := range core.Calls(an, false) {
			if o := core.CalleeObj(cs.Common()); o != nil && core.ObjName(o) == "github.com/Masterminds/semver.Version.LessThan" {
				// receiver indexed by first param, argument by second
				a := cs.Common().Args
				i0 := indexParamOf(a[0], an)
				i1 := indexParamOf(a[1], an)
				asc = i0 == 0 && i1 == 1
			}
		}
	}
	r.Check(asc, "R1", "migrate/ascending", p.Pos(mig.Pos()), "less(i,j) = versions[i].LessThan(versions[j])", "versions are not sorted ascending before being applied")
}

// indexParamOf: v is slice[param_k] inside closure an; returns k or -1.
func indexParamOf(v ssa.Value, an *ssa.Function) int {
	for x := range core.BackSlice(v, nil) {
		if ia, ok := x.(*ssa.IndexAddr); ok {
			for i, prm := range an.Params {
				if ia.Index == ssa.Value(prm) {
					return i
				}
			}
		}
	}
	return -1
}

// ---------------------------------------------------------------------------------------------- R3

func c16R3(p *core.Program, r *core.Report, fns []*ssa.Function) {
	// optional pointer fields of JSON-decoded structs in package legacy
	lpk := p.Pkg("flows/definition/legacy")
	if lpk == nil {
		r.Errorf("legacy package not found")
		return
	}
	optional := map[*types.Var]string{}
	sc := lpk.Types.Scope()
	for _, nm := range sc.Names() {
		tn, ok := sc.Lookup(nm).(*types.TypeName)
		if !ok {
			continue
		}
		st, ok := tn.Type().Underlying().(*types.Struct)
		if !ok {
			continue
		}
		for i := 0; i < st.NumFields(); i++ {
			f := st.Field(i)
			tag := reflect.StructTag(st.Tag(i))
			if _, hasJSON := tag.Lookup("json"); !hasJSON {
				continue
			}
			pt, ok := f.Type().(*types.Pointer)
			if !ok {
				continue
			}
			if _, isSt := pt.Elem().Underlying().(*types.Struct); !isSt {
				continue
			}
			if strings.Contains(","+tag.Get("validate")+",", ",required,") {
				continue
			}
			optional[f] = nm + "." + f.Name()
		}
	}
	r.Count("optional_json_pointer_fields", len(optional))
	nDeref := 0
	per := map[string]int{}
	for _, fn := range fns {
		core.EachInstr(fn, false, func(f *ssa.Function, in ssa.Instruction) {
			fa, ok := in.(*ssa.FieldAddr)
			if !ok {
				return
			}
			ld, ok := fa.X.(*ssa.UnOp)
			if !ok || ld.Op != token.MUL {
				return
			}
			fv := core.FieldAddrVar(ld.X)
			name, isOpt := optional[fv]
			if !isOpt {
				return
			}
			nDeref++
			k := core.FuncName(rootFn(f)) + "/" + name
			per[k]++
			key := k
			if per[k] > 1 {
				key = fmt.Sprintf("%s#%d", k, per[k])
			}
			if nilGuarded(fa.Block(), ld) {
				r.OK("R3", key, p.Pos(fa.Pos()), "nil test on the same field controls the dereference")
				return
			}
			if prod := defaultedByProducer(p, fv, rootFn(f)); prod != "" {
				r.OK("R3", key, p.Pos(fa.Pos()), "defaulted when nil by "+prod+", the only producer of the receiver")
				return
			}
			if reason, ok := c16NilAllowed[key]; ok {
				r.OK("R3", key, p.Pos(fa.Pos()), "listed: "+reason)
				return
			}
			r.Bad("R3", key, p.Pos(fa.Pos()), name+" is an optional pointer in the decoded JSON and is dereferenced without a nil test: a definition without that member panics")
		})
	}
	r.Count("optional_pointer_derefs", nDeref)
	_ = sort.Strings
}

// nilGuarded: a controlling condition `x != nil` (true edge) / `x == nil` (false edge) on a canon-equal value.
func nilGuarded(b *ssa.BasicBlock, v ssa.Value) bool {
	cv := canon(v)
	for _, ce := range core.ControllingConds(b) {
		bo, ok := ce.Cond.(*ssa.BinOp)
		if !ok {
			continue
		}
		var other ssa.Value
		if core.IsNilConst(bo.Y) {
			other = bo.X
		} else if core.IsNilConst(bo.X) {
			other = bo.Y
		} else {
			continue
		}
		if canon(other) != cv {
			continue
		}
		if (bo.Op == token.NEQ && ce.Taken) || (bo.Op == token.EQL && !ce.Taken) {
			return true
		}
	}
	return false
}

// defaultedByProducer: the dereferencing function is a method whose every call site takes its receiver from one
// function (the reader) that stores a fresh object into the field on the `field == nil` edge.
func defaultedByProducer(p *core.Program, field *types.Var, deref *ssa.Function) string {
	if deref.Signature.Recv() == nil {
		return ""
	}
	// candidate producers: functions that store an Alloc into field under a nil test of the same field
	var producers []*ssa.Function
	for _, w := range p.FieldWrites(field) {
		st, ok := w.Instr.(*ssa.Store)
		if !ok {
			continue
		}
		if _, isAlloc := st.Val.(*ssa.Alloc); !isAlloc {
			continue
		}
		for _, ce := range core.ControllingConds(st.Block()) {
			bo, ok := ce.Cond.(*ssa.BinOp)
			if !ok || !((bo.Op == token.EQL && ce.Taken) || (bo.Op == token.NEQ && !ce.Taken)) {
				continue
			}
			if !core.IsNilConst(bo.Y) && !core.IsNilConst(bo.X) {
				continue
			}
			other := bo.X
			if core.IsNilConst(bo.X) {
				other = bo.Y
			}
			if ld, ok := other.(*ssa.UnOp); ok && core.FieldAddrVar(ld.X) == field {
				producers = append(producers, w.Fn)
			}
		}
	}
	if len(producers) == 0 {
		return ""
	}
	sites := 0
	for _, cs := range p.CallsTo(deref) {
		if p.IsTestFile(cs.Pos()) {
			continue
		}
		sites++
		recv := cs.Common().Args[0]
		ok := false
		for v := range core.BackSlice(recv, nil) {
			if c, isCall := v.(*ssa.Call); isCall {
				for _, pr := range producers {
					if c.Call.StaticCallee() == pr {
						ok = true
					}
				}
			}
		}
		if !ok {
			return ""
		}
	}
	if sites == 0 {
		return ""
	}
	return core.FuncName(producers[0])
}

// ---------------------------------------------------------------------------------------------- R6 nil-map writes

var c16NilMapAllowed = map[string]string{
	"flows/definition/migrations.Migrate13_5/SetTranslation": "only reached under localizedLangs[lang], which is set in the loop above exactly where the same GetLanguageTranslation(lang) result was tested non-nil",
}

// nullableMap: v may be a nil map because it comes from a discarded-ok assertion on decoded JSON (directly or through
// the result of a module function that returns such a value without a nil test).
type nullableCtx struct {
	p    *core.Program
	memo map[*ssa.Function]int // 0 unknown, 1 nullable, 2 not
}

func (c *nullableCtx) fnNullable(fn *ssa.Function, depth int) bool {
	if fn == nil || fn.Blocks == nil || depth > 4 {
		return false
	}
	if m, ok := c.memo[fn]; ok {
		return m == 1
	}
	c.memo[fn] = 2
	res := false
	for _, ret := range core.Returns(fn) {
		if len(ret.Results) == 0 {
			continue
		}
		if _, isMap := ret.Results[0].Type().Underlying().(*types.Map); !isMap {
			continue
		}
		if c.valNullable(ret.Results[0], depth+1) && !nilGuarded(ret.Block(), stripToAssertValue(ret.Results[0])) {
			res = true
		}
	}
	if res {
		c.memo[fn] = 1
	}
	return res
}

func stripToAssertValue(v ssa.Value) ssa.Value {
	for {
		switch x := v.(type) {
		case *ssa.ChangeType:
			v = x.X
		case *ssa.Convert:
			v = x.X
		default:
			return v
		}
	}
}

func (c *nullableCtx) valNullable(v ssa.Value, depth int) bool {
	for x := range core.BackSlice(v, nil) {
		switch y := x.(type) {
		case *ssa.Extract:
			if ta, ok := y.Tuple.(*ssa.TypeAssert); ok && ta.CommaOk && y.Index == 0 {
				if _, isMap := ta.AssertedType.Underlying().(*types.Map); isMap {
					return true
				}
			}
		case *ssa.Call:
			if f := y.Call.StaticCallee(); f != nil && core.InModule(core.FuncPkgPath(f)) {
				if c.fnNullable(f, depth+1) {
					return true
				}
			}
		case *ssa.Const:
			if y.Value == nil {
				if _, isMap := y.Type().Underlying().(*types.Map); isMap {
					return true
				}
			}
		}
	}
	return false
}

// nullableAt: v may still be nil when block b uses it. A phi is judged edge by edge in the predecessor it comes from.
func (c *nullableCtx) nullableAt(b *ssa.BasicBlock, v ssa.Value, depth int) bool {
	if depth > 6 {
		return true
	}
	if ct, ok := v.(*ssa.ChangeType); ok {
		return c.nullableAt(b, ct.X, depth+1)
	}
	if phi, ok := v.(*ssa.Phi); ok {
		for i, e := range phi.Edges {
			pred := phi.Block().Preds[i]
			// the edge pred->phi block may itself be the non-nil edge of a test on e
			if len(pred.Instrs) > 0 {
				if iff, ok := pred.Instrs[len(pred.Instrs)-1].(*ssa.If); ok {
					taken := pred.Succs[0] == phi.Block()
					if bo, ok := iff.Cond.(*ssa.BinOp); ok && (core.IsNilConst(bo.X) || core.IsNilConst(bo.Y)) {
						other := bo.X
						if core.IsNilConst(bo.X) {
							other = bo.Y
						}
						if canon(other) == canon(e) && ((bo.Op == token.NEQ && taken) || (bo.Op == token.EQL && !taken)) && pred.Succs[0] != pred.Succs[1] {
							continue
						}
					}
				}
			}
			if c.nullableAt(pred, e, depth+1) {
				return true
			}
		}
		return false
	}
	return c.valNullable(v, 0) && !guardedNonNil(b, v)
}

// guardedNonNil: a controlling condition tests a value in v's provenance chain (canon-equal to it or to its
// unconverted source) against nil, or tests the ok flag of the assertion it came from.
func guardedNonNil(b *ssa.BasicBlock, v ssa.Value) bool {
	cands := map[string]bool{}
	for x := range core.BackSlice(v, nil) {
		switch x.(type) {
		case *ssa.Extract, *ssa.Call, *ssa.ChangeType, *ssa.Phi:
			cands[canon(x)] = true
		}
	}
	cands[canon(v)] = true
	for _, ce := range core.ControllingConds(b) {
		switch c := ce.Cond.(type) {
		case *ssa.BinOp:
			var other ssa.Value
			if core.IsNilConst(c.Y) {
				other = c.X
			} else if core.IsNilConst(c.X) {
				other = c.Y
			} else {
				continue
			}
			if !((c.Op == token.NEQ && ce.Taken) || (c.Op == token.EQL && !ce.Taken)) {
				continue
			}
			if cands[canon(other)] {
				return true
			}
		case *ssa.Extract:
			if ta, ok := c.Tuple.(*ssa.TypeAssert); ok && c.Index == 1 && ce.Taken {
				for x := range core.BackSlice(v, nil) {
					if e, ok := x.(*ssa.Extract); ok && e.Tuple == ssa.Value(ta) {
						return true
					}
				}
			}
		}
	}
	return false
}

func c16R6(p *core.Program, r *core.Report, fns []*ssa.Function) {
	ctx := &nullableCtx{p: p, memo: map[*ssa.Function]int{}}
	n := 0
	per := map[string]int{}
	report := func(fn *ssa.Function, in ssa.Instruction, what string, m ssa.Value) {
		n++
		k := core.FuncName(rootFn(fn)) + "/" + what
		per[k]++
		key := k
		if per[k] > 1 {
			key = fmt.Sprintf("%s#%d", k, per[k])
		}
		if !ctx.valNullable(m, 0) {
			r.OK("R6", key, p.Pos(in.Pos()), "map is not derived from a discarded-ok assertion")
			return
		}
		if !ctx.nullableAt(in.Block(), m, 0) {
			r.OK("R6", key, p.Pos(in.Pos()), "nil / ok test controls the write (or the nil case is replaced by a fresh map)")
			return
		}
		if reason, ok := c16NilMapAllowed[k]; ok {
			r.OK("R6", key, p.Pos(in.Pos()), "listed: "+reason)
			return
		}
		r.Bad("R6", key, p.Pos(in.Pos()), "write into a map obtained from decoded JSON with the ok flag discarded and no nil test: a definition where that member is missing or not an object panics (assignment to entry in nil map)")
	}
	// methods of named map types that write to their receiver
	writers := map[*ssa.Function]bool{}
	for _, fn := range fns {
		if core.RelPkg(core.FuncPkgPath(fn)) != "flows/definition/migrations" {
			continue
		}
		core.EachInstr(fn, false, func(f *ssa.Function, in ssa.Instruction) {
			mu, ok := in.(*ssa.MapUpdate)
			if !ok {
				return
			}
			if prm, isP := stripToAssertValue(mu.Map).(*ssa.Parameter); isP && f.Signature.Recv() != nil && prm == f.Params[0] {
				// receiver write: obligation at call sites, unless the method tests its receiver itself
				if !guardedNonNil(mu.Block(), mu.Map) {
					writers[f] = true
				}
				return
			}
			report(f, in, "map["+constKey(mu.Key)+"]=", mu.Map)
		})
	}
	for _, fn := range fns {
		if core.RelPkg(core.FuncPkgPath(fn)) != "flows/definition/migrations" {
			continue
		}
		for _, cs := range core.Calls(fn, false) {
			callee := cs.Common().StaticCallee()
			if callee == nil || !writers[callee] {
				continue
			}
			report(cs.Caller, cs.Instr, callee.Name(), cs.Common().Args[0])
		}
	}
	r.Count("json_map_write_sites", n)
}

func constKey(v ssa.Value) string {
	if s, ok := core.ConstString(v); ok {
		return fmt.Sprintf("%q", s)
	}
	return "k"
}

// ---------------------------------------------------------------------------------------------- R8 wildcard agreement

// inspect.TemplatePaths emits ".*" for evaluated map fields and "[*]" for evaluated slices (that is what the per-version
// template catalogs in specdata/templates.json contain); jsonpath.visit, which applies template rewrites along those paths,
// must accept the "*" selector in its object arm and in its array arm.
func c16R8(p *core.Program, r *core.Report) {
	visit := p.Func("utils/jsonpath", "visit")
	tp := p.Func("flows/inspect", "TemplatePaths")
	if visit == nil || tp == nil {
		r.Errorf("jsonpath.visit / inspect.TemplatePaths not found")
		return
	}
	// producer side: which wildcard forms are emitted
	emits := map[string]bool{}
	core.EachInstr(tp, true, func(_ *ssa.Function, in ssa.Instruction) {
		if bo, ok := in.(*ssa.BinOp); ok && bo.Op == token.ADD {
			if s, ok := core.ConstString(bo.Y); ok && (s == ".*" || s == "[*]") {
				emits[s] = true
			}
		}
	})
	r.Check(emits[".*"] && emits["[*]"], "R8", "inspect.TemplatePaths/emits-wildcards", p.Pos(tp.Pos()), "emits \".*\" for maps and \"[*]\" for slices", fmt.Sprintf("expected both wildcard forms to be produced, found %v", emits))
	for _, arm := range []struct{ label, want string }{{"object", "map[string]any"}, {"array", "[]any"}} {
		var okFlag ssa.Value
		core.EachInstr(visit, false, func(_ *ssa.Function, in ssa.Instruction) {
			ta, ok := in.(*ssa.TypeAssert)
			if !ok || !ta.CommaOk || core.ShortType(ta.AssertedType) != arm.want {
				return
			}
			for _, ref := range *ta.Referrers() {
				if ex, ok := ref.(*ssa.Extract); ok && ex.Index == 1 {
					okFlag = ex
				}
			}
		})
		if okFlag == nil {
			r.Bad("R8", "jsonpath.visit/"+arm.label+"-arm", p.Pos(visit.Pos()), "no "+arm.want+" arm found in visit")
			continue
		}
		// blocks dominated by the true edge of the flag
		found := false
		var scan func(fn *ssa.Function, region func(*ssa.BasicBlock) bool, depth int)
		scan = func(fn *ssa.Function, region func(*ssa.BasicBlock) bool, depth int) {
			if depth > 3 {
				return
			}
			for _, b := range fn.Blocks {
				if !region(b) {
					continue
				}
				for _, in := range b.Instrs {
					switch x := in.(type) {
					case *ssa.BinOp:
						if x.Op == token.EQL || x.Op == token.NEQ {
							if s, ok := core.ConstString(x.X); ok && s == "*" {
								found = true
							}
							if s, ok := core.ConstString(x.Y); ok && s == "*" {
								found = true
							}
						}
					case *ssa.MakeClosure:
						scan(x.Fn.(*ssa.Function), func(*ssa.BasicBlock) bool { return true }, depth+1)
					case *ssa.Call:
						if f := x.Call.StaticCallee(); f != nil && f != visit && core.RelPkg(core.FuncPkgPath(f)) == "utils/jsonpath" {
							scan(f, func(*ssa.BasicBlock) bool { return true }, depth+1)
						}
					}
				}
			}
		}
		scan(visit, func(b *ssa.BasicBlock) bool {
			for _, ce := range core.ControllingConds(b) {
				if ce.Cond == okFlag && ce.Taken {
					return true
				}
			}
			return false
		}, 0)
		r.Check(found, "R8", "jsonpath.visit/"+arm.label+"-arm-accepts-wildcard", p.Pos(visit.Pos()), "the "+arm.label+" arm compares the selector with \"*\"",
			"the "+arm.label+" arm of jsonpath.visit never tests the selector against \"*\": catalog paths with a wildcard over an "+arm.label+" (e.g. call_webhook .headers.*) are silently skipped by template-rewriting migrations")
	}
}

// ---------------------------------------------------------------------------------------------- R9 legacy identity

func c16R9(p *core.Program, r *core.Report) {
	n := 0
	for _, ctor := range []string{"newNode", "newExit"} {
		f := p.Func("flows/definition/legacy", ctor)
		if f == nil {
			r.Errorf("anchor legacy.%s not found", ctor)
			continue
		}
		for _, cs := range p.CallsTo(f) {
			if p.IsTestFile(cs.Pos()) {
				continue
			}
			n++
			generated, fromLegacy := "", false
			for x := range core.BackSlice(cs.Common().Args[0], func(c *ssa.Call) bool { return false }) {
				switch y := x.(type) {
				case *ssa.Call:
					if o := core.CalleeObj(&y.Call); o != nil && strings.Contains(core.ObjName(o), "uuids.") {
						generated = core.ObjName(o)
					}
				case *ssa.FieldAddr, *ssa.Field:
					fromLegacy = true
				}
			}
			key := core.FuncName(cs.Caller) + "/" + ctor + "-uuid"
			r.Check(generated == "" && fromLegacy, "R9", key, p.Pos(cs.Pos()), "the UUID is a field of the legacy definition",
				"the "+strings.TrimPrefix(ctor, "new")+" UUID passed to "+ctor+" in "+cs.Caller.Name()+" is "+map[bool]string{true: "generated by " + generated, false: "not loaded from the legacy definition"}[generated != ""]+": paths recorded against the legacy flow no longer match the migrated one, and migrating twice gives different flows")
		}
	}
	r.Require("legacy_node_exit_constructions", n, 2)
}

// ---------------------------------------------------------------------------------------------- R10 legacy writer vs action reader

// c16R10: the legacy migration writes 13.x actions as map literals; the engine reads them into the action structs.
// For every constructor new<X>Action of the legacy package: the "type" it writes is a registered action type; every key
// it writes is a json name of that action's struct (else the value is silently dropped); every json field the struct
// requires (validate:"required") is written. (Whether a required text field can be written EMPTY for some legacy input
// is not decided: which legacy definitions count as valid is not stated anywhere in the tree — a first version of this
// rule flagged ten such fields, none demonstrably a defect, and that part was dropped.)
func c16R10(p *core.Program, r *core.Report) {
	lp := p.SSAPkg("flows/definition/legacy")
	ap := p.SSAPkg("flows/actions")
	if lp == nil || ap == nil {
		r.Errorf("packages flows/definition/legacy / flows/actions not loaded")
		return
	}
	// registered action types: name -> struct
	reg := ap.Func("registerType")
	byName := map[string]*types.Named{}
	if reg != nil {
		for _, cs := range p.CallsTo(reg) {
			name, ok := core.ConstString(cs.Common().Args[0])
			if !ok {
				continue
			}
			var fn *ssa.Function
			switch v := core.StripConv(cs.Common().Args[1]).(type) {
			case *ssa.Function:
				fn = v
			case *ssa.MakeClosure:
				fn, _ = v.Fn.(*ssa.Function)
			}
			if fn == nil {
				continue
			}
			for _, b := range fn.Blocks {
				for _, in := range b.Instrs {
					if al, ok := in.(*ssa.Alloc); ok {
						if n, ok := al.Type().(*types.Pointer).Elem().(*types.Named); ok {
							byName[name] = n
						}
					}
				}
			}
		}
	}
	if !r.Require("registered_action_types", len(byName), 20) {
		return
	}
	type jf struct {
		required bool
		text     bool
		enum     string // a validator that only admits an enumeration (http_method, oneof=...)
	}
	var jsonFields func(n types.Type, out map[string]jf)
	jsonFields = func(t types.Type, out map[string]jf) {
		if pt, ok := t.(*types.Pointer); ok {
			t = pt.Elem()
		}
		st, ok := t.Underlying().(*types.Struct)
		if !ok {
			return
		}
		for i := 0; i < st.NumFields(); i++ {
			f := st.Field(i)
			tag := reflect.StructTag(st.Tag(i))
			if f.Embedded() && tag.Get("json") == "" {
				jsonFields(f.Type(), out)
				continue
			}
			name := strings.Split(tag.Get("json"), ",")[0]
			if name == "" || name == "-" {
				continue
			}
			enum := ""
			for _, part := range strings.Split(tag.Get("validate"), ",") {
				if part == "http_method" || part == "urnscheme" || strings.HasPrefix(part, "oneof=") || strings.HasPrefix(part, "eq=") {
					enum = part
				}
			}
			out[name] = jf{required: strings.Contains(","+tag.Get("validate")+",", ",required,"), text: isStringType(f.Type()), enum: enum}
		}
	}
	nCtor, nEnum := 0, 0
	for _, m := range lp.Members {
		fn, ok := m.(*ssa.Function)
		if !ok || !strings.HasPrefix(fn.Name(), "new") || len(fn.Blocks) == 0 || p.IsTestFile(fn.Pos()) {
			continue
		}
		// map writes with constant keys
		type kw struct {
			val   ssa.Value
			block *ssa.BasicBlock
		}
		writes := map[string]kw{}
		typeName := ""
		for _, b := range fn.Blocks {
			for _, in := range b.Instrs {
				mu, ok := in.(*ssa.MapUpdate)
				if !ok {
					continue
				}
				k, ok := core.ConstString(mu.Key)
				if !ok {
					continue
				}
				writes[k] = kw{mu.Value, b}
				if k == "type" {
					typeName, _ = core.ConstString(stripIface(mu.Value))
				}
			}
		}
		if typeName == "" || !strings.HasSuffix(fn.Name(), "Action") {
			continue
		}
		nCtor++
		construct := "legacy." + fn.Name()
		target := byName[typeName]
		if target == nil {
			r.Bad("R10", construct+"/type-registered", p.Pos(fn.Pos()), "writes an action of type \""+typeName+"\" which no action struct is registered under: the migrated flow does not load")
			continue
		}
		fields := map[string]jf{}
		jsonFields(target, fields)
		var unknown, missing []string
		for k := range writes {
			if _, ok := fields[k]; !ok {
				unknown = append(unknown, k)
			}
		}
		for k, f := range fields {
			if !f.required {
				continue
			}
			if _, ok := writes[k]; !ok {
				missing = append(missing, k)
			}
		}
		sort.Strings(unknown)
		sort.Strings(missing)
		r.Check(len(unknown) == 0, "R10", construct+"/keys-are-fields", p.Pos(fn.Pos()), "every key written is a json field of actions."+target.Obj().Name(),
			"writes "+strings.Join(unknown, ", ")+" which actions."+target.Obj().Name()+" has no json field for: the migrated value is dropped when the flow is read")
		r.Check(len(missing) == 0, "R10", construct+"/required-fields-written", p.Pos(fn.Pos()), "every required field of actions."+target.Obj().Name()+" is written",
			"never writes "+strings.Join(missing, ", ")+" which actions."+target.Obj().Name()+" requires: the migrated flow is rejected when it is read")
		// required fields that only admit an enumeration: the legacy value is free text that may be empty, so what is
		// written is a constant or falls back to a constant on the edge where the legacy value is empty
		for k, f := range fields {
			w, ok := writes[k]
			if !ok || !f.text || f.enum == "" || (!f.required && f.enum != "urnscheme") {
				continue // (an empty string is not a URN scheme either, so `urnscheme` implies required)
			}
			nEnum++
			var bad []string
			var judge func(v ssa.Value, at *ssa.BasicBlock, depth int)
			judge = func(v ssa.Value, at *ssa.BasicBlock, depth int) {
				v = stripIface(core.StripConv(v))
				if depth > 4 {
					bad = append(bad, "nesting")
					return
				}
				if sc, ok := core.ConstString(v); ok {
					if sc == "" {
						bad = append(bad, "the empty constant")
					}
					return
				}
				switch x := v.(type) {
				case *ssa.Parameter:
					idx := -1
					for i, fp := range x.Parent().Params {
						if fp == x {
							idx = i
						}
					}
					sites := p.CallsTo(x.Parent())
					if idx < 0 || len(sites) == 0 {
						bad = append(bad, "a parameter without known callers")
						return
					}
					for _, site := range sites {
						if !p.IsTestFile(site.Pos()) && idx < len(site.Common().Args) {
							judge(site.Common().Args[idx], site.Instr.Block(), depth+1)
						}
					}
				case *ssa.Extract:
					// one result of a helper of the package: judged at each of its returns
					if c, ok := x.Tuple.(*ssa.Call); ok {
						if g := c.Call.StaticCallee(); g != nil && g.Blocks != nil && core.FuncPkgPath(g) == core.FuncPkgPath(fn) {
							for _, ret := range core.Returns(g) {
								if x.Index < len(ret.Results) {
									judge(ret.Results[x.Index], ret.Block(), depth+1)
								}
							}
							return
						}
					}
					bad = append(bad, canonShort(v))
				case *ssa.Phi:
					// a scheme variable paired with a flag variable: `scheme, ok := v, IsValidScheme(v)` … `if ok`:
					// on the edge where the scheme is v the flag is IsValidScheme(v), and the use is under the flag
					if f.enum == "urnscheme" && at != nil {
						okAll := true
						for i, e := range x.Edges {
							if sc, isC := core.ConstString(e); isC && sc != "" {
								continue
							}
							edgeOK := false
							for _, ce := range core.ControllingConds(at) {
								flag, isPhi := ce.Cond.(*ssa.Phi)
								if !isPhi || !ce.Taken || flag.Block() != x.Block() || i >= len(flag.Edges) {
									continue
								}
								if c, ok := flag.Edges[i].(*ssa.Call); ok {
									if o := core.CalleeObj(&c.Call); o != nil && strings.HasSuffix(core.ObjName(o), "urns.IsValidScheme") && len(c.Call.Args) == 1 && canon(c.Call.Args[0]) == canon(e) {
										edgeOK = true
									}
								}
							}
							if !edgeOK {
								okAll = false
							}
						}
						if okAll {
							return
						}
					}
					// defaulted: some edge carries a non-empty constant and comes from the `other == ""` branch
					defaulted := false
					for i, e := range x.Edges {
						if sc, ok := core.ConstString(e); ok && sc != "" {
							pr := x.Block().Preds[i]
							conds := core.ControllingConds(pr)
							if iff, ok := pr.Instrs[len(pr.Instrs)-1].(*ssa.If); ok && pr.Succs[0] != pr.Succs[1] {
								conds = append(conds, core.CondEdge{Cond: iff.Cond, Taken: pr.Succs[0] == x.Block(), If: iff})
							}
							for _, ce := range conds {
								if bo, ok := ce.Cond.(*ssa.BinOp); ok && ((bo.Op == token.EQL && ce.Taken) || (bo.Op == token.NEQ && !ce.Taken)) {
									if s0, ok := core.ConstString(bo.Y); ok && s0 == "" {
										for _, e2 := range x.Edges {
											if e2 == bo.X {
												defaulted = true
											}
										}
									}
								}
							}
						}
					}
					if !defaulted {
						bad = append(bad, "a value that is not replaced by a constant when it is empty ("+p.Pos(x.Pos())+")")
					}
				default:
					// a value admitted by the validator's own predicate on the edge that leads here
					if f.enum == "urnscheme" && at != nil {
						for _, ce := range core.ControllingConds(at) {
							if c, ok := ce.Cond.(*ssa.Call); ok && ce.Taken {
								if o := core.CalleeObj(&c.Call); o != nil && strings.HasSuffix(core.ObjName(o), "urns.IsValidScheme") && len(c.Call.Args) == 1 && canon(c.Call.Args[0]) == canon(v) {
									return
								}
							}
						}
						bad = append(bad, canonShort(v)+", which is not tested with urns.IsValidScheme on every path to the call ("+p.Pos(at.Instrs[0].Pos())+")")
						return
					}
					bad = append(bad, canonShort(v)+", which is empty when the legacy member is ("+p.Pos(at.Instrs[0].Pos())+")")
				}
			}
			judge(w.val, w.block, 0)
			r.Check(len(bad) == 0, "R10", construct+"/"+k+"-in-enumeration", p.Pos(fn.Pos()), "constant, or defaulted to a constant on the empty edge, at every call site",
				fmt.Sprintf("%q of actions.%s must satisfy `%s` but is written from %s: a legacy flow without that member migrates to a definition that is rejected when read", k, target.Obj().Name(), f.enum, strings.Join(uniq(bad), "; ")))
		}
	}
	r.Require("legacy_action_constructors", nCtor, 18)
	r.Require("legacy_enumerated_required_fields", nEnum, 1)
}

// ---------------------------------------------------------------------------------------------- R12

func c16R12(p *core.Program, r *core.Report, fns []*ssa.Function) {
	// truncation helpers: functions whose result derives from stringsx.Truncate* of their own parameters
	type helper struct{ text, limit int }
	isTrunc := func(com *ssa.CallCommon) bool {
		o := core.CalleeObj(com)
		return o != nil && strings.HasPrefix(core.ObjName(o), "github.com/nyaruka/gocommon/stringsx.Truncate")
	}
	helpers := map[*ssa.Function]helper{}
	for _, fn := range fns {
		for _, cs := range core.Calls(fn, false) {
			if !isTrunc(cs.Common()) || len(cs.Common().Args) < 2 {
				continue
			}
			h := helper{-1, -1}
			for i, prm := range fn.Params {
				if core.StripConv(cs.Common().Args[0]) == ssa.Value(prm) {
					h.text = i
				}
				if core.StripConv(cs.Common().Args[1]) == ssa.Value(prm) {
					h.limit = i
				}
			}
			if h.text >= 0 && h.limit >= 0 {
				helpers[fn] = h
			}
		}
	}
	n := 0
	per := map[string]int{}
	for _, fn := range fns {
		for _, cs := range core.Calls(fn, false) {
			var text, limit ssa.Value
			com := cs.Common()
			if isTrunc(com) && len(com.Args) >= 2 {
				text, limit = com.Args[0], com.Args[1]
			} else {
				g := com.StaticCallee()
				if g == nil {
					if mc, ok := derefLocal(com.Value).(*ssa.MakeClosure); ok {
						g, _ = mc.Fn.(*ssa.Function)
					}
				}
				if h, ok := helpers[g]; ok && h.text < len(com.Args) && h.limit < len(com.Args) {
					text, limit = com.Args[h.text], com.Args[h.limit]
				}
			}
			N, isC := int64(0), false
			if limit != nil {
				N, isC = core.ConstInt(limit)
			}
			if text == nil || !isC {
				continue
			}
			n++
			k := core.FuncName(rootFn(fn)) + "/truncate-to-" + fmt.Sprint(N)
			per[k]++
			key := k
			if per[k] > 1 {
				key = fmt.Sprintf("%s#%d", k, per[k])
			}
			bad := ""
			guards := 0
			for _, ce := range core.ControllingConds(cs.Instr.Block()) {
				c, ok := ce.Cond.(*ssa.BinOp)
				if !ok {
					continue
				}
				measured, isLen := isLenCall(c.X)
				kv := c.Y
				if !isLen {
					measured, isLen = isLenCall(c.Y)
					kv = c.X
				}
				K, isK := core.ConstInt(kv)
				if !isLen || !isK {
					continue
				}
				same := sameSeq(measured, text)
				switch {
				case same && K <= N:
					guards++
				case same && K > N:
					bad = fmt.Sprintf("the guard compares len(%s) with %d but the value is cut to %d: lengths in between are left too long", canonShort(text), K, N)
				case !same && K == N:
					bad = fmt.Sprintf("the guard measures %s but the truncation cuts %s: an over-long %s is kept whenever the other value is short", canonShort(measured), canonShort(text), canonShort(text))
				}
			}
			r.Check(bad == "", "R12", key, p.Pos(cs.Pos()), fmt.Sprintf("%d length guard(s), each on the truncated value with a bound <= %d", guards, N), bad+" — the migrated definition then fails validation at the current version")
		}
	}
	r.Require("truncation_sites", n, 2)
}

// ---------------------------------------------------------------------------------------------- R13

var c16DefinitionStructPkgs = []string{"flows/definition", "flows/actions", "flows/routers", "flows/routers/cases", "flows/routers/waits", "flows/routers/waits/hints"}

func c16R13(p *core.Program, r *core.Report) {
	n := 0
	for _, rel := range c16DefinitionStructPkgs {
		pk := p.Pkg(rel)
		if pk == nil {
			continue
		}
		scope := pk.Types.Scope()
		names := scope.Names()
		sort.Strings(names)
		for _, nm := range names {
			tn, ok := scope.Lookup(nm).(*types.TypeName)
			if !ok || p.IsTestFile(tn.Pos()) {
				continue
			}
			st, ok := tn.Type().Underlying().(*types.Struct)
			if !ok {
				continue
			}
			for i := 0; i < st.NumFields(); i++ {
				f := st.Field(i)
				tag := reflect.StructTag(st.Tag(i))
				js, hasJSON := tag.Lookup("json")
				if !hasJSON || js == "-" {
					continue
				}
				var elem types.Type
				switch t := f.Type().Underlying().(type) {
				case *types.Slice:
					elem = t.Elem()
				case *types.Map:
					elem = t.Elem()
				}
				if elem == nil {
					continue
				}
				pt, ok := elem.Underlying().(*types.Pointer)
				if !ok {
					continue
				}
				if _, isStruct := pt.Elem().Underlying().(*types.Struct); !isStruct {
					continue
				}
				n++
				parts := strings.Split(tag.Get("validate"), ",")
				ok = false
				for k, pa := range parts {
					if pa == "dive" {
						for _, after := range parts[k+1:] {
							if after == "required" {
								ok = true
							}
						}
					}
				}
				r.Check(ok, "R13", rel+"."+nm+"."+f.Name()+"/null-elements-rejected", p.Pos(f.Pos()), "validate:\""+tag.Get("validate")+"\"",
					fmt.Sprintf("member %q of %s.%s is decoded into %s without `dive,required`: a definition with a null element loads, and the code that ranges over it dereferences the nil pointer (panic while validating the flow or while running it)", strings.Split(js, ",")[0], rel, nm, core.ShortType(f.Type())))
			}
		}
	}
	r.Require("pointer_collection_members", n, 7)
}

// ---------------------------------------------------------------------------------------------- R15

// c16R17: comparison functions read both elements alike.
func c16R17(p *core.Program, r *core.Report) {
	n := 0
	per := map[string]int{}
	for _, fn := range p.ModuleFunctions() {
		if !strings.HasPrefix(core.RelPkg(core.FuncPkgPath(fn)), "flows/definition") || p.IsTestFile(fn.Pos()) {
			continue
		}
		for _, cs := range core.Calls(fn, false) {
			o := core.CalleeObj(cs.Common())
			if o == nil || o.Pkg() == nil || o.Pkg().Path() != "sort" || (o.Name() != "Slice" && o.Name() != "SliceStable") || len(cs.Common().Args) < 2 {
				continue
			}
			var less *ssa.Function
			switch x := cs.Common().Args[1].(type) {
			case *ssa.MakeClosure:
				less, _ = x.Fn.(*ssa.Function)
			case *ssa.Function:
				less = x
			}
			if less == nil || len(less.Params) != 2 {
				continue
			}
			n++
			reads := [2]int{}
			core.EachInstr(less, false, func(_ *ssa.Function, in ssa.Instruction) {
				var idx ssa.Value
				switch x := in.(type) {
				case *ssa.IndexAddr:
					idx = x.Index
				case *ssa.Index:
					idx = x.Index
				}
				for k := 0; k < 2; k++ {
					if idx == ssa.Value(less.Params[k]) {
						reads[k]++
					}
				}
			})
			k := core.FuncName(fn)
			per[k]++
			key := k + "/less"
			if per[k] > 1 {
				key = fmt.Sprintf("%s#%d", key, per[k])
			}
			r.Check(reads[0] == reads[1], "R17", key+"/reads-both-sides-alike", p.Pos(cs.Pos()), fmt.Sprintf("%d reads of each element", reads[0]),
				fmt.Sprintf("the comparison function reads the element at its first index %d times and the one at its second %d times: it special-cases one side only and is not an ordering", reads[0], reads[1]))
		}
	}
	r.Count("sort_comparators_in_definition_packages", n)
	r.Require("sort_comparators_in_definition_packages", n, 1)
}

// c16R16: de-duplication maps of the legacy migration are keyed by the name the merged object gets.
func c16R16(p *core.Program, r *core.Report) {
	n := 0
	for _, fn := range p.ModuleFunctions() {
		if core.RelPkg(core.FuncPkgPath(fn)) != "flows/definition/legacy" || p.IsTestFile(fn.Pos()) || fn.Synthetic != "" {
			continue
		}
		lookups := map[ssa.Value][]*ssa.Lookup{}
		updates := map[ssa.Value][]*ssa.MapUpdate{}
		var maps []ssa.Value // in instruction order, so that the ordinals are stable
		core.EachInstr(fn, false, func(_ *ssa.Function, in ssa.Instruction) {
			switch x := in.(type) {
			case *ssa.Lookup:
				if mt, ok := x.X.Type().Underlying().(*types.Map); ok && isStringType(mt.Key()) {
					if _, isPtr := mt.Elem().Underlying().(*types.Pointer); isPtr {
						if len(lookups[x.X]) == 0 {
							maps = append(maps, x.X)
						}
						lookups[x.X] = append(lookups[x.X], x)
					}
				}
			case *ssa.MapUpdate:
				if mt, ok := x.Map.Type().Underlying().(*types.Map); ok && isStringType(mt.Key()) {
					updates[x.Map] = append(updates[x.Map], x)
				}
			}
		})
		ord := 0
		for _, m := range maps {
			// the idiom: looked up and then inserted in the same pass of the same loop
			var ls []*ssa.Lookup
			var us []*ssa.MapUpdate
			for _, l := range lookups[m] {
				for _, u := range updates[m] {
					h := innermostLoopHeader(l.Block())
					if h != nil && h == innermostLoopHeader(u.Block()) && (l.Block() == u.Block() || core.Reachable(l.Block(), map[*ssa.BasicBlock]bool{h: true})[u.Block()]) {
						ls = append(ls, l)
						us = append(us, u)
					}
				}
			}
			if len(us) == 0 {
				continue
			}
			if _, isMake := m.(*ssa.MakeMap); !isMake {
				continue // a map that is filled in this very function: the de-duplication idiom
			}
			n++
			ord++
			key := fmt.Sprintf("%s/dedup-map#%d", core.FuncName(fn), ord)
			bad := ""
			for _, l := range ls {
				same := core.BackSlice(l.Index, nil)
				for _, u := range us {
					if !same[core.StripConv(u.Key)] && u.Key != l.Index {
						bad = "the insert at " + p.Pos(u.Pos()) + " uses another key than the lookup"
					}
				}
				// the key names what is created: it is an argument of a constructor call of this package in the function
				named := false
				for _, cs := range core.Calls(fn, false) {
					g := cs.Common().StaticCallee()
					if g == nil || core.FuncPkgPath(g) != core.FuncPkgPath(fn) {
						continue
					}
					for _, a := range cs.Common().Args {
						if a == l.Index || core.StripConv(a) == core.StripConv(l.Index) {
							named = true
						}
					}
				}
				if !named && bad == "" {
					bad = "the key of the lookup at " + p.Pos(l.Pos()) + " is not what the created object is named by: it is derived (folded, trimmed, …) from the name, so objects with different names are merged"
				}
			}
			r.Check(bad == "", "R16", key, p.Pos(ls[0].Pos()), "looked up, inserted and named by one value", "in "+core.FuncName(fn)+" "+bad+" — two legacy rules whose categories differ end up in one category with one exit, and the other rule's destination is no longer reachable in the migrated flow")
		}
	}
	r.Count("legacy_dedup_maps", n)
	r.Require("legacy_dedup_maps", n, 1)
}

func c16R15(p *core.Program, r *core.Report, fns []*ssa.Function) {
	n := 0
	for _, fn := range fns {
		ord := 0
		core.EachInstr(fn, false, func(_ *ssa.Function, in ssa.Instruction) {
			hi, ok := in.(*ssa.BinOp)
			if !ok || (hi.Op != token.LEQ && hi.Op != token.LSS) {
				return
			}
			k, ok := core.ConstInt(hi.Y)
			if !ok || !((hi.Op == token.LEQ && k == '9') || (hi.Op == token.LSS && k == '9'+1)) {
				return
			}
			if bt, ok := hi.X.Type().Underlying().(*types.Basic); !ok || (bt.Kind() != types.Uint8 && bt.Kind() != types.Int32) {
				return
			}
			// the lower bound tested on the same value in this function
			core.EachInstr(fn, false, func(_ *ssa.Function, in2 ssa.Instruction) {
				lo, ok := in2.(*ssa.BinOp)
				if !ok || lo.X != hi.X || (lo.Op != token.GEQ && lo.Op != token.GTR) {
					return
				}
				lk, ok := core.ConstInt(lo.Y)
				if !ok {
					return
				}
				if lo.Op == token.GTR {
					lk++
				}
				if lk < '0' || lk > '9' {
					return
				}
				n++
				ord++
				r.Check(lk == '0', "R15", fmt.Sprintf("%s/digit-range#%d", core.FuncName(fn), ord), p.Pos(lo.Pos()), "'0'..'9'", fmt.Sprintf("the digit range tested here starts at %q, not '0': input whose first digit is below it is not recognised as a number", rune(lk)))
			})
		})
	}
	r.Count("digit_range_tests", n) // zero when the test is written with unicode.IsDigit: nothing to check then
}
