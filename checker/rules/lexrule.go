package rules

import (
	"fmt"
	"os"
	"path/filepath"
	"regexp"
	"sort"
	"strings"
)

// Regular-language reasoning about quoted-literal lexer rules of the ANTLR grammars, over the abstract alphabet
// {q = the quote character, b = backslash, o = any other character}. The rule text is read from the .g4 file
// (the generated lexer's serialized ATN is not decoded: the grammar is the source it was generated from).

type symSet uint8 // bit 0 = q, bit 1 = b, bit 2 = o

const (
	symQ symSet = 1
	symB symSet = 2
	symO symSet = 4
)

var symNames = []string{"q", "b", "o"}

type nfa struct {
	n      int
	eps    map[int][]int
	trans  map[int][]nfaEdge
	start  int
	accept int
}

type nfaEdge struct {
	on symSet
	to int
}

func (a *nfa) newState() int { a.n++; return a.n - 1 }

// grammarRule extracts the body of a lexer rule `NAME: ... ;` from a .g4 file.
func grammarRule(repo, file, name string) (string, error) {
	b, err := os.ReadFile(filepath.Join(repo, "antlr", file))
	if err != nil {
		return "", err
	}
	re := regexp.MustCompile(`(?ms)^(?:fragment\s+)?` + regexp.QuoteMeta(name) + `\s*:(.*?);\s*$`)
	// rule bodies may contain ';' inside quotes only rarely; take the shortest match that ends a line
	m := re.FindStringSubmatch(string(b))
	if m == nil {
		return "", fmt.Errorf("rule %s not found in %s", name, file)
	}
	return strings.TrimSpace(m[1]), nil
}

// rule parser for the subset: 'literal' [set] ~[set] ~'c' . ( ) | * + ?
type ruleParser struct {
	s     string
	i     int
	quote byte
	a     *nfa
	err   error
}

func classify(c byte, quote byte) symSet {
	switch c {
	case quote:
		return symQ
	case '\\':
		return symB
	}
	return symO
}

func (p *ruleParser) ws() {
	for p.i < len(p.s) && (p.s[p.i] == ' ' || p.s[p.i] == '\t' || p.s[p.i] == '\n' || p.s[p.i] == '\r') {
		p.i++
	}
}

// each parse function returns (start, end) states of a fragment
func (p *ruleParser) alt() (int, int) {
	s, e := p.a.newState(), p.a.newState()
	for {
		fs, fe := p.seq()
		p.a.eps[s] = append(p.a.eps[s], fs)
		p.a.eps[fe] = append(p.a.eps[fe], e)
		p.ws()
		if p.i < len(p.s) && p.s[p.i] == '|' {
			p.i++
			continue
		}
		break
	}
	return s, e
}

func (p *ruleParser) seq() (int, int) {
	s := p.a.newState()
	cur := s
	for {
		p.ws()
		if p.i >= len(p.s) || p.s[p.i] == '|' || p.s[p.i] == ')' {
			break
		}
		fs, fe := p.atomPostfix()
		if p.err != nil {
			return s, cur
		}
		p.a.eps[cur] = append(p.a.eps[cur], fs)
		cur = fe
	}
	return s, cur
}

func (p *ruleParser) atomPostfix() (int, int) {
	fs, fe := p.atom()
	p.ws()
	for p.i < len(p.s) && (p.s[p.i] == '*' || p.s[p.i] == '+' || p.s[p.i] == '?') {
		op := p.s[p.i]
		p.i++
		ns, ne := p.a.newState(), p.a.newState()
		p.a.eps[ns] = append(p.a.eps[ns], fs)
		p.a.eps[fe] = append(p.a.eps[fe], ne)
		if op == '*' || op == '?' {
			p.a.eps[ns] = append(p.a.eps[ns], ne)
		}
		if op == '*' || op == '+' {
			p.a.eps[fe] = append(p.a.eps[fe], fs)
		}
		fs, fe = ns, ne
		p.ws()
	}
	return fs, fe
}

func (p *ruleParser) readEscaped() byte {
	// after a backslash inside a literal or set
	if p.i >= len(p.s) {
		p.err = fmt.Errorf("dangling escape")
		return 0
	}
	c := p.s[p.i]
	p.i++
	switch c {
	case 'n':
		return '\n'
	case 't':
		return '\t'
	case 'r':
		return '\r'
	}
	return c // \\ \" \' \] \-
}

func (p *ruleParser) atom() (int, int) {
	p.ws()
	if p.i >= len(p.s) {
		p.err = fmt.Errorf("unexpected end")
		return 0, 0
	}
	neg := false
	if p.s[p.i] == '~' {
		neg = true
		p.i++
		p.ws()
	}
	switch c := p.s[p.i]; {
	case c == '(':
		if neg {
			p.err = fmt.Errorf("negated group unsupported")
			return 0, 0
		}
		p.i++
		s, e := p.alt()
		p.ws()
		if p.i >= len(p.s) || p.s[p.i] != ')' {
			p.err = fmt.Errorf("missing )")
			return s, e
		}
		p.i++
		return s, e
	case c == '.':
		p.i++
		s, e := p.a.newState(), p.a.newState()
		p.a.trans[s] = append(p.a.trans[s], nfaEdge{symQ | symB | symO, e})
		return s, e
	case c == '\'':
		p.i++
		var chars []byte
		for p.i < len(p.s) && p.s[p.i] != '\'' {
			ch := p.s[p.i]
			p.i++
			if ch == '\\' {
				ch = p.readEscaped()
			}
			chars = append(chars, ch)
		}
		p.i++ // closing '
		if neg {
			if len(chars) != 1 {
				p.err = fmt.Errorf("negated multi-char literal")
				return 0, 0
			}
			set := (symQ | symB | symO) &^ exactOnly(classify(chars[0], p.quote))
			// negating one "other" character still leaves other characters
			if classify(chars[0], p.quote) == symO {
				set = symQ | symB | symO
			}
			s, e := p.a.newState(), p.a.newState()
			p.a.trans[s] = append(p.a.trans[s], nfaEdge{set, e})
			return s, e
		}
		s := p.a.newState()
		cur := s
		for _, ch := range chars {
			nx := p.a.newState()
			p.a.trans[cur] = append(p.a.trans[cur], nfaEdge{classify(ch, p.quote), nx})
			cur = nx
		}
		return s, cur
	case c == '[':
		p.i++
		var set symSet
		for p.i < len(p.s) && p.s[p.i] != ']' {
			ch := p.s[p.i]
			p.i++
			if ch == '\\' {
				ch = p.readEscaped()
			}
			set |= classify(ch, p.quote)
		}
		p.i++
		if neg {
			// the complement of a finite set always contains other characters; q / b are excluded only if listed
			set = (symQ | symB | symO) &^ (set & (symQ | symB))
		}
		s, e := p.a.newState(), p.a.newState()
		p.a.trans[s] = append(p.a.trans[s], nfaEdge{set, e})
		return s, e
	default:
		// reference to another rule/fragment (UnicodeLetter ...): letters and digits are "other"
		j := p.i
		for j < len(p.s) && (p.s[j] == '_' || (p.s[j] >= 'A' && p.s[j] <= 'Z') || (p.s[j] >= 'a' && p.s[j] <= 'z') || (p.s[j] >= '0' && p.s[j] <= '9')) {
			j++
		}
		if j == p.i {
			p.err = fmt.Errorf("unexpected %q at %d", p.s[p.i], p.i)
			return 0, 0
		}
		p.i = j
		s, e := p.a.newState(), p.a.newState()
		set := symO
		if neg {
			set = symQ | symB | symO
		}
		p.a.trans[s] = append(p.a.trans[s], nfaEdge{set, e})
		return s, e
	}
}

func exactOnly(s symSet) symSet { return s }

func parseLexRule(body string, quote byte) (*nfa, error) {
	a := &nfa{eps: map[int][]int{}, trans: map[int][]nfaEdge{}}
	p := &ruleParser{s: body, quote: quote, a: a}
	s, e := p.alt()
	p.ws()
	if p.err != nil {
		return nil, p.err
	}
	if p.i != len(p.s) {
		return nil, fmt.Errorf("trailing input at %d: %q", p.i, p.s[p.i:])
	}
	a.start, a.accept = s, e
	return a, nil
}

// --- subset construction
type dfa struct {
	states [][]int // NFA state sets
	trans  []map[symSet]int
	accept []bool
}

func (a *nfa) closure(set map[int]bool) {
	var stack []int
	for s := range set {
		stack = append(stack, s)
	}
	for len(stack) > 0 {
		s := stack[len(stack)-1]
		stack = stack[:len(stack)-1]
		for _, t := range a.eps[s] {
			if !set[t] {
				set[t] = true
				stack = append(stack, t)
			}
		}
	}
}

func keyOf(set map[int]bool) string {
	var ks []int
	for k := range set {
		ks = append(ks, k)
	}
	sort.Ints(ks)
	return fmt.Sprint(ks)
}

func (a *nfa) determinize() *dfa {
	d := &dfa{}
	index := map[string]int{}
	start := map[int]bool{a.start: true}
	a.closure(start)
	add := func(set map[int]bool) int {
		k := keyOf(set)
		if i, ok := index[k]; ok {
			return i
		}
		var ks []int
		for s := range set {
			ks = append(ks, s)
		}
		sort.Ints(ks)
		index[k] = len(d.states)
		d.states = append(d.states, ks)
		d.trans = append(d.trans, map[symSet]int{})
		d.accept = append(d.accept, set[a.accept])
		return len(d.states) - 1
	}
	add(start)
	for i := 0; i < len(d.states); i++ {
		for _, sym := range []symSet{symQ, symB, symO} {
			next := map[int]bool{}
			for _, s := range d.states[i] {
				for _, e := range a.trans[s] {
					if e.on&sym != 0 {
						next[e.to] = true
					}
				}
			}
			if len(next) == 0 {
				continue
			}
			a.closure(next)
			d.trans[i][sym] = add(next)
		}
	}
	return d
}

// prefixAmbiguity: a shortest pair (w, w·s) of accepted words with s non-empty, rendered over {q,b,o}; "" if none.
func (d *dfa) prefixAmbiguity() string {
	// BFS from start recording words; for every accepting state reached by word w, BFS onward for a non-empty suffix
	type item struct {
		st   int
		word string
	}
	seen := map[int]bool{0: true}
	queue := []item{{0, ""}}
	name := func(s symSet) string { return symNames[map[symSet]int{symQ: 0, symB: 1, symO: 2}[s]] }
	for len(queue) > 0 {
		it := queue[0]
		queue = queue[1:]
		if d.accept[it.st] {
			seen2 := map[int]bool{}
			q2 := []item{{it.st, ""}}
			for len(q2) > 0 {
				jt := q2[0]
				q2 = q2[1:]
				for _, sym := range []symSet{symQ, symB, symO} {
					nx, ok := d.trans[jt.st][sym]
					if !ok {
						continue
					}
					w := jt.word + name(sym)
					if d.accept[nx] {
						return it.word + " | " + it.word + w
					}
					if !seen2[nx] {
						seen2[nx] = true
						q2 = append(q2, item{nx, w})
					}
				}
			}
		}
		for _, sym := range []symSet{symQ, symB, symO} {
			nx, ok := d.trans[it.st][sym]
			if ok && !seen[nx] {
				seen[nx] = true
				queue = append(queue, item{nx, it.word + name(sym)})
			}
		}
	}
	return ""
}

// accepts reports whether the DFA accepts the abstract word.
func (d *dfa) accepts(word string) bool {
	st := 0
	for _, c := range word {
		sym := map[rune]symSet{'q': symQ, 'b': symB, 'o': symO}[c]
		nx, ok := d.trans[st][sym]
		if !ok {
			return false
		}
		st = nx
	}
	return d.accept[st]
}

// quoteImage: the abstract image of strconv.Quote(s) for s over {q,b,o}: q -> b q, b -> b b, o -> o, wrapped in quotes.
func quoteImage(s string) string {
	var sb strings.Builder
	sb.WriteByte('q')
	for _, c := range s {
		switch c {
		case 'q':
			sb.WriteString("bq")
		case 'b':
			sb.WriteString("bb")
		default:
			sb.WriteByte('o')
		}
	}
	sb.WriteByte('q')
	return sb.String()
}

// quotedLiteralFindings: for all abstract strings up to length n, the quoted form must be accepted by the rule and must
// not be a proper prefix of, or have a proper prefix that is, another accepted word reachable by appending more input
// (checked globally by prefixAmbiguity); returns the first string whose quoted form the rule rejects.
func (d *dfa) firstRejectedQuote(n int) (string, bool) {
	var gen func(prefix string, k int) (string, bool)
	gen = func(prefix string, k int) (string, bool) {
		if !d.accepts(quoteImage(prefix)) {
			return prefix, true
		}
		if k == 0 {
			return "", false
		}
		for _, c := range "qbo" {
			if r, bad := gen(prefix+string(c), k-1); bad {
				return r, true
			}
		}
		return "", false
	}
	return gen("", n)
}
