package rules

import (
	"fmt"
	"go/constant"
	"go/token"
	"go/types"
	"regexp"
	"regexp/syntax"
	"sort"
	"strings"
	"unicode"

	"golang.org/x/tools/go/ssa"

	"verif/checker/core"
)

func init() { register("C14", checkC14) }

// derivesFromCallNamed: v's provenance (through string helpers) includes a call of the named function.
func derivesFromCallNamed(v ssa.Value, name string) *ssa.Call {
	for x := range core.BackSlice(v, func(c *ssa.Call) bool {
		o := core.CalleeObj(&c.Call)
		return o != nil && (strings.HasPrefix(core.ObjName(o), "strings.") || strings.HasPrefix(core.ObjName(o), "fmt."))
	}) {
		if c, ok := x.(*ssa.Call); ok {
			if o := core.CalleeObj(&c.Call); o != nil && core.ObjName(o) == name {
				return c
			}
		}
	}
	return nil
}

// c14Ctx: the call through which the function a value lives in was entered from the function a rule looks at (nil:
// the value lives in that function itself). A parameter of the helper stands for the argument of that call.
type c14Ctx struct {
	call *ssa.Call
	up   *c14Ctx
}

func (c *c14Ctx) depth() int {
	n := 0
	for ; c != nil; c = c.up {
		n++
	}
	return n
}

// c14Site: a call made on behalf of a function, with the helper calls entered to reach it.
type c14Site struct {
	call *ssa.Call
	ctx  *c14Ctx
}

// c14Enterable: the function of package pkg, with a body, that c calls statically (a helper a refactoring may have extracted).
func c14Enterable(c *ssa.Call, pkg string) *ssa.Function {
	g := c.Call.StaticCallee()
	if g == nil || len(g.Blocks) == 0 || core.FuncPkgPath(g) != pkg {
		return nil
	}
	return g
}

// c14CallsOnBehalf: the calls of the named function made by fn itself or, up to depth levels down, by the functions of
// its own package that it calls statically.
func c14CallsOnBehalf(fn *ssa.Function, depth int, match func(o *types.Func) bool) []c14Site {
	var out []c14Site
	pkg := core.FuncPkgPath(fn)
	var walk func(f *ssa.Function, ctx *c14Ctx, seen map[*ssa.Function]bool)
	walk = func(f *ssa.Function, ctx *c14Ctx, seen map[*ssa.Function]bool) {
		for _, cs := range core.Calls(f, false) {
			c, ok := cs.Instr.(*ssa.Call)
			if !ok {
				continue
			}
			if o := core.CalleeObj(&c.Call); o != nil && match(o) {
				out = append(out, c14Site{c, ctx})
			}
			g := c14Enterable(c, pkg)
			if g == nil || ctx.depth() >= depth || seen[g] {
				continue
			}
			seen[g] = true
			walk(g, &c14Ctx{c, ctx}, seen)
			delete(seen, g)
		}
	}
	walk(fn, nil, map[*ssa.Function]bool{fn: true})
	return out
}

// c14Slice is core.BackSlice continued across the functions of package pkg: a parameter of a helper entered through
// ctx is continued in the argument of that call, and the result of a call of a helper (up to depth levels down) is
// continued in what the helper returns — such a call is entered instead of being followed through its arguments.
// visit sees every value with the context it lives in.
func c14Slice(v ssa.Value, ctx *c14Ctx, pkg string, depth int, follow func(*ssa.Call) bool, visit func(x ssa.Value, ctx *c14Ctx)) {
	type key struct {
		v   ssa.Value
		ctx *c14Ctx
	}
	type ckey struct {
		c   *ssa.Call
		ctx *c14Ctx
	}
	seen := map[key]bool{}
	entered := map[ckey]*c14Ctx{}
	var walk func(v ssa.Value, ctx *c14Ctx)
	walk = func(v ssa.Value, ctx *c14Ctx) {
		if v == nil || seen[key{v, ctx}] {
			return
		}
		seen[key{v, ctx}] = true
		enter := func(c *ssa.Call) *ssa.Function {
			if ctx.depth() >= depth {
				return nil
			}
			return c14Enterable(c, pkg)
		}
		for x := range core.BackSlice(v, func(c *ssa.Call) bool { return enter(c) == nil && follow != nil && follow(c) }) {
			if x != v {
				if seen[key{x, ctx}] {
					continue
				}
				seen[key{x, ctx}] = true
			}
			visit(x, ctx)
			switch y := x.(type) {
			case *ssa.Parameter:
				if ctx == nil {
					continue
				}
				for i, fp := range y.Parent().Params {
					if fp == y && y.Parent() == ctx.call.Call.StaticCallee() && i < len(ctx.call.Call.Args) {
						walk(ctx.call.Call.Args[i], ctx.up)
					}
				}
			case *ssa.Call:
				g := enter(y)
				if g == nil {
					continue
				}
				sub := entered[ckey{y, ctx}]
				if sub == nil {
					sub = &c14Ctx{y, ctx}
					entered[ckey{y, ctx}] = sub
				}
				for _, ret := range core.Returns(g) {
					for _, rv := range ret.Results {
						walk(rv, sub)
					}
				}
			}
		}
	}
	walk(v, ctx)
}

// c14Canon: recvCanon of v in terms of root, for a value that lives in a helper entered through ctx: a parameter of
// the helper is the argument it was called with, a field of the helper's receiver is that field of root's receiver when
// the helper was called on it.
func c14Canon(v ssa.Value, ctx *c14Ctx, root *ssa.Function) string {
	v = core.StripConv(v)
	if ctx == nil {
		return recvCanon(v, root)
	}
	g := ctx.call.Call.StaticCallee()
	args := ctx.call.Call.Args
	if prm, ok := v.(*ssa.Parameter); ok && g != nil {
		for i, fp := range g.Params {
			if fp == prm && i < len(args) {
				return c14Canon(args[i], ctx.up, root)
			}
		}
	}
	s := recvCanon(v, g)
	if strings.HasPrefix(s, "recv.") {
		if len(args) > 0 && c14Canon(args[0], ctx.up, root) == "recv" {
			return s
		}
		return "?" + s
	}
	return s
}

// lexStringRule checks a quoted-literal lexer rule for termination ambiguity and for acceptance of every strconv.Quote image.
func lexStringRule(p *core.Program, r *core.Report, rule, file, name string) {
	body, err := grammarRule(p.Repo, file, name)
	if err != nil {
		r.Errorf("%v", err)
		return
	}
	a, err := parseLexRule(body, '"')
	if err != nil {
		r.Unknown(rule, file+":"+name+"/parse", "antlr/"+file, "lexer rule has a shape the regular-language model does not know: "+err.Error()+" ("+body+")")
		return
	}
	d := a.determinize()
	r.Count("lexrule_dfa_states", len(d.states))
	amb := d.prefixAmbiguity()
	r.Check(amb == "", rule, file+":"+name+"/termination-unambiguous", "antlr/"+file, "no accepted literal is a proper prefix of another accepted literal",
		fmt.Sprintf("lexer rule %s: %s is ambiguous about where a literal ends: over {q=quote, b=backslash, o=other} both words of the pair [%s] are accepted, so the token boundary depends on what follows (a value ending in a backslash swallows the following text up to the next quote)", name, body, amb))
	if rej, bad := d.firstRejectedQuote(4); bad {
		r.Bad(rule, file+":"+name+"/accepts-quoted-values", "antlr/"+file, fmt.Sprintf("the quoted form %s of the abstract value %q is not accepted by the rule", quoteImage(rej), rej))
	} else {
		r.OK(rule, file+":"+name+"/accepts-quoted-values", "antlr/"+file, "the strconv.Quote image of every abstract value up to length 4 is accepted")
	}
}

// c14R8: explicit conditions carry the literal's value unchanged.
func c14R8(p *core.Program, r *core.Report) {
	vc := p.Method("contactql", "visitor", "VisitCondition")
	if vc == nil {
		r.Errorf("contactql visitor.VisitCondition not found")
		return
	}
	n := 0
	for _, ec := range core.EffectiveCalls(vc, 2) {
		g := ec.Inner.Common().StaticCallee()
		if g == nil || g.Name() != "NewCondition" || len(ec.Inner.Common().Args) < 4 {
			continue
		}
		n++
		val := ec.Inner.Common().Args[3]
		// a helper's parameter is what VisitCondition passed
		if prm, ok := core.StripConv(val).(*ssa.Parameter); ok && ec.Outer != ec.Inner.Instr {
			if outer, isCall := ec.Outer.(*ssa.Call); isCall {
				for k, fp := range prm.Parent().Params {
					if fp == prm && k < len(outer.Call.Args) {
						val = outer.Call.Args[k]
					}
				}
			}
		}
		why := ""
		for w := range core.BackSlice(val, nil) {
			if c, ok := w.(*ssa.Call); ok {
				if o := core.CalleeObj(&c.Call); o == nil || (o.Name() != "Visit" && o.Name() != "Accept") {
					name := "a call"
					if o != nil {
						name = core.ObjName(o)
					}
					why = "it went through " + name + " (" + p.Pos(c.Pos()) + ")"
				}
			}
		}
		r.Check(why == "", "R8", fmt.Sprintf("VisitCondition/NewCondition#%d/value-as-written", n), p.Pos(ec.Inner.Pos()), "the value is what visiting the literal returned", "the value of an explicit condition is not the literal as written: "+why)
	}
	r.Count("explicit_condition_constructions", n)
	r.Require("explicit_condition_constructions", n, 1)
}

func checkC14(p *core.Program, r *core.Report) {
	r.Rule("R1", "escaping is applied everywhere and pairs with the reader: every evaluation of a contact_query template passes flows.ContactQueryEscaping; ContactQueryEscaping and Condition.String derive their quoted output from strconv.Quote; VisitStringLiteral derives from strconv.Unquote; the regexp that licenses unquoted output only admits characters of the grammar's TEXT token")
	r.Rule("R2", "the STRING lexer rule is termination-unambiguous (no accepted literal is a proper prefix of another) and accepts every strconv.Quote image, over the abstract alphabet {quote, backslash, other}")
	r.Rule("R3", "operator tables: every Operator constant is a COMPARATOR literal of the grammar; aliases map grammar fragments to operators; Condition.String prints the condition's own operator; BoolCombination.String always parenthesises and joins with its own operator")
	r.Rule("R4", "property prefixes: the writer's `fields.` / `urns.` prefixes pair with the reader's prefix arms and property types")
	r.Rule("R5", "structure is kept by the parser's own rewriting: every type switch over QueryNode in contactql covers both node types, and Simplify flattens only children with the same operator and keeps their order (shared with C15/R5)")
	r.Rule("R8", "an explicit condition keeps the value that was written: every contactql.NewCondition made on behalf of visitor.VisitCondition (directly or in a helper of the package) gets as its value what visiting the literal returned, with no call in between — only the implicit conditions (a bare phone number) may clean their text; a tel value stripped to digits in an explicit condition makes `urns.tel = \"n/a\"` an existence test and a built query not parse back to itself")
	c14R8(p, r)
	r.Rule("R7", "what is printed is accepted again: Condition.String writes every URN condition in the prefixed form (`urns.tel = …`), the parser accepts URN conditions in three spellings, and each spelling has its own arm in the condition visitor — the arms that reject a condition under URN redaction exempt the same conditions (the set / not-set checks, value == \"\"): a stricter arm for one spelling makes the printed form of an accepted query unparseable")
	c14R7(p, r)
	r.Rule("R6", "the lexer reads the query text as given: what ParseQuery hands to antlr.NewInputStream is its text parameter after strings.TrimSpace, or the whole-text phone number rewrite `tel = <number>`; no other call may transform the text (a rewrite before lexing also rewrites the inside of quoted, escaped literals)")
	r.Assumption("strconv.Quote/Unquote are inverse; structural identity of re-parsed queries for all inputs is not decided")
	c15R5(p, r, p.Func("contactql", "evaluateNode"))
	c14R6(p, r)

	// ------------------------------------------------------------------ R1
	esc := p.Func("flows", "ContactQueryEscaping")
	if esc == nil {
		r.Errorf("flows.ContactQueryEscaping not found")
		return
	}
	// EVERY return is the quoted argument: a path that hands a value back as it came (because it "is already quoted")
	// is a path on which the value is not one literal
	okEsc := len(core.Returns(esc)) > 0
	for _, ret := range core.Returns(esc) {
		if c := derivesFromCallNamed(ret.Results[0], "strconv.Quote"); c == nil || c.Call.Args[0] != ssa.Value(esc.Params[0]) {
			okEsc = false
		}
	}
	r.Check(okEsc, "R1", "flows.ContactQueryEscaping/strconv.Quote", p.Pos(esc.Pos()), "returns strconv.Quote(s)", "the escaping function for contact-query templates does not quote its argument with strconv.Quote (the reader unquotes with strconv.Unquote)")
	// inside the evaluator: the escaping function is applied to every evaluated value — whether it runs depends only on
	// escaping != nil, the token type and the error test of the value
	{
		// wherever a value of type excellent.Escaping is called (the evaluator's per-token code, as a function literal
		// or as a method the literal hands its arguments to)
		isEscaping := func(t types.Type) bool {
			n, ok := t.(*types.Named)
			return ok && n.Obj().Name() == "Escaping" && n.Obj().Pkg() != nil && core.RelPkg(n.Obj().Pkg().Path()) == "excellent"
		}
		nEsc := 0
		for _, fn := range p.ModuleFunctions() {
			if core.RelPkg(core.FuncPkgPath(fn)) != "excellent" || p.IsTestFile(fn.Pos()) {
				continue
			}
			core.EachInstr(fn, false, func(f *ssa.Function, in ssa.Instruction) {
				ci, ok := in.(ssa.CallInstruction)
				if !ok || ci.Common().IsInvoke() || ci.Common().StaticCallee() != nil || !isEscaping(ci.Common().Value.Type()) {
					return
				}
				nEsc++
				extra := ""
				for _, ce := range core.MayConds(in.Block()) {
					benign := false
					switch c := ce.Cond.(type) {
					case *ssa.BinOp:
						// escaping != nil, tokenType == K
						if core.IsNilConst(c.X) || core.IsNilConst(c.Y) {
							benign = true
						}
						if _, isC := core.ConstInt(c.Y); isC {
							benign = true
						}
						if _, isC := core.ConstInt(c.X); isC {
							benign = true
						}
					case *ssa.Call:
						if o := core.CalleeObj(&c.Call); o != nil && core.ObjName(o) == "excellent/types.IsXError" {
							benign = true
						}
					}
					if !benign {
						extra = canonShort(ce.Cond) + " at " + p.Pos(ce.If.Pos())
					}
				}
				r.Check(extra == "", "R1", "Evaluator.Template/escaping-applied-to-every-value", p.Pos(in.Pos()), "depends only on escaping != nil, the token type and the value not being an error",
					"whether an evaluated value is passed through the escaping function also depends on "+extra+": a value skipped there is substituted into a contact query as zero tokens (or unescaped) instead of one literal")
			})
		}
		r.Require("escaping_call_sites", nEsc, 1)
	}
	// evaluation sites of contact_query templates
	nQ := 0
	for _, cs := range p.AllCalls() {
		o := core.CalleeObj(cs.Common())
		if o == nil || p.IsTestFile(cs.Pos()) {
			continue
		}
		n := core.ObjName(o)
		if n != "flows.Run.EvaluateTemplateText" && n != "flows.Run.EvaluateTemplate" && n != "flows.Run.EvaluateTemplateValue" {
			continue
		}
		isQuery := false
		for v := range core.BackSlice(cs.Common().Args[0], nil) {
			if fa, ok := v.(*ssa.FieldAddr); ok {
				if fv := core.FieldAddrVar(fa); fv != nil && fv.Name() == "ContactQuery" {
					isQuery = true
				}
			}
		}
		if !isQuery {
			continue
		}
		nQ++
		key := core.FuncName(cs.Caller) + "/contact_query-evaluated-with-escaping"
		ok := false
		if n == "flows.Run.EvaluateTemplateText" {
			ea := core.StripConv(cs.Common().Args[1])
			if f, isFn := ea.(*ssa.Function); isFn && f == esc {
				ok = true
			}
		}
		r.Check(ok, "R1", key, p.Pos(cs.Pos()), "EvaluateTemplateText(query, flows.ContactQueryEscaping, ...)", "a contact_query template is evaluated without the contact-query escaping: substituted values can add, drop or alter conditions")
	}
	r.Require("contact_query_evaluation_sites", nQ, 1)
	// Condition.String
	cstr := p.Method("contactql", "Condition", "String")
	vsl := p.Method("contactql", "visitor", "VisitStringLiteral")
	if cstr == nil || vsl == nil {
		r.Errorf("Condition.String / visitor.VisitStringLiteral not found")
		return
	}
	// the quoting may sit in a helper of the package that Condition.String calls (quoteCtx: the helper calls entered)
	var quoteCall *ssa.Call
	var quoteCtx *c14Ctx
	for _, st := range c14CallsOnBehalf(cstr, 2, func(o *types.Func) bool { return core.ObjName(o) == "strconv.Quote" }) {
		quoteCall, quoteCtx = st.call, st.ctx
	}
	okQ := false
	var unquotedGuard *ssa.Call
	if quoteCall != nil {
		// argument is c.value; the unquoted alternative is licensed by a regexp match on the same value
		if c14Canon(quoteCall.Call.Args[0], quoteCtx, cstr) == "recv.value" {
			okQ = true
		}
		// what decides whether the value is quoted: the conditions around the call, and around the helper calls that lead to it
		conds := core.ControllingConds(quoteCall.Block())
		for c := quoteCtx; c != nil; c = c.up {
			conds = append(conds, core.ControllingConds(c.call.Block())...)
		}
		for _, ce := range conds {
			cond := ce.Cond
			if u, ok := cond.(*ssa.UnOp); ok && u.Op == token.NOT {
				cond = u.X
			}
			if c, ok := cond.(*ssa.Call); ok {
				if o := core.CalleeObj(&c.Call); o != nil && core.ObjName(o) == "regexp.Regexp.MatchString" {
					unquotedGuard = c
				}
			}
		}
	}
	r.Check(okQ, "R1", "Condition.String/strconv.Quote(value)", p.Pos(cstr.Pos()), "value quoted with strconv.Quote", "Condition.String does not quote the condition's value with strconv.Quote")
	// the value printed is the (possibly quoted) value, the operator is the condition's own, in property-operator-value order
	for _, cs := range core.Calls(cstr, false) {
		if o := core.CalleeObj(cs.Common()); o != nil && core.ObjName(o) == "fmt.Sprintf" {
			if f, ok := core.ConstString(cs.Common().Args[0]); ok && strings.Count(f, "%s") == 3 {
				r.Check(f == "%s %s %s", "R3", "Condition.String/format", p.Pos(cs.Pos()), "property operator value", "unexpected output format "+f)
				// variadic args
				var vals []ssa.Value
				if sl, ok := cs.Common().Args[1].(*ssa.Slice); ok {
					if al, ok := sl.X.(*ssa.Alloc); ok {
						byIdx := map[int64]ssa.Value{}
						for _, ref := range *al.Referrers() {
							if ia, ok := ref.(*ssa.IndexAddr); ok {
								k, _ := core.ConstInt(ia.Index)
								for _, r2 := range *ia.Referrers() {
									if st, ok := r2.(*ssa.Store); ok {
										byIdx[k] = st.Val
									}
								}
							}
						}
						for i := int64(0); i < 3; i++ {
							vals = append(vals, byIdx[i])
						}
					}
				}
				if len(vals) == 3 && vals[1] != nil {
					r.Check(recvCanon(core.StripConv(vals[1]), cstr) == "recv.operator", "R3", "Condition.String/prints-own-operator", p.Pos(cs.Pos()), "operator := c.operator", "the operator printed is not the condition's operator")
					valOK := false
					// also when the printed value is the result of a helper that quotes
					c14Slice(vals[2], nil, core.FuncPkgPath(cstr), 2, nil, func(v ssa.Value, _ *c14Ctx) {
						if quoteCall != nil && v == ssa.Value(quoteCall) {
							valOK = true
						}
					})
					r.Check(valOK, "R1", "Condition.String/prints-quoted-value", p.Pos(cs.Pos()), "the printed value is the quoted value (or the licensed bare number)", "the value printed is not the quoted value")
				}
			}
		}
	}
	// the licensing regexp
	if unquotedGuard != nil {
		installRegexpResolver(p)
		pat := ""
		if ld, ok := unquotedGuard.Call.Args[0].(*ssa.UnOp); ok {
			if g, ok := ld.X.(*ssa.Global); ok {
				pat = GlobalRegexpPattern(g)
			}
		}
		if pat == "" {
			r.Unknown("R1", "Condition.String/unquoted-licence", p.Pos(unquotedGuard.Pos()), "the regexp that licenses unquoted output is not a package-level MustCompile of a constant")
		} else {
			bad := regexAdmitsNonText(pat)
			anchored := strings.HasPrefix(pat, "^") && strings.HasSuffix(pat, "$")
			r.Check(bad == "" && anchored, "R1", "Condition.String/unquoted-licence", p.Pos(unquotedGuard.Pos()), "the licence "+pat+" is anchored and admits only characters of the TEXT token",
				fmt.Sprintf("values matching %s are printed without quotes, but the pattern %s: such a value re-lexes as several tokens (or not at all), so the formatted query does not parse back to itself", pat, map[bool]string{true: bad, false: "is not anchored at both ends"}[bad != ""]))
		}
	} else {
		r.OK("R1", "Condition.String/unquoted-licence", p.Pos(cstr.Pos()), "every value is quoted")
	}
	// reader
	okU := false
	for _, ret := range core.Returns(vsl) {
		if core.DerivesFromCallDeep(ret.Results[0], 2, "strconv.Unquote") {
			okU = true
		}
	}
	r.Check(okU, "R1", "visitor.VisitStringLiteral/strconv.Unquote", p.Pos(vsl.Pos()), "string literals are unquoted with strconv.Unquote (inverse of the writer's strconv.Quote)", "VisitStringLiteral does not unquote with strconv.Unquote while the writers quote with strconv.Quote: backslashes and control characters do not round-trip")

	// ------------------------------------------------------------------ R2
	lexStringRule(p, r, "R2", "ContactQL.g4", "STRING")

	// ------------------------------------------------------------------ R3 operators
	ops := c15Operators(p)
	comparator, err := grammarRule(p.Repo, "ContactQL.g4", "COMPARATOR")
	if err != nil {
		r.Errorf("%v", err)
		return
	}
	lits := map[string]bool{}
	for _, m := range regexpFindAllLiterals(comparator) {
		lits[m] = true
	}
	for name, text := range ops {
		r.Check(lits[text], "R3", "operator "+name+"="+text+"/is-comparator-literal", "antlr/ContactQL.g4", "COMPARATOR accepts "+text, fmt.Sprintf("operator %s prints as %q, which the COMPARATOR lexer rule does not list: a formatted condition with it does not parse", name, text))
	}
	r.Require("operator_constants", len(ops), 7)
	// BoolCombination.String
	bstr := p.Method("contactql", "BoolCombination", "String")
	if bstr != nil {
		paren, ownOp := false, false
		// every printed alternative starts with "(" and ends with ")" (Sprintf or concatenation alike)
		if alts := c11PrintedTemplates(p, bstr); len(alts) > 0 {
			paren = true
			for _, a := range alts {
				if !strings.HasPrefix(a.format, "(") || !strings.HasSuffix(a.format, ")") {
					paren = false
				}
			}
		}
		for _, cs := range core.Calls(bstr, false) {

			if o := core.CalleeObj(cs.Common()); o != nil && core.ObjName(o) == "strings.ToUpper" {
				if recvCanon(core.StripConv(cs.Common().Args[0]), bstr) == "recv.op" {
					ownOp = true
				}
			}
		}
		r.Check(paren, "R3", "BoolCombination.String/always-parenthesised", p.Pos(bstr.Pos()), "\"(%s)\"", "a boolean combination is printed without parentheses: nested AND/OR regroup when re-parsed")
		r.Check(ownOp, "R3", "BoolCombination.String/joins-with-own-operator", p.Pos(bstr.Pos()), "children joined with ToUpper(b.op)", "children are not joined with the combination's own operator")
	} else {
		r.Errorf("BoolCombination.String not found")
	}

	// ------------------------------------------------------------------ R4 prefixes
	// the writer's prefixes: alternatives of the printed condition that start with `<word>.`, and the property type
	// test under which each is produced (read from the branch conditions the alternative came through)
	writer := map[string]string{}
	{
		ev := &tEval{p: p, pkgPath: core.FuncPkgPath(cstr), parenthesizers: map[*ssa.Function]bool{}}
		res := ev.evalFunc(cstr, []aval{&aUnknown{}}, nil)
		if ts, ok := res[0].(*aStr); ok {
			for _, a := range ts.alts {
				if len(a.pieces) == 0 || a.pieces[0].hole != nil {
					continue
				}
				m := regexp.MustCompile(`^(\w+)\.$`).FindStringSubmatch(a.pieces[0].lit)
				if m == nil {
					continue
				}
				for _, g := range a.guards {
					var conds []core.CondEdge
					if g.from != nil {
						conds = append(conds, core.ControllingConds(g.from)...)
						if iff, ok := g.from.Instrs[len(g.from.Instrs)-1].(*ssa.If); ok && g.from.Succs[0] != g.from.Succs[1] {
							conds = append(conds, core.CondEdge{Cond: iff.Cond, Taken: g.from.Succs[0] == g.to, If: iff})
						}
					} else {
						conds = core.ControllingConds(g.to)
					}
					for _, ce := range conds {
						bo, ok := ce.Cond.(*ssa.BinOp)
						if !ok || bo.Op != token.EQL || !ce.Taken {
							continue
						}
						if sc, ok := core.ConstString(bo.Y); ok && recvCanon(bo.X, cstr) == "recv.propType" {
							writer[sc] = m[1]
						}
					}
				}
			}
		}
	}
	vc := p.Method("contactql", "visitor", "VisitCondition")
	reader := map[string]string{}
	if vc != nil {
		core.EachInstr(vc, false, func(_ *ssa.Function, in ssa.Instruction) {
			phi, ok := in.(*ssa.Phi)
			if !ok {
				return
			}
			for i, ev := range phi.Edges {
				s, ok := core.ConstString(ev)
				if !ok || (s != "field" && s != "urn" && s != "attribute") {
					continue
				}
				pred := phi.Block().Preds[i]
				for b := pred; b != nil; b = b.Idom() {
					for _, ce := range core.ControllingConds(b) {
						bo, ok := ce.Cond.(*ssa.BinOp)
						if !ok || bo.Op != token.EQL || !ce.Taken {
							continue
						}
						if pfx, ok := core.ConstString(bo.Y); ok && (pfx == "fields" || pfx == "urns") {
							if _, dup := reader[pfx]; !dup && ce.If.Block().Succs[0].Dominates(pred) {
								reader[pfx] = s
							}
						}
					}
					break
				}
			}
		})
	}
	for ptype, pfx := range writer {
		r.Check(reader[pfx] == ptype, "R4", "prefix "+pfx+"./"+ptype, p.Pos(cstr.Pos()), "reader maps `"+pfx+".` back to property type "+ptype,
			fmt.Sprintf("Condition.String writes property type %q with the prefix %q but VisitCondition maps that prefix to %q", ptype, pfx+".", reader[pfx]))
	}
	r.Require("writer_prefixes", len(writer), 2)
}

// regexAdmitsNonText: a reason why the pattern admits a character that is not part of the ContactQL TEXT token; "" if none.
func regexAdmitsNonText(pat string) string {
	re, err := syntax.Parse(pat, syntax.Perl)
	if err != nil {
		return "does not compile"
	}
	allowed := func(rn rune) bool {
		return unicode.IsLetter(rn) || unicode.IsDigit(rn) || strings.ContainsRune("_.-+/'@:", rn)
	}
	var walk func(re *syntax.Regexp) string
	walk = func(re *syntax.Regexp) string {
		switch re.Op {
		case syntax.OpAnyChar, syntax.OpAnyCharNotNL:
			return "contains `.`, which matches any character (spaces, quotes, parentheses, operators)"
		case syntax.OpLiteral:
			for _, rn := range re.Rune {
				if !allowed(rn) {
					return fmt.Sprintf("admits the literal %q", rn)
				}
			}
		case syntax.OpCharClass:
			for i := 0; i+1 < len(re.Rune); i += 2 {
				lo, hi := re.Rune[i], re.Rune[i+1]
				if hi-lo > 0x400 {
					return "admits a very wide character class"
				}
				for rn := lo; rn <= hi; rn++ {
					if !allowed(rn) {
						return fmt.Sprintf("admits %q", rn)
					}
				}
			}
		}
		for _, sub := range re.Sub {
			if s := walk(sub); s != "" {
				return s
			}
		}
		return ""
	}
	return walk(re)
}

// regexpFindAllLiterals: the quoted literals of a grammar rule body.
func regexpFindAllLiterals(body string) []string {
	var out []string
	for i := 0; i < len(body); i++ {
		if body[i] != '\'' {
			continue
		}
		j := i + 1
		var sb strings.Builder
		for j < len(body) && body[j] != '\'' {
			if body[j] == '\\' && j+1 < len(body) {
				j++
			}
			sb.WriteByte(body[j])
			j++
		}
		out = append(out, sb.String())
		i = j
	}
	return out
}

// c14TextPreprocessing: calls allowed between ParseQuery's text parameter and the lexer's input stream.
var c14TextPreprocessing = map[string]string{
	"strings.TrimSpace":      "outer white space is not part of any token",
	"fmt.Sprintf":            "formats the phone-number rewrite",
	"utils.ParsePhoneNumber": "whole-text phone number shortcut: the text is replaced, not edited, and only when all of it is a phone number",
}

// c14LexerInput: one value the lexer's input is made from, with the helper calls entered to reach it.
type c14LexerInput struct {
	site c14Site // the NewInputStream call
	v    ssa.Value
	ctx  *c14Ctx
}

// c14LexerInputs: the NewInputStream calls made on behalf of ParseQuery (in it, or in a helper of the package it
// hands the text to) and, per call, everything its argument is made from — followed back through the helpers'
// parameters to ParseQuery's own values and into the package's helpers that produce the text.
func c14LexerInputs(pq *ssa.Function) ([]c14Site, []c14LexerInput) {
	sites := c14CallsOnBehalf(pq, 2, func(o *types.Func) bool { return o.Name() == "NewInputStream" })
	var out []c14LexerInput
	for _, st := range sites {
		c14Slice(st.call.Call.Args[0], st.ctx, core.FuncPkgPath(pq), 3, func(*ssa.Call) bool { return true }, func(x ssa.Value, ctx *c14Ctx) {
			out = append(out, c14LexerInput{st, x, ctx})
		})
	}
	return sites, out
}

func c14R6(p *core.Program, r *core.Report) {
	pq := p.Func("contactql", "ParseQuery")
	if pq == nil {
		r.Errorf("contactql.ParseQuery not found")
		return
	}
	sites, inputs := c14LexerInputs(pq)
	for _, st := range sites {
		cs := st.call
		fromParam := false
		var bad []string
		for _, li := range inputs {
			if li.site != st {
				continue
			}
			switch x := li.v.(type) {
			case *ssa.Parameter:
				// a parameter of ParseQuery itself (a helper's parameter is continued in the argument it was called with)
				if b, ok := x.Type().Underlying().(*types.Basic); ok && b.Kind() == types.String && li.ctx == nil && x.Parent() == pq {
					fromParam = true
				}
			case *ssa.Call:
				if x.Call.IsInvoke() {
					continue // environment getters (DefaultCountry): not applied to the text
				}
				if li.ctx.depth() < 3 && c14Enterable(x, core.FuncPkgPath(pq)) != nil {
					continue // a helper of the package: judged by the calls its result is made from
				}
				nm := "a dynamic call"
				if co := core.CalleeObj(&x.Call); co != nil {
					nm = core.ObjName(co)
				}
				if _, ok := c14TextPreprocessing[nm]; !ok {
					bad = append(bad, nm+" at "+p.Pos(x.Pos()))
				}
			}
		}
		sort.Strings(bad)
		bad = uniq(bad)
		if !fromParam {
			r.Unknown("R6", "ParseQuery/lexer-input", p.Pos(cs.Pos()), "the lexer's input does not derive from a string parameter of ParseQuery")
			continue
		}
		r.Check(len(bad) == 0, "R6", "ParseQuery/lexer-input", p.Pos(cs.Pos()), "text parameter, trimmed (or the phone number rewrite)",
			"the query text is transformed by "+strings.Join(bad, ", ")+" before it reaches the lexer: the transformation also applies inside quoted literals, so a value that was escaped into one literal no longer parses as that literal")
	}
	r.Require("lexer_input_sites", len(sites), 1)
}

// ---------------------------------------------------------------------------------------------- R7

func c14R7(p *core.Program, r *core.Report) {
	code, ok := packageStringConst(p, "contactql", "ErrRedactedURNs")
	if !ok {
		r.Errorf("contactql.ErrRedactedURNs not found")
		return
	}
	type site struct {
		cs    core.CallSite
		tests string
	}
	var sites []site
	for _, cs := range p.CallsToName("contactql.NewQueryError") {
		if p.IsTestFile(cs.Pos()) || len(cs.Common().Args) == 0 {
			continue
		}
		if c, ok := core.ConstString(cs.Common().Args[0]); !ok || c != code {
			continue
		}
		// the tests against the empty string that decide whether this rejection happens
		var ts []string
		for _, ce := range core.MayConds(cs.Instr.Block()) {
			bo, ok := ce.Cond.(*ssa.BinOp)
			if !ok || (bo.Op != token.EQL && bo.Op != token.NEQ) {
				continue
			}
			var other ssa.Value
			if c, isC := core.ConstString(bo.Y); isC && c == "" {
				other = bo.X
			} else if c, isC := core.ConstString(bo.X); isC && c == "" {
				other = bo.Y
			}
			if other == nil {
				continue
			}
			nonEmpty := (bo.Op == token.NEQ) == ce.Taken
			ts = append(ts, fmt.Sprintf("%s non-empty=%v", canonShort(other), nonEmpty))
		}
		sort.Strings(ts)
		sites = append(sites, site{cs, strings.Join(uniq(ts), "; ")})
	}
	r.Count("redacted_urn_rejections", len(sites))
	if len(sites) < 2 {
		return // a single rejection site (one helper serving every spelling) agrees with itself
	}
	// the majority form is the reference
	count := map[string]int{}
	for _, s := range sites {
		count[s.tests]++
	}
	ref := ""
	for _, k := range core.SortedKeys(count) {
		if ref == "" || count[k] > count[ref] {
			ref = k
		}
	}
	per := map[string]int{}
	for _, s := range sites {
		fn := core.FuncName(s.cs.Caller)
		per[fn]++
		r.Check(s.tests == ref, "R7", fmt.Sprintf("%s/redacted-urn-rejection#%d/same-exemptions", fn, per[fn]), p.Pos(s.cs.Pos()), "decided by: "+ref,
			fmt.Sprintf("this arm rejects URN conditions under redaction depending on [%s] while its sibling arms depend on [%s]: one spelling of a condition is rejected where the others are accepted, so the printed form of an accepted query (always `urns.<scheme>`) may not parse", s.tests, ref))
	}
}

func packageStringConst(p *core.Program, rel, name string) (string, bool) {
	pk := p.Pkg(rel)
	if pk == nil {
		return "", false
	}
	c, ok := pk.Types.Scope().Lookup(name).(*types.Const)
	if !ok || c.Val().Kind() != constant.String {
		return "", false
	}
	return constant.StringVal(c.Val()), true
}
