package rules

import (
	"fmt"
	"go/constant"
	"go/token"
	"go/types"
	"regexp"
	"regexp/syntax"
	"sort"
	"strings"
	"unicode"

	"golang.org/x/tools/go/ssa"

	"verif/checker/core"
)

func init() { register("C14", checkC14) }

// derivesFromCallNamed: v's provenance (through string helpers) includes a call of the named function.
func derivesFromCallNamed(v ssa.Value, name string) *ssa.Call {
	for x := range core.BackSlice(v, func(c *ssa.Call) bool {
		o := core.CalleeObj(&c.Call)
		return o != nil && (strings.HasPrefix(core.ObjName(o), "strings.") || strings.HasPrefix(core.ObjName(o), "fmt."))
	}) {
		if c, ok := x.(*ssa.Call); ok {
			if o := core.CalleeObj(&c.Call); o != nil && core.ObjName(o) == name {
				return c
			}
		}
	}
	return nil
}

// lexStringRule checks a quoted-literal lexer rule for termination ambiguity and for acceptance of every strconv.Quote image.
func lexStringRule(p *core.Program, r *core.Report, rule, file, name string) {
	body, err := grammarRule(p.Repo, file, name)
	if err != nil {
		r.Errorf("%v", err)
		return
	}
	a, err := parseLexRule(body, '"')
	if err != nil {
		r.Unknown(rule, file+":"+name+"/parse", "antlr/"+file, "lexer rule has a shape the regular-language model does not know: "+err.Error()+" ("+body+")")
		return
	}
	d := a.determinize()
	r.Count("lexrule_dfa_states", len(d.states))
	amb := d.prefixAmbiguity()
	r.Check(amb == "", rule, file+":"+name+"/termination-unambiguous", "antlr/"+file, "no accepted literal is a proper prefix of another accepted literal",
		fmt.Sprintf("lexer rule %s: %s is ambiguous about where a literal ends: over {q=quote, b=backslash, o=other} both words of the pair [%s] are accepted, so the token boundary depends on what follows (a value ending in a backslash swallows the following text up to the next quote)", name, body, amb))
	if rej, bad := d.firstRejectedQuote(4); bad {
		r.Bad(rule, file+":"+name+"/accepts-quoted-values", "antlr/"+file, fmt.Sprintf("the quoted form %s of the abstract value %q is not accepted by the rule", quoteImage(rej), rej))
	} else {
		r.OK(rule, file+":"+name+"/accepts-quoted-values", "antlr/"+file, "the strconv.Quote image of every abstract value up to length 4 is accepted")
	}
}

func checkC14(p *core.Program, r *core.Report) {
	r.Rule("R1", "escaping is applied everywhere and pairs with the reader: every evaluation of a contact_query template passes flows.ContactQueryEscaping; ContactQueryEscaping and Condition.String derive their quoted output from strconv.Quote; VisitStringLiteral derives from strconv.Unquote; the regexp that licenses unquoted output only admits characters of the grammar's TEXT token")
	r.Rule("R2", "the STRING lexer rule is termination-unambiguous (no accepted literal is a proper prefix of another) and accepts every strconv.Quote image, over the abstract alphabet {quote, backslash, other}")
	r.Rule("R3", "operator tables: every Operator constant is a COMPARATOR literal of the grammar; aliases map grammar fragments to operators; Condition.String prints the condition's own operator; BoolCombination.String always parenthesises and joins with its own operator")
	r.Rule("R4", "property prefixes: the writer's `fields.` / `urns.` prefixes pair with the reader's prefix arms and property types")
	r.Rule("R5", "structure is kept by the parser's own rewriting: every type switch over QueryNode in contactql covers both node types, and Simplify flattens only children with the same operator and keeps their order (shared with C15/R5)")
	r.Rule("R7", "what is printed is accepted again: Condition.String writes every URN condition in the prefixed form (`urns.tel = …`), the parser accepts URN conditions in three spellings, and each spelling has its own arm in the condition visitor — the arms that reject a condition under URN redaction exempt the same conditions (the set / not-set checks, value == \"\"): a stricter arm for one spelling makes the printed form of an accepted query unparseable")
	c14R7(p, r)
	r.Rule("R6", "the lexer reads the query text as given: what ParseQuery hands to antlr.NewInputStream is its text parameter after strings.TrimSpace, or the whole-text phone number rewrite `tel = <number>`; no other call may transform the text (a rewrite before lexing also rewrites the inside of quoted, escaped literals)")
	r.Assumption("strconv.Quote/Unquote are inverse; structural identity of re-parsed queries for all inputs is not decided")
	c15R5(p, r, p.Func("contactql", "evaluateNode"))
	c14R6(p, r)

	// ------------------------------------------------------------------ R1
	esc := p.Func("flows", "ContactQueryEscaping")
	if esc == nil {
		r.Errorf("flows.ContactQueryEscaping not found")
		return
	}
	// EVERY return is the quoted argument: a path that hands a value back as it came (because it "is already quoted")
	// is a path on which the value is not one literal
	okEsc := len(core.Returns(esc)) > 0
	for _, ret := range core.Returns(esc) {
		if c := derivesFromCallNamed(ret.Results[0], "strconv.Quote"); c == nil || c.Call.Args[0] != ssa.Value(esc.Params[0]) {
			okEsc = false
		}
	}
	r.Check(okEsc, "R1", "flows.ContactQueryEscaping/strconv.Quote", p.Pos(esc.Pos()), "returns strconv.Quote(s)", "the escaping function for contact-query templates does not quote its argument with strconv.Quote (the reader unquotes with strconv.Unquote)")
	// inside the evaluator: the escaping function is applied to every evaluated value — whether it runs depends only on
	// escaping != nil, the token type and the error test of the value
	{
		// wherever a value of type excellent.Escaping is called (the evaluator's per-token code, as a function literal
		// or as a method the literal hands its arguments to)
		isEscaping := func(t types.Type) bool {
			n, ok := t.(*types.Named)
			return ok && n.Obj().Name() == "Escaping" && n.Obj().Pkg() != nil && core.RelPkg(n.Obj().Pkg().Path()) == "excellent"
		}
		nEsc := 0
		for _, fn := range p.ModuleFunctions() {
			if core.RelPkg(core.FuncPkgPath(fn)) != "excellent" || p.IsTestFile(fn.Pos()) {
				continue
			}
			core.EachInstr(fn, false, func(f *ssa.Function, in ssa.Instruction) {
				ci, ok := in.(ssa.CallInstruction)
				if !ok || ci.Common().IsInvoke() || ci.Common().StaticCallee() != nil || !isEscaping(ci.Common().Value.Type()) {
					return
				}
				nEsc++
				extra := ""
				for _, ce := range core.MayConds(in.Block()) {
					benign := false
					switch c := ce.Cond.(type) {
					case *ssa.BinOp:
						// escaping != nil, tokenType == K
						if core.IsNilConst(c.X) || core.IsNilConst(c.Y) {
							benign = true
						}
						if _, isC := core.ConstInt(c.Y); isC {
							benign = true
						}
						if _, isC := core.ConstInt(c.X); isC {
							benign = true
						}
					case *ssa.Call:
						if o := core.CalleeObj(&c.Call); o != nil && core.ObjName(o) == "excellent/types.IsXError" {
							benign = true
						}
					}
					if !benign {
						extra = canonShort(ce.Cond) + " at " + p.Pos(ce.If.Pos())
					}
				}
				r.Check(extra == "", "R1", "Evaluator.Template/escaping-applied-to-every-value", p.Pos(in.Pos()), "depends only on escaping != nil, the token type and the value not being an error",
					"whether an evaluated value is passed through the escaping function also depends on "+extra+": a value skipped there is substituted into a contact query as zero tokens (or unescaped) instead of one literal")
			})
		}
		r.Require("escaping_call_sites", nEsc, 1)
	}
	// evaluation sites of contact_query templates
	nQ := 0
	for _, cs := range p.AllCalls() {
		o := core.CalleeObj(cs.Common())
		if o == nil || p.IsTestFile(cs.Pos()) {
			continue
		}
		n := core.ObjName(o)
		if n != "flows.Run.EvaluateTemplateText" && n != "flows.Run.EvaluateTemplate" && n != "flows.Run.EvaluateTemplateValue" {
			continue
		}
		isQuery := false
		for v := range core.BackSlice(cs.Common().Args[0], nil) {
			if fa, ok := v.(*ssa.FieldAddr); ok {
				if fv := core.FieldAddrVar(fa); fv != nil && fv.Name() == "ContactQuery" {
					isQuery = true
				}
			}
		}
		if !isQuery {
			continue
		}
		nQ++
		key := core.FuncName(cs.Caller) + "/contact_query-evaluated-with-escaping"
		ok := false
		if n == "flows.Run.EvaluateTemplateText" {
			ea := core.StripConv(cs.Common().Args[1])
			if f, isFn := ea.(*ssa.Function); isFn && f == esc {
				ok = true
			}
		}
		r.Check(ok, "R1", key, p.Pos(cs.Pos()), "EvaluateTemplateText(query, flows.ContactQueryEscaping, ...)", "a contact_query template is evaluated without the contact-query escaping: substituted values can add, drop or alter conditions")
	}
	r.Require("contact_query_evaluation_sites", nQ, 1)
	// Condition.String
	cstr := p.Method("contactql", "Condition", "String")
	vsl := p.Method("contactql", "visitor", "VisitStringLiteral")
	if cstr == nil || vsl == nil {
		r.Errorf("Condition.String / visitor.VisitStringLiteral not found")
		return
	}
	var quoteCall *ssa.Call
	for _, cs := range core.Calls(cstr, false) {
		if o := core.CalleeObj(cs.Common()); o != nil && core.ObjName(o) == "strconv.Quote" {
			quoteCall, _ = cs.Instr.(*ssa.Call)
		}
	}
	okQ := false
	var unquotedGuard *ssa.Call
	if quoteCall != nil {
		// argument is c.value; the unquoted alternative is licensed by a regexp match on the same value
		if recvCanon(quoteCall.Call.Args[0], cstr) == "recv.value" {
			okQ = true
		}
		for _, ce := range core.ControllingConds(quoteCall.Block()) {
			cond := ce.Cond
			if u, ok := cond.(*ssa.UnOp); ok && u.Op == token.NOT {
				cond = u.X
			}
			if c, ok := cond.(*ssa.Call); ok {
				if o := core.CalleeObj(&c.Call); o != nil && core.ObjName(o) == "regexp.Regexp.MatchString" {
					unquotedGuard = c
				}
			}
		}
	}
	r.Check(okQ, "R1", "Condition.String/strconv.Quote(value)", p.Pos(cstr.Pos()), "value quoted with strconv.Quote", "Condition.String does not quote the condition's value with strconv.Quote")
	// the value printed is the (possibly quoted) value, the operator is the condition's own, in property-operator-value order
	for _, cs := range core.Calls(cstr, false) {
		if o := core.CalleeObj(cs.Common()); o != nil && core.ObjName(o) == "fmt.Sprintf" {
			if f, ok := core.ConstString(cs.Common().Args[0]); ok && strings.Count(f, "%s") == 3 {
				r.Check(f == "%s %s %s", "R3", "Condition.String/format", p.Pos(cs.Pos()), "property operator value", "unexpected output format "+f)
				// variadic args
				var vals []ssa.Value
				if sl, ok := cs.Common().Args[1].(*ssa.Slice); ok {
					if al, ok := sl.X.(*ssa.Alloc); ok {
						byIdx := map[int64]ssa.Value{}
						for _, ref := range *al.Referrers() {
							if ia, ok := ref.(*ssa.IndexAddr); ok {
								k, _ := core.ConstInt(ia.Index)
								for _, r2 := range *ia.Referrers() {
									if st, ok := r2.(*ssa.Store); ok {
										byIdx[k] = st.Val
									}
								}
							}
						}
						for i := int64(0); i < 3; i++ {
							vals = append(vals, byIdx[i])
						}
					}
				}
				if len(vals) == 3 && vals[1] != nil {
					r.Check(recvCanon(core.StripConv(vals[1]), cstr) == "recv.operator", "R3", "Condition.String/prints-own-operator", p.Pos(cs.Pos()), "operator := c.operator", "the operator printed is not the condition's operator")
					valOK := false
					for v := range core.BackSlice(vals[2], nil) {
						if v == ssa.Value(quoteCall) {
							valOK = true
						}
					}
					r.Check(valOK, "R1", "Condition.String/prints-quoted-value", p.Pos(cs.Pos()), "the printed value is the quoted value (or the licensed bare number)", "the value printed is not the quoted value")
				}
			}
		}
	}
	// the licensing regexp
	if unquotedGuard != nil {
		installRegexpResolver(p)
		pat := ""
		if ld, ok := unquotedGuard.Call.Args[0].(*ssa.UnOp); ok {
			if g, ok := ld.X.(*ssa.Global); ok {
				pat = GlobalRegexpPattern(g)
			}
		}
		if pat == "" {
			r.Unknown("R1", "Condition.String/unquoted-licence", p.Pos(unquotedGuard.Pos()), "the regexp that licenses unquoted output is not a package-level MustCompile of a constant")
		} else {
			bad := regexAdmitsNonText(pat)
			anchored := strings.HasPrefix(pat, "^") && strings.HasSuffix(pat, "$")
			r.Check(bad == "" && anchored, "R1", "Condition.String/unquoted-licence", p.Pos(unquotedGuard.Pos()), "the licence "+pat+" is anchored and admits only characters of the TEXT token",
				fmt.Sprintf("values matching %s are printed without quotes, but the pattern %s: such a value re-lexes as several tokens (or not at all), so the formatted query does not parse back to itself", pat, map[bool]string{true: bad, false: "is not anchored at both ends"}[bad != ""]))
		}
	} else {
		r.OK("R1", "Condition.String/unquoted-licence", p.Pos(cstr.Pos()), "every value is quoted")
	}
	// reader
	okU := false
	for _, ret := range core.Returns(vsl) {
		if core.DerivesFromCallDeep(ret.Results[0], 2, "strconv.Unquote") {
			okU = true
		}
	}
	r.Check(okU, "R1", "visitor.VisitStringLiteral/strconv.Unquote", p.Pos(vsl.Pos()), "string literals are unquoted with strconv.Unquote (inverse of the writer's strconv.Quote)", "VisitStringLiteral does not unquote with strconv.Unquote while the writers quote with strconv.Quote: backslashes and control characters do not round-trip")

	// ------------------------------------------------------------------ R2
	lexStringRule(p, r, "R2", "ContactQL.g4", "STRING")

	// ------------------------------------------------------------------ R3 operators
	ops := c15Operators(p)
	comparator, err := grammarRule(p.Repo, "ContactQL.g4", "COMPARATOR")
	if err != nil {
		r.Errorf("%v", err)
		return
	}
	lits := map[string]bool{}
	for _, m := range regexpFindAllLiterals(comparator) {
		lits[m] = true
	}
	for name, text := range ops {
		r.Check(lits[text], "R3", "operator "+name+"="+text+"/is-comparator-literal", "antlr/ContactQL.g4", "COMPARATOR accepts "+text, fmt.Sprintf("operator %s prints as %q, which the COMPARATOR lexer rule does not list: a formatted condition with it does not parse", name, text))
	}
	r.Require("operator_constants", len(ops), 7)
	// BoolCombination.String
	bstr := p.Method("contactql", "BoolCombination", "String")
	if bstr != nil {
		paren, ownOp := false, false
		// every printed alternative starts with "(" and ends with ")" (Sprintf or concatenation alike)
		if alts := c11PrintedTemplates(p, bstr); len(alts) > 0 {
			paren = true
			for _, a := range alts {
				if !strings.HasPrefix(a.format, "(") || !strings.HasSuffix(a.format, ")") {
					paren = false
				}
			}
		}
		for _, cs := range core.Calls(bstr, false) {

			if o := core.CalleeObj(cs.Common()); o != nil && core.ObjName(o) == "strings.ToUpper" {
				if recvCanon(core.StripConv(cs.Common().Args[0]), bstr) == "recv.op" {
					ownOp = true
				}
			}
		}
		r.Check(paren, "R3", "BoolCombination.String/always-parenthesised", p.Pos(bstr.Pos()), "\"(%s)\"", "a boolean combination is printed without parentheses: nested AND/OR regroup when re-parsed")
		r.Check(ownOp, "R3", "BoolCombination.String/joins-with-own-operator", p.Pos(bstr.Pos()), "children joined with ToUpper(b.op)", "children are not joined with the combination's own operator")
	} else {
		r.Errorf("BoolCombination.String not found")
	}

	// ------------------------------------------------------------------ R4 prefixes
	// the writer's prefixes: alternatives of the printed condition that start with `<word>.`, and the property type
	// test under which each is produced (read from the branch conditions the alternative came through)
	writer := map[string]string{}
	{
		ev := &tEval{p: p, pkgPath: core.FuncPkgPath(cstr), parenthesizers: map[*ssa.Function]bool{}}
		res := ev.evalFunc(cstr, []aval{&aUnknown{}}, nil)
		if ts, ok := res[0].(*aStr); ok {
			for _, a := range ts.alts {
				if len(a.pieces) == 0 || a.pieces[0].hole != nil {
					continue
				}
				m := regexp.MustCompile(`^(\w+)\.$`).FindStringSubmatch(a.pieces[0].lit)
				if m == nil {
					continue
				}
				for _, g := range a.guards {
					var conds []core.CondEdge
					if g.from != nil {
						conds = append(conds, core.ControllingConds(g.from)...)
						if iff, ok := g.from.Instrs[len(g.from.Instrs)-1].(*ssa.If); ok && g.from.Succs[0] != g.from.Succs[1] {
							conds = append(conds, core.CondEdge{Cond: iff.Cond, Taken: g.from.Succs[0] == g.to, If: iff})
						}
					} else {
						conds = core.ControllingConds(g.to)
					}
					for _, ce := range conds {
						bo, ok := ce.Cond.(*ssa.BinOp)
						if !ok || bo.Op != token.EQL || !ce.Taken {
							continue
						}
						if sc, ok := core.ConstString(bo.Y); ok && recvCanon(bo.X, cstr) == "recv.propType" {
							writer[sc] = m[1]
						}
					}
				}
			}
		}
	}
	vc := p.Method("contactql", "visitor", "VisitCondition")
	reader := map[string]string{}
	if vc != nil {
		core.EachInstr(vc, false, func(_ *ssa.Function, in ssa.Instruction) {
			phi, ok := in.(*ssa.Phi)
			if !ok {
				return
			}
			for i, ev := range phi.Edges {
				s, ok := core.ConstString(ev)
				if !ok || (s != "field" && s != "urn" && s != "attribute") {
					continue
				}
				pred := phi.Block().Preds[i]
				for b := pred; b != nil; b = b.Idom() {
					for _, ce := range core.ControllingConds(b) {
						bo, ok := ce.Cond.(*ssa.BinOp)
						if !ok || bo.Op != token.EQL || !ce.Taken {
							continue
						}
						if pfx, ok := core.ConstString(bo.Y); ok && (pfx == "fields" || pfx == "urns") {
							if _, dup := reader[pfx]; !dup && ce.If.Block().Succs[0].Dominates(pred) {
								reader[pfx] = s
							}
						}
					}
					break
				}
			}
		})
	}
	for ptype, pfx := range writer {
		r.Check(reader[pfx] == ptype, "R4", "prefix "+pfx+"./"+ptype, p.Pos(cstr.Pos()), "reader maps `"+pfx+".` back to property type "+ptype,
			fmt.Sprintf("Condition.String writes property type %q with the prefix %q but VisitCondition maps that prefix to %q", ptype, pfx+".", reader[pfx]))
	}
	r.Require("writer_prefixes", len(writer), 2)
}

// regexAdmitsNonText: a reason why the pattern admits a character that is not part of the ContactQL TEXT token; "" if none.
func regexAdmitsNonText(pat string) string {
	re, err := syntax.Parse(pat, syntax.Perl)
	if err != nil {
		return "does not compile"
	}
	allowed := func(rn rune) bool {
		return unicode.IsLetter(rn) || unicode.IsDigit(rn) || strings.ContainsRune("_.-+/'@:", rn)
	}
	var walk func(re *syntax.Regexp) string
	walk = func(re *syntax.Regexp) string {
		switch re.Op {
		case syntax.OpAnyChar, syntax.OpAnyCharNotNL:
			return "contains `.`, which matches any character (spaces, quotes, parentheses, operators)"
		case syntax.OpLiteral:
			for _, rn := range re.Rune {
				if !allowed(rn) {
					return fmt.Sprintf("admits the literal %q", rn)
				}
			}
		case syntax.OpCharClass:
			for i := 0; i+1 < len(re.Rune); i += 2 {
				lo, hi := re.Rune[i], re.Rune[i+1]
				if hi-lo > 0x400 {
					return "admits a very wide character class"
				}
				for rn := lo; rn <= hi; rn++ {
					if !allowed(rn) {
						return fmt.Sprintf("admits %q", rn)
					}
				}
			}
		}
		for _, sub := range re.Sub {
			if s := walk(sub); s != "" {
				return s
			}
		}
		return ""
	}
	return walk(re)
}

// regexpFindAllLiterals: the quoted literals of a grammar rule body.
func regexpFindAllLiterals(body string) []string {
	var out []string
	for i := 0; i < len(body); i++ {
		if body[i] != '\'' {
			continue
		}
		j := i + 1
		var sb strings.Builder
		for j < len(body) && body[j] != '\'' {
			if body[j] == '\\' && j+1 < len(body) {
				j++
			}
			sb.WriteByte(body[j])
			j++
		}
		out = append(out, sb.String())
		i = j
	}
	return out
}

// c14TextPreprocessing: calls allowed between ParseQuery's text parameter and the lexer's input stream.
var c14TextPreprocessing = map[string]string{
	"strings.TrimSpace":      "outer white space is not part of any token",
	"fmt.Sprintf":            "formats the phone-number rewrite",
	"utils.ParsePhoneNumber": "whole-text phone number shortcut: the text is replaced, not edited, and only when all of it is a phone number",
}

func c14R6(p *core.Program, r *core.Report) {
	pq := p.Func("contactql", "ParseQuery")
	if pq == nil {
		r.Errorf("contactql.ParseQuery not found")
		return
	}
	n := 0
	for _, cs := range core.Calls(pq, false) {
		o := core.CalleeObj(cs.Common())
		if o == nil || o.Name() != "NewInputStream" {
			continue
		}
		n++
		sl := core.BackSlice(cs.Common().Args[0], func(*ssa.Call) bool { return true })
		fromParam := false
		var bad []string
		for v := range sl {
			switch x := v.(type) {
			case *ssa.Parameter:
				if b, ok := x.Type().Underlying().(*types.Basic); ok && b.Kind() == types.String {
					fromParam = true
				}
			case *ssa.Call:
				if x.Call.IsInvoke() {
					continue // environment getters (DefaultCountry): not applied to the text
				}
				nm := "a dynamic call"
				if co := core.CalleeObj(&x.Call); co != nil {
					nm = core.ObjName(co)
				}
				if _, ok := c14TextPreprocessing[nm]; !ok {
					bad = append(bad, nm+" at "+p.Pos(x.Pos()))
				}
			}
		}
		sort.Strings(bad)
		if !fromParam {
			r.Unknown("R6", "ParseQuery/lexer-input", p.Pos(cs.Pos()), "the lexer's input does not derive from a string parameter of ParseQuery")
			continue
		}
		r.Check(len(bad) == 0, "R6", "ParseQuery/lexer-input", p.Pos(cs.Pos()), "text parameter, trimmed (or the phone number rewrite)",
			"the query text is transformed by "+strings.Join(bad, ", ")+" before it reaches the lexer: the transformation also applies inside quoted literals, so a value that was escaped into one literal no longer parses as that literal")
	}
	r.Require("lexer_input_sites", n, 1)
}

// ---------------------------------------------------------------------------------------------- R7

func c14R7(p *core.Program, r *core.Report) {
	code, ok := packageStringConst(p, "contactql", "ErrRedactedURNs")
	if !ok {
		r.Errorf("contactql.ErrRedactedURNs not found")
		return
	}
	type site struct {
		cs    core.CallSite
		tests string
	}
	var sites []site
	for _, cs := range p.CallsToName("contactql.NewQueryError") {
		if p.IsTestFile(cs.Pos()) || len(cs.Common().Args) == 0 {
			continue
		}
		if c, ok := core.ConstString(cs.Common().Args[0]); !ok || c != code {
			continue
		}
		// the tests against the empty string that decide whether this rejection happens
		var ts []string
		for _, ce := range core.MayConds(cs.Instr.Block()) {
			bo, ok := ce.Cond.(*ssa.BinOp)
			if !ok || (bo.Op != token.EQL && bo.Op != token.NEQ) {
				continue
			}
			var other ssa.Value
			if c, isC := core.ConstString(bo.Y); isC && c == "" {
				other = bo.X
			} else if c, isC := core.ConstString(bo.X); isC && c == "" {
				other = bo.Y
			}
			if other == nil {
				continue
			}
			nonEmpty := (bo.Op == token.NEQ) == ce.Taken
			ts = append(ts, fmt.Sprintf("%s non-empty=%v", canonShort(other), nonEmpty))
		}
		sort.Strings(ts)
		sites = append(sites, site{cs, strings.Join(uniq(ts), "; ")})
	}
	r.Count("redacted_urn_rejections", len(sites))
	if len(sites) < 2 {
		return // a single rejection site (one helper serving every spelling) agrees with itself
	}
	// the majority form is the reference
	count := map[string]int{}
	for _, s := range sites {
		count[s.tests]++
	}
	ref := ""
	for _, k := range core.SortedKeys(count) {
		if ref == "" || count[k] > count[ref] {
			ref = k
		}
	}
	per := map[string]int{}
	for _, s := range sites {
		fn := core.FuncName(s.cs.Caller)
		per[fn]++
		r.Check(s.tests == ref, "R7", fmt.Sprintf("%s/redacted-urn-rejection#%d/same-exemptions", fn, per[fn]), p.Pos(s.cs.Pos()), "decided by: "+ref,
			fmt.Sprintf("this arm rejects URN conditions under redaction depending on [%s] while its sibling arms depend on [%s]: one spelling of a condition is rejected where the others are accepted, so the printed form of an accepted query (always `urns.<scheme>`) may not parse", s.tests, ref))
	}
}

func packageStringConst(p *core.Program, rel, name string) (string, bool) {
	pk := p.Pkg(rel)
	if pk == nil {
		return "", false
	}
	c, ok := pk.Types.Scope().Lookup(name).(*types.Const)
	if !ok || c.Val().Kind() != constant.String {
		return "", false
	}
	return constant.StringVal(c.Val()), true
}
