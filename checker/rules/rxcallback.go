package rules

import (
	"regexp/syntax"

	"golang.org/x/tools/go/ssa"

	"verif/checker/core"
)

// A function (literal or named, unexported) that is only ever used as the callback of
// (*regexp.Regexp).ReplaceAllStringFunc on package-level regexps with known patterns receives matches of those
// patterns: its first parameter is at least as long as the shortest match and contains only characters the pattern can
// match.

// regexCallbackPatterns: the patterns whose matches prm can hold; nil when prm is not such a parameter.
func regexCallbackPatterns(p *core.Program, prm *ssa.Parameter) []string {
	f := prm.Parent()
	if f == nil || len(f.Params) == 0 || f.Params[0] != prm || GlobalRegexpPattern == nil {
		return nil
	}
	if f.Parent() == nil && (f.Object() == nil || f.Object().Exported()) {
		return nil
	}
	var pats []string
	ok := true
	uses := 0
	for _, fn := range p.ModuleFunctions() {
		if core.FuncPkgPath(fn) != core.FuncPkgPath(f) {
			continue
		}
		core.EachInstr(fn, true, func(_ *ssa.Function, in ssa.Instruction) {
			for _, op := range in.Operands(nil) {
				v := *op
				if mc, isMC := v.(*ssa.MakeClosure); isMC {
					v = mc.Fn
				}
				if v != ssa.Value(f) {
					continue
				}
				if _, isMC := in.(*ssa.MakeClosure); isMC {
					continue // the closure value itself is judged where it is used
				}
				uses++
				ci, isCall := in.(ssa.CallInstruction)
				if !isCall {
					ok = false
					continue
				}
				o := core.CalleeObj(ci.Common())
				if o == nil || core.ObjName(o) != "regexp.Regexp.ReplaceAllStringFunc" || len(ci.Common().Args) != 3 {
					ok = false
					continue
				}
				cb := ci.Common().Args[2]
				if mc, isMC := cb.(*ssa.MakeClosure); isMC {
					cb = mc.Fn
				}
				if cb != ssa.Value(f) {
					ok = false
					continue
				}
				pat := ""
				if ld, isLd := ci.Common().Args[0].(*ssa.UnOp); isLd {
					if g, isG := ld.X.(*ssa.Global); isG {
						pat = GlobalRegexpPattern(g)
					}
				}
				if pat == "" {
					ok = false
					continue
				}
				pats = append(pats, pat)
			}
		})
	}
	if !ok || uses == 0 {
		return nil
	}
	return pats
}

// regexMinMatchLen: the length in bytes of the shortest string the pattern matches (-1 when it does not parse).
func regexMinMatchLen(pat string) int64 {
	re, err := syntax.Parse(pat, syntax.Perl)
	if err != nil {
		return -1
	}
	var min func(r *syntax.Regexp) int64
	min = func(r *syntax.Regexp) int64 {
		switch r.Op {
		case syntax.OpLiteral:
			return int64(len(r.Rune))
		case syntax.OpCharClass, syntax.OpAnyChar, syntax.OpAnyCharNotNL:
			return 1
		case syntax.OpCapture, syntax.OpPlus:
			return min(r.Sub[0])
		case syntax.OpRepeat:
			return int64(r.Min) * min(r.Sub[0])
		case syntax.OpConcat:
			var n int64
			for _, s := range r.Sub {
				n += min(s)
			}
			return n
		case syntax.OpAlternate:
			best := int64(-1)
			for _, s := range r.Sub {
				if n := min(s); best < 0 || n < best {
					best = n
				}
			}
			if best < 0 {
				return 0
			}
			return best
		}
		return 0
	}
	return min(re.Simplify())
}

// regexCanMatchAny: some match of the pattern can contain one of the given runes.
func regexCanMatchAny(pat string, runes string) bool {
	re, err := syntax.Parse(pat, syntax.Perl)
	if err != nil {
		return true
	}
	var can func(r *syntax.Regexp) bool
	can = func(r *syntax.Regexp) bool {
		switch r.Op {
		case syntax.OpAnyChar, syntax.OpAnyCharNotNL:
			return true
		case syntax.OpLiteral:
			for _, c := range r.Rune {
				for _, w := range runes {
					if c == w {
						return true
					}
				}
			}
		case syntax.OpCharClass:
			for i := 0; i+1 < len(r.Rune); i += 2 {
				for _, w := range runes {
					if r.Rune[i] <= w && w <= r.Rune[i+1] {
						return true
					}
				}
			}
		}
		for _, s := range r.Sub {
			if can(s) {
				return true
			}
		}
		return false
	}
	return can(re)
}
