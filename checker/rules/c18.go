package rules

import (
	"fmt"
	"go/constant"
	"go/token"
	"go/types"
	"reflect"
	"sort"
	"strings"

	"golang.org/x/tools/go/ssa"

	"verif/checker/core"
)

func init() { register("C18", checkC18) }

// runtime lookups of keys that no engine:"localized" tag declares, with the reason they exist
var c18UndeclaredKeys = map[string]string{
	"flows/actions.SayMsgAction/audio_url": "say_msg's audio_url translations are written by the legacy migration (recordings per language); the field is deliberately not offered to translators",
	"flows/routers.baseRouter/name":        "category names are localizable through baseRouter.EnumerateLocalizables (explicit enumeration, not a struct tag)",
}

func callsNamed(fn *ssa.Function, objName string) []*ssa.Call {
	var out []*ssa.Call
	for _, cs := range core.Calls(fn, false) {
		if o := core.CalleeObj(cs.Common()); o != nil && core.ObjName(o) == objName {
			if c, ok := cs.Instr.(*ssa.Call); ok {
				out = append(out, c)
			}
		}
	}
	return out
}

func invokeRecvFrom(v ssa.Value, method string) bool {
	for x := range core.BackSlice(v, nil) {
		if c, ok := x.(*ssa.Call); ok {
			if c.Call.IsInvoke() && c.Call.Method.Name() == method {
				return true
			}
			if f := c.Call.StaticCallee(); f != nil && f.Name() == method {
				return true
			}
		}
	}
	return false
}

func checkC18(p *core.Program, r *core.Report) {
	r.Rule("R1", "preference list: getLanguages appends, in this order, the merged environment's default language (when set), the session environment's default (when set and different) and finally the flow language; sessionEnvironment.DefaultLanguage returns the contact language only when the contact exists, has a language and that language is allowed")
	r.Rule("R2", "walk: getText walks the list forward, returns the native text as soon as it meets the flow language, returns a translation only when it is non-empty (looked up with the same language, item and key), continues otherwise and returns native after the loop")
	r.Rule("R3", "keys agree both ways: every key passed to GetText/GetTextArray at run time is the json name of an engine:\"localized\" field of the struct that passes its UUID (or a listed exception), and every localized field is looked up under its json name by the code that consumes it")
	r.Rule("R4", "message parts and locale: evaluateMessage resolves text, attachments and quick replies with three independent lookups and picks the language text -> attachments -> quick replies; in send_msg the locale of a message whose content is the flow text derives only from that language, and the locale of a templated message from the template translation used")
	r.Assumption("i18n.NewLocale and Localization.GetItemTranslation are faithful; the enumeration of all configurations' outcomes is not performed")

	getLangs := p.Method("flows/runs", "run", "getLanguages")
	getText := p.Method("flows/runs", "run", "getText")
	defLang := p.Method("flows", "sessionEnvironment", "DefaultLanguage")
	evalMsg := p.Method("flows/actions", "baseAction", "evaluateMessage")
	sendExec := p.Method("flows/actions", "SendMsgAction", "Execute")
	for n, f := range map[string]*ssa.Function{"getLanguages": getLangs, "getText": getText, "sessionEnvironment.DefaultLanguage": defLang, "evaluateMessage": evalMsg, "SendMsgAction.Execute": sendExec} {
		if f == nil || f.Blocks == nil {
			r.Errorf("localization anchor %s not found", n)
			return
		}
	}

	// ------------------------------------------------------------------ R1 getLanguages
	var appends []*ssa.Call
	for _, cs := range core.Calls(getLangs, false) {
		if b, ok := cs.Common().Value.(*ssa.Builtin); ok && b.Name() == "append" {
			appends = append(appends, cs.Instr.(*ssa.Call))
		}
	}
	sort.Slice(appends, func(i, j int) bool { return appends[i].Pos() < appends[j].Pos() })
	elemOf := func(c *ssa.Call) ssa.Value {
		// variadic element: the value stored into the backing array of the varargs slice
		sl, ok := c.Call.Args[1].(*ssa.Slice)
		if !ok {
			return nil
		}
		al, ok := sl.X.(*ssa.Alloc)
		if !ok {
			return nil
		}
		for _, ref := range *al.Referrers() {
			if ia, ok := ref.(*ssa.IndexAddr); ok {
				for _, r2 := range *ia.Referrers() {
					if st, ok := r2.(*ssa.Store); ok {
						return st.Val
					}
				}
			}
		}
		return nil
	}
	if r.Check(len(appends) == 3, "R1", "getLanguages/three-candidates", p.Pos(getLangs.Pos()), "three appends", fmt.Sprintf("expected three candidate languages to be appended, found %d", len(appends))) {
		kinds := make([]string, 3)
		elems := make([]ssa.Value, 3)
		for i, a := range appends {
			e := elemOf(a)
			elems[i] = e
			switch {
			case e == nil:
				kinds[i] = "?"
			case isDefaultLanguageOf(e, "MergedEnvironment"):
				kinds[i] = "contact"
			case isDefaultLanguageOf(e, "Environment"):
				kinds[i] = "default"
			default:
				if c, ok := e.(*ssa.Call); ok && c.Call.IsInvoke() && c.Call.Method.Name() == "Language" {
					kinds[i] = "flow"
				} else {
					kinds[i] = "?"
				}
			}
		}
		// execution order: a_i must not be reachable from a_{i+1}
		ordered := !instrReaches(appends[1], appends[0]) && !instrReaches(appends[2], appends[1]) && !instrReaches(appends[2], appends[0])
		r.Check(strings.Join(kinds, ",") == "contact,default,flow" && ordered, "R1", "getLanguages/order", p.Pos(getLangs.Pos()), "contact language, environment default, flow language",
			"the preference list is built in the order "+strings.Join(kinds, ",")+" instead of contact, default, flow")
		// the flow language is appended unconditionally and last (its result is returned)
		lastRet := false
		for _, ret := range core.Returns(getLangs) {
			if ret.Results[0] == ssa.Value(appends[2]) && len(core.ControllingConds(appends[2].Block())) == 0 {
				lastRet = true
			}
		}
		r.Check(lastRet, "R1", "getLanguages/flow-language-always-last", p.Pos(appends[2].Pos()), "unconditional final append", "the flow language is not always the last candidate")
		// guards
		nilGuard := func(a *ssa.Call, e ssa.Value) (notNil bool, notEqualTo []ssa.Value) {
			for _, ce := range core.ControllingConds(a.Block()) {
				bo, ok := ce.Cond.(*ssa.BinOp)
				if !ok || !((bo.Op == token.NEQ && ce.Taken) || (bo.Op == token.EQL && !ce.Taken)) {
					continue
				}
				var other ssa.Value
				if bo.X == e {
					other = bo.Y
				} else if bo.Y == e {
					other = bo.X
				} else {
					continue
				}
				if isNilLanguage(other) {
					notNil = true
				} else {
					notEqualTo = append(notEqualTo, other)
				}
			}
			return
		}
		n1, _ := nilGuard(appends[0], elems[0])
		n2, ne2 := nilGuard(appends[1], elems[1])
		r.Check(n1, "R1", "getLanguages/contact-language-when-set", p.Pos(appends[0].Pos()), "appended only when != NilLanguage", "an unset contact/merged default language is put in the preference list")
		diff := false
		for _, v := range ne2 {
			if v == elems[0] {
				diff = true
			}
		}
		r.Check(n2 && diff, "R1", "getLanguages/default-when-set-and-different", p.Pos(appends[1].Pos()), "appended only when set and different from the first candidate", "the environment default language is appended without the set/different tests")
	}
	// sessionEnvironment.DefaultLanguage
	{
		// outcomes: the returns of the contact's language, each with the branch edges it depends on. The language may
		// come back through a helper of the package that returns (language, ok): then the outcome is each return of
		// the helper whose ok may be true, under the helper's own guards plus the guards of the caller's return.
		type outcome struct {
			ret   *ssa.Return
			conds []core.CondEdge
		}
		isContactLang := func(v ssa.Value) bool {
			c, ok := v.(*ssa.Call)
			if !ok {
				return false
			}
			o := core.CalleeObj(&c.Call)
			return o != nil && core.ObjName(o) == "flows.Contact.Language"
		}
		var contactRets []outcome
		var baseRet *ssa.Return
		unknown := ""
		for _, ret := range core.Returns(defLang) {
			outer := core.ControllingConds(ret.Block())
			if isContactLang(ret.Results[0]) {
				contactRets = append(contactRets, outcome{ret, outer})
				continue
			}
			if c, ok := ret.Results[0].(*ssa.Call); ok && c.Call.IsInvoke() && c.Call.Method.Name() == "DefaultLanguage" {
				baseRet = ret
				continue
			}
			ex, ok := ret.Results[0].(*ssa.Extract)
			if !ok {
				continue
			}
			hc, ok := ex.Tuple.(*ssa.Call)
			if !ok {
				continue
			}
			g := hc.Call.StaticCallee()
			if g == nil || len(g.Blocks) == 0 || core.FuncPkgPath(g) != core.FuncPkgPath(defLang) {
				continue
			}
			okIdx := -1
			for _, ce := range outer {
				if ex2, isEx := ce.Cond.(*ssa.Extract); isEx && ex2.Tuple == ex.Tuple && ce.Taken {
					okIdx = ex2.Index
				}
			}
			if okIdx < 0 {
				continue
			}
			for _, in := range core.Returns(g) {
				if k, isC := in.Results[okIdx].(*ssa.Const); isC && k.Value != nil && !constant.BoolVal(k.Value) {
					continue // ok == false: the caller does not return this value
				}
				if !isContactLang(in.Results[ex.Index]) {
					unknown = "the helper " + g.Name() + " reports success with a value that is not the contact's language"
					continue
				}
				contactRets = append(contactRets, outcome{in, append(append([]core.CondEdge{}, outer...), core.ControllingConds(in.Block())...)})
			}
		}
		if unknown != "" {
			r.Unknown("R1", "sessionEnvironment.DefaultLanguage/two-outcomes", p.Pos(defLang.Pos()), unknown)
		}
		if r.Check(len(contactRets) > 0 && baseRet != nil, "R1", "sessionEnvironment.DefaultLanguage/two-outcomes", p.Pos(defLang.Pos()), "contact language or the base environment's default", "DefaultLanguage no longer chooses between the contact language and the base default") {
			for _, oc := range contactRets {
				hasNotNilContact, hasLang, hasAllowed := false, false, false
				for _, ce := range oc.conds {
					switch c := ce.Cond.(type) {
					case *ssa.BinOp:
						if (c.Op == token.NEQ && ce.Taken) || (c.Op == token.EQL && !ce.Taken) {
							if core.IsNilConst(c.X) || core.IsNilConst(c.Y) {
								hasNotNilContact = true
							}
							if isNilLanguage(c.Y) || isNilLanguage(c.X) {
								hasLang = true
							}
						}
					case *ssa.Call:
						if o := core.CalleeObj(&c.Call); o != nil && core.ObjName(o) == "slices.Contains" && ce.Taken {
							if invokeRecvFrom(c.Call.Args[0], "AllowedLanguages") {
								for v := range core.BackSlice(c.Call.Args[1], nil) {
									if isContactLang(v) {
										hasAllowed = true
									}
								}
							}
						}
					}
				}
				r.Check(hasNotNilContact && hasLang && hasAllowed, "R1", "sessionEnvironment.DefaultLanguage/contact-language-guards", p.Pos(oc.ret.Pos()), "contact != nil, language set, language allowed",
					fmt.Sprintf("the contact's language is used without all of: contact present (%v), language set (%v), language in the allowed list (%v)", hasNotNilContact, hasLang, hasAllowed))
			}
		}
	}

	// ------------------------------------------------------------------ R2 getText
	nativeP, langsP, uuidP, keyP := paramNamed(getText, "native"), paramNamed(getText, "languages"), paramNamed(getText, "uuid"), paramNamed(getText, "key")
	if nativeP == nil || langsP == nil || uuidP == nil || keyP == nil {
		r.Errorf("getText parameters (uuid, key, native, languages) not found")
		return
	}
	var git *ssa.Call
	for _, cs := range core.Calls(getText, false) {
		if cs.Common().IsInvoke() && cs.Common().Method.Name() == "GetItemTranslation" {
			git, _ = cs.Instr.(*ssa.Call)
		}
	}
	if !r.Check(git != nil, "R2", "getText/looks-up-translation", p.Pos(getText.Pos()), "GetItemTranslation is consulted", "getText never looks up a translation") {
		return
	}
	langElem := git.Call.Args[0]
	// loop element from the languages list with forward index (range form or index form of the loop)
	var idx ssa.Value
	for v := range core.BackSlice(langElem, nil) {
		if ia, ok := v.(*ssa.IndexAddr); ok {
			idx = ia.Index
		}
	}
	fwd, loopHeader := c18ForwardIndex(idx)
	r.Check(fwd, "R2", "getText/forward-walk", p.Pos(git.Pos()), "languages are tried from the first preference", "the preference list is not walked forward from its first element")
	r.Check(core.StripConv(git.Call.Args[1]) == ssa.Value(uuidP) && core.StripConv(git.Call.Args[2]) == ssa.Value(keyP), "R2", "getText/lookup-item-and-key", p.Pos(git.Pos()), "GetItemTranslation(lang, uuid, key) with the caller's item and key", "the translation is looked up for a different item or property than requested")
	// default list
	defOK := false
	for _, cs := range core.Calls(getText, false) {
		if cs.Common().StaticCallee() == p.Method("flows/runs", "run", "getLanguages") {
			for _, ce := range core.ControllingConds(cs.Instr.Block()) {
				if bo, ok := ce.Cond.(*ssa.BinOp); ok && bo.Op == token.EQL && ce.Taken && core.IsNilConst(bo.Y) && bo.X == ssa.Value(langsP) {
					defOK = true
				}
			}
		}
	}
	r.Check(defOK, "R2", "getText/default-preference-list", p.Pos(getText.Pos()), "languages == nil => getLanguages()", "the run's preference list is not used when no explicit list is given")
	// returns
	var baseInLoop, transRet, afterLoop bool
	for _, ret := range core.Returns(getText) {
		first := core.StripConv(ret.Results[0])
		if first == ssa.Value(git) || derivesOnlyFrom(first, git) {
			// non-empty edge and language is the loop element
			nonEmpty := false
			for _, ce := range core.ControllingConds(ret.Block()) {
				bo, ok := ce.Cond.(*ssa.BinOp)
				if !ok {
					continue
				}
				if c, ok := bo.X.(*ssa.Call); ok {
					if bi, ok := c.Call.Value.(*ssa.Builtin); ok && bi.Name() == "len" && c.Call.Args[0] == ssa.Value(git) {
						if k, isC := core.ConstInt(bo.Y); isC && k == 0 && ((bo.Op == token.EQL && !ce.Taken) || (bo.Op == token.GTR && ce.Taken) || (bo.Op == token.NEQ && ce.Taken)) {
							nonEmpty = true
						}
					}
				}
			}
			if nonEmpty && ret.Results[1] == langElem {
				transRet = true
			} else {
				r.Bad("R2", "getText/translation-return", p.Pos(ret.Pos()), fmt.Sprintf("a translation is returned without the non-empty test (%v) or with a language other than the one it was found for", nonEmpty))
			}
		}
	}
	// onlyNative: every path from block b ends in a return of the native text, without looking up a translation (and so
	// without going round the loop again, whose body holds the lookup)
	onlyNative := func(b *ssa.BasicBlock) bool {
		reach := core.Reachable(b, nil)
		if reach[git.Block()] {
			return false
		}
		n := 0
		for _, ret := range core.Returns(getText) {
			if reach[ret.Block()] {
				if core.StripConv(ret.Results[0]) != ssa.Value(nativeP) {
					return false
				}
				n++
			}
		}
		return n > 0
	}
	// the walk stops at the flow language: a test `lang == flow language` whose equal edge only leads to a return of the
	// native text (a return in the loop, or a break to the final return) and whose unequal edge guards the lookup (so
	// the flow language is recognised before a translation stored under it could be taken)
	isFlowLang := func(v ssa.Value) bool {
		c, ok := v.(*ssa.Call)
		return ok && c.Call.IsInvoke() && c.Call.Method.Name() == "Language"
	}
	for _, ce := range core.ControllingConds(git.Block()) {
		bo, ok := ce.Cond.(*ssa.BinOp)
		if !ok || !((bo.Op == token.EQL && !ce.Taken) || (bo.Op == token.NEQ && ce.Taken)) {
			continue
		}
		if !((bo.X == langElem && isFlowLang(bo.Y)) || (bo.Y == langElem && isFlowLang(bo.X))) {
			continue
		}
		for _, ref := range *bo.Referrers() {
			br, ok := ref.(*ssa.If)
			if !ok {
				continue
			}
			eqSucc := br.Block().Succs[0]
			if bo.Op == token.NEQ {
				eqSucc = br.Block().Succs[1]
			}
			if onlyNative(eqSucc) {
				baseInLoop = true
			}
		}
	}
	// after the loop: the exit edge of the loop condition (index < len) only leads to a return of the native text
	exitKnown := false
	if loopHeader != nil {
		if br, ok := loopHeader.Instrs[len(loopHeader.Instrs)-1].(*ssa.If); ok {
			if bo, ok := br.Cond.(*ssa.BinOp); ok && bo.Op == token.LSS && bo.X == idx {
				exitKnown = true
				afterLoop = onlyNative(loopHeader.Succs[1])
			}
		}
	}
	if !exitKnown && fwd {
		r.Unknown("R2", "getText/native-after-loop", p.Pos(getText.Pos()), "the exit edge of the walk over the preference list was not recognised (expected index < len(languages) in the loop header)")
		afterLoop = true
	}
	r.Check(baseInLoop, "R2", "getText/base-language-wins-in-order", p.Pos(getText.Pos()), "native text returned as soon as the walk reaches the flow language", "the walk does not stop at the flow's base language: a later preference with a translation overrides the base language although it ranks lower")
	r.Check(transRet, "R2", "getText/non-empty-translation-wins", p.Pos(getText.Pos()), "first non-empty translation returned with its language", "no return of a non-empty translation found")
	r.Check(afterLoop, "R2", "getText/native-after-loop", p.Pos(getText.Pos()), "native text after the loop", "the native text is not the final fallback")

	// a translation that is present but holds only one empty string counts as missing (the editor saves those): the
	// lookup behind GetItemTranslation returns the stored slice only on paths that tested its single element against ""
	{
		var lookupFns []*ssa.Function
		if gi := p.Method("flows/definition", "localization", "GetItemTranslation"); gi != nil {
			seen := map[*ssa.Function]bool{gi: true}
			work := []*ssa.Function{gi}
			for len(work) > 0 && len(seen) < 8 {
				f := work[0]
				work = work[1:]
				lookupFns = append(lookupFns, f)
				for _, cs := range core.Calls(f, false) {
					if cf := cs.Common().StaticCallee(); cf != nil && !seen[cf] && core.RelPkg(core.FuncPkgPath(cf)) == "flows/definition" && len(cf.Blocks) > 0 {
						seen[cf] = true
						work = append(work, cf)
					}
				}
			}
		}
		nStored, okEmpty := 0, true
		where := ""
		for _, f := range lookupFns {
			for _, ret := range core.Returns(f) {
				if len(ret.Results) != 1 {
					continue
				}
				// the stored slice: result of a map lookup
				var stored ssa.Value
				v := core.StripConv(ret.Results[0])
				if ex, ok := v.(*ssa.Extract); ok {
					if lk, ok := ex.Tuple.(*ssa.Lookup); ok && lk.CommaOk && ex.Index == 0 {
						stored = ex
					}
				} else if lk, ok := v.(*ssa.Lookup); ok {
					stored = lk
				}
				if stored == nil {
					continue
				}
				if _, isSlice := stored.Type().Underlying().(*types.Slice); !isSlice {
					continue
				}
				nStored++
				tested := false
				emptyTestOn := func(bo *ssa.BinOp, subject ssa.Value) bool {
					if bo.Op != token.EQL && bo.Op != token.NEQ {
						return false
					}
					var other ssa.Value
					if sc, ok := core.ConstString(bo.Y); ok && sc == "" {
						other = bo.X
					} else if sc, ok := core.ConstString(bo.X); ok && sc == "" {
						other = bo.Y
					}
					if ld, ok := other.(*ssa.UnOp); ok {
						if ia, ok := ld.X.(*ssa.IndexAddr); ok && ia.X == subject {
							if k, isC := core.ConstInt(ia.Index); isC && k == 0 {
								return true
							}
						}
					}
					return false
				}
				for _, ce := range core.MayConds(ret.Block()) {
					// the test written as a boolean helper of the package that is handed the stored translation
					cv := ce.Cond
					if un, ok := cv.(*ssa.UnOp); ok && un.Op == token.NOT {
						cv = un.X
					}
					if hc, ok := cv.(*ssa.Call); ok {
						if h := hc.Call.StaticCallee(); h != nil && h.Blocks != nil && core.FuncPkgPath(h) == core.FuncPkgPath(f) {
							for i, a := range hc.Call.Args {
								if a != stored || i >= len(h.Params) {
									continue
								}
								core.EachInstr(h, false, func(_ *ssa.Function, in ssa.Instruction) {
									if hb, ok := in.(*ssa.BinOp); ok && emptyTestOn(hb, h.Params[i]) {
										tested = true
									}
								})
							}
						}
					}
					bo, ok := ce.Cond.(*ssa.BinOp)
					if !ok || (bo.Op != token.EQL && bo.Op != token.NEQ) {
						continue
					}
					var other ssa.Value
					if sc, ok := core.ConstString(bo.Y); ok && sc == "" {
						other = bo.X
					} else if sc, ok := core.ConstString(bo.X); ok && sc == "" {
						other = bo.Y
					}
					if other == nil {
						continue
					}
					if ld, ok := other.(*ssa.UnOp); ok {
						if ia, ok := ld.X.(*ssa.IndexAddr); ok && ia.X == stored {
							if k, isC := core.ConstInt(ia.Index); isC && k == 0 {
								tested = true
							}
						}
					}
				}
				if !tested {
					okEmpty = false
					where = core.FuncName(f) + " at " + p.Pos(ret.Pos())
				}
			}
		}
		if nStored == 0 {
			r.Unknown("R2", "translation-lookup/single-empty-string-is-missing", "flows/definition/localization.go", "no return of a stored translation found behind GetItemTranslation")
		} else {
			r.Check(okEmpty, "R2", "translation-lookup/single-empty-string-is-missing", "flows/definition/localization.go", "the stored translation is returned only after its single element was compared with \"\"",
				"a stored translation is returned ("+where+") without testing whether it is the single empty string the editor saves for an empty translation: getText would accept it as non-empty and send or compare empty text instead of falling back")
		}
	}

	// ------------------------------------------------------------------ R3 keys
	c18R3(p, r)

	// ------------------------------------------------------------------ R4
	type lookup struct {
		call *ssa.Call
		key  string
	}
	var lks []lookup
	for _, cs := range core.Calls(evalMsg, false) {
		if o := core.CalleeObj(cs.Common()); o != nil && core.ObjName(o) == "flows.Run.GetTextArray" {
			if k, ok := core.ConstString(cs.Common().Args[1]); ok {
				lks = append(lks, lookup{cs.Instr.(*ssa.Call), k})
			}
		}
	}
	byKey := map[string]*ssa.Call{}
	for _, l := range lks {
		byKey[l.key] = l.call
	}
	if !r.Check(len(lks) == 3 && byKey["text"] != nil && byKey["attachments"] != nil && byKey["quick_replies"] != nil, "R4", "evaluateMessage/three-independent-lookups", p.Pos(evalMsg.Pos()), "text, attachments, quick_replies", fmt.Sprintf("expected one lookup each for text, attachments and quick_replies, found %d", len(lks))) {
		return
	}
	// each part of the content derives only from its own lookup
	whichLookups := func(v ssa.Value) map[string]bool {
		out := map[string]bool{}
		for x := range core.BackSlice(v, func(*ssa.Call) bool { return true }) {
			for k, c := range byKey {
				if x == ssa.Value(c) {
					out[k] = true
				}
			}
		}
		return out
	}
	core.EachInstr(evalMsg, false, func(_ *ssa.Function, in ssa.Instruction) {
		st, ok := in.(*ssa.Store)
		if !ok {
			return
		}
		fv := core.FieldAddrVar(st.Addr)
		if fv == nil {
			return
		}
		want := map[string]string{"Text": "text", "Attachments": "attachments", "QuickReplies": "quick_replies"}[fv.Name()]
		if want == "" {
			return
		}
		got := whichLookups(st.Val)
		ok2 := len(got) == 1 && got[want]
		r.Check(ok2, "R4", "evaluateMessage/"+fv.Name()+"-from-own-lookup", p.Pos(st.Pos()), "derives only from the "+want+" lookup", fmt.Sprintf("message %s derives from the lookups %v instead of only %q", fv.Name(), core.SortedKeys(got), want))
	})
	// language choice
	for _, ret := range core.Returns(evalMsg) {
		phi, ok := ret.Results[1].(*ssa.Phi)
		if !ok {
			r.Bad("R4", "evaluateMessage/language-choice", p.Pos(ret.Pos()), "the message language is not chosen among the three lookup languages")
			continue
		}
		order := map[string]int{}
		var flat func(ph *ssa.Phi, depth int)
		flat = func(ph *ssa.Phi, depth int) {
			for i, ev := range ph.Edges {
				if p2, ok := ev.(*ssa.Phi); ok && depth < 4 {
					flat(p2, depth+1)
					continue
				}
				ex, ok := ev.(*ssa.Extract)
				if !ok || ex.Index != 1 {
					continue
				}
				for k, c := range byKey {
					if ex.Tuple == ssa.Value(c) {
						// the number of negated "earlier part present" conditions controlling this edge = its rank
						order[k] = len(core.ControllingConds(ph.Block().Preds[i]))
					}
				}
			}
		}
		flat(phi, 0)
		okOrder := len(order) == 3 && order["text"] < order["attachments"] && order["attachments"] < order["quick_replies"]
		r.Check(okOrder, "R4", "evaluateMessage/language-choice", p.Pos(ret.Pos()), "text language, else attachments', else quick replies'", fmt.Sprintf("the message language is not chosen in the order text -> attachments -> quick replies (nesting depths %v)", order))
	}
	// send_msg locale
	var evalCall *ssa.Call
	for _, cs := range core.Calls(sendExec, false) {
		if cs.Common().StaticCallee() == evalMsg {
			evalCall, _ = cs.Instr.(*ssa.Call)
		}
	}
	nMsg := 0
	for _, c := range callsNamed(sendExec, "flows.NewMsgOut") {
		nMsg++
		content := c.Call.Args[2]
		locale := c.Call.Args[5]
		fromEval := false
		for x := range core.BackSlice(content, nil) {
			if ex, ok := x.(*ssa.Extract); ok && evalCall != nil && ex.Tuple == ssa.Value(evalCall) && ex.Index == 0 {
				fromEval = true
			}
		}
		hasCurrent, hasTplLocale := false, false
		for x := range core.BackSlice(locale, nil) {
			if cc, ok := x.(*ssa.Call); ok {
				if la := c18LocaleLanguage(cc); la != nil {
					// its language argument is evaluateMessage's language
					if ex, ok := la.(*ssa.Extract); ok && evalCall != nil && ex.Tuple == ssa.Value(evalCall) && ex.Index == 1 {
						hasCurrent = true
					}
				}
				if cc.Call.IsInvoke() && cc.Call.Method.Name() == "Locale" {
					hasTplLocale = true
				}
				if f := cc.Call.StaticCallee(); f != nil && f.Name() == "Locale" {
					hasTplLocale = true
				}
			}
		}
		key := fmt.Sprintf("SendMsgAction.Execute/msg#%d-locale", nMsg)
		if fromEval {
			r.Check(hasCurrent && !hasTplLocale, "R4", key, p.Pos(c.Pos()), "flow-text message: locale from the language evaluateMessage used",
				fmt.Sprintf("a message built from the flow text reports a locale that is not (only) the language used for its text (from that language: %v, from a template translation: %v)", hasCurrent, hasTplLocale))
		} else {
			r.Check(hasTplLocale && !hasCurrent, "R4", key, p.Pos(c.Pos()), "templated message: locale of the template translation", "a templated message does not report the locale of the translation used")
		}
	}
	r.Require("send_msg_newmsgout_sites", nMsg, 2)

	// IVR messages: the locale is the language of the lookup that produced the message's text (its audio URL when the
	// message has no text)
	nIVR := 0
	for _, cs := range p.CallsToName("flows.NewIVRMsgOut") {
		c, ok := cs.Instr.(*ssa.Call)
		if !ok || p.IsTestFile(cs.Pos()) || len(c.Call.Args) < 5 {
			continue
		}
		nIVR++
		content := c.Call.Args[2]
		if s, isC := core.ConstString(content); isC && s == "" {
			content = c.Call.Args[3]
		}
		var lookups []*ssa.Call
		for x := range core.BackSlice(content, func(*ssa.Call) bool { return true }) {
			if ex, ok := x.(*ssa.Extract); ok && ex.Index == 0 {
				if g, ok := ex.Tuple.(*ssa.Call); ok && c18TextAndLanguage(g, 0) {
					lookups = append(lookups, g)
				}
			}
		}
		key := core.FuncName(cs.Caller) + "/ivr-locale"
		if len(lookups) != 1 {
			r.Unknown("R4", key, p.Pos(c.Pos()), fmt.Sprintf("the message content derives from %d GetText lookups, expected one", len(lookups)))
			continue
		}
		okLang, got := false, "no locale built from a language"
		for x := range core.BackSlice(c.Call.Args[4], nil) {
			if cc, ok := x.(*ssa.Call); ok {
				if la := c18LocaleLanguage(cc); la != nil {
					ex, isEx := la.(*ssa.Extract)
					if isEx && ex.Tuple == ssa.Value(lookups[0]) && ex.Index == 1 {
						okLang = true
					} else {
						got = "the language of another lookup (" + canonShort(la) + ")"
					}
				}
			}
		}
		r.Check(okLang, "R4", key, p.Pos(c.Pos()), "locale from the language of the lookup that produced the content", "the IVR message's locale comes from "+got+", not from the lookup that produced its content: a message spoken in one language is reported in another")
	}
	r.Require("ivr_message_sites", nIVR, 2)

	// the localized category name of a result is part of what Results.Save stores: a Save that keeps the old entry when
	// value and category are unchanged keeps the category name of the previous language (imported from C07/R5)
	r.Rule("R9", "the choice of language is getText's alone: no call of Run.GetText / GetTextArray in the action and router packages is control-dependent on a test that reads a language (Contact.Language, Flow.Language, Environment.DefaultLanguage / AllowedLanguages) — a fast path `contact language == flow language` skips the translation for a contact whose language is not allowed and who must get the environment's default language")
	r.Rule("R5", "a saved result always replaces the stored one (imported from C07/R5): category_localized follows the language in force at the latest routing even when value and category did not change")
	importObligations(p, r, "C07", map[string]bool{"R5": true}, "R5", "the result kept in the run carries the category name of an earlier language")
	r.Rule("R7", "translated case arguments are taken when they are as many as the case's own arguments (imported from C07/R9): the count they are compared with is the count of the base arguments")
	importObligations(p, r, "C07", map[string]bool{"R9": true}, "R7", "a valid translation of a case's arguments is thrown away (or a malformed one used)")
	r.Rule("R8", "each item is looked up on its own: whether Run.GetText / GetTextArray is consulted for an item does not depend on the base-language value of that item (an item with an empty base value and a translation is still translated)")
	c18R8(p, r)
	r.Rule("R6", "the language preference list is computed from the session's current environment: session.MergedEnvironment is not a stale cache (imported from C19/R4)")
	importObligations(p, r, "C19", map[string]bool{"R4": true}, "R6", "the allowed languages consulted for the contact's language are those of an environment that has since been replaced")
}

// isDefaultLanguageOf: v is X.DefaultLanguage() where X comes from a call of the named session method.
func isDefaultLanguageOf(v ssa.Value, sessionMethod string) bool {
	c, ok := v.(*ssa.Call)
	if !ok || !c.Call.IsInvoke() || c.Call.Method.Name() != "DefaultLanguage" {
		return false
	}
	rc, ok := c.Call.Value.(*ssa.Call)
	return ok && rc.Call.IsInvoke() && rc.Call.Method.Name() == sessionMethod
}

// isNilLanguage: the empty language constant or a load of the package variable i18n.NilLanguage.
func isNilLanguage(v ssa.Value) bool {
	if s, ok := core.ConstString(v); ok && s == "" {
		return true
	}
	if u, ok := v.(*ssa.UnOp); ok && u.Op == token.MUL {
		if g, ok := u.X.(*ssa.Global); ok && g.Name() == "NilLanguage" {
			return true
		}
	}
	return false
}

// c18ForwardIndex: idx walks a slice from its first element in steps of one. Two forms are known: the range loop
// (idx = phi(-1, idx) + 1, computed in the loop header) and the index loop (idx = phi(0, idx + 1), the phi of the
// loop header). Returns the loop header as well.
func c18ForwardIndex(idx ssa.Value) (bool, *ssa.BasicBlock) {
	plusOne := func(v ssa.Value) (ssa.Value, bool) {
		if bo, ok := v.(*ssa.BinOp); ok && bo.Op == token.ADD {
			if k, isC := core.ConstInt(bo.Y); isC && k == 1 {
				return bo.X, true
			}
		}
		return nil, false
	}
	if x, ok := plusOne(idx); ok {
		if phi, ok := x.(*ssa.Phi); ok {
			for _, ev := range phi.Edges {
				if k0, isC := core.ConstInt(ev); isC && k0 == -1 {
					return true, idx.(*ssa.BinOp).Block()
				}
			}
		}
		return false, idx.(*ssa.BinOp).Block()
	}
	if phi, ok := idx.(*ssa.Phi); ok {
		start, step := false, true
		for _, ev := range phi.Edges {
			if k0, isC := core.ConstInt(ev); isC {
				if k0 == 0 {
					start = true
				} else {
					step = false
				}
			} else if x, ok := plusOne(ev); !ok || x != ssa.Value(phi) {
				step = false
			}
		}
		return start && step, phi.Block()
	}
	return false, nil
}

// derivesOnlyFrom: v is call (possibly converted / through a phi with itself).
func derivesOnlyFrom(v ssa.Value, call *ssa.Call) bool {
	return core.StripConv(v) == ssa.Value(call)
}

func c18R3(p *core.Program, r *core.Report) {
	// localized json names per struct (incl. embedded)
	type decl struct {
		owner string
		json  string
		pos   token.Pos
	}
	declared := map[string][]decl{} // struct qualname -> decls (own + embedded)
	var collect func(n *types.Named, into string, seen map[*types.Named]bool)
	collect = func(n *types.Named, into string, seen map[*types.Named]bool) {
		if seen[n] {
			return
		}
		seen[n] = true
		st, ok := n.Underlying().(*types.Struct)
		if !ok {
			return
		}
		for i := 0; i < st.NumFields(); i++ {
			f := st.Field(i)
			tag := reflect.StructTag(st.Tag(i))
			if f.Embedded() {
				ft := f.Type()
				if pt, ok := ft.(*types.Pointer); ok {
					ft = pt.Elem()
				}
				if en, ok := ft.(*types.Named); ok {
					collect(en, into, seen)
				}
				continue
			}
			if strings.Contains(","+tag.Get("engine")+",", ",localized,") {
				declared[into] = append(declared[into], decl{core.QualName(n), strings.Split(tag.Get("json"), ",")[0], f.Pos()})
			}
		}
	}
	var structs []*types.Named
	for _, rel := range []string{"flows/actions", "flows/routers"} {
		pk := p.Pkg(rel)
		if pk == nil {
			continue
		}
		sc := pk.Types.Scope()
		for _, nm := range sc.Names() {
			if tn, ok := sc.Lookup(nm).(*types.TypeName); ok {
				if n, ok := tn.Type().(*types.Named); ok {
					if _, isSt := n.Underlying().(*types.Struct); isSt {
						structs = append(structs, n)
						collect(n, core.QualName(n), map[*types.Named]bool{})
					}
				}
			}
		}
	}
	nDecl := 0
	for _, ds := range declared {
		nDecl += len(ds)
	}
	// runtime lookups: (receiver struct of the calling method, key)
	type use struct {
		owner  string
		key    string
		pos    token.Pos
		uuidOf []string // the struct types the UUID handed to the lookup is read from
	}
	var uses []use
	for _, cs := range p.CallsToName("flows.Run.GetText", "flows.Run.GetTextArray") {
		if p.IsTestFile(cs.Pos()) {
			continue
		}
		rel := core.RelPkg(core.FuncPkgPath(cs.Caller))
		if rel != "flows/actions" && rel != "flows/routers" {
			continue
		}
		key, ok := core.ConstString(cs.Common().Args[1])
		if !ok {
			r.Bad("R3", core.FuncName(cs.Caller)+"/constant-key", p.Pos(cs.Pos()), "localization key is not a constant")
			continue
		}
		owner := ""
		if rn := recvNamed(rootFn(cs.Caller)); rn != nil {
			owner = core.QualName(rn)
		}
		// whose UUID is passed: the struct types the first argument is read from (a field, or a UUID() method)
		var uuidOf []string
		namedOf := func(t types.Type) *types.Named {
			if pt, ok := t.(*types.Pointer); ok {
				t = pt.Elem()
			}
			n, _ := t.(*types.Named)
			return n
		}
		for w := range core.BackSlice(cs.Common().Args[0], func(*ssa.Call) bool { return true }) {
			switch x := w.(type) {
			case *ssa.FieldAddr:
				if n := namedOf(x.X.Type()); n != nil {
					uuidOf = append(uuidOf, core.QualName(n))
				}
			case *ssa.Parameter:
				if n := namedOf(x.Type()); n != nil {
					uuidOf = append(uuidOf, core.QualName(n))
				}
			}
		}
		sort.Strings(uuidOf)
		uses = append(uses, use{owner, key, cs.Pos(), uuidOf})
		// R9: whether the lookup happens is not decided by a language: the choice of language is getText's alone
		langCond := ""
		for _, ce := range core.MayConds(cs.Instr.Block()) {
			for w := range core.BackSlice(ce.Cond, func(*ssa.Call) bool { return true }) {
				c, isCall := w.(*ssa.Call)
				if !isCall {
					continue
				}
				if o := core.CalleeObj(&c.Call); o != nil {
					switch o.Name() {
					case "Language", "DefaultLanguage", "AllowedLanguages":
						langCond = core.ObjName(o) + " (" + p.Pos(ce.If.Pos()) + ")"
					}
				}
			}
		}
		r.Check(langCond == "", "R9", core.FuncName(cs.Caller)+"/"+key+"/lookup-not-decided-by-a-language", p.Pos(cs.Pos()), "no language test decides whether the translation is looked up",
			"the lookup of `"+key+"` is skipped or taken depending on "+langCond+": the documented fallback (contact language if allowed, else the environment's default, then the base language) is getText's to apply — a contact whose own language is the flow's but is not allowed must get the default language's translation")
	}
	r.Require("runtime_localization_lookups", len(uses), 5)
	// forward: each use is declared on the owner (or, for a base type, on some struct embedding it), or listed
	embedders := func(base string) []string {
		var out []string
		for _, n := range structs {
			for _, d := range declared[core.QualName(n)] {
				if d.owner == base {
					out = append(out, core.QualName(n))
				}
			}
		}
		return out
	}
	_ = embedders
	for _, u := range uses {
		key := u.owner + "/" + u.key
		ok := false
		for _, d := range declared[u.owner] {
			if d.json == u.key {
				ok = true
			}
		}
		// a helper on a shared base type (baseAction.evaluateMessage) serves the structs that embed it: the key must be
		// declared by every struct that embeds both the base type and a localized field of that name... it is enough
		// that some struct embedding the caller's type declares it
		if !ok {
			for _, n := range structs {
				if n.Obj().Pkg().Path() != core.ModPath+"/"+strings.SplitN(u.owner, ".", 2)[0] {
					continue
				}
				if !embedsNamed(n, u.owner) {
					continue
				}
				for _, d := range declared[core.QualName(n)] {
					if d.json == u.key {
						ok = true
					}
				}
			}
		}
		// the struct whose UUID is passed declares it (a helper function without a receiver, or matchCase for Case)
		if !ok {
			for _, o := range u.uuidOf {
				for _, d := range declared[o] {
					if d.json == u.key {
						ok = true
						if u.owner == "" {
							key = o + "/" + u.key
						}
					}
				}
			}
		}
		// SwitchRouter.matchCase looks up Case.arguments: the struct whose UUID is passed is Case
		if !ok {
			for owner, ds := range declared {
				for _, d := range ds {
					if d.json == u.key && strings.HasPrefix(owner, strings.SplitN(u.owner, ".", 2)[0]+".") && u.owner == "flows/routers.SwitchRouter" && owner == "flows/routers.Case" {
						ok = true
					}
				}
			}
		}
		if ok {
			r.OK("R3", key+"/declared", p.Pos(u.pos), "key is the json name of a localized field of "+u.owner)
			continue
		}
		if reason, listed := c18UndeclaredKeys[key]; listed {
			r.OK("R3", key+"/declared", p.Pos(u.pos), "listed: "+reason)
			continue
		}
		r.Bad("R3", key+"/declared", p.Pos(u.pos), fmt.Sprintf("the run looks up translations under %q but %s declares no engine:\"localized\" field with that json name: inspector, translator and runtime disagree on the key", u.key, u.owner))
	}
	// converse: each declared localized field is looked up under its json name by a method of the declaring struct, of a
	// struct embedding it, or (Case) of the router that owns the cases
	for _, n := range structs {
		owner := core.QualName(n)
		for _, d := range declared[owner] {
			if d.owner != owner {
				continue // judged on the declaring struct
			}
			used := false
			for _, u := range uses {
				if u.key != d.json {
					continue
				}
				if u.owner == owner {
					used = true
				}
				// users: structs embedding the declaring struct
				for _, dd := range declared[u.owner] {
					if dd.owner == owner && dd.json == d.json {
						used = true
					}
				}
				// users: a helper on a base type that some struct embeds together with the declaring struct
				for _, n := range structs {
					if embedsNamed(n, u.owner) && embedsNamed(n, owner) {
						used = true
					}
				}
				if owner == "flows/routers.Case" && u.owner == "flows/routers.SwitchRouter" {
					used = true
				}
				// users: the lookup is handed the UUID of the declaring struct
				for _, o := range u.uuidOf {
					if o == owner {
						used = true
					}
				}
			}
			key := owner + "." + d.json + "/looked-up"
			r.Check(used, "R3", key, p.Pos(d.pos), "looked up under its json name at run time",
				fmt.Sprintf("field %s.%s is tagged engine:\"localized\" (translations are extracted and migrated for it) but no runtime code looks up translations under %q: the base-language value is always used", owner, d.json, d.json))
		}
	}
	r.Require("localized_fields_declared", nDecl, 10)
}

// embedsNamed: struct n embeds (transitively) the struct with the given qualified name.
func embedsNamed(n *types.Named, qual string) bool {
	st, ok := n.Underlying().(*types.Struct)
	if !ok {
		return false
	}
	for i := 0; i < st.NumFields(); i++ {
		f := st.Field(i)
		if !f.Embedded() {
			continue
		}
		ft := f.Type()
		if pt, ok := ft.(*types.Pointer); ok {
			ft = pt.Elem()
		}
		if en, ok := ft.(*types.Named); ok {
			if core.QualName(en) == qual || embedsNamed(en, qual) {
				return true
			}
		}
	}
	return false
}

// c18LocaleLanguage: the language a locale is built from — the second argument of the actions package's currentLocale
// helper, or the first of i18n.NewLocale when the helper is written out. nil for other calls.
func c18LocaleLanguage(c *ssa.Call) ssa.Value {
	if f := c.Call.StaticCallee(); f != nil && f.Name() == "currentLocale" && len(c.Call.Args) == 2 {
		return c.Call.Args[1]
	}
	if o := core.CalleeObj(&c.Call); o != nil && core.ObjName(o) == "github.com/nyaruka/gocommon/i18n.NewLocale" && len(c.Call.Args) == 2 {
		return c.Call.Args[0]
	}
	return nil
}

// c18R8: no call of Run.GetText / Run.GetTextArray is controlled by a condition computed from the base value it is
// given (its last argument before the optional languages).
func c18R8(p *core.Program, r *core.Report) {
	n := 0
	for _, fn := range p.ModuleFunctions() {
		for _, cs := range core.Calls(fn, false) {
			o := core.CalleeObj(cs.Common())
			if o == nil || (core.ObjName(o) != "flows.Run.GetText" && core.ObjName(o) != "flows.Run.GetTextArray") {
				continue
			}
			args := cs.Common().Args
			if len(args) < 3 {
				continue
			}
			base := args[2]
			if _, isConst := base.(*ssa.Const); isConst {
				continue
			}
			n++
			// the base value is a field of the action / case / category: a test of that same field decides the lookup
			bc := ""
			if ld, ok := core.StripConv(base).(*ssa.UnOp); ok && ld.Op == token.MUL {
				if fa, ok := ld.X.(*ssa.FieldAddr); ok {
					bc = canon(fa)
				}
			}
			bad := ""
			if bc != "" {
				for _, ce := range core.MayConds(cs.Instr.Block()) {
					for w := range core.BackSlice(ce.Cond, nil) {
						if fa, isFA := w.(*ssa.FieldAddr); isFA && canon(fa) == bc {
							bad = bc
						}
					}
				}
			}
			key := core.FuncName(fn) + "/" + o.Name() + "(" + constArgOr(args[1], "?") + ")"
			r.Check(bad == "", "R8", key, p.Pos(cs.Pos()), "the lookup does not depend on the base value", "the translation of this item is looked up only when its base-language value passes a test ("+bad+"): an item that has a translation but an empty base value is not translated, while the other items of the same action are")
		}
	}
	r.Count("translation_lookups_with_base_value", n)
	r.Require("translation_lookups_with_base_value", n, 3)
}

func constArgOr(v ssa.Value, dflt string) string {
	if s, ok := core.ConstString(v); ok {
		return s
	}
	return dflt
}

// c18TextAndLanguage: the call yields a text (result 0) together with the language it was found in (result 1): it is
// Run.GetText, or a function of the module every return of which hands on text derived from result 0 and, as its
// second result, result 1 of one and the same such call.
func c18TextAndLanguage(g *ssa.Call, depth int) bool {
	if o := core.CalleeObj(&g.Call); o != nil && core.ObjName(o) == "flows.Run.GetText" {
		return true
	}
	f := g.Call.StaticCallee()
	if f == nil || len(f.Blocks) == 0 || depth > 2 || !core.InModule(core.FuncPkgPath(f)) || f.Signature.Results().Len() != 2 {
		return false
	}
	rets := core.Returns(f)
	if len(rets) == 0 {
		return false
	}
	for _, ret := range rets {
		ex1, ok := core.StripConv(ret.Results[1]).(*ssa.Extract)
		if !ok || ex1.Index != 1 {
			return false
		}
		k, ok := ex1.Tuple.(*ssa.Call)
		if !ok || !c18TextAndLanguage(k, depth+1) {
			return false
		}
		n, same := 0, false
		for x := range core.BackSlice(ret.Results[0], func(*ssa.Call) bool { return true }) {
			if ex0, ok := x.(*ssa.Extract); ok && ex0.Index == 0 {
				if k2, ok := ex0.Tuple.(*ssa.Call); ok && c18TextAndLanguage(k2, depth+1) {
					n++
					if k2 == k {
						same = true
					}
				}
			}
		}
		if n != 1 || !same {
			return false
		}
	}
	return true
}
