package rules

import (
	"fmt"
	"go/token"
	"go/types"
	"sort"
	"strings"

	"golang.org/x/tools/go/ssa"

	"verif/checker/core"
)

func init() { register("C03", checkC03) }

// contact mutators (ObjName) -> the change-event constructor that announces them
var c03Mutators = map[string]string{
	"flows.Contact.SetName":                "flows/events.NewContactNameChanged",
	"flows.Contact.SetLanguage":            "flows/events.NewContactLanguageChanged",
	"flows.Contact.SetStatus":              "flows/events.NewContactStatusChanged",
	"flows.Contact.SetTimezone":            "flows/events.NewContactTimezoneChanged",
	"flows.Contact.SetTicket":              "flows/events.NewTicketOpened",
	"flows.Contact.ClearURNs":              "flows/events.NewContactURNsChanged",
	"flows.Contact.AddURN":                 "flows/events.NewContactURNsChanged",
	"flows.Contact.RemoveURN":              "flows/events.NewContactURNsChanged",
	"flows.Contact.UpdatePreferredChannel": "flows/events.NewContactURNsChanged",
	"flows.ContactURN.SetChannel":          "flows/events.NewContactURNsChanged",
	"flows.FieldValues.Set":                "flows/events.NewContactFieldChanged",
	"flows.GroupList.Add":                  "flows/events.NewContactGroupsChanged",
	"flows.GroupList.Remove":               "flows/events.NewContactGroupsChanged",
	"flows.GroupList.Clear":                "flows/events.NewContactGroupsChanged",
	"flows.Contact.SetLastSeenOn":          "flows/events.NewMsgReceived",
}

// getter paired with each value setter (used by R4)
var c03Getters = map[string]string{
	"flows.Contact.SetName":     "flows.Contact.Name",
	"flows.Contact.SetLanguage": "flows.Contact.Language",
	"flows.Contact.SetStatus":   "flows.Contact.Status",
	"flows.Contact.SetTimezone": "flows.Contact.Timezone",
	"flows.FieldValues.Set":     "flows.FieldValues.Get",
}

// Contact struct fields that hold mirrored state
var c03ContactFields = []string{"name", "language", "status", "timezone", "urns", "groups", "fields", "ticket", "lastSeenOn"}

// c03AllowedMutatorCaller decides whether fn may call mutator (R1). The classes are semantic, not positional.
// c03AllowedMutatorCaller: fn may call the mutator itself, or is an unexported helper all of whose callers may (a block
// extracted from an owner acts on the owner's behalf).
func c03AllowedMutatorCaller(p *core.Program, fn *ssa.Function, mutator string, applyImpls map[*ssa.Function]bool) (bool, string) {
	return c03AllowedDepth(p, fn, mutator, applyImpls, 0)
}

func c03AllowedDepth(p *core.Program, fn *ssa.Function, mutator string, applyImpls map[*ssa.Function]bool, depth int) (bool, string) {
	if ok, why := c03AllowedDirect(p, fn, mutator, applyImpls); ok {
		return ok, why
	}
	root := fn
	for root.Parent() != nil {
		root = root.Parent()
	}
	if depth >= 3 || root.Object() == nil || root.Object().Exported() {
		return false, ""
	}
	sites := p.CallsTo(root)
	n := 0
	owner := ""
	for _, cs := range sites {
		if p.IsTestFile(cs.Pos()) || core.FuncPkgPath(cs.Caller) != core.FuncPkgPath(root) {
			if !p.IsTestFile(cs.Pos()) {
				return false, ""
			}
			continue
		}
		ok, why := c03AllowedDepth(p, cs.Caller, mutator, applyImpls, depth+1)
		if !ok {
			return false, ""
		}
		n++
		owner = core.FuncName(cs.Caller) + " (" + why + ")"
	}
	if n == 0 {
		return false, ""
	}
	return true, "unexported helper called only from " + owner
}

func c03AllowedDirect(p *core.Program, fn *ssa.Function, mutator string, applyImpls map[*ssa.Function]bool) (bool, string) {
	root := fn
	for root.Parent() != nil {
		root = root.Parent()
	}
	if applyImpls[root] {
		return true, "Modifier.Apply implementation"
	}
	pkg := core.RelPkg(core.FuncPkgPath(root))
	recvName := ""
	if recv := root.Signature.Recv(); recv != nil {
		t := recv.Type()
		if pt, ok := t.(*types.Pointer); ok {
			t = pt.Elem()
		}
		if n, ok := t.(*types.Named); ok {
			recvName = n.Obj().Name()
		}
	}
	switch {
	case pkg == "cmd" || strings.HasPrefix(pkg, "cmd/") || pkg == "test" || strings.HasPrefix(pkg, "test/"):
		return true, "command-line tool / test helper preparing a contact before any session exists (not library code)"
	case pkg == "flows/modifiers" && root.Name() == "ReevaluateGroups":
		return true, "modifiers.ReevaluateGroups (reports via contact_groups_changed, R5)"
	case pkg == "flows":
		// the owning types' own methods, constructors and readers
		if recv := root.Signature.Recv(); recv != nil {
			t := recv.Type()
			if pt, ok := t.(*types.Pointer); ok {
				t = pt.Elem()
			}
			if n, ok := t.(*types.Named); ok {
				switch n.Obj().Name() {
				case "Contact", "GroupList", "FieldValues", "ContactURN", "URNList":
					return true, "method of the owning type " + n.Obj().Name()
				}
			}
			return false, ""
		}
		switch root.Name() {
		case "NewContact", "NewEmptyContact", "ReadContact", "NewFieldValues", "NewGroupList", "NewURNList", "ReadURNList", "NewContactURN", "ParseRawURN":
			return true, "constructor/reader of a fresh contact"
		}
		return false, ""
	case pkg == "flows/engine" && recvName == "session" && root.Name() == "SetInput" && mutator == "flows.Contact.SetLastSeenOn":
		return true, "session.SetInput: last-seen is reproduced from the msg_received event"
	}
	return false, ""
}

// c03R10: result-less setters of Contact store on every path.
func c03R10(p *core.Program, r *core.Report) {
	n := 0
	for _, fn := range p.ModuleFunctions() {
		rn := recvNamed(fn)
		if rn == nil || rn.Obj().Name() != "Contact" || core.RelPkg(core.FuncPkgPath(fn)) != "flows" || !strings.HasPrefix(fn.Name(), "Set") || p.IsTestFile(fn.Pos()) || fn.Synthetic != "" {
			continue
		}
		if fn.Signature.Results().Len() != 0 || fn.Signature.Params().Len() != 1 || len(fn.Params) != 2 {
			continue
		}
		n++
		// blocks that store something derived from the parameter into a field of the receiver
		stores := map[*ssa.BasicBlock]bool{}
		core.EachInstr(fn, false, func(_ *ssa.Function, in ssa.Instruction) {
			st, ok := in.(*ssa.Store)
			if !ok {
				return
			}
			fa, ok := st.Addr.(*ssa.FieldAddr)
			if !ok || fa.X != ssa.Value(fn.Params[0]) {
				return
			}
			if core.BackSlice(st.Val, func(*ssa.Call) bool { return true })[fn.Params[1]] {
				stores[st.Block()] = true
			}
		})
		// every path from the entry to a return passes such a block
		ok := len(stores) > 0
		if ok {
			seen := map[*ssa.BasicBlock]bool{}
			var walk func(b *ssa.BasicBlock)
			walk = func(b *ssa.BasicBlock) {
				if seen[b] || stores[b] {
					return
				}
				seen[b] = true
				if _, isRet := b.Instrs[len(b.Instrs)-1].(*ssa.Return); isRet {
					ok = false
				}
				for _, sc := range b.Succs {
					walk(sc)
				}
			}
			walk(fn.Blocks[0])
		}
		r.Check(ok, "R10", "Contact."+fn.Name()+"/always-sets", p.Pos(fn.Pos()), "the parameter is stored on every path", "Contact."+fn.Name()+" returns on some path without storing its argument, and has no result to say so: the caller announces a change (an event) that did not happen")
	}
	r.Count("contact_plain_setters", n)
	r.Require("contact_plain_setters", n, 4)
}

// c03R9: element identity inside the list types of package flows.
func c03R9(p *core.Program, r *core.Report) {
	pk := p.Pkg("flows")
	if pk == nil {
		r.Errorf("package flows not loaded")
		return
	}
	hasUUID := func(t types.Type) bool {
		ms := types.NewMethodSet(t)
		for i := 0; i < ms.Len(); i++ {
			if ms.At(i).Obj().Name() == "UUID" {
				return true
			}
		}
		return false
	}
	// list type -> element pointer type
	lists := map[*types.Named]types.Type{}
	sc := pk.Types.Scope()
	for _, nm := range sc.Names() {
		tn, ok := sc.Lookup(nm).(*types.TypeName)
		if !ok {
			continue
		}
		named, ok := tn.Type().(*types.Named)
		if !ok {
			continue
		}
		st, ok := named.Underlying().(*types.Struct)
		if !ok {
			continue
		}
		for i := 0; i < st.NumFields(); i++ {
			sl, ok := st.Field(i).Type().Underlying().(*types.Slice)
			if !ok {
				continue
			}
			pt, ok := sl.Elem().(*types.Pointer)
			if !ok {
				continue
			}
			if en, ok := pt.Elem().(*types.Named); ok && en.Obj().Pkg() == pk.Types && hasUUID(pt) {
				lists[named] = pt
			}
		}
	}
	nLists, nByUUID := 0, 0
	for _, named := range sortedNamed(lists) {
		elem := lists[named]
		nLists++
		var byPointer []string
		uuidCmp := 0
		for _, fn := range p.ModuleFunctions() {
			rn := recvNamed(fn)
			if rn != named || p.IsTestFile(fn.Pos()) {
				continue
			}
			core.EachInstr(fn, true, func(_ *ssa.Function, in ssa.Instruction) {
				switch x := in.(type) {
				case *ssa.BinOp:
					if x.Op != token.EQL && x.Op != token.NEQ {
						return
					}
					if types.Identical(x.X.Type(), elem) && types.Identical(x.Y.Type(), elem) && !core.IsNilConst(x.X) && !core.IsNilConst(x.Y) {
						byPointer = append(byPointer, "== on two "+core.ShortType(elem)+" at "+p.Pos(x.Pos()))
					}
					isUUIDCall := func(v ssa.Value) bool {
						c, ok := core.StripConv(v).(*ssa.Call)
						if !ok {
							return false
						}
						o := core.CalleeObj(&c.Call)
						return o != nil && o.Name() == "UUID"
					}
					if isUUIDCall(x.X) && isUUIDCall(x.Y) {
						uuidCmp++
					}
				case *ssa.Call:
					g := x.Call.StaticCallee()
					if g == nil || g.Pkg == nil || g.Pkg.Pkg.Path() != "slices" {
						if g == nil || g.Origin() == nil || g.Origin().Pkg == nil || g.Origin().Pkg.Pkg.Path() != "slices" {
							return
						}
					}
					for _, ta := range g.TypeArgs() {
						if types.Identical(ta, elem) {
							byPointer = append(byPointer, g.Name()+" (element equality) at "+p.Pos(x.Pos()))
							return
						}
					}
				}
			})
		}
		nByUUID += uuidCmp
		r.Check(len(byPointer) == 0, "R9", named.Obj().Name()+"/elements-identified-by-uuid", p.Pos(named.Obj().Pos()), fmt.Sprintf("%d comparisons, all of UUID()", uuidCmp),
			named.Obj().Name()+" identifies its elements by pointer in one place ("+strings.Join(byPointer, "; ")+") and by UUID in others: for a contact whose groups come from another load of the same assets the pointer test never matches, so what the modifier announces (decided by UUID) is not what the list does")
	}
	r.Count("uuid_identified_list_types", nLists)
	r.Count("uuid_element_comparisons", nByUUID)
	r.Require("uuid_identified_list_types", nLists, 1)
	r.Require("uuid_element_comparisons", nByUUID, 1)
}

func sortedNamed(m map[*types.Named]types.Type) []*types.Named {
	var out []*types.Named
	for n := range m {
		out = append(out, n)
	}
	sort.Slice(out, func(i, j int) bool { return out[i].Obj().Name() < out[j].Obj().Name() })
	return out
}

func checkC03(p *core.Program, r *core.Report) {
	r.Rule("R1", "contact mutators (setters, URN/group/field list writers, direct stores to Contact fields) are called only from Modifier.Apply implementations, modifiers.ReevaluateGroups, the owning types' own methods/constructors, and session.SetInput (last seen)")
	r.Rule("R2", "per Modifier.Apply implementation, on every path (loops unrolled 3x, mutator results forked true/false): contact mutated <=> returns true; mutated => the paired change event is logged; not mutated => no change event")
	r.Rule("R4", "in each Apply, the value stored by a setter, the value announced by the event and the value compared with the getter in the guard are the same value")
	r.Rule("R5", "engine-side pairs: Contact.ReevaluateQueryBasedGroups reports exactly the groups it adds/removes; both of its callers forward (added, removed) to contact_groups_changed; the resume contact swap is announced by contact_refreshed; actions reach modifiers.Apply only through baseAction.applyModifier")
	r.Rule("R6", "reset and rebuild: where an Apply calls a mutator that replaces a whole list by an empty one (a parameterless Contact method storing a fresh list into a field, e.g. ClearURNs) and also mutators that add to the same list, `mutated` no longer implies `changed`; every path that reports a change (returns true) is then also controlled by the false edge of an Equal comparison of that list")
	r.Rule("R8", "`unchanged` includes `both unset`: every helper of the modifiers package that compares two values of one pointer type for equality and decides an Apply guard returns true when both are nil (evaluated over the nil/nil case) — otherwise clearing what is already unset is reported as a change, every time")
	r.Rule("R7", "one notion of `same URN`: the Contact methods that take a URN (HasURN, RemoveURN, and AddURN through HasURN) compare it with the contact's URNs the same way everywhere (Identity() on both sides), so that `has` and `remove` cannot disagree; ContactURN.Equal, which decides whether a URN list changed, compares the complete raw URN that contact_urns_changed carries, never a projection of it")
	r.Rule("R9", "one notion of `same group`: inside the methods of a list type of package flows whose elements are pointers to an asset wrapper with a UUID() method (GroupList), elements are identified the same way everywhere — by UUID — and never by pointer (an == on two element pointers, slices.Index / slices.Contains on the element slice): the membership test and Add go by UUID, so a Remove that goes by pointer finds nothing when the contact's groups were resolved from another load of the same assets, yet the modifier has already decided, by UUID, to announce the removal")
	r.Rule("R10", "a setter that reports nothing always sets: every method Set… of flows.Contact that has one parameter and no result stores (a value derived from) that parameter into a field of the contact on every path — its callers announce the change (msg_received after SetLastSeenOn, the modifiers' events after SetName / SetLanguage / …) without being able to learn that nothing was stored")
	r.Assumption("the replay semantics of each event type (that applying contact_name_changed sets the name, etc.) is the host's contract and is not checked")

	modIface := p.Interface("flows", "Modifier")
	if modIface == nil {
		r.Errorf("flows.Modifier not found")
		return
	}
	impls := p.Implementers(modIface)
	applyImpls := map[*ssa.Function]bool{}
	var applies []*ssa.Function
	for _, n := range impls {
		if fn := p.Method(core.RelPkg(n.Obj().Pkg().Path()), n.Obj().Name(), "Apply"); fn != nil && fn.Blocks != nil {
			if !applyImpls[fn] {
				applyImpls[fn] = true
				applies = append(applies, fn)
			}
		}
	}
	if !r.Require("modifier_apply_impls", len(applies), 9) {
		return
	}

	c03R6(p, r, applies)
	c03R7(p, r)
	c03R9(p, r)
	c03R10(p, r)
	c03R8(p, r, applies)

	// ---------------- R1
	nSites := 0
	for _, cs := range p.AllCalls() {
		o := core.CalleeObj(cs.Common())
		if o == nil {
			continue
		}
		name := core.ObjName(o)
		if _, ok := c03Mutators[name]; !ok {
			continue
		}
		if p.IsTestFile(cs.Pos()) {
			continue
		}
		nSites++
		ok, why := c03AllowedMutatorCaller(p, cs.Caller, name, applyImpls)
		key := core.FuncName(cs.Caller) + "->" + name
		if ok {
			r.OK("R1", key, p.Pos(cs.Pos()), why)
		} else {
			r.Bad("R1", key, p.Pos(cs.Pos()), "contact mutator "+name+" called outside the modifier/owner set: the change bypasses the event pairing")
		}
	}
	r.Require("mutator_call_sites", nSites, 8)
	for _, fname := range c03ContactFields {
		fv := p.FieldOf("flows", "Contact", fname)
		if fv == nil {
			r.Errorf("Contact field %s not found", fname)
			continue
		}
		for _, w := range p.FieldWrites(fv) {
			ok, why := c03AllowedMutatorCaller(p, w.Fn, "", applyImpls)
			key := core.FuncName(w.Fn) + "->Contact." + fname
			if ok && core.RelPkg(core.FuncPkgPath(w.Fn)) == "flows" {
				r.OK("R1", key, p.Pos(w.Instr.Pos()), why)
			} else {
				r.Bad("R1", key, p.Pos(w.Instr.Pos()), "direct store to Contact."+fname+" outside the owning type")
			}
			r.Count("contact_field_stores", 1)
		}
	}

	// ---------------- R2 + R4 per Apply
	for _, fn := range applies {
		c03Apply(p, r, fn)
	}

	// ---------------- R5
	c03R5(p, r)
}

// isLogParam: the flows.EventCallback parameter of fn
func eventCallbackParam(fn *ssa.Function) *ssa.Parameter {
	for _, prm := range fn.Params {
		if n, ok := prm.Type().(*types.Named); ok && n.Obj().Name() == "EventCallback" {
			return prm
		}
	}
	return nil
}

// eventCtorOf: the events.NewXxx constructor whose result is the (converted) value v.
func eventCtorOf(v ssa.Value) (string, *ssa.Call) {
	v = core.StripConv(v)
	if c, ok := v.(*ssa.Call); ok {
		if o := core.CalleeObj(&c.Call); o != nil && o.Pkg() != nil && strings.HasSuffix(o.Pkg().Path(), "/flows/events") {
			return core.ObjName(o), c
		}
	}
	return "", nil
}

func isErrorEventCtor(name string) bool {
	return strings.HasSuffix(name, ".NewError") || strings.HasSuffix(name, ".NewErrorf") || strings.HasSuffix(name, ".NewFailure") ||
		strings.HasSuffix(name, ".NewFailuref") || strings.HasSuffix(name, ".NewDependencyError")
}

func c03Apply(p *core.Program, r *core.Report, fn *ssa.Function) {
	name := core.FuncName(fn)
	logP := eventCallbackParam(fn)
	if logP == nil {
		r.Errorf("%s has no EventCallback parameter", name)
		return
	}
	type viol struct{ clause, detail string }
	viols := map[string]string{}
	nMutSites := map[ssa.Instruction]bool{}
	var onCallFor func(in *ssa.Function, logP *ssa.Parameter, depth int) func(s *core.PathState, c ssa.CallInstruction) []core.CallOutcome
	onCallFor = func(in *ssa.Function, logP *ssa.Parameter, depth int) func(s *core.PathState, c ssa.CallInstruction) []core.CallOutcome {
		return func(s *core.PathState, c ssa.CallInstruction) []core.CallOutcome {
			cc := c.Common()
			// a helper of the package that does part of the work (a loop moved out of Apply): its paths are enumerated
			// with the same rules and each distinct combination of effects becomes one outcome of the call; appends to
			// the slice it returns count as appends to the call's result
			if g := cc.StaticCallee(); g != nil && g.Blocks != nil && depth < 2 && g != in && core.FuncPkgPath(g) == core.FuncPkgPath(fn) {
				if _, isMut := c03Mutators[core.ObjName(core.CalleeObj(cc))]; !isMut {
					if hl := eventCallbackParam(g); hl != nil {
						passesLog := false
						for i, fp := range g.Params {
							if fp == hl && i < len(cc.Args) && cc.Args[i] == ssa.Value(logP) {
								passesLog = true
							}
						}
						if passesLog {
							if outs := c03HelperOutcomes(g, hl, c, onCallFor(g, hl, depth+1)); outs != nil {
								return outs
							}
						}
					}
				}
			}
			if b, ok := cc.Value.(*ssa.Builtin); ok && b.Name() == "append" && len(cc.Args) > 0 {
				if root := sliceRoot(cc.Args[0]); root != nil {
					return []core.CallOutcome{{Effects: []core.Effect{{Kind: "APPEND", Instr: c, Data: root}}}}
				}
				return nil
			}
			if !cc.IsInvoke() && cc.Value == ssa.Value(logP) && len(cc.Args) == 1 {
				ctor, _ := eventCtorOf(cc.Args[0])
				if ctor == "" {
					ctor = "?"
				}
				return []core.CallOutcome{{Effects: []core.Effect{{Kind: "LOG", Instr: c, Data: ctor}}}}
			}
			o := core.CalleeObj(cc)
			if o == nil {
				return nil
			}
			mn := core.ObjName(o)
			if o.Name() == "Equal" && len(cc.Args) == 2 {
				// a comparison of the contact's list as it is now with the list read on entry, before any mutator ran:
				// on the equal edge the mutations so far cancel out (R6 requires this where a list is reset and rebuilt)
				var getters []*ssa.Call
				for _, a := range cc.Args {
					if g, ok := core.StripConv(a).(*ssa.Call); ok {
						if go_ := core.CalleeObj(&g.Call); go_ != nil && strings.HasPrefix(core.ObjName(go_), "flows.Contact.") && len(g.Call.Args) == 1 {
							getters = append(getters, g)
						}
					}
				}
				if len(getters) == 2 && getters[0] != getters[1] && core.ObjName(core.CalleeObj(&getters[0].Call)) == core.ObjName(core.CalleeObj(&getters[1].Call)) &&
					(getters[0].Block() == fn.Blocks[0] || getters[1].Block() == fn.Blocks[0]) {
					return []core.CallOutcome{{Result: core.True, Effects: []core.Effect{{Kind: "SAME", Instr: c}}}, {Result: core.False}}
				}
				return nil
			}
			if _, ok := c03Mutators[mn]; !ok {
				return nil
			}
			nMutSites[c] = true
			mut := core.Effect{Kind: "MUT", Instr: c, Data: mn}
			sig := o.Type().(*types.Signature)
			if sig.Results().Len() == 1 {
				if b, ok := sig.Results().At(0).Type().Underlying().(*types.Basic); ok && b.Kind() == types.Bool {
					if v, ok := c.(ssa.Value); ok && v.Referrers() != nil && len(*v.Referrers()) > 0 {
						return []core.CallOutcome{{Result: core.True, Effects: []core.Effect{mut}}, {Result: core.False}}
					}
				}
			}
			return []core.CallOutcome{{Effects: []core.Effect{mut}}}
		}
	}
	rules := core.PathRules{
		LoopBound: 2,
		OnBranch:  func(s *core.PathState, cond ssa.Value) core.AB { return lenFact(s, cond) },
		OnCall:    onCallFor(fn, logP, 0),
		OnExit: func(s *core.PathState, ret *ssa.Return, pan *ssa.Panic) {
			if ret == nil || len(ret.Results) != 1 {
				return
			}
			rv := s.Val(ret.Results[0])
			var muts, logs []string
			for _, e := range s.Effects {
				switch e.Kind {
				case "MUT":
					muts = append(muts, e.Data.(string))
				case "LOG":
					logs = append(logs, e.Data.(string))
				case "SAME":
					muts = nil // compared equal with the list on entry: no net change up to here
				}
			}
			mutated := len(muts) > 0
			changeLogged := false
			for _, l := range logs {
				if !isErrorEventCtor(l) {
					changeLogged = true
				}
			}
			path := fmt.Sprintf("blocks %v, mutators %v, events %v, returns %s", s.Blocks, short(muts), short(logs), rv)
			add := func(clause, d string) {
				if _, ok := viols[clause]; !ok {
					viols[clause] = d + " [" + path + "]"
				}
			}
			if rv == core.Unk {
				add("return-determined", "the returned flag is not determined by the mutator results on this path")
				return
			}
			if mutated && rv != core.True {
				add("mutated=>true", "the contact is mutated on a path that reports 'not modified' (no event, no group re-evaluation)")
			}
			if !mutated && rv == core.True {
				add("true=>mutated", "reports 'modified' on a path that does not change the contact")
			}
			if mutated {
				for _, m := range muts {
					want := c03Mutators[m]
					found := false
					for _, l := range logs {
						if l == want {
							found = true
						}
					}
					if !found {
						add("mutated=>event", "mutation by "+m+" is not announced by "+want+" on this path")
					}
				}
			}
			if !mutated && changeLogged {
				add("event=>mutated", "a change event is logged on a path that does not change the contact")
			}
		},
	}
	res := core.ExplorePaths(fn, rules)
	r.Count("apply_paths", res.Paths)
	if res.Truncated {
		r.Unknown("R2", name, p.Pos(fn.Pos()), "path budget exceeded")
		return
	}
	if len(nMutSites) == 0 {
		r.Bad("R2", name+"/has-mutator", p.Pos(fn.Pos()), "Apply implementation calls no contact mutator on any path: the rule cannot see what it changes")
	}
	for _, clause := range []string{"return-determined", "mutated=>true", "true=>mutated", "mutated=>event", "event=>mutated"} {
		if d, bad := viols[clause]; bad {
			if clause == "return-determined" {
				r.Unknown("R2", name+"/"+clause, p.Pos(fn.Pos()), d)
			} else {
				r.Bad("R2", name+"/"+clause, p.Pos(fn.Pos()), d)
			}
		} else {
			r.OK("R2", name+"/"+clause, p.Pos(fn.Pos()), fmt.Sprintf("%d paths", res.Paths))
		}
	}

	// ---- R4: guard / store / event agree (value setters only)
	for _, cs := range core.Calls(fn, false) {
		o := core.CalleeObj(cs.Common())
		mn := core.ObjName(o)
		getter, ok := c03Getters[mn]
		if !ok {
			continue
		}
		args := cs.Common().Args
		stored := args[len(args)-1] // receiver first for static method calls; the value is the last argument
		key := name + "/" + mn
		cst := canon(stored)
		// (a) an event constructor on the function's log calls receives the same value
		announced := false
		for _, c2 := range core.Calls(fn, false) {
			cc := c2.Common()
			if cc.IsInvoke() || cc.Value != ssa.Value(logP) || len(cc.Args) != 1 {
				continue
			}
			ctor, call := eventCtorOf(cc.Args[0])
			if ctor != c03Mutators[mn] || call == nil {
				continue
			}
			for _, a := range call.Call.Args {
				if canon(a) == cst {
					announced = true
				}
			}
		}
		r.Check(announced, "R4", key+"/event-value", p.Pos(cs.Pos()), "event carries the stored value "+cst,
			"the value announced by "+c03Mutators[mn]+" is not the value stored by "+mn+" ("+cst+")")
		// (b) the guard that controls the setter compares the getter with the stored value
		conds := controllingConds(cs.Instr.Block())
		okGuard := false
		var seen []string
		for _, cond := range conds {
			sl := core.BackSlice(cond, func(c *ssa.Call) bool { return true })
			hasGetter, hasVal := false, false
			for v := range sl {
				if c, ok := v.(*ssa.Call); ok {
					if oo := core.CalleeObj(&c.Call); oo != nil && core.ObjName(oo) == getter {
						hasGetter = true
					}
				}
				if canon(v) == cst {
					hasVal = true
				}
			}
			seen = append(seen, fmt.Sprintf("getter=%v value=%v", hasGetter, hasVal))
			if hasGetter && hasVal {
				okGuard = true
			}
		}
		// (c) a stored object is not modified between the comparison and the store: every write through the stored
		// pointer happens before the guard's comparison is evaluated
		if _, isPtr := stored.Type().Underlying().(*types.Pointer); isPtr {
			var cmpCalls []ssa.Instruction
			for _, cond := range conds {
				for v := range core.BackSlice(cond, func(c *ssa.Call) bool { return true }) {
					if c, ok := v.(*ssa.Call); ok {
						for _, a := range c.Call.Args {
							if canon(a) == cst {
								cmpCalls = append(cmpCalls, c)
							}
						}
					}
				}
			}
			late := ""
			core.EachInstr(fn, false, func(_ *ssa.Function, in ssa.Instruction) {
				st, ok := in.(*ssa.Store)
				if !ok {
					return
				}
				fa, ok := st.Addr.(*ssa.FieldAddr)
				if !ok || canon(fa.X) != cst {
					return
				}
				for _, cc := range cmpCalls {
					if instrReaches(cc, st) {
						late = "field " + core.FieldAddrVar(fa).Name() + " of the new value is written at " + p.Pos(st.Pos()) + " after the value was compared with the old one"
					}
				}
			})
			r.Check(late == "", "R4", key+"/value-frozen-after-compare", p.Pos(cs.Pos()), "the stored object is complete before it is compared",
				late+": the guard judges a different value from the one stored and announced")
		}
		r.Check(okGuard, "R4", key+"/guard-value", p.Pos(cs.Pos()), "change guard compares "+getter+" with the stored value",
			fmt.Sprintf("the guard before %s does not compare %s() with the value that is stored (%s): an unchanged contact is re-written and re-announced, or a change is missed %v", mn, getter, cst, seen))
	}
}

func short(in []string) []string {
	var out []string
	for _, s := range in {
		if i := strings.LastIndex(s, "."); i >= 0 {
			s = s[i+1:]
		}
		out = append(out, s)
	}
	return out
}

// controllingConds returns the branch conditions that (transitively) control whether b executes.
func controllingConds(b *ssa.BasicBlock) []ssa.Value {
	var out []ssa.Value
	for _, e := range core.ControllingConds(b) {
		out = append(out, e.Cond)
	}
	return out
}

// mayConds: every condition that can decide (within one loop iteration) whether b executes.
func mayConds(b *ssa.BasicBlock) []ssa.Value {
	var out []ssa.Value
	for _, e := range core.MayConds(b) {
		out = append(out, e.Cond)
	}
	return out
}

// canon renders a pure value as a canonical expression so that two loads of the same field compare equal.
func canon(v ssa.Value) string {
	return canonDepth(v, 0)
}

func canonDepth(v ssa.Value, d int) string {
	if d > 12 {
		return "…"
	}
	switch x := v.(type) {
	case *ssa.Parameter:
		return x.Name()
	case *ssa.Const:
		return x.String()
	case *ssa.FieldAddr:
		return canonDepth(x.X, d+1) + "." + core.FieldAddrVar(x).Name()
	case *ssa.Field:
		return canonDepth(x.X, d+1) + "." + core.FieldAddrVar(x).Name()
	case *ssa.UnOp:
		if x.Op == token.MUL {
			return canonDepth(x.X, d+1) // a load of a location is identified with the location
		}
		return x.Op.String() + canonDepth(x.X, d+1)
	case *ssa.ChangeType:
		return canonDepth(x.X, d+1)
	case *ssa.Convert:
		return canonDepth(x.X, d+1)
	case *ssa.MakeInterface:
		return canonDepth(x.X, d+1)
	case *ssa.ChangeInterface:
		return canonDepth(x.X, d+1)
	case *ssa.Call:
		o := core.CalleeObj(&x.Call)
		var as []string
		if x.Call.IsInvoke() {
			as = append(as, canonDepth(x.Call.Value, d+1))
		}
		for _, a := range x.Call.Args {
			as = append(as, canonDepth(a, d+1))
		}
		n := "call"
		if o != nil {
			n = core.ObjName(o)
		}
		return n + "(" + strings.Join(as, ",") + ")"
	case *ssa.Extract:
		return fmt.Sprintf("%s#%d", canonDepth(x.Tuple, d+1), x.Index)
	case *ssa.Phi:
		var es []string
		for _, e := range x.Edges {
			if e == v {
				continue
			}
			es = append(es, canonDepth(e, d+1))
		}
		sort.Strings(es)
		return "phi(" + strings.Join(es, "|") + ")"
	case *ssa.Alloc:
		return "alloc@" + x.Name()
	}
	return v.Name()
}

// ---------------------------------------------------------------------------------------------------------

func c03R5(p *core.Program, r *core.Report) {
	reeval := p.Method("flows", "Contact", "ReevaluateQueryBasedGroups")
	if reeval == nil {
		r.Errorf("Contact.ReevaluateQueryBasedGroups not found")
		return
	}
	// (a) inside: each successful Add/Remove is immediately reported by an append to a returned slice
	{
		bad := ""
		var onCallFor func(in *ssa.Function, depth int) func(s *core.PathState, c ssa.CallInstruction) []core.CallOutcome
		onCallFor = func(in *ssa.Function, depth int) func(s *core.PathState, c ssa.CallInstruction) []core.CallOutcome {
			return func(s *core.PathState, c ssa.CallInstruction) []core.CallOutcome {
				cc := c.Common()
				if b, ok := cc.Value.(*ssa.Builtin); ok && b.Name() == "append" {
					return []core.CallOutcome{{Effects: []core.Effect{{Kind: "APPEND", Instr: c}}}}
				}
				o := core.CalleeObj(cc)
				if o == nil {
					return nil
				}
				mn := core.ObjName(o)
				// a helper of the package that changes membership on behalf of this method (the if/else moved out of the loop):
				// its paths are enumerated with the same rules; each distinct combination of effects and returned flags is one
				// outcome of the call (the flags of a multi-valued result are delivered to its Extracts by c03TupleVals)
				if _, isMut := c03Mutators[mn]; !isMut {
					if g := cc.StaticCallee(); g != nil && g.Blocks != nil && depth < 2 && g != in && core.FuncPkgPath(g) == core.FuncPkgPath(reeval) && c03CallsMutator(g, 2) {
						if outs := c03HelperOutcomes(g, nil, c, onCallFor(g, depth+1)); outs != nil {
							return outs
						}
					}
				}
				if mn == "flows.GroupList.Add" || mn == "flows.GroupList.Remove" {
					return []core.CallOutcome{{Result: core.True, Effects: []core.Effect{{Kind: "MUT", Instr: c, Data: mn}}}, {Result: core.False}}
				}
				if _, isMut := c03Mutators[mn]; isMut {
					return []core.CallOutcome{{Effects: []core.Effect{{Kind: "MUT", Instr: c, Data: mn}}}}
				}
				return nil
			}
		}
		res := core.ExplorePaths(reeval, core.PathRules{
			LoopBound: 2,
			OnCall:    onCallFor(reeval, 0),
			OnInstr:   c03TupleVals,
			OnExit: func(s *core.PathState, ret *ssa.Return, pan *ssa.Panic) {
				pending := 0
				for _, e := range s.Effects {
					switch e.Kind {
					case "MUT":
						if pending > 0 {
							bad = "a membership change is not reported before the next one"
						}
						pending++
					case "APPEND":
						if pending == 0 {
							bad = "a group is reported as added/removed on a path where membership did not change"
						} else {
							pending--
						}
					}
				}
				if pending > 0 && bad == "" {
					bad = fmt.Sprintf("a membership change is not reported in the returned lists (blocks %v)", s.Blocks)
				}
			},
		})
		r.Count("reevaluate_paths", res.Paths)
		r.Check(bad == "" && res.Paths > 0 && !res.Truncated, "R5", "flows.Contact.ReevaluateQueryBasedGroups/reports-each-change", p.Pos(reeval.Pos()),
			"every successful Add/Remove is appended to a returned list, and nothing else is", bad)
		// the appended value is the group that was added/removed and goes to the matching list: Add->first result, Remove->second
		c03ReevalLists(p, r, reeval)
	}
	// (b) callers forward both results to NewContactGroupsChanged which is passed to the log callback
	sites := p.CallsTo(reeval)
	n := 0
	for _, cs := range sites {
		if p.IsTestFile(cs.Pos()) {
			continue
		}
		n++
		key := core.FuncName(cs.Caller) + "/forwards-group-changes"
		call, _ := cs.Instr.(*ssa.Call)
		if call == nil {
			r.Bad("R5", key, p.Pos(cs.Pos()), "result of ReevaluateQueryBasedGroups discarded (go/defer)")
			continue
		}
		okFwd := false
		detail := "no events.NewContactGroupsChanged receives the added/removed lists"
		for _, c2 := range core.Calls(cs.Caller, false) {
			o := core.CalleeObj(c2.Common())
			if o == nil || core.ObjName(o) != "flows/events.NewContactGroupsChanged" {
				continue
			}
			args := c2.Common().Args
			if len(args) != 2 {
				continue
			}
			a0 := derivesFromExtract(args[0], call, 0)
			a1 := derivesFromExtract(args[1], call, 1)
			logged := valueReachesCallback(c2.Instr.(ssa.Value), cs.Caller)
			if a0 && a1 && logged {
				okFwd = true
				if g := groupsEventGuard(call, c2.Instr); g != "" {
					okFwd = false
					detail = g + ": a membership change of the other kind is made without an event"
				}
			} else {
				detail = fmt.Sprintf("NewContactGroupsChanged(added<-result0=%v, removed<-result1=%v) logged=%v", a0, a1, logged)
			}
		}
		r.Check(okFwd, "R5", key, p.Pos(cs.Pos()), "added->arg0, removed->arg1, event passed to the log callback", detail)
	}
	r.Require("reevaluate_call_sites", n, 2)

	// (c) resume contact swap announced: in every resumes.*Apply that calls Session.SetContact, a call of the log
	// callback with events.NewContactRefreshed(same contact) exists under the !Equal guard
	setContact := p.CallsToName("flows.Session.SetContact")
	nSC := 0
	for _, cs := range setContact {
		if p.IsTestFile(cs.Pos()) {
			continue
		}
		nSC++
		key := core.FuncName(cs.Caller) + "/SetContact-announced"
		if core.RelPkg(core.FuncPkgPath(cs.Caller)) == "flows/triggers" && cs.Caller.Name() == "Initialize" {
			r.OK("R5", key, p.Pos(cs.Pos()), "session creation: the trigger's contact becomes the session contact before any sprint (nothing to announce)")
			continue
		}
		stored := cs.Common().Args[len(cs.Common().Args)-1]
		okAnn := false
		wrongOperand := ""
		for _, c2 := range core.Calls(cs.Caller, false) {
			o := core.CalleeObj(c2.Common())
			if o == nil || core.ObjName(o) != "flows/events.NewContactRefreshed" {
				continue
			}
			if canon(c2.Common().Args[0]) != canon(stored) {
				continue
			}
			if !valueReachesCallback(c2.Instr.(ssa.Value), cs.Caller) {
				continue
			}
			// the log call is guarded by a condition derived from Contact.Equal(stored)
			for _, cond := range controllingConds(c2.Instr.Block()) {
				for v := range core.BackSlice(cond, func(*ssa.Call) bool { return true }) {
					if c, ok := v.(*ssa.Call); ok {
						if oo := core.CalleeObj(&c.Call); oo != nil && core.ObjName(oo) == "flows.Contact.Equal" && len(c.Call.Args) == 2 {
							// the comparison is between the new contact and the session's CURRENT contact: the other
							// operand is Session.Contact() on the session whose contact is replaced
							sessionOf := func(call ssa.CallInstruction) string {
								if call.Common().IsInvoke() {
									return canon(call.Common().Value)
								}
								return ""
							}
							for k, a := range c.Call.Args {
								other := c.Call.Args[1-k]
								if canon(a) != canon(stored) {
									continue
								}
								if g, isCall := core.StripConv(other).(*ssa.Call); isCall && g.Call.IsInvoke() && g.Call.Method.Name() == "Contact" &&
									core.ShortType(g.Call.Value.Type()) == "flows.Session" && sessionOf(g) == sessionOf(cs.Instr.(ssa.CallInstruction)) {
									okAnn = true
								} else {
									wrongOperand = canonShort(other)
								}
							}
						}
					}
				}
			}
		}
		detail := "session contact replaced without a contact_refreshed event guarded by Contact.Equal on the same value"
		if !okAnn && wrongOperand != "" {
			detail = "the contact_refreshed guard compares the new contact with " + wrongOperand + " instead of the session's current contact (Session.Contact() of the session being updated): a resume carrying a contact equal to that other one replaces the session contact without an event"
		}
		r.Check(okAnn, "R5", key, p.Pos(cs.Pos()), "contact_refreshed(new contact) logged under !Session.Contact().Equal(new) before the swap", detail)
	}
	r.Require("session_setcontact_sites", nSC, 1)

	// (d) modifiers.Apply is reached from actions only via baseAction.applyModifier
	apply := p.Func("flows/modifiers", "Apply")
	if apply == nil {
		r.Errorf("modifiers.Apply not found")
		return
	}
	nA := 0
	for _, cs := range p.CallsTo(apply) {
		if p.IsTestFile(cs.Pos()) {
			continue
		}
		pkg := core.RelPkg(core.FuncPkgPath(cs.Caller))
		if !strings.HasPrefix(pkg, "flows/") {
			continue
		}
		nA++
		key := core.FuncName(cs.Caller) + "->modifiers.Apply"
		if pkg == "flows/actions" {
			r.Check(cs.Caller.Name() == "applyModifier", "R5", key, p.Pos(cs.Pos()),
				"via applyModifier (logs the modifier, passes the run's event callback)", "an action applies a modifier without going through baseAction.applyModifier")
		} else {
			r.OK("R5", key, p.Pos(cs.Pos()), "non-action caller")
		}
	}
	r.Require("modifiers_apply_call_sites", nA, 1)
	// (e) modifiers.Apply itself: mod.Apply result is returned and guards ReevaluateGroups with the same log callback
	{
		var modCall *ssa.Call
		var reevalCall ssa.CallInstruction
		for _, cs := range core.Calls(apply, false) {
			cc := cs.Common()
			if cc.IsInvoke() && cc.Method.Name() == "Apply" {
				modCall, _ = cs.Instr.(*ssa.Call)
			}
			if o := core.CalleeObj(cc); o != nil && core.ObjName(o) == "flows/modifiers.ReevaluateGroups" {
				reevalCall = cs.Instr
			}
		}
		ok := modCall != nil && reevalCall != nil
		detail := "mod.Apply or ReevaluateGroups call missing"
		if ok {
			// every return returns the mod.Apply result
			for _, ret := range core.Returns(apply) {
				if len(ret.Results) != 1 {
					ok = false
					continue
				}
				if core.BackSlice(ret.Results[0], nil)[modCall] {
					continue
				}
				// a constant that equals the flag on this path (`if !modified { return false }`)
				same := false
				if c, isC := ret.Results[0].(*ssa.Const); isC && c.Value != nil {
					want := c.Value.String() == "true"
					for _, ce := range core.ControllingConds(ret.Block()) {
						cond, taken := ce.Cond, ce.Taken
						for {
							if un, isNot := cond.(*ssa.UnOp); isNot && un.Op == token.NOT {
								cond, taken = un.X, !taken
								continue
							}
							break
						}
						if cond == ssa.Value(modCall) && taken == want {
							same = true
						}
					}
				}
				if !same {
					ok = false
					detail = "modifiers.Apply does not return the modifier's own modified flag"
				}
			}
			// ReevaluateGroups runs on the true edge of the flag
			conds := controllingConds(reevalCall.Block())
			guarded := false
			for _, c := range conds {
				if core.BackSlice(c, nil)[modCall] {
					guarded = true
				}
			}
			if !guarded {
				// unconditional re-evaluation is also fine (stronger)
				guarded = core.InstrDominates(modCall, reevalCall) && len(conds) == 0
			}
			if !guarded {
				ok = false
				detail = "ReevaluateGroups is not run when (exactly when) the modifier reports a change"
			}
			// the log callback passed on is Apply's own parameter
			lp := eventCallbackParam(apply)
			if ok && lp != nil {
				a := reevalCall.Common().Args
				if a[len(a)-1] != ssa.Value(lp) || modCall.Call.Args[len(modCall.Call.Args)-1] != ssa.Value(lp) {
					ok = false
					detail = "events of the modifier or of the group re-evaluation are not sent to the caller's log callback"
				}
			}
		}
		r.Check(ok, "R5", "flows/modifiers.Apply/shape", p.Pos(apply.Pos()), "returns mod.Apply's flag; re-evaluates groups when it is true; same log callback", detail)
	}
}

// c03BoundCall is a call made on behalf of a function: directly in it, or inside a helper of its package that it calls
// (a block a refactoring extracted). The helper's parameters are resolved to the values the function passes for them,
// so that a rule can ask "which group is added" and "under which condition" in terms of the function's own values.
type c03BoundCall struct {
	Site  core.CallSite     // the call itself (in the function or in a helper)
	Outer ssa.Instruction   // the call in the function through which it is reached (== Site.Instr when direct)
	Chain []*ssa.Function   // helpers entered
	Via   []ssa.Instruction // Via[i]: the call that enters Chain[i] (Via[0] == Outer)
	bind  map[*ssa.Parameter]ssa.Value
	// Conds: the conditions that control the call — those of Outer in the function and, per helper level, those of the
	// next call inside the helper — with negations stripped (Taken flipped) and helper parameters resolved
	Conds []core.CondEdge
}

// Actual resolves a helper parameter to the value the function passes for it (other values are returned as they are).
func (b c03BoundCall) Actual(v ssa.Value) ssa.Value {
	for k := 0; k < 8; k++ {
		prm, ok := v.(*ssa.Parameter)
		if !ok {
			break
		}
		a, ok := b.bind[prm]
		if !ok {
			break
		}
		v = a
	}
	return v
}

func c03BoundCalls(fn *ssa.Function, depth int) []c03BoundCall {
	var out []c03BoundCall
	pkg := core.FuncPkgPath(fn)
	var walk func(f *ssa.Function, outer ssa.Instruction, chain []*ssa.Function, via []ssa.Instruction, bind map[*ssa.Parameter]ssa.Value, conds []core.CondEdge, seen map[*ssa.Function]bool)
	walk = func(f *ssa.Function, outer ssa.Instruction, chain []*ssa.Function, via []ssa.Instruction, bind map[*ssa.Parameter]ssa.Value, conds []core.CondEdge, seen map[*ssa.Function]bool) {
		for _, cs := range core.Calls(f, false) {
			bc := c03BoundCall{Site: cs, Outer: outer, Chain: chain, Via: via, bind: bind}
			if outer == nil {
				bc.Outer = cs.Instr
			}
			bc.Conds = append([]core.CondEdge{}, conds...)
			for _, ce := range core.ControllingConds(cs.Instr.Block()) {
				for k := 0; k < 8; k++ {
					if un, ok := ce.Cond.(*ssa.UnOp); ok && un.Op == token.NOT {
						ce.Cond, ce.Taken = un.X, !ce.Taken
						continue
					}
					if a := bc.Actual(ce.Cond); a != ce.Cond {
						ce.Cond = a
						continue
					}
					break
				}
				bc.Conds = append(bc.Conds, ce)
			}
			out = append(out, bc)
			g := cs.Common().StaticCallee()
			if g == nil || len(g.Blocks) == 0 || len(chain) >= depth || seen[g] || core.FuncPkgPath(g) != pkg || len(cs.Common().Args) != len(g.Params) {
				continue
			}
			nb := map[*ssa.Parameter]ssa.Value{}
			for k, v := range bind {
				nb[k] = v
			}
			for i, a := range cs.Common().Args {
				nb[g.Params[i]] = bc.Actual(a)
			}
			seen[g] = true
			walk(g, bc.Outer, append(append([]*ssa.Function{}, chain...), g), append(append([]ssa.Instruction{}, via...), cs.Instr), nb, bc.Conds, seen)
			delete(seen, g)
		}
	}
	walk(fn, nil, nil, nil, nil, nil, map[*ssa.Function]bool{fn: true})
	return out
}

// FlagValues: the values of the function that hold the boolean result of the call — the call itself, or, when it sits
// in a helper, the result position of the helper's call that every return fills with that result or with false.
func (b c03BoundCall) FlagValues() []ssa.Value {
	v, ok := b.Site.Instr.(ssa.Value)
	if !ok {
		return nil
	}
	cur := map[ssa.Value]bool{v: true}
	for lvl := len(b.Chain) - 1; lvl >= 0 && len(cur) > 0; lvl-- {
		h := b.Chain[lvl]
		via, _ := b.Via[lvl].(ssa.Value)
		next := map[ssa.Value]bool{}
		rets := core.Returns(h)
		for i := 0; via != nil && i < h.Signature.Results().Len(); i++ {
			carries, only := false, len(rets) > 0
			for _, ret := range rets {
				var walk func(x ssa.Value, d int) bool // x is the flag or false on every way into it
				walk = func(x ssa.Value, d int) bool {
					if cur[x] {
						carries = true
						return true
					}
					if c, isC := x.(*ssa.Const); isC && c.Value != nil && c.Value.String() == "false" {
						return true
					}
					if phi, isPhi := x.(*ssa.Phi); isPhi && d < 4 {
						for _, e := range phi.Edges {
							if !walk(e, d+1) {
								return false
							}
						}
						return true
					}
					return false
				}
				if !walk(ret.Results[i], 0) {
					only = false
				}
			}
			if !carries || !only {
				continue
			}
			if h.Signature.Results().Len() == 1 {
				next[via] = true
			} else if via.Referrers() != nil {
				for _, ref := range *via.Referrers() {
					if ex, isEx := ref.(*ssa.Extract); isEx && ex.Index == i {
						next[ex] = true
					}
				}
			}
		}
		cur = next
	}
	var out []ssa.Value
	for x := range cur {
		out = append(out, x)
	}
	return out
}

// derivesFromExtract: v is (a conversion/phi of) result #idx of call.
// pkgHelperFollow lets a backward slice continue through calls of functions of the given package (into their arguments):
// a helper that takes a value and hands back an extended or converted copy is transparent for provenance.
func pkgHelperFollow(pkgPath string) func(c *ssa.Call) bool {
	return func(c *ssa.Call) bool {
		if b, ok := c.Call.Value.(*ssa.Builtin); ok && b.Name() == "append" {
			return true
		}
		f := c.Call.StaticCallee()
		return f != nil && core.FuncPkgPath(f) == pkgPath && len(f.Blocks) > 0
	}
}

func derivesFromExtract(v ssa.Value, call *ssa.Call, idx int) bool {
	var follow func(c *ssa.Call) bool
	if call.Parent() != nil {
		follow = pkgHelperFollow(core.FuncPkgPath(call.Parent()))
	}
	for x := range core.BackSlice(v, follow) {
		if e, ok := x.(*ssa.Extract); ok && e.Tuple == ssa.Value(call) {
			if e.Index == idx {
				// make sure the other index is not ALSO in the slice through an append in the caller; the slice is
				// allowed to contain appends that extend the list (ReevaluateGroups adds static groups to removed)
				return true
			}
		}
	}
	return false
}

// valueReachesCallback: v (an event) is passed, possibly converted, to a call of a function-typed parameter of fn
// (the log callback) — directly.
func valueReachesCallback(v ssa.Value, fn *ssa.Function) bool {
	var visit func(v ssa.Value, depth int) bool
	visit = func(v ssa.Value, depth int) bool {
		if depth > 4 || v.Referrers() == nil {
			return false
		}
		for _, ref := range *v.Referrers() {
			switch x := ref.(type) {
			case *ssa.MakeInterface:
				if visit(x, depth+1) {
					return true
				}
			case *ssa.ChangeInterface:
				if visit(x, depth+1) {
					return true
				}
			case ssa.CallInstruction:
				cc := x.Common()
				if !cc.IsInvoke() {
					if prm, ok := cc.Value.(*ssa.Parameter); ok {
						if _, isSig := prm.Type().Underlying().(*types.Signature); isSig {
							return true
						}
					}
				}
			}
		}
		return false
	}
	return visit(v, 0)
}

// c03ReevalLists: in ReevaluateQueryBasedGroups, the value appended after Add(g) is g and lands in result 0;
// after Remove(g) it is g and lands in result 1.
func c03ReevalLists(p *core.Program, r *core.Report, fn *ssa.Function) {
	rets := core.Returns(fn)
	if len(rets) == 0 {
		return
	}
	// the Add/Remove may sit in a helper of the package that hands its result back as a flag: the group is then what the
	// method passes to the helper and the flag is the matching result of the helper's call (c03BoundCalls)
	for _, bc := range c03BoundCalls(fn, 2) {
		cs := bc.Site
		o := core.CalleeObj(cs.Common())
		mn := core.ObjName(o)
		if mn != "flows.GroupList.Add" && mn != "flows.GroupList.Remove" {
			continue
		}
		want := 0
		if mn == "flows.GroupList.Remove" {
			want = 1
		}
		group := bc.Actual(cs.Common().Args[len(cs.Common().Args)-1])
		// find the append in the block on the true edge
		ok := false
		detail := "no append of the group on the edge where " + mn + " returned true"
		var refs []ssa.Instruction
		for _, fv := range bc.FlagValues() {
			if fv.Referrers() != nil {
				refs = append(refs, *fv.Referrers()...)
			}
		}
		for _, ref := range refs {
			iff, isIf := ref.(*ssa.If)
			if !isIf {
				continue
			}
			tb := iff.Block().Succs[0]
			for _, in := range tb.Instrs {
				ac, isCall := in.(*ssa.Call)
				if !isCall {
					continue
				}
				if b, isB := ac.Call.Value.(*ssa.Builtin); !isB || b.Name() != "append" {
					continue
				}
				// appended element is the group
				elemOK := false
				for v := range core.BackSlice(ac.Call.Args[1], nil) {
					if v == group {
						elemOK = true
					}
				}
				// the appended slice flows to result #want of every return
				flows := true
				for _, ret := range rets {
					sl := core.BackSlice(ret.Results[want], func(c *ssa.Call) bool {
						b, isB := c.Call.Value.(*ssa.Builtin)
						return isB && b.Name() == "append"
					})
					if !sl[ac] {
						flows = false
					}
					other := core.BackSlice(ret.Results[1-want], func(c *ssa.Call) bool {
						b, isB := c.Call.Value.(*ssa.Builtin)
						return isB && b.Name() == "append"
					})
					if other[ac] {
						flows = false
					}
				}
				if elemOK && flows {
					ok = true
				} else {
					detail = fmt.Sprintf("append after %s: element is the group=%v, reaches result %d only=%v", mn, elemOK, want, flows)
				}
			}
		}
		r.Check(ok, "R5", "flows.Contact.ReevaluateQueryBasedGroups/"+mn+"-list", p.Pos(cs.Pos()),
			fmt.Sprintf("the group is appended to result %d on the true edge", want), detail)
	}
}

// sliceRoot: the unique empty MakeSlice a local slice value grows from (through phis and appends), or nil.
func sliceRoot(v ssa.Value) ssa.Value {
	var root ssa.Value
	ok := true
	seen := map[ssa.Value]bool{}
	var walk func(v ssa.Value)
	setRoot := func(x ssa.Value) {
		if root != nil && root != x {
			ok = false
			return
		}
		root = x
	}
	walk = func(v ssa.Value) {
		if seen[v] || !ok {
			return
		}
		seen[v] = true
		switch x := v.(type) {
		case *ssa.MakeSlice:
			if n, isC := core.ConstInt(x.Len); !isC || n != 0 {
				ok = false
				return
			}
			setRoot(x)
		case *ssa.Phi:
			for _, e := range x.Edges {
				walk(e)
			}
		case *ssa.Call:
			if b, isB := x.Call.Value.(*ssa.Builtin); isB && b.Name() == "append" {
				walk(x.Call.Args[0])
				return
			}
			// the slice a helper of the package returns: empty unless the helper appended to it (c03HelperOutcomes
			// re-roots those appends at the call)
			if g := x.Call.StaticCallee(); g != nil && g.Blocks != nil && c03ReturnsGrownSlice(g) {
				setRoot(x)
				return
			}
			ok = false
		default:
			ok = false
		}
	}
	walk(v)
	if !ok {
		return nil
	}
	return root
}

// c03ReturnsGrownSlice: every return of g yields a slice rooted at one make([]T, 0, ...) of g, grown only by append.
func c03ReturnsGrownSlice(g *ssa.Function) bool {
	if g.Signature.Results().Len() != 1 {
		return false
	}
	if _, isSlice := g.Signature.Results().At(0).Type().Underlying().(*types.Slice); !isSlice {
		return false
	}
	rets := core.Returns(g)
	if len(rets) == 0 {
		return false
	}
	for _, ret := range rets {
		if _, ok := sliceRoot(ret.Results[0]).(*ssa.MakeSlice); !ok {
			return false
		}
	}
	return true
}

// c03HelperOutcomes enumerates the paths of helper g with the caller's rules and turns each distinct set of effects
// into one outcome of the call `at`. nil when the helper cannot be summarised (path budget).
func c03HelperOutcomes(g *ssa.Function, logP *ssa.Parameter, at ssa.CallInstruction, onCall func(s *core.PathState, c ssa.CallInstruction) []core.CallOutcome) []core.CallOutcome {
	var outs []core.CallOutcome
	seen := map[string]bool{}
	atVal, _ := at.(ssa.Value)
	res := core.ExplorePaths(g, core.PathRules{
		LoopBound: 2,
		OnBranch:  func(s *core.PathState, cond ssa.Value) core.AB { return lenFact(s, cond) },
		OnCall:    onCall,
		OnExit: func(s *core.PathState, ret *ssa.Return, pan *ssa.Panic) {
			if ret == nil {
				return
			}
			var retRoot ssa.Value
			if len(ret.Results) == 1 {
				retRoot = sliceRoot(ret.Results[0])
			}
			var effs []core.Effect
			var sig []string
			for _, e := range s.Effects {
				switch e.Kind {
				case "MUT", "LOG", "SAME":
					effs = append(effs, e)
					sig = append(sig, e.Kind+":"+fmt.Sprint(e.Data))
				case "APPEND":
					if e.Data == nil {
						// a rule that does not track which slice grows (R5): the append counts where it happens
						effs = append(effs, e)
						sig = append(sig, "APPEND")
						continue
					}
					if retRoot != nil && e.Data == any(retRoot) && atVal != nil {
						effs = append(effs, core.Effect{Kind: "APPEND", Instr: at, Data: atVal})
						sig = append(sig, "APPEND:ret")
					}
				}
			}
			out := core.CallOutcome{Effects: effs}
			if len(ret.Results) == 1 {
				if v := s.Val(ret.Results[0]); v != core.Unk {
					out.Result = v
					sig = append(sig, "=", fmt.Sprint(v))
				}
			}
			if len(ret.Results) > 1 {
				// several results (flags): their values on this path travel with the outcome and are given to the Extracts
				// of the call by c03TupleVals
				vals := make([]core.AB, len(ret.Results))
				for i, rv := range ret.Results {
					vals[i] = s.Val(rv)
				}
				out.Effects = append(out.Effects, core.Effect{Kind: "TUPLE", Instr: at, Data: vals})
				sig = append(sig, "=", fmt.Sprint(vals))
			}
			sort.Strings(sig)
			k := strings.Join(dedup(sig), "|")
			if !seen[k] {
				seen[k] = true
				outs = append(outs, out)
			}
		},
	})
	if res.Truncated || len(outs) == 0 {
		return nil
	}
	return outs
}

// c03TupleVals (PathRules.OnInstr): an Extract of a call that c03HelperOutcomes summarised takes the value the helper
// returned in that position on the path chosen for the call (the latest TUPLE effect of that call).
func c03TupleVals(s *core.PathState, in ssa.Instruction) {
	ex, ok := in.(*ssa.Extract)
	if !ok {
		return
	}
	for i := len(s.Effects) - 1; i >= 0; i-- {
		e := s.Effects[i]
		if e.Kind != "TUPLE" {
			continue
		}
		if v, isVal := e.Instr.(ssa.Value); !isVal || v != ex.Tuple {
			continue
		}
		if vals, ok := e.Data.([]core.AB); ok && ex.Index < len(vals) && vals[ex.Index] != core.Unk {
			s.Vals[ex] = vals[ex.Index]
		}
		return
	}
}

// c03CallsMutator: g or a helper of its package it calls (up to depth) calls a contact mutator.
func c03CallsMutator(g *ssa.Function, depth int) bool {
	for _, ec := range core.EffectiveCalls(g, depth) {
		if o := core.CalleeObj(ec.Inner.Common()); o != nil {
			if _, isMut := c03Mutators[core.ObjName(o)]; isMut {
				return true
			}
		}
	}
	return false
}

// lenFact decides `len(s) > 0`, `len(s) == 0`, `len(s) != 0`, `0 < len(s)` for a local slice that starts empty
// and only grows by append: it is non-empty on exactly the paths that executed an append to it.
func lenFact(s *core.PathState, cond ssa.Value) core.AB {
	b, ok := cond.(*ssa.BinOp)
	if !ok {
		return core.Unk
	}
	lenOf := func(v ssa.Value) ssa.Value {
		c, ok := v.(*ssa.Call)
		if !ok {
			return nil
		}
		if bi, isB := c.Call.Value.(*ssa.Builtin); !isB || bi.Name() != "len" {
			return nil
		}
		return sliceRoot(c.Call.Args[0])
	}
	var root ssa.Value
	op := b.Op
	if r := lenOf(b.X); r != nil {
		if n, isC := core.ConstInt(b.Y); !isC || n != 0 {
			return core.Unk
		}
		root = r
	} else if r := lenOf(b.Y); r != nil {
		if n, isC := core.ConstInt(b.X); !isC || n != 0 {
			return core.Unk
		}
		root = r
		switch op {
		case token.LSS:
			op = token.GTR
		case token.GTR:
			op = token.LSS
		}
	} else {
		return core.Unk
	}
	nonEmpty := false
	for _, e := range s.Effects {
		if e.Kind == "APPEND" && e.Data == any(root) {
			nonEmpty = true
		}
	}
	switch op {
	case token.GTR, token.NEQ:
		if nonEmpty {
			return core.True
		}
		return core.False
	case token.EQL, token.LEQ:
		if nonEmpty {
			return core.False
		}
		return core.True
	}
	return core.Unk
}

// instrReaches: there is a control-flow path on which a executes and b executes later.
func instrReaches(a, b ssa.Instruction) bool {
	ba, bb := a.Block(), b.Block()
	if ba == bb {
		for _, in := range ba.Instrs {
			if in == a {
				break
			}
			if in == b {
				// b before a in the same block: only through a cycle
				for _, s := range ba.Succs {
					if core.Reachable(s, nil)[ba] {
						return true
					}
				}
				return false
			}
		}
		return true
	}
	for _, s := range ba.Succs {
		if core.Reachable(s, nil)[bb] {
			return true
		}
	}
	return false
}

// ---------------------------------------------------------------------------------------------- R6

func c03R6(p *core.Program, r *core.Report, applies []*ssa.Function) {
	contact := p.NamedType("flows", "Contact")
	if contact == nil {
		r.Errorf("flows.Contact not found")
		return
	}
	// reset mutators: parameterless Contact methods that store into a slice-typed field a value not derived from it
	resets := map[*ssa.Function]*types.Var{}
	writers := map[*types.Var]map[*ssa.Function]bool{}
	ms := p.SSA.MethodSets.MethodSet(types.NewPointer(contact))
	for i := 0; i < ms.Len(); i++ {
		fn := p.SSA.MethodValue(ms.At(i))
		if fn == nil || fn.Blocks == nil {
			continue
		}
		core.EachInstr(fn, false, func(_ *ssa.Function, in ssa.Instruction) {
			st, ok := in.(*ssa.Store)
			if !ok {
				return
			}
			fv := core.FieldAddrVar(st.Addr)
			if fv == nil {
				return
			}
			if _, isSlice := fv.Type().Underlying().(*types.Slice); !isSlice {
				return
			}
			if writers[fv] == nil {
				writers[fv] = map[*ssa.Function]bool{}
			}
			writers[fv][fn] = true
			fromSelf := false
			for v := range core.BackSlice(st.Val, func(*ssa.Call) bool { return true }) {
				if ld, ok := v.(*ssa.UnOp); ok && core.FieldAddrVar(ld.X) == fv {
					fromSelf = true
				}
			}
			if len(fn.Params) == 1 && !fromSelf {
				resets[fn] = fv
			}
		})
	}
	r.Count("contact_reset_mutators", len(resets))
	n := 0
	for _, ap := range applies {
		var resetCall *ssa.Function
		var field *types.Var
		rebuilds := false
		// the calls made on behalf of the Apply: its own (closures included) and those of the helpers of its package it
		// calls (the loop body that re-adds the elements, or the reset itself, may have been moved into a method)
		calls := core.Calls(ap, true)
		for _, ec := range core.EffectiveCalls(ap, 3) {
			if len(ec.Chain) > 0 {
				calls = append(calls, ec.Inner)
			}
		}
		for _, cs := range calls {
			g := cs.Common().StaticCallee()
			if g == nil {
				continue
			}
			if fv, ok := resets[g]; ok {
				resetCall, field = g, fv
			}
		}
		if resetCall == nil {
			continue
		}
		for _, cs := range calls {
			if g := cs.Common().StaticCallee(); g != nil && g != resetCall && writers[field][g] {
				rebuilds = true
			}
		}
		if !rebuilds {
			continue
		}
		n++
		bad := ""
		at := ap.Pos()
		for _, b := range ap.Blocks {
			ret, ok := b.Instrs[len(b.Instrs)-1].(*ssa.Return)
			if !ok || len(ret.Results) != 1 {
				continue
			}
			// which predecessors can deliver true
			var trueBlocks []*ssa.BasicBlock
			switch v := ret.Results[0].(type) {
			case *ssa.Const:
				if v.Value != nil && v.Value.String() == "true" {
					trueBlocks = append(trueBlocks, b)
				}
			case *ssa.Phi:
				for i, e := range v.Edges {
					if c, isC := e.(*ssa.Const); isC && c.Value != nil && c.Value.String() == "false" {
						continue
					}
					if isNotEqualOf(e, field) {
						continue // the reported flag is itself the negated comparison
					}
					trueBlocks = append(trueBlocks, v.Block().Preds[i])
				}
			default:
				if !isNotEqualOf(v, field) {
					trueBlocks = append(trueBlocks, b)
				}
			}
			for _, tb := range trueBlocks {
				confirmed := false
				for _, ce := range core.ControllingConds(tb) {
					for v := range core.BackSlice(ce.Cond, nil) {
						c, ok := v.(*ssa.Call)
						if !ok {
							continue
						}
						if o := core.CalleeObj(&c.Call); o != nil && o.Name() == "Equal" && types.Identical(c.Call.Args[0].Type(), field.Type()) {
							neg := false
							if u, ok := ce.Cond.(*ssa.UnOp); ok && u.Op == token.NOT {
								neg = true
							}
							if ce.Taken == neg {
								confirmed = true
							}
						}
					}
				}
				if !confirmed {
					bad = "a change is reported at " + p.Pos(ret.Pos()) + " without comparing the list before and after"
					at = ret.Pos()
				}
			}
		}
		r.Check(bad == "", "R6", core.FuncName(ap)+"/"+resetCall.Name()+"-then-rebuild", p.Pos(at), "every change report is confirmed by a before/after comparison of Contact."+field.Name(),
			core.FuncName(ap)+" empties Contact."+field.Name()+" with "+resetCall.Name()+" and rebuilds it, so it reports a change whenever the list was not empty: "+bad+" — setting the list to what it already holds reports `modified` and emits a change event every time")
	}
	r.Require("reset_and_rebuild_applies", n, 1)
}

// isNotEqualOf: v is !X.Equal(Y) on values of the field's list type.
func isNotEqualOf(v ssa.Value, field *types.Var) bool {
	u, ok := v.(*ssa.UnOp)
	if !ok || u.Op != token.NOT {
		return false
	}
	c, ok := u.X.(*ssa.Call)
	if !ok || len(c.Call.Args) == 0 {
		return false
	}
	o := core.CalleeObj(&c.Call)
	return o != nil && o.Name() == "Equal" && types.Identical(c.Call.Args[0].Type(), field.Type())
}

// ---------------------------------------------------------------------------------------------- R7

func c03R7(p *core.Program, r *core.Report) {
	contact := p.NamedType("flows", "Contact")
	if contact == nil {
		r.Errorf("flows.Contact not found")
		return
	}
	isURN := func(t types.Type) bool {
		n, ok := t.(*types.Named)
		return ok && n.Obj().Name() == "URN" && n.Obj().Pkg() != nil && strings.HasSuffix(n.Obj().Pkg().Path(), "gocommon/urns")
	}
	class := func(v ssa.Value) string {
		if c, ok := v.(*ssa.Call); ok {
			if o := core.CalleeObj(&c.Call); o != nil && strings.HasSuffix(core.ObjName(o), "urns.URN.Identity") {
				return "identity"
			}
		}
		return "raw"
	}
	type cmp struct {
		fn   *ssa.Function
		bo   *ssa.BinOp
		kind string
	}
	var cmps []cmp
	ms := p.SSA.MethodSets.MethodSet(types.NewPointer(contact))
	for i := 0; i < ms.Len(); i++ {
		fn := p.SSA.MethodValue(ms.At(i))
		if fn == nil || fn.Blocks == nil {
			continue
		}
		takesURN := false
		for _, prm := range fn.Params[1:] {
			if isURN(prm.Type()) {
				takesURN = true
			}
		}
		if !takesURN {
			continue
		}
		// the method itself and the helpers of the package it hands a URN to (a parameter of such a helper is
		// classified by what the method passes for it)
		type scope struct {
			fn   *ssa.Function
			bind map[*ssa.Parameter]ssa.Value
		}
		scopes := []scope{{fn, nil}}
		for _, cs := range core.Calls(fn, false) {
			g := cs.Common().StaticCallee()
			if g == nil || g.Blocks == nil || g == fn || core.FuncPkgPath(g) != core.FuncPkgPath(fn) || g.Signature.Recv() != nil {
				continue
			}
			bind := map[*ssa.Parameter]ssa.Value{}
			hasURN := false
			for i, a := range cs.Common().Args {
				if i < len(g.Params) {
					bind[g.Params[i]] = a
					if isURN(a.Type()) {
						hasURN = true
					}
				}
			}
			if hasURN {
				scopes = append(scopes, scope{g, bind})
			}
		}
		for _, sc := range scopes {
			sc := sc
			core.EachInstr(sc.fn, false, func(_ *ssa.Function, in ssa.Instruction) {
				bo, ok := in.(*ssa.BinOp)
				if !ok || (bo.Op != token.EQL && bo.Op != token.NEQ) || !isURN(bo.X.Type()) {
					return
				}
				actual := func(v ssa.Value) ssa.Value {
					if prm, ok := v.(*ssa.Parameter); ok {
						if a, ok := sc.bind[prm]; ok {
							return a
						}
					}
					return v
				}
				k := class(actual(bo.X)) + "/" + class(actual(bo.Y))
				cmps = append(cmps, cmp{fn, bo, k})
			})
		}
	}
	count := map[string]int{}
	for _, c := range cmps {
		count[c.kind]++
	}
	major, best := "", 0
	for k, n := range count {
		if n > best || (n == best && k < major) {
			major, best = k, n
		}
	}
	if count["identity/identity"] > 0 {
		major = "identity/identity"
	}
	for _, c := range cmps {
		r.Check(c.kind == major, "R7", core.FuncName(c.fn)+"/urn-comparison", p.Pos(c.bo.Pos()), c.kind,
			fmt.Sprintf("%s compares URNs as %s while the sibling methods compare %s: HasURN can say yes for a URN that RemoveURN then does not find (display or query differ), so a removal reports `modified` and emits an event without changing the contact", core.FuncName(c.fn), c.kind, major))
	}
	r.Require("contact_urn_comparisons", len(cmps), 1)

	// ContactURN.Equal
	eq := p.Method("flows", "ContactURN", "Equal")
	urnField := p.FieldOf("flows", "ContactURN", "urn")
	if eq == nil || urnField == nil {
		r.Errorf("ContactURN.Equal / ContactURN.urn not found")
		return
	}
	whole, partial := 0, ""
	core.EachInstr(eq, false, func(_ *ssa.Function, in ssa.Instruction) {
		bo, ok := in.(*ssa.BinOp)
		if !ok || (bo.Op != token.EQL && bo.Op != token.NEQ) {
			return
		}
		sides := 0
		projected := ""
		for _, op := range []ssa.Value{bo.X, bo.Y} {
			fromURN := false
			for v := range core.BackSlice(op, func(c *ssa.Call) bool {
				f := c.Call.StaticCallee()
				return f != nil && core.RelPkg(core.FuncPkgPath(f)) == "flows"
			}) {
				switch x := v.(type) {
				case *ssa.UnOp:
					if core.FieldAddrVar(x.X) == urnField {
						fromURN = true
					}
				case *ssa.Call:
					if f := x.Call.StaticCallee(); f != nil && f.Name() == "String" && core.RelPkg(core.FuncPkgPath(f)) == "flows" {
						// ContactURN.String returns the whole urn (checked: its result derives from the field only)
						fromURN = true
						continue
					}
					if o := core.CalleeObj(&x.Call); o != nil && strings.Contains(core.ObjName(o), "urns.URN.") && o.Name() != "String" {
						projected = o.Name() + "()"
					}
				}
			}
			if fromURN {
				sides++
			}
		}
		if sides == 2 {
			if projected == "" {
				whole++
			} else {
				partial = projected
			}
		}
	})
	if str := p.Method("flows", "ContactURN", "String"); str != nil {
		okStr := false
		for _, b := range str.Blocks {
			if ret, ok := b.Instrs[len(b.Instrs)-1].(*ssa.Return); ok && len(ret.Results) == 1 {
				if ld, ok := core.StripConv(ret.Results[0]).(*ssa.UnOp); ok && core.FieldAddrVar(ld.X) == urnField {
					okStr = true
				}
			}
		}
		r.Check(okStr, "R7", "ContactURN.String/whole-urn", p.Pos(str.Pos()), "returns the urn field converted to string", "ContactURN.String no longer returns the complete raw URN, which Equal relies on")
	}
	r.Check(whole > 0 && partial == "", "R7", "ContactURN.Equal/whole-urn", p.Pos(eq.Pos()), "compares the complete raw URNs of both sides",
		"ContactURN.Equal compares "+map[bool]string{true: "only " + partial + " of the URNs", false: "no part of the raw URNs"}[partial != ""]+": a change of the display or query part is not seen, UpdatePreferredChannel and the urns modifier then report `not modified` and emit no event although the raw URNs announced by contact_urns_changed differ")
}

// ---------------------------------------------------------------------------------------------- R8

func c03R8(p *core.Program, r *core.Report, applies []*ssa.Function) {
	n := 0
	seen := map[*ssa.Function]bool{}
	for _, ap := range applies {
		for _, cs := range core.Calls(ap, false) {
			g := cs.Common().StaticCallee()
			if g == nil || g.Blocks == nil || seen[g] || core.FuncPkgPath(g) != core.FuncPkgPath(ap) || len(g.Params) != 2 || g.Signature.Results().Len() != 1 {
				continue
			}
			if b, ok := g.Signature.Results().At(0).Type().Underlying().(*types.Basic); !ok || b.Kind() != types.Bool {
				continue
			}
			if _, isPtr := g.Params[0].Type().Underlying().(*types.Pointer); !isPtr || !types.Identical(g.Params[0].Type(), g.Params[1].Type()) {
				continue
			}
			// used in a condition?
			v, isVal := cs.Instr.(ssa.Value)
			if !isVal || v.Referrers() == nil {
				continue
			}
			seen[g] = true
			n++
			result := core.Unk
			mixed := false
			isParam := func(x ssa.Value) bool { return x == ssa.Value(g.Params[0]) || x == ssa.Value(g.Params[1]) }
			var nilCmp func(cond ssa.Value) core.AB
			nilCmp = func(cond ssa.Value) core.AB {
				if un, ok := cond.(*ssa.UnOp); ok && un.Op == token.NOT {
					switch nilCmp(un.X) {
					case core.True:
						return core.False
					case core.False:
						return core.True
					}
					return core.Unk
				}
				bo, ok := cond.(*ssa.BinOp)
				if !ok || (bo.Op != token.EQL && bo.Op != token.NEQ) {
					return core.Unk
				}
				if (core.IsNilConst(bo.Y) && isParam(bo.X)) || (core.IsNilConst(bo.X) && isParam(bo.Y)) || (isParam(bo.X) && isParam(bo.Y)) {
					return boolAB(bo.Op == token.EQL)
				}
				return core.Unk
			}
			core.ExplorePaths(g, core.PathRules{
				OnBranch: func(s *core.PathState, cond ssa.Value) core.AB {
					if d := nilCmp(cond); d != core.Unk {
						return d
					}
					bo, ok := cond.(*ssa.BinOp)
					if !ok {
						return core.Unk
					}
					var other ssa.Value
					if core.IsNilConst(bo.Y) {
						other = bo.X
					} else if core.IsNilConst(bo.X) {
						other = bo.Y
					}
					if other == nil || !isParam(other) {
						if isParam(bo.X) && isParam(bo.Y) && bo.X != bo.Y {
							// p1 == p2 with both nil
							return boolAB(bo.Op == token.EQL)
						}
						return core.Unk
					}
					return boolAB(bo.Op == token.EQL)
				},
				OnExit: func(s *core.PathState, ret *ssa.Return, pan *ssa.Panic) {
					if ret == nil {
						mixed = true
						return
					}
					v := s.Val(ret.Results[0])
					if v == core.Unk {
						rv := ret.Results[0]
						for k := 0; k < 4; k++ {
							phi, ok := rv.(*ssa.Phi)
							if !ok {
								break
							}
							in := pathIncoming(s, phi)
							if in == nil {
								break
							}
							rv = in
						}
						if c, ok := rv.(*ssa.Const); ok && c.Value != nil {
							v = boolAB(c.Value.String() == "true")
						} else {
							v = nilCmp(rv) // the result is itself a nil comparison of the parameters
						}
					}
					if v == core.Unk || (result != core.Unk && result != v) {
						mixed = true
					}
					result = v
				},
			})
			key := core.FuncName(g) + "/nil-nil-is-equal"
			if mixed {
				r.Unknown("R8", key, p.Pos(g.Pos()), "the helper's answer for two nil values could not be evaluated")
				continue
			}
			r.Check(result == core.True, "R8", key, p.Pos(g.Pos()), "returns true for (nil, nil)",
				core.FuncName(g)+" answers `not equal` for two unset values: the modifier that uses it as its guard reports a change and emits an event when it clears something that is already unset, on every application")
		}
	}
	r.Require("pointer_equality_helpers", n, 1)
}
