package rules

import (
	"fmt"
	"go/ast"
	"go/token"
	"go/types"
	"regexp"
	"strings"

	"golang.org/x/tools/go/packages"
	"golang.org/x/tools/go/ssa"

	"verif/checker/core"
)

func init() { register("C08", checkC08) }

// packages whose code is not part of the engine/inspection/migration output path
func c08Excluded(rel string) bool {
	// services/airtime and services/classification are adapters for remote services: what they return is
	// a function of remote responses (an input of the engine in the sense of the property), and the three
	// order-dependent loops in them only matter for remote data with ties (two currencies for one operator,
	// equal confidences, name:role collisions). They are outside what R2 claims; DESIGN.md C08 says so.
	return rel == "cmd" || strings.HasPrefix(rel, "cmd/") || rel == "test" || strings.HasPrefix(rel, "test/") ||
		strings.HasPrefix(rel, "antlr/gen") || strings.HasPrefix(rel, "services/airtime") || strings.HasPrefix(rel, "services/classification")
}

// c08Sources: nondeterminism sources that library code must not call directly (clock/uuid/random go through
// gocommon's injectable dates.Now / uuids.NewV4 / random.*).
var c08Sources = map[string]string{
	"time.Now":                         "wall clock (use dates.Now)",
	"time.Since":                       "wall clock",
	"time.Until":                       "wall clock",
	"math/rand.Int":                    "global RNG",
	"math/rand.Intn":                   "global RNG",
	"math/rand.Int63":                  "global RNG",
	"math/rand.Int63n":                 "global RNG",
	"math/rand.Int31":                  "global RNG",
	"math/rand.Int31n":                 "global RNG",
	"math/rand.Float64":                "global RNG",
	"math/rand.Float32":                "global RNG",
	"math/rand.Perm":                   "global RNG",
	"math/rand.Shuffle":                "global RNG",
	"math/rand.Uint32":                 "global RNG",
	"math/rand.Uint64":                 "global RNG",
	"math/rand.New":                    "private RNG",
	"math/rand.NewSource":              "private RNG",
	"math/rand/v2.IntN":                "global RNG",
	"math/rand/v2.N":                   "global RNG",
	"math/rand/v2.Float64":             "global RNG",
	"math/rand/v2.Perm":                "global RNG",
	"math/rand/v2.Shuffle":             "global RNG",
	"math/rand/v2.Int":                 "global RNG",
	"crypto/rand.Read":                 "entropy",
	"crypto/rand.Int":                  "entropy",
	"os.Getenv":                        "process environment",
	"os.LookupEnv":                     "process environment",
	"os.Environ":                       "process environment",
	"os.Hostname":                      "host state",
	"os.Getpid":                        "process state",
	"os.Getwd":                         "process state",
	"runtime.NumGoroutine":             "scheduler state",
	"runtime.NumCPU":                   "host state",
	"runtime.GOMAXPROCS":               "host state",
	"reflect.Value.MapKeys":            "map order",
	"reflect.Value.MapRange":           "map order",
	"sync.Map.Range":                   "map order",
	"maps.Keys":                        "map order (iterator)",
	"maps.Values":                      "map order (iterator)",
	"maps.All":                         "map order (iterator)",
	"golang.org/x/exp/maps.Keys":       "map order",
	"golang.org/x/exp/maps.Values":     "map order",
	"github.com/google/uuid.New":       "uuid not via uuids generator",
	"github.com/google/uuid.NewString": "uuid not via uuids generator",
	"github.com/google/uuid.NewRandom": "uuid not via uuids generator",
}

// c08SafeShapes: facts about a map TYPE that make one kind of loop over any value of it order-insensitive wherever the
// loop stands. key = <type>|<classifier's objection with the loop variables written ·k / ·v>.
var c08SafeShapes = map[string]string{
	"flows/definition.flowAssets.cache|return carries iteration data: ·v":                      "the flow cache is searched for a name: flow names are unique (case-insensitively) within an asset source, the same contract the source.FlowByName fallback relies on, so at most one entry matches whatever the order — a fact about the field, wherever the search loop stands",
	"flows.FieldValues|map store keyed by a non-injective function of the key: ·v.field.Key()": "FieldValues is keyed by field.Key() (FieldValues.Set is its only writer), so v.field.Key() is the range key itself: a keyed store",
}

// frozen table: uses of map-order sources that are immediately sorted or otherwise harmless. key = caller|callee.
var c08SourceAllowed = map[string]string{}

// A map range is keyed by function and the range expression; entries are confirmed by reading.
// value = reason the loop cannot influence output although the generic classifier calls it leaking.
var c08SafeRanges = map[string]string{
	"excellent/functions.init/range builtin":                                           "RegisterXFunction stores XFUNCTIONS[name]: a store keyed by the unique range key",
	"flows/routers/cases.init/range builtin":                                           "RegisterXTest stores XTESTS[name] and registers the function under the same unique key",
	"flows/definition.flowAssets.FindByName/range a.cache":                             "flow names are unique (case-insensitively) within an asset source, the same contract the source.FlowByName fallback relies on; at most one cached flow matches",
	"flows/definition.languageTranslation.Enumerate/range t":                           "no caller inside the module; exposed for hosts that import translations keyed by (uuid, property)",
	"flows/definition.languageTranslation.Enumerate/range it":                          "no caller inside the module; see the outer loop",
	"flows/definition/legacy.migrateRuleSet/range countryConfigs":                      "currencyAmounts[code] is only ever stored with one amount per code (a different amount for a code already present returns the same constant error whatever the order)",
	"flows/definition/legacy.migratedLocalization.addTranslationMap/range mapped":      "addTranslation stores l[language][uuid][property]: keyed by the unique range key; the base-language value is taken under key equality",
	"flows/definition/legacy.migratedLocalization.addTranslationMultiMap/range mapped": "addTranslation stores l[language][uuid][property]: keyed by the unique range key; the base-language value is assigned only in the iteration whose key equals baseLanguage",
	"services/webhooks.service.Call/range s.defaultHeaders":                            "Header.Set(k, v) under Header.Get(k)==\"\" is a store keyed by the unique range key",
	"utils/jsonpath.visit/range typed":                                                 "filter is a local pure predicate on the key; the only caller in the module (migrations.rewriteTemplates via Transform) passes a tx that rewrites the value in place (typed[k] = tx(...): keyed store) and the translations of the same item (keyed by language, item, property)",
	"flows/definition/migrations.rewriteTranslations/range localization.Languages()":   "tx is the string rewrite handed to RewriteTemplates (pure); the stores go to the per-language translation object",
}

func checkC08(p *core.Program, r *core.Report) {
	r.Rule("R1", "no non-test library function calls a nondeterminism source (wall clock, global RNG, env, map-order reflection, maps.Keys without sort, go/select statements) directly")
	r.Rule("R2", "every range over a map in engine/inspection/migration packages is order-insensitive by construction (keyed stores, append-then-total-sort, commutative accumulation, constant existential return) or is listed with a confirmed reason")
	r.Rule("R4", "a call leaves no trace for the next one in its inputs: an exported function of the migration, inspection or query packages does not write into a map it is handed as a parameter (directly, through a closure, or in a function it passes the map to) — Clone's memo of old-to-new UUIDs written into the caller's mapping makes the next Clone with that mapping depend on the calls before it")
	c08R4(p, r)
	r.Rule("R5", "nothing a session computes depends on what another session did to shared memory: the shared-write audit of the session-phase entry points is an obligation here too (imported from C09/R1) — a write into a flow definition or asset that every session reads makes the output depend on goroutine timing and on the sessions that ran before")
	importObligations(p, r, "C09", map[string]bool{"R1": true}, "R5", "output depends on incidental process state")
	r.Rule("R3", "the four named sorted renderers (XObject.Properties, Results.format, FieldValues.Context, migrations.objectProperties) are instances of append-then-sort")
	r.Assumption("dependencies (gocommon, decimal, validator, antlr runtime) are deterministic for equal inputs")

	// ---- R1
	nCalls := 0
	hits := 0
	for _, fn := range p.ModuleFunctions() {
		rel := core.RelPkg(core.FuncPkgPath(fn))
		if c08Excluded(rel) || p.IsTestFile(fn.Pos()) {
			continue
		}
		core.EachInstr(fn, false, func(f *ssa.Function, in ssa.Instruction) {
			switch x := in.(type) {
			case *ssa.Go:
				hits++
				r.Bad("R1", core.FuncName(f)+"/go-statement", p.Pos(x.Pos()), "goroutine started in library code: output may depend on scheduling")
			case *ssa.Select:
				if !x.Blocking || len(x.States) > 1 {
					hits++
					r.Bad("R1", core.FuncName(f)+"/select", p.Pos(x.Pos()), "select over several channels: choice is scheduler dependent")
				}
			}
			ci, ok := in.(ssa.CallInstruction)
			if !ok {
				return
			}
			nCalls++
			o := core.CalleeObj(ci.Common())
			if o == nil {
				return
			}
			name := core.ObjName(o)
			if why, bad := c08Sources[name]; bad {
				k := core.FuncName(f) + "|" + name
				if reason, ok := c08SourceAllowed[k]; ok {
					r.OK("R1", k, p.Pos(in.Pos()), "allowed: "+reason)
					return
				}
				if strings.HasPrefix(name, "maps.") || strings.HasPrefix(name, "golang.org/x/exp/maps.") {
					if sortedImmediately(ci) {
						r.OK("R1", k, p.Pos(in.Pos()), "map keys sorted before use")
						return
					}
				}
				hits++
				r.Bad("R1", k, p.Pos(in.Pos()), "direct use of "+name+": "+why)
			}
		})
	}
	r.Count("call_sites_scanned", nCalls)
	if hits == 0 {
		r.OK("R1", "module/no-direct-nondeterminism-source", "-", fmt.Sprintf("%d call sites scanned, none resolves to a listed source", nCalls))
	}
	// positive control: the rule's callee table must recognise a direct time.Now when it sees one (resolved through types)
	if tp := p.ByPkg["time"]; tp != nil {
		if o, ok := tp.Types.Scope().Lookup("Now").(*types.Func); ok && c08Sources[core.ObjName(o)] != "" {
			r.OK("R1", "control/time.Now-resolves", "-", "positive control: types object time.Now renders to a listed source name")
		} else {
			r.Errorf("R1 positive control failed: time.Now not recognised")
		}
	} else {
		r.Errorf("R1 positive control failed: package time not loaded")
	}

	// ---- R2
	total, mapRanges := 0, 0
	type site struct {
		key, pos, verdict, why string
		shape                  string // <type of the ranged map>|<why, with the loop variables written ·k and ·v>: for facts about a type
	}
	var sites []site
	seenKey := map[string]int{}
	type producer struct {
		obj *types.Func
		key string
	}
	var producers []producer
	addSite := func(fname string, pk *packages.Package, fd *ast.FuncDecl, rs *ast.RangeStmt, elemsAreKeys bool) {
		mc := &mapClassifier{pk: pk, fn: fd, rs: rs, elemsAreKeys: elemsAreKeys}
		ok2, why := mc.classify()
		key := fname + "/range " + types.ExprString(rs.X)
		seenKey[key]++
		if seenKey[key] > 1 {
			key = fmt.Sprintf("%s#%d", key, seenKey[key])
		}
		v := "insensitive"
		if !ok2 {
			v = "leaking"
			if why == producerMarker && !elemsAreKeys {
				if fo, ok := pk.TypesInfo.Defs[fd.Name].(*types.Func); ok {
					producers = append(producers, producer{fo, key})
					v = "producer"
				}
			}
		}
		shape := ""
		if tv, ok := pk.TypesInfo.Types[rs.X]; ok && tv.Type != nil {
			w := why
			for _, pr := range [][2]any{{rs.Key, "·k"}, {rs.Value, "·v"}} {
				if id, ok := pr[0].(*ast.Ident); ok && id != nil && id.Name != "_" {
					w = regexp.MustCompile(`\b`+regexp.QuoteMeta(id.Name)+`\b`).ReplaceAllString(w, pr[1].(string))
				}
			}
			shape = core.ShortType(tv.Type) + "|" + w
			// a map held in a struct field: the fact may be about that field wherever it is ranged over
			if sel, isSel := rs.X.(*ast.SelectorExpr); isSel {
				if sn, ok := pk.TypesInfo.Selections[sel]; ok && sn.Kind() == types.FieldVal {
					rt := sn.Recv()
					if pt, isP := rt.(*types.Pointer); isP {
						rt = pt.Elem()
					}
					if _, listed := c08SafeShapes[core.ShortType(rt)+"."+sn.Obj().Name()+"|"+w]; listed {
						shape = core.ShortType(rt) + "." + sn.Obj().Name() + "|" + w
					}
				}
			}
		}
		sites = append(sites, site{key, p.Pos(rs.Pos()), v, why, shape})
	}
	eachFunc := func(f func(pk *packages.Package, fd *ast.FuncDecl, fname string)) {
		for _, pk := range p.Pkgs {
			rel := core.RelPkg(pk.PkgPath)
			if c08Excluded(rel) {
				continue
			}
			for _, file := range pk.Syntax {
				if p.IsTestFile(file.Pos()) {
					continue
				}
				for _, d := range file.Decls {
					if fd, ok := d.(*ast.FuncDecl); ok && fd.Body != nil {
						f(pk, fd, declName(pk, fd))
					}
				}
			}
		}
	}
	eachFunc(func(pk *packages.Package, fd *ast.FuncDecl, fname string) {
		ast.Inspect(fd.Body, func(n ast.Node) bool {
			rs, ok := n.(*ast.RangeStmt)
			if !ok {
				return true
			}
			total++
			t := pk.TypesInfo.TypeOf(rs.X)
			if t == nil {
				return true
			}
			if _, isMap := t.Underlying().(*types.Map); !isMap {
				return true
			}
			mapRanges++
			addSite(fname, pk, fd, rs, false)
			return true
		})
	})
	// producers: functions that hand out the keys of a map in map order; every use must be the operand of a
	// range statement whose body is order-insensitive (elements are distinct keys)
	isProducerCall := func(pk *packages.Package, call *ast.CallExpr) *producer {
		var callee *types.Func
		var recvT types.Type
		switch f := ast.Unparen(call.Fun).(type) {
		case *ast.Ident:
			callee, _ = pk.TypesInfo.Uses[f].(*types.Func)
		case *ast.SelectorExpr:
			callee, _ = pk.TypesInfo.Uses[f.Sel].(*types.Func)
			if sel, ok := pk.TypesInfo.Selections[f]; ok {
				recvT = sel.Recv()
			}
		}
		if callee == nil {
			return nil
		}
		for i := range producers {
			pr := &producers[i]
			if callee == pr.obj {
				return pr
			}
			if recvT != nil && callee.Name() == pr.obj.Name() {
				if it, ok := recvT.Underlying().(*types.Interface); ok {
					if sig := pr.obj.Type().(*types.Signature); sig.Recv() != nil && types.Implements(sig.Recv().Type(), it) {
						return pr
					}
				}
			}
		}
		return nil
	}
	producerUses := map[string]int{}
	if len(producers) > 0 {
		eachFunc(func(pk *packages.Package, fd *ast.FuncDecl, fname string) {
			var stack []ast.Node
			ast.Inspect(fd.Body, func(n ast.Node) bool {
				if n == nil {
					stack = stack[:len(stack)-1]
					return true
				}
				stack = append(stack, n)
				call, ok := n.(*ast.CallExpr)
				if !ok {
					return true
				}
				pr := isProducerCall(pk, call)
				if pr == nil {
					return true
				}
				producerUses[pr.key]++
				if len(stack) >= 2 {
					if rs, ok := stack[len(stack)-2].(*ast.RangeStmt); ok && rs.X == ast.Expr(call) {
						addSite(fname, pk, fd, rs, true)
						return true
					}
				}
				key := fname + "/use " + types.ExprString(call)
				sites = append(sites, site{key, p.Pos(call.Pos()), "leaking", "slice in map order (from " + core.ObjName(pr.obj) + ") used outside a range statement", ""})
				return true
			})
		})
	}
	r.Count("range_statements", total)
	r.Require("map_ranges", mapRanges, 30)
	r.Count("map_order_producers", len(producers))
	for _, s := range sites {
		switch {
		case s.verdict == "insensitive":
			r.OK("R2", s.key, s.pos, s.why)
		case s.verdict == "producer":
			r.OK("R2", s.key, s.pos, fmt.Sprintf("%s; obligation moved to its %d call sites", s.why, producerUses[s.key]))
		default:
			if reason, ok := c08SafeRanges[s.key]; ok {
				r.OK("R2", s.key, s.pos, "listed: "+reason)
			} else if reason, ok := c08SafeShapes[s.shape]; ok {
				r.OK("R2", s.key, s.pos, "listed for the type: "+reason)
			} else {
				r.Bad("R2", s.key, s.pos, "map iteration order can reach output: "+s.why)
			}
		}
	}

	// ---- R3: named renderers must contain a map range discharged by append-then-sort
	for _, nm := range []string{"excellent/types.XObject.Properties", "flows.Results.format", "flows.FieldValues.Context", "flows/definition/migrations.objectProperties"} {
		found := false
		for _, s := range sites {
			if strings.HasPrefix(s.key, nm+"/range ") {
				found = true
				r.Check(s.verdict == "insensitive" && strings.Contains(s.why, "sorted"), "R3", nm, s.pos,
					"renders a map through append-then-sort", "named sorted renderer no longer sorts what it collects from the map: "+s.why)
			}
		}
		if !found {
			// the renderer may delegate (e.g. Context built from sorted keys elsewhere); it must then not range a map at all
			r.OK("R3", nm, "-", "no direct map range in this function (delegates or iterates a slice)")
		}
	}
}

func declName(pk *packages.Package, fd *ast.FuncDecl) string {
	rel := core.RelPkgAny(pk.PkgPath)
	if fd.Recv != nil && len(fd.Recv.List) > 0 {
		t := fd.Recv.List[0].Type
		if st, ok := t.(*ast.StarExpr); ok {
			t = st.X
		}
		if ix, ok := t.(*ast.IndexExpr); ok {
			t = ix.X
		}
		if id, ok := t.(*ast.Ident); ok {
			return rel + "." + id.Name + "." + fd.Name.Name
		}
	}
	return rel + "." + fd.Name.Name
}

// sortedImmediately: the result of maps.Keys(...) is the argument of slices.Sorted / slices.Collect+Sort...
func sortedImmediately(ci ssa.CallInstruction) bool {
	v, ok := ci.(ssa.Value)
	if !ok {
		return false
	}
	refs := v.Referrers()
	if refs == nil {
		return false
	}
	for _, ref := range *refs {
		c, ok := ref.(*ssa.Call)
		if !ok {
			return false
		}
		o := core.CalleeObj(&c.Call)
		n := core.ObjName(o)
		if n != "slices.Sorted" && n != "slices.SortedFunc" && n != "slices.SortedStableFunc" {
			return false
		}
	}
	return len(*refs) > 0
}

// ---------------------------------------------------------------------------------------------------------
// map range classifier (AST + types)

type mapClassifier struct {
	pk *packages.Package
	fn *ast.FuncDecl
	rs *ast.RangeStmt
	// elemsAreKeys: the range operand is a slice holding the distinct keys of a map in map order; the
	// range *value* then plays the role of the unique key
	elemsAreKeys bool
	key          types.Object
	val          types.Object
	// slices appended to in the loop that need a later total sort
	appended map[types.Object]bool
	notes    []string
}

func (m *mapClassifier) obj(e ast.Expr) types.Object {
	if id, ok := e.(*ast.Ident); ok {
		if o := m.pk.TypesInfo.Defs[id]; o != nil {
			return o
		}
		return m.pk.TypesInfo.Uses[id]
	}
	return nil
}

func (m *mapClassifier) classify() (bool, string) {
	m.appended = map[types.Object]bool{}
	if m.rs.Key != nil {
		m.key = m.obj(m.rs.Key)
	}
	if m.rs.Value != nil {
		m.val = m.obj(m.rs.Value)
	}
	if m.elemsAreKeys {
		m.key, m.val = m.val, nil
	}
	if why := m.block(m.rs.Body.List, false); why != "" {
		return false, why
	}
	// every appended slice must be totally sorted after the loop before any other use
	for o := range m.appended {
		if why := m.sortedAfter(o); why != "" {
			return false, why
		}
		m.notes = append(m.notes, "append to "+o.Name()+" then sorted")
	}
	if len(m.notes) == 0 {
		m.notes = append(m.notes, "no order-dependent effect")
	}
	return true, strings.Join(dedup(m.notes), ", ")
}

func dedup(in []string) []string {
	seen := map[string]bool{}
	var out []string
	for _, s := range in {
		if !seen[s] {
			seen[s] = true
			out = append(out, s)
		}
	}
	return out
}

// block returns "" when every statement is order-insensitive, else the reason. guarded = inside an if whose
// condition is an exact-equality test on the unique map key (then return/break with data is fine).
func (m *mapClassifier) block(list []ast.Stmt, keyEq bool) string {
	for _, s := range list {
		if why := m.stmt(s, keyEq); why != "" {
			return why
		}
	}
	return ""
}

func (m *mapClassifier) isKey(e ast.Expr) bool {
	e = ast.Unparen(e)
	if m.key != nil && m.obj(e) == m.key {
		return true
	}
	// injective conversions of the key: T(k) where T is a string/integer type conversion
	if c, ok := e.(*ast.CallExpr); ok && len(c.Args) == 1 {
		if tv, ok := m.pk.TypesInfo.Types[c.Fun]; ok && tv.IsType() {
			return m.isKey(c.Args[0])
		}
	}
	return false
}

func (m *mapClassifier) usesIter(n ast.Node) bool {
	found := false
	ast.Inspect(n, func(x ast.Node) bool {
		if id, ok := x.(*ast.Ident); ok {
			o := m.pk.TypesInfo.Uses[id]
			if o != nil && (o == m.key || o == m.val) {
				found = true
			}
			// locals declared inside the loop body are iteration data too
			if o != nil && o.Pos() >= m.rs.Body.Pos() && o.Pos() <= m.rs.Body.End() {
				found = true
			}
		}
		return !found
	})
	return found
}

func (m *mapClassifier) isConstExpr(e ast.Expr) bool {
	if e == nil {
		return true
	}
	tv, ok := m.pk.TypesInfo.Types[e]
	if ok && (tv.Value != nil || tv.IsNil()) {
		return true
	}
	if id, ok := ast.Unparen(e).(*ast.Ident); ok && (id.Name == "true" || id.Name == "false" || id.Name == "nil") {
		return true
	}
	return false
}

// declaredInLoop reports whether the object is a local declared inside the loop body.
func (m *mapClassifier) declaredInLoop(o types.Object) bool {
	return o != nil && o.Pos() >= m.rs.Body.Pos() && o.Pos() <= m.rs.Body.End()
}

func (m *mapClassifier) stmt(s ast.Stmt, keyEq bool) string {
	info := m.pk.TypesInfo
	switch x := s.(type) {
	case *ast.EmptyStmt:
		return ""
	case *ast.DeclStmt:
		return m.exprsPure(x)
	case *ast.IncDecStmt:
		// counter++ / counts[k]++ : commutative
		m.notes = append(m.notes, "commutative counter")
		return ""
	case *ast.AssignStmt:
		if keyEq {
			// at most one iteration satisfies an exact-equality test on the (unique) key
			m.notes = append(m.notes, "store guarded by key equality")
			for _, rhs := range x.Rhs {
				if why := m.callsOK(rhs); why != "" {
					return why
				}
			}
			return ""
		}
		// compound commutative assignment on numbers / bools
		if x.Tok == token.ADD_ASSIGN || x.Tok == token.OR_ASSIGN || x.Tok == token.AND_ASSIGN || x.Tok == token.MUL_ASSIGN || x.Tok == token.XOR_ASSIGN {
			t := info.TypeOf(x.Lhs[0])
			if b, ok := t.Underlying().(*types.Basic); ok && (b.Info()&types.IsNumeric != 0 || b.Info()&types.IsBoolean != 0) && b.Info()&types.IsFloat == 0 {
				m.notes = append(m.notes, "commutative accumulation")
				return ""
			}
			return "order-dependent compound assignment " + types.ExprString(x.Lhs[0]) + " " + x.Tok.String() + " (string/float accumulation)"
		}
		for i, lhs := range x.Lhs {
			lhs = ast.Unparen(lhs)
			var rhs ast.Expr
			if len(x.Rhs) == len(x.Lhs) {
				rhs = x.Rhs[i]
			} else {
				rhs = x.Rhs[0]
			}
			if id, ok := lhs.(*ast.Ident); ok {
				if id.Name == "_" {
					continue
				}
				o := m.obj(id)
				if x.Tok == token.DEFINE || m.declaredInLoop(o) {
					// local of the iteration; purity of rhs calls handled below
					if why := m.callsOK(rhs); why != "" {
						return why
					}
					continue
				}
				// outer variable
				if call, ok := ast.Unparen(rhs).(*ast.CallExpr); ok {
					if fid, ok := call.Fun.(*ast.Ident); ok && fid.Name == "append" && len(call.Args) >= 1 && m.obj(call.Args[0]) == o && o != nil {
						if _, isBuiltin := info.Uses[fid].(*types.Builtin); isBuiltin {
							m.appended[o] = true
							continue
						}
					}
				}
				// monotone boolean: flag = true / flag = flag || e
				if m.isConstExpr(rhs) {
					m.notes = append(m.notes, "constant store to "+id.Name)
					continue
				}
				if be, ok := ast.Unparen(rhs).(*ast.BinaryExpr); ok && (be.Op == token.LOR || be.Op == token.LAND) && (m.obj(be.X) == o || m.obj(be.Y) == o) {
					m.notes = append(m.notes, "monotone boolean "+id.Name)
					continue
				}
				return "outer variable " + id.Name + " overwritten with iteration data (last writer wins)"
			}
			if ix, ok := lhs.(*ast.IndexExpr); ok {
				if _, isMap := info.TypeOf(ix.X).Underlying().(*types.Map); isMap {
					if m.isKey(ix.Index) {
						m.notes = append(m.notes, "store keyed by the range key")
						if why := m.callsOK(rhs); why != "" {
							return why
						}
						continue
					}
					return "map store keyed by a non-injective function of the key: " + types.ExprString(ix.Index)
				}
				if bid, ok := ast.Unparen(ix.X).(*ast.Ident); ok && m.declaredInLoop(m.obj(bid)) {
					m.notes = append(m.notes, "store into a slice local to the iteration")
					if why := m.callsOK(rhs); why != "" {
						return why
					}
					continue
				}
				// filling a pre-allocated outer slice at a running position: the same as appending to it — the slice holds
				// the iteration data in map order and must be totally sorted after the loop
				if bid, ok := ast.Unparen(ix.X).(*ast.Ident); ok {
					if _, isSlice := info.TypeOf(ix.X).Underlying().(*types.Slice); isSlice {
						if iid, ok := ast.Unparen(ix.Index).(*ast.Ident); ok && !m.declaredInLoop(m.obj(iid)) && m.obj(iid) != m.key && m.obj(iid) != m.val {
							if o := m.obj(bid); o != nil {
								m.appended[o] = true
								if why := m.callsOK(rhs); why != "" {
									return why
								}
								continue
							}
						}
					}
				}
				return "indexed store " + types.ExprString(lhs)
			}
			if _, ok := lhs.(*ast.SelectorExpr); ok {
				if m.isConstExpr(rhs) {
					continue
				}
				// field of a loop-local or of the range value
				return "field store " + types.ExprString(lhs) + " with iteration data"
			}
			return "unsupported assignment target " + types.ExprString(lhs)
		}
		return ""
	case *ast.ExprStmt:
		call, ok := x.X.(*ast.CallExpr)
		if !ok {
			return ""
		}
		if fid, ok := call.Fun.(*ast.Ident); ok {
			if b, isB := info.Uses[fid].(*types.Builtin); isB {
				if b.Name() == "delete" && len(call.Args) == 2 && m.isKey(call.Args[1]) {
					m.notes = append(m.notes, "delete keyed by the range key")
					return ""
				}
				if b.Name() == "delete" {
					return "delete with a derived key"
				}
			}
		}
		if m.isPerKeyObjectCall(call) {
			m.notes = append(m.notes, "method call on an object looked up by the range key")
			return m.callsOK(call)
		}
		if m.isKeyedStoreHelper(call) {
			m.notes = append(m.notes, "helper whose only effect is a store into a map argument under the range key")
			for _, a := range call.Args {
				if why := m.callsOK(a); why != "" {
					return why
				}
			}
			return ""
		}
		return "call with side effects inside the loop: " + types.ExprString(call.Fun)
	case *ast.IfStmt:
		if x.Init != nil {
			if why := m.stmt(x.Init, keyEq); why != "" {
				return why
			}
		}
		if why := m.callsOK(x.Cond); why != "" {
			return why
		}
		eq := keyEq || m.condIsKeyEquality(x.Cond)
		if why := m.block(x.Body.List, eq); why != "" {
			return why
		}
		if x.Else != nil {
			switch e := x.Else.(type) {
			case *ast.BlockStmt:
				return m.block(e.List, keyEq)
			default:
				return m.stmt(e, keyEq)
			}
		}
		return ""
	case *ast.BlockStmt:
		return m.block(x.List, keyEq)
	case *ast.BranchStmt:
		if x.Tok == token.CONTINUE {
			return ""
		}
		if x.Tok == token.BREAK && keyEq {
			return ""
		}
		return x.Tok.String() + " ends the iteration at an order-dependent element"
	case *ast.ReturnStmt:
		if keyEq {
			return ""
		}
		for _, res := range x.Results {
			if !m.isConstExpr(res) && m.usesIter(res) {
				return "return carries iteration data: " + types.ExprString(res)
			}
		}
		m.notes = append(m.notes, "constant existential return")
		return ""
	case *ast.RangeStmt:
		// nested loop: its body is judged with the same rules (nested map ranges are classified on their own as well)
		if why := m.callsOK(x.X); why != "" {
			return why
		}
		return m.block(x.Body.List, keyEq)
	case *ast.ForStmt:
		return m.block(x.Body.List, keyEq)
	case *ast.SwitchStmt:
		for _, c := range x.Body.List {
			if why := m.block(c.(*ast.CaseClause).Body, keyEq); why != "" {
				return why
			}
		}
		return ""
	case *ast.TypeSwitchStmt:
		for _, c := range x.Body.List {
			if why := m.block(c.(*ast.CaseClause).Body, keyEq); why != "" {
				return why
			}
		}
		return ""
	}
	return fmt.Sprintf("unsupported statement %T", s)
}

func (m *mapClassifier) exprsPure(n ast.Node) string { return m.callsOK(n) }

// callsOK: calls that appear inside expressions of the loop body. A call is accepted when it cannot observe
// the iteration order: it is not a call of a function-typed parameter/variable (callback), and it is not a
// method with a known emitting effect. Everything that receives iteration data and is a callback is leaking.
func (m *mapClassifier) callsOK(n ast.Node) string {
	if n == nil {
		return ""
	}
	why := ""
	ast.Inspect(n, func(x ast.Node) bool {
		if why != "" {
			return false
		}
		if _, ok := x.(*ast.FuncLit); ok {
			return false
		}
		call, ok := x.(*ast.CallExpr)
		if !ok {
			return true
		}
		info := m.pk.TypesInfo
		if tv, ok := info.Types[call.Fun]; ok && tv.IsType() {
			return true
		}
		for _, a := range call.Args {
			if t := info.TypeOf(a); t != nil {
				if _, isFn := t.Underlying().(*types.Signature); isFn {
					why = "callback " + types.ExprString(a) + " passed to " + types.ExprString(call.Fun) + " inside the loop (callee can emit in map order)"
					return false
				}
			}
		}
		fun := ast.Unparen(call.Fun)
		switch f := fun.(type) {
		case *ast.Ident:
			switch o := info.Uses[f].(type) {
			case *types.Builtin:
				return true
			case *types.Func:
				_ = o
				return true
			case *types.Var:
				why = "call of function value " + f.Name + " (callback sees elements in map order)"
				return false
			}
		case *ast.SelectorExpr:
			if sel, ok := info.Selections[f]; ok {
				if sel.Kind() == types.FieldVal {
					why = "call of function-typed field " + f.Sel.Name + " (callback sees elements in map order)"
					return false
				}
				return true
			}
			// package-qualified
			if _, ok := info.Uses[f.Sel].(*types.Var); ok {
				why = "call of function variable " + types.ExprString(f)
				return false
			}
			return true
		}
		return true
	})
	return why
}

// condIsKeyEquality: `k == e` / `e == k` on the range key (keys are unique, at most one iteration matches).
func (m *mapClassifier) condIsKeyEquality(c ast.Expr) bool {
	be, ok := ast.Unparen(c).(*ast.BinaryExpr)
	if !ok || be.Op != token.EQL {
		return false
	}
	if m.isKey(be.X) && !m.usesIter(be.Y) {
		return true
	}
	if m.isKey(be.Y) && !m.usesIter(be.X) {
		return true
	}
	return false
}

// sortedAfter: after the range statement, the first statement that mentions the slice must be a total sort of it.
func (m *mapClassifier) sortedAfter(o types.Object) string {
	info := m.pk.TypesInfo
	// find the statement list that contains the range statement
	var list []ast.Stmt
	idx := -1
	ast.Inspect(m.fn.Body, func(n ast.Node) bool {
		var l []ast.Stmt
		switch b := n.(type) {
		case *ast.BlockStmt:
			l = b.List
		case *ast.CaseClause:
			l = b.Body
		}
		for i, s := range l {
			if s == ast.Stmt(m.rs) {
				list, idx = l, i
			}
		}
		return idx < 0
	})
	if idx < 0 {
		return "slice " + o.Name() + " collected from the map inside a nested construct that is not followed by a sort"
	}
	for _, s := range list[idx+1:] {
		mentions := false
		ast.Inspect(s, func(n ast.Node) bool {
			if c, ok := n.(*ast.CallExpr); ok && len(c.Args) == 1 {
				// len(slice)/cap(slice) do not observe the order
				if fid, ok := c.Fun.(*ast.Ident); ok && (fid.Name == "len" || fid.Name == "cap") {
					if _, isB := info.Uses[fid].(*types.Builtin); isB && m.obj(c.Args[0]) == o {
						return false
					}
				}
			}
			if id, ok := n.(*ast.Ident); ok && info.Uses[id] == o {
				mentions = true
			}
			return !mentions
		})
		if !mentions {
			continue
		}
		if ret, isRet := s.(*ast.ReturnStmt); isRet && len(ret.Results) == 1 && m.obj(ret.Results[0]) == o && m.appendsOnlyKeys(o) {
			return producerMarker
		}
		if m.sortedByHelper(s, o) {
			return ""
		}
		es, ok := s.(*ast.ExprStmt)
		if !ok {
			return "slice " + o.Name() + " collected in map order is used before being sorted"
		}
		call, ok := es.X.(*ast.CallExpr)
		if !ok || len(call.Args) == 0 || m.obj(call.Args[0]) != o {
			return "slice " + o.Name() + " collected in map order is used before being sorted"
		}
		sel, ok := call.Fun.(*ast.SelectorExpr)
		if !ok {
			return "slice " + o.Name() + " collected in map order is used before being sorted"
		}
		fo, _ := info.Uses[sel.Sel].(*types.Func)
		if fo == nil || fo.Pkg() == nil {
			return "slice " + o.Name() + " collected in map order is used before being sorted"
		}
		full := fo.Pkg().Path() + "." + fo.Name()
		switch full {
		case "sort.Strings", "sort.Ints", "sort.Float64s", "slices.Sort":
			return ""
		case "sort.Slice", "sort.SliceStable", "slices.SortFunc", "slices.SortStableFunc":
			// total only if the comparator orders by something unique per element; accepted when the
			// comparator compares the elements themselves or a key/name/uuid projection — judged by the frozen list
			if totalComparator(m, call) {
				return ""
			}
			return "slice " + o.Name() + " collected in map order is sorted by a comparator that is not a total order on its elements (ties keep map order)"
		}
		return "slice " + o.Name() + " collected in map order is passed to " + full + " before being sorted"
	}
	return "slice " + o.Name() + " collected in map order is never sorted in this function"
}

// sortedByHelper: the statement's only mention of the slice hands it to a function of the same package whose first
// statement that mentions the corresponding parameter is a total sort of it (sort.Strings(p) and the like).
func (m *mapClassifier) sortedByHelper(s ast.Stmt, o types.Object) bool {
	info := m.pk.TypesInfo
	found := false
	nMention := 0
	ast.Inspect(s, func(n ast.Node) bool {
		if id, ok := n.(*ast.Ident); ok && info.Uses[id] == o {
			nMention++
		}
		call, ok := n.(*ast.CallExpr)
		if !ok {
			return true
		}
		var fo *types.Func
		switch f := call.Fun.(type) {
		case *ast.Ident:
			fo, _ = info.Uses[f].(*types.Func)
		case *ast.SelectorExpr:
			fo, _ = info.Uses[f.Sel].(*types.Func)
		}
		if fo == nil || fo.Pkg() == nil || fo.Pkg() != m.pk.Types {
			return true
		}
		for i, a := range call.Args {
			if m.obj(a) != o {
				continue
			}
			// the callee's declaration
			for _, file := range m.pk.Syntax {
				for _, d := range file.Decls {
					fd, ok := d.(*ast.FuncDecl)
					if !ok || fd.Body == nil || info.Defs[fd.Name] != types.Object(fo) {
						continue
					}
					var prm types.Object
					k := 0
					for _, fl := range fd.Type.Params.List {
						for _, nm := range fl.Names {
							if k == i {
								prm = info.Defs[nm]
							}
							k++
						}
					}
					if prm == nil {
						continue
					}
					for _, st := range fd.Body.List {
						mentions := false
						ast.Inspect(st, func(n ast.Node) bool {
							if id, ok := n.(*ast.Ident); ok && info.Uses[id] == prm {
								mentions = true
							}
							return !mentions
						})
						if !mentions {
							continue
						}
						if es, ok := st.(*ast.ExprStmt); ok {
							if c2, ok := es.X.(*ast.CallExpr); ok && len(c2.Args) >= 1 {
								if id, ok := ast.Unparen(c2.Args[0]).(*ast.Ident); ok && info.Uses[id] == prm {
									if sel, ok := c2.Fun.(*ast.SelectorExpr); ok {
										if f2, _ := info.Uses[sel.Sel].(*types.Func); f2 != nil && f2.Pkg() != nil {
											switch f2.Pkg().Path() + "." + f2.Name() {
											case "sort.Strings", "sort.Ints", "sort.Float64s", "slices.Sort":
												found = true
											}
										}
									}
								}
							}
						}
						break
					}
				}
			}
		}
		return true
	})
	return found && nMention == 1
}

const producerMarker = "returns the map's keys as a slice in map order"

// appendsOnlyKeys: every append to o in the loop appends exactly the range key (so the elements are distinct).
func (m *mapClassifier) appendsOnlyKeys(o types.Object) bool {
	ok := true
	ast.Inspect(m.rs.Body, func(n ast.Node) bool {
		call, isCall := n.(*ast.CallExpr)
		if !isCall {
			return true
		}
		if fid, isID := call.Fun.(*ast.Ident); isID && fid.Name == "append" && len(call.Args) >= 1 && m.obj(call.Args[0]) == o {
			if len(call.Args) != 2 || !m.isKey(call.Args[1]) || call.Ellipsis.IsValid() {
				ok = false
			}
		}
		return true
	})
	return ok
}

// totalComparator accepts comparators of the form a[i] < b[j] on the elements themselves or on a projection
// that is unique per map entry: the projection must be the value that was the map key (Key/Name/UUID fields are
// accepted only when the collected element was keyed by that projection, which we cannot see here), so we accept
// only direct element comparison and strings.Compare/cmp.Compare of the elements.
func totalComparator(m *mapClassifier, call *ast.CallExpr) bool {
	if len(call.Args) < 2 {
		return false
	}
	fl, ok := call.Args[1].(*ast.FuncLit)
	if !ok {
		return false
	}
	want, listed := c08Comparators[declName(m.pk, m.fn)]
	if !listed {
		// a fact about the TYPE of the map the elements were collected from holds wherever the loop stands
		if tv, ok := m.pk.TypesInfo.Types[m.rs.X]; ok && tv.Type != nil {
			want, listed = c08ComparatorsByType[core.ShortType(tv.Type)]
		}
	}
	if listed {
		// a listed comparator must still compare every listed field of both elements
		// each listed field must be compared BETWEEN the two elements: some relational expression (or a one-argument
		// method call such as Before/Equal) selects the field from the first element on one side and from the second
		// on the other. The two elements are the literal's parameters, or the parameters of a named function of the
		// package the literal hands the two elements to.
		info := m.pk.TypesInfo
		paramObjs := func(ft *ast.FuncType) []types.Object {
			var out []types.Object
			for _, fld := range ft.Params.List {
				for _, nm := range fld.Names {
					out = append(out, info.Defs[nm])
				}
			}
			return out
		}
		mentions := func(n ast.Node, o types.Object) bool {
			found := false
			ast.Inspect(n, func(x ast.Node) bool {
				if id, ok := x.(*ast.Ident); ok && info.Uses[id] == o {
					found = true
				}
				return !found
			})
			return found
		}
		selects := func(n ast.Node, field string, o types.Object) bool {
			found := false
			ast.Inspect(n, func(x ast.Node) bool {
				if se, ok := x.(*ast.SelectorExpr); ok && se.Sel.Name == field && mentions(se.X, o) {
					found = true
				}
				return !found
			})
			return found
		}
		comparedIn := func(body ast.Node, a, b types.Object, field string) bool {
			ok := false
			ast.Inspect(body, func(x ast.Node) bool {
				var l, r ast.Node
				switch e := x.(type) {
				case *ast.BinaryExpr:
					switch e.Op {
					case token.LSS, token.GTR, token.LEQ, token.GEQ, token.EQL, token.NEQ:
						l, r = e.X, e.Y
					}
				case *ast.CallExpr:
					if se, isSel := e.Fun.(*ast.SelectorExpr); isSel && len(e.Args) == 1 {
						l, r = se.X, e.Args[0]
					} else if len(e.Args) == 2 {
						l, r = e.Args[0], e.Args[1]
					}
				}
				if l != nil && r != nil {
					if (selects(l, field, a) && selects(r, field, b)) || (selects(l, field, b) && selects(r, field, a)) {
						ok = true
					}
				}
				return !ok
			})
			return ok
		}
		ps := paramObjs(fl.Type)
		if len(ps) != 2 || ps[0] == nil || ps[1] == nil {
			return false
		}
		body, a, b := ast.Node(fl.Body), ps[0], ps[1]
		// handed on to a named function?
		var handed *ast.FuncDecl
		ast.Inspect(fl.Body, func(n ast.Node) bool {
			if c2, ok := n.(*ast.CallExpr); ok && handed == nil && len(c2.Args) == 2 && mentions(c2.Args[0], ps[0]) && mentions(c2.Args[1], ps[1]) {
				if fd := m.localFuncDecl(c2); fd != nil {
					if hp := paramObjs(fd.Type); len(hp) == 2 && hp[0] != nil && hp[1] != nil {
						handed = fd
						body, a, b = fd.Body, hp[0], hp[1]
					}
				}
			}
			return true
		})
		for _, f := range want {
			if !comparedIn(body, a, b, f) {
				return false
			}
		}
		return true
	}
	if len(fl.Body.List) != 1 {
		return false
	}
	ret, ok := fl.Body.List[0].(*ast.ReturnStmt)
	if !ok || len(ret.Results) != 1 {
		return false
	}
	e := ast.Unparen(ret.Results[0])
	isElem := func(x ast.Expr) bool {
		x = ast.Unparen(x)
		if ix, ok := x.(*ast.IndexExpr); ok {
			return m.obj(ix.X) != nil && m.obj(ix.X) == m.obj(call.Args[0])
		}
		if id, ok := x.(*ast.Ident); ok {
			// parameters of slices.SortFunc comparator
			o := m.pk.TypesInfo.Uses[id]
			return o != nil && o.Pos() >= fl.Pos() && o.Pos() <= fl.End()
		}
		return false
	}
	switch x := e.(type) {
	case *ast.BinaryExpr:
		if x.Op == token.LSS || x.Op == token.GTR {
			return isElem(x.X) && isElem(x.Y)
		}
	case *ast.CallExpr:
		if len(x.Args) == 2 && isElem(x.Args[0]) && isElem(x.Args[1]) {
			return true
		}
		// a[i].LessThan(a[j]) on the (distinct) elements themselves
		if se, ok := x.Fun.(*ast.SelectorExpr); ok && len(x.Args) == 1 && isElem(se.X) && isElem(x.Args[0]) {
			switch se.Sel.Name {
			case "LessThan", "Less", "Before", "GreaterThan", "After":
				return true
			}
		}
	}
	return false
}

// c08Comparators: comparators that are total because their last key is unique per collected element.
// value = the fields the comparator must compare on both elements.
var c08Comparators = map[string][]string{}

// c08ComparatorsByType: the same, as a fact about the type of the map that was ranged over.
var c08ComparatorsByType = map[string][]string{
	// Results is keyed by Snakify(Name); distinct entries have distinct names
	"flows.Results": {"CreatedOn", "Name"},
}

// isPerKeyObjectCall: `obj.Method(...)` where obj is a loop-local whose initialiser looks something up by the
// range key (e.g. langTrans := localization.GetLanguageTranslation(lang)); distinct keys give distinct objects,
// so the calls of different iterations touch disjoint state.
func (m *mapClassifier) isPerKeyObjectCall(call *ast.CallExpr) bool {
	sel, ok := call.Fun.(*ast.SelectorExpr)
	if !ok {
		return false
	}
	id, ok := ast.Unparen(sel.X).(*ast.Ident)
	if !ok {
		return false
	}
	o := m.obj(id)
	if o == nil || !m.declaredInLoop(o) {
		return false
	}
	// find the defining assignment inside the loop
	derived := false
	ast.Inspect(m.rs.Body, func(n ast.Node) bool {
		as, ok := n.(*ast.AssignStmt)
		if !ok || as.Tok != token.DEFINE {
			return true
		}
		for i, l := range as.Lhs {
			if lid, ok := l.(*ast.Ident); ok && m.pk.TypesInfo.Defs[lid] == o {
				rhs := as.Rhs[0]
				if len(as.Rhs) == len(as.Lhs) {
					rhs = as.Rhs[i]
				}
				ast.Inspect(rhs, func(x ast.Node) bool {
					if e, ok := x.(ast.Expr); ok && m.isKey(e) {
						derived = true
					}
					return !derived
				})
			}
		}
		return true
	})
	return derived
}

// localFuncDecl: the declaration of the same-package function (not method value) a call expression calls, if any.
func (m *mapClassifier) localFuncDecl(call *ast.CallExpr) *ast.FuncDecl {
	info := m.pk.TypesInfo
	var fo *types.Func
	switch f := call.Fun.(type) {
	case *ast.Ident:
		fo, _ = info.Uses[f].(*types.Func)
	case *ast.SelectorExpr:
		fo, _ = info.Uses[f.Sel].(*types.Func)
	}
	if fo == nil || fo.Pkg() == nil || fo.Pkg() != m.pk.Types {
		return nil
	}
	for _, file := range m.pk.Syntax {
		for _, d := range file.Decls {
			if fd, ok := d.(*ast.FuncDecl); ok && fd.Body != nil && info.Defs[fd.Name] == types.Object(fo) {
				return fd
			}
		}
	}
	return nil
}

// isKeyedStoreHelper: the call goes to a function of the same package whose body, apart from declaring locals and
// testing them, only stores into one of its map parameters under another of its parameters — and the argument in that
// key position is the range key (keys are unique: the stores of different iterations go to different entries).
func (m *mapClassifier) isKeyedStoreHelper(call *ast.CallExpr) bool {
	fd := m.localFuncDecl(call)
	if fd == nil || fd.Recv != nil {
		return false
	}
	info := m.pk.TypesInfo
	var params []types.Object
	for _, fl := range fd.Type.Params.List {
		for _, nm := range fl.Names {
			params = append(params, info.Defs[nm])
		}
	}
	if len(params) != len(call.Args) {
		return false
	}
	paramIdx := func(e ast.Expr) int {
		id, ok := ast.Unparen(e).(*ast.Ident)
		if !ok {
			return -1
		}
		for i, po := range params {
			if po != nil && info.Uses[id] == po {
				return i
			}
		}
		return -1
	}
	stores := 0
	var okStmt func(st ast.Stmt) bool
	okBlock := func(list []ast.Stmt) bool {
		for _, st := range list {
			if !okStmt(st) {
				return false
			}
		}
		return true
	}
	okStmt = func(st ast.Stmt) bool {
		switch x := st.(type) {
		case *ast.EmptyStmt, *ast.DeclStmt:
			return true
		case *ast.ReturnStmt:
			return len(x.Results) == 0
		case *ast.AssignStmt:
			if x.Tok == token.DEFINE {
				return true
			}
			if x.Tok != token.ASSIGN || len(x.Lhs) != 1 {
				return false
			}
			ix, ok := ast.Unparen(x.Lhs[0]).(*ast.IndexExpr)
			if !ok {
				return false
			}
			mi, ki := paramIdx(ix.X), paramIdx(ix.Index)
			if mi < 0 || ki < 0 {
				return false
			}
			if _, isMap := info.TypeOf(ix.X).Underlying().(*types.Map); !isMap {
				return false
			}
			if !m.isKey(call.Args[ki]) {
				return false
			}
			stores++
			return true
		case *ast.IfStmt:
			if x.Init != nil && !okStmt(x.Init) {
				return false
			}
			if !okBlock(x.Body.List) {
				return false
			}
			switch e := x.Else.(type) {
			case nil:
				return true
			case *ast.BlockStmt:
				return okBlock(e.List)
			default:
				return okStmt(e)
			}
		}
		return false
	}
	return okBlock(fd.Body.List) && stores > 0
}

// ---------------------------------------------------------------------------------------------- R4

var c08MapParamWritersAllowed = map[string]string{}

func c08R4(p *core.Program, r *core.Report) {
	n := 0
	for _, fn := range p.ModuleFunctions() {
		rel := core.RelPkg(core.FuncPkgPath(fn))
		if rel != "flows/definition/migrations" && rel != "flows/inspect" && rel != "contactql" && rel != "flows/definition" && rel != "flows/definition/legacy" {
			continue
		}
		if fn.Object() == nil || !fn.Object().Exported() || fn.Parent() != nil {
			continue
		}
		for _, par := range fn.Params {
			if _, isMap := par.Type().Underlying().(*types.Map); !isMap {
				continue
			}
			if fn.Signature.Recv() != nil {
				continue // methods work on an object; their map parameters are the accumulators of a traversal (node.Validate's seenUUIDs)
			}
			if _, named := par.Type().(*types.Named); named {
				continue // a named map type (migrations.Flow) is the object being transformed, not a lookup table handed along
			}
			n++
			key := core.FuncName(fn) + "/" + par.Name()
			ws := core.MapWritesThrough(par, 3)
			if len(ws) == 0 {
				r.OK("R4", key, p.Pos(fn.Pos()), "no write into the map through any alias, closure or callee (depth 3)")
				continue
			}
			if reason, ok := c08MapParamWritersAllowed[key]; ok {
				r.OK("R4", key, p.Pos(fn.Pos()), "listed: "+reason)
				continue
			}
			r.Bad("R4", key, p.Pos(ws[0].Pos()), fmt.Sprintf("%s writes into the map it was handed as %s (%d write site(s), first at %s): what the next call with the same map returns depends on this one", fn.Name(), par.Name(), len(ws), p.Pos(ws[0].Pos())))
		}
	}
	r.Count("exported_map_parameters", n)
	r.Require("exported_map_parameters", n, 1)
}
